#!/usr/bin/env python3
"""import_seed.py <prop> <k> <demo pkg dir> — copy a confirmed seeded change from /tmp/seedout into /verif/seeded."""
import json, os, shutil, sys
p, k, d = sys.argv[1], sys.argv[2], sys.argv[3]
src = f"/tmp/seedout/{p}/m{k}"
dst = f"/verif/seeded/{p}-m{k}"
os.makedirs(dst, exist_ok=True)
for f in os.listdir(src):
    if f != "meta.json" and os.path.isfile(os.path.join(src, f)):
        shutil.copy(os.path.join(src, f), dst)
m = json.load(open(os.path.join(src, "meta.json")))
m["demo_dir"] = d
m["confirmed_by"] = ("tools/confirm_seed%s.sh: patch applies to a clean worktree of /repo HEAD, go build ./... ok, existing tests of the touched "
                     "package(s) pass with the patch, the demo fails with the patch and passes without it") % ("_root" if d == "." else "")
json.dump(m, open(os.path.join(dst, "meta.json"), "w"), indent=1)
print("imported", dst)
