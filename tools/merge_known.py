#!/usr/bin/env python3
"""Resolve a git merge conflict in known_findings.json by taking the union of findings (by property+key)."""
import json, subprocess, sys
ours = json.loads(subprocess.check_output(["git", "show", ":2:known_findings.json"]))
theirs = json.loads(subprocess.check_output(["git", "show", ":3:known_findings.json"]))
seen = {(f["property"], f["key"]) for f in ours["findings"]}
for f in theirs["findings"]:
    if (f["property"], f["key"]) not in seen:
        ours["findings"].append(f)
json.dump(ours, open("known_findings.json", "w"), indent=1)
print(len(ours["findings"]), "findings")
