#!/usr/bin/env python3
"""Run the registered checks against the seeded property-breaking changes in /verif/seeded/<id>/.

  tools/run_seeded.py [<id> ...]            each patch is applied in a scratch worktree of /repo (safe while other
                                            work uses /repo); the check runs with VERIF_REPO pointing at it
  tools/run_seeded.py --inplace [<id> ...]  apply to /repo itself (git apply), run, undo (git checkout -- .)

Writes seeded/RESULTS.json: per seeded change which check was run, its exit status and VIOLATION line.
Evidence of these runs goes to build/seeded-evidence, never to /verif/evidence.
"""
import json, os, subprocess, sys, shutil, time
V = os.path.dirname(os.path.dirname(os.path.abspath(__file__)))
SEEDED = os.environ.get("VERIF_SEEDED_DIR", os.path.join(V, "seeded"))
args = sys.argv[1:]
inplace = "--inplace" in args
tier = "quick"
part = None
for a in args:
    if a.startswith("--part="):
        part = tuple(int(x) for x in a.split("=")[1].split("/"))      # --part=i/N : every N-th seeded change, own build dir
    if a.startswith("--jobs="):
        # fan out over N worker processes, then merge their result files
        n = int(a.split("=")[1])
        rest = [x for x in args if not x.startswith("--jobs=")]
        procs = [subprocess.Popen([sys.executable, os.path.abspath(__file__), f"--part={i}/{n}"] + rest) for i in range(n)]
        for pr in procs:
            pr.wait()
        res_path = os.path.join(SEEDED, "RESULTS.json")
        results = json.load(open(res_path)) if os.path.exists(res_path) else {}
        for i in range(n):
            pp = os.path.join(V, "build", f"seeded-results.part{i}.json")
            if os.path.exists(pp):
                results.update(json.load(open(pp)))
                os.remove(pp)
        json.dump(results, open(res_path, "w"), indent=1, sort_keys=True)
        sys.exit(0)
def trim_gocache():
    """mutated trees fill the shared Go build cache quickly: drop entries unused for 2.5 h once it exceeds ~25 GB"""
    gc = os.environ.get("VERIF_GOCACHE", os.path.join(V, "build", "gocache"))
    try:
        sz = int(subprocess.check_output(["du", "-sm", gc]).split()[0])
        if sz > 25000:
            subprocess.call(["find", gc, "-type", "f", "-mmin", "+150", "-delete"])
    except Exception:
        pass

if part is None:
    trim_gocache()
ids = [a for a in args if not a.startswith("--")]
if not ids:
    ids = sorted(d for d in os.listdir(SEEDED) if os.path.isdir(os.path.join(SEEDED, d)))
res_path = os.path.join(SEEDED, "RESULTS.json")
results = json.load(open(res_path)) if os.path.exists(res_path) else {}
bdir = "seeded-build"
if part:
    ids = [x for j, x in enumerate(ids) if j % part[1] == part[0]]
    res_path = os.path.join(V, "build", f"seeded-results.part{part[0]}.json")
    results = {}
    bdir = f"seeded-build-{part[0]}"
for sid in ids:
    d = os.path.join(SEEDED, sid)
    meta = json.load(open(os.path.join(d, "meta.json")))
    props = meta["property"] if isinstance(meta["property"], list) else [meta["property"]]
    props = meta.get("run_checks", props)
    patch = os.path.join(d, "patch.diff")
    if inplace:
        repo = "/repo"
        subprocess.check_call(["git", "-C", repo, "apply", patch])
    else:
        repo = f"/tmp/seedrun-{os.path.basename(V)}-{sid}"  # one scratch worktree per seeded change
        subprocess.call(["git", "-C", "/repo", "worktree", "remove", "--force", repo], stderr=subprocess.DEVNULL)
        subprocess.check_call(["git", "-C", "/repo", "worktree", "add", "-q", "--detach", repo, "HEAD"])
        if subprocess.call(["git", "-C", repo, "apply", patch]) != 0:
            print(sid, "PATCH DOES NOT APPLY to /repo HEAD any more (rebase it)")
            subprocess.call(["git", "-C", "/repo", "worktree", "remove", "--force", repo])
            continue
    try:
        for pid in props:
            env = dict(os.environ, VERIF_REPO=repo, VERIF_EVIDENCE_DIR=os.path.join(V, "build", "seeded-evidence", sid),
                       VERIF_BUILD_DIR=os.path.join(V, "build", bdir), VERIF_GOCACHE=os.environ.get("VERIF_GOCACHE", os.path.join(V, "build", "gocache")))
            os.makedirs(env["VERIF_EVIDENCE_DIR"], exist_ok=True)
            t0 = time.time()
            p = subprocess.run([os.path.join(V, "check"), pid, "--tier", tier], cwd=V, env=env, stdout=subprocess.PIPE,
                               stderr=subprocess.STDOUT, text=True)
            vio = [l for l in p.stdout.split("\n") if l.startswith("VIOLATION")]
            detail = ""
            if vio:
                rp = vio[0].split("replay=")[1].split()[0]
                try:
                    rj = json.load(open(rp))
                    if rj.get("violations"):
                        detail = rj["violations"][0]["what"][:300]
                    elif rj.get("broken"):
                        detail = (rj["broken"][0]["name"] + " | " + rj["broken"][0]["detail"])[:300]
                except Exception:
                    pass
            results[f"{sid}:{pid}"] = {"seeded": sid, "check": pid, "exit": p.returncode, "caught": p.returncode == 1 and bool(vio),
                                       "violation_line": vio[0] if vio else "", "detail": detail,
                                       "summary_line": p.stdout.strip().split("\n")[-1][:400] if not vio else "",
                                       "wall_s": round(time.time() - t0, 1), "mode": "inplace" if inplace else "worktree"}
            print(sid, pid, "CAUGHT" if results[f"{sid}:{pid}"]["caught"] else "MISSED", "|", (vio[0] if vio else p.stdout.strip().split("\n")[-1])[:200], "|", detail[:160])
    finally:
        if inplace:
            subprocess.check_call(["git", "-C", repo, "checkout", "--", "."])
        else:
            subprocess.call(["git", "-C", "/repo", "worktree", "remove", "--force", repo])
    json.dump(results, open(res_path, "w"), indent=1, sort_keys=True)
