#!/bin/bash
# merge_branch.sh <tag> – merge wip-<tag> into the current branch, resolving the mechanical conflicts:
# known_findings.json (union by key), evidence/ seeded/RESULTS.* and Generated/ (theirs; regenerated anyway).
t=$1
cd "$(dirname "$0")/.."
git add -A; git commit -qm "wip before merging $t" 2>/dev/null
git merge --no-edit -q wip-$t 2>&1 | grep -v "^Auto-merging" | tail -3
for f in $(git status --short | grep "^UU\|^AA" | awk '{print $2}'); do
  case $f in
    known_findings.json) python3 tools/merge_known.py;;
    seeded/RESULTS.json|seeded/RESULTS.md) git checkout --ours $f;;
    evidence/*|lean/PoolModel/Generated/*) git checkout --theirs $f;;
    *) echo "UNRESOLVED CONFLICT $f";;
  esac
done
if git status --short | grep -q "^UU\|^AA"; then git add -A; fi
git add -A; git commit -qm "Merge branch 'wip-$t'" 2>/dev/null
git log --oneline | head -1
