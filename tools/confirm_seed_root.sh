#!/bin/bash
# confirm_seed.sh <seed dir (with patch.diff, demo_test.go)> <package dir relative to repo> [extra test pkgs...]
# Confirms in a scratch worktree: patch applies, builds, package tests pass with the patch, the demo FAILS with the
# patch and PASSES without it. Prints CONFIRMED or NOT-CONFIRMED.
set -u
export GOFLAGS=-mod=mod GOPROXY=off GOTOOLCHAIN=auto GOCACHE=/verif/build/gocache
SD=$1; PKG=.; shift 1
WT=/tmp/confirm-$(basename $(dirname $SD))-$(basename $SD)
git -C /repo worktree remove --force $WT 2>/dev/null
git -C /repo worktree add -q --detach $WT HEAD || exit 2
cd $WT
ok=1
git apply $SD/patch.diff || { echo "patch does not apply"; ok=0; }
go build ./... 2>&1 | tail -5 || ok=0
for p in . "$@"; do
  if ! go test -count=1 $p >/tmp/confirm-test.log 2>&1; then echo "existing tests FAIL with patch in $p"; tail -15 /tmp/confirm-test.log; ok=0; fi
done
cp $SD/demo_test.go zz_demo_test.go
if go test -count=1 -run 'Demo|C[0-9][0-9]' . >/tmp/confirm-demo1.log 2>&1; then echo "demo PASSES with patch (should fail)"; ok=0; else echo "demo fails with patch: ok"; fi
git apply -R $SD/patch.diff
if go test -count=1 -run 'Demo|C[0-9][0-9]' . >/tmp/confirm-demo2.log 2>&1; then echo "demo passes without patch: ok"; else echo "demo FAILS without patch"; tail -15 /tmp/confirm-demo2.log; ok=0; fi
cd /; git -C /repo worktree remove --force $WT
[ $ok = 1 ] && echo CONFIRMED || echo NOT-CONFIRMED
