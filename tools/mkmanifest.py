#!/usr/bin/env python3
"""Regenerate /verif/MANIFEST.json from props.json (claimed checks) and properties.jsonl."""
import json, os
V = os.path.dirname(os.path.dirname(os.path.abspath(__file__)))
props = {f[:-5]: json.load(open(os.path.join(V, "props", f))) for f in sorted(os.listdir(os.path.join(V, "props"))) if f.endswith(".json")}
allp = [json.loads(l) for l in open(os.path.join(V, "properties.jsonl")) if l.strip()]
man = json.load(open(os.path.join(V, "MANIFEST.json")))
checks, na = [], []
for p in allp:
    pid = p["id"]
    c = props.get(pid)
    if c is None or c.get("not_applicable"):
        na.append({"property_id": pid, "reason": (c or {}).get("not_applicable", "model and proof not built yet in this session (no check is claimed rather than claiming one that does not decide the property)")})
        continue
    checks.append({
        "property_id": pid,
        "quick_cmd": f"./check {pid} --tier quick",
        "thorough_cmd": f"./check {pid} --tier thorough",
        "evidence_file": f"/verif/evidence/{pid}.json",
        "replay_cmd_template": f"./check {pid} --replay {{path}}",
        "engine": "lean-proof+correspondence",
        "level_claimed": {"category": "proof", "text": c["level_text"], "design_ref": c.get("design_ref", f"DESIGN.md §4 {pid}")},
        "level_note": c["level_note"],
        "technique": c.get("technique", "Lean 4 theorem about an executable model + differential correspondence check against the Go code"),
    })
man["checks"] = checks
man["not_applicable"] = na
man["engines"][0]["serves_properties"] = [c["property_id"] for c in checks]
json.dump(man, open(os.path.join(V, "MANIFEST.json"), "w"), indent=1)
print(f"{len(checks)} checks, {len(na)} not applicable")
