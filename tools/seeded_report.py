#!/usr/bin/env python3
"""Render seeded/RESULTS.json (+ each seeded/<id>/meta.json) as seeded/RESULTS.md."""
import json, os
V = os.path.dirname(os.path.dirname(os.path.abspath(__file__)))
S = os.path.join(V, "seeded")
res = json.load(open(os.path.join(S, "RESULTS.json")))
rows = {}
for k, v in res.items():
    rows.setdefault(v["seeded"], []).append(v)
out = ["# Seeded property-breaking changes and which checks catch them", "",
       "Produced by independent sub-agents that saw only the property text; each was confirmed (patch applies, builds, "
       "existing tests pass, demo fails with / passes without the patch) before being kept. `tools/run_seeded.py` "
       "re-runs the checks against them; this file is rendered by `tools/seeded_report.py`.", "",
       "| seeded change | files | breaks / needs to manifest | check → result |", "|---|---|---|---|"]
n = c = w = m = 0
for sid in sorted(rows):
    meta = json.load(open(os.path.join(S, sid, "meta.json")))
    cells = []
    best = "missed"
    for v in sorted(rows[sid], key=lambda x: x["check"]):
        if v["caught"] and "no-failing-input-found" not in v["violation_line"]:
            r = "**caught, concrete replay**: " + v["detail"][:140].replace("\n", " ").replace("|", "/")
            best = "concrete"
        elif v["caught"]:
            r = "caught as broken proof / correspondence (no-failing-input-found): " + v["detail"][:120].replace("\n", " ").replace("|", "/")
            if best != "concrete":
                best = "weak"
        else:
            r = "MISSED"
        cells.append(f"{v['check']} → {r}")
    n += 1
    c += best == "concrete"; w += best == "weak"; m += best == "missed"
    what = (meta.get("violates") or meta.get("summary") or "")[:260].replace("\n", " ").replace("|", "/")
    needs = (meta.get("needs_to_manifest") or "")[:200].replace("\n", " ").replace("|", "/")
    out.append(f"| {sid} | {', '.join(meta.get('files', []))} | {what} — *needs:* {needs} | {'<br>'.join(cells)} |")
out += ["", f"Totals: {n} seeded changes; {c} caught with a concrete failing input, {w} caught only as a broken proof obligation / "
        f"correspondence, {m} missed by every check run against them."]
open(os.path.join(S, "RESULTS.md"), "w").write("\n".join(out) + "\n")
print(out[-1])
