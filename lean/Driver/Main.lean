import PoolModel
/-! `pooldriver`: reads one op per line `<Cxx> <op> <args…>`, runs the executable model, prints one
line of canonical output per input line. -/
open Pool

structure DrvState where
  c09 : C09.St := C09.init

def dispatch (st : DrvState) (line : String) : DrvState × String :=
  match Util.words line with
  | "C09" :: args => let r := C09.drvStep st.c09 args; ({ st with c09 := r.1 }, r.2)
  | _ => (st, "bad-prop")

partial def loop (h : IO.FS.Stream) (out : IO.FS.Stream) (st : DrvState) : IO Unit := do
  let line ← h.getLine
  if line.isEmpty then return ()
  let line := (line.dropEndWhile (fun c => c == '\n' || c == '\r')).toString
  let (st', o) := dispatch st line
  out.putStrLn o
  loop h out st'

def main : IO Unit := do
  let out ← IO.getStdout
  loop (← IO.getStdin) out {}
  out.flush
