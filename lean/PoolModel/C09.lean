/-
Model of `account/watcher/watcher.go` (`expiryWatcher`).

Go state                                    model
--------                                    -----
bestHeight uint32                           best : Nat   (only compared, never added to)
expirations map[[33]byte]uint32             exp  : Key → Option Nat (lookup / insert / delete only)
expirationsPerHeight map[uint32][]*PubKey   perH : List (Nat × Key)  flat list of (bucket, key) in
                                            insertion order; bucket h = entries with first component h

Both entry points hold `expirationsMtx` for their whole body, so each op is atomic and the sequential
model covers every interleaving of `NewBlock` and `AddAccountExpiration`.

`NewBlock` visits the buckets selected by `sel bucketHeight newBest`.  Go map iteration order is
unspecified; the model visits the selected entries in insertion order.  Because the effect of visiting
bucket h only touches keys whose current expiry is h, every visiting order yields the same set of
notifications (theorem `block_out_mem` characterises that set without reference to the order), and the
correspondence check compares the notifications of one op as a sorted list.

The `go func(){ HandleAccountExpiry }()` hand-off in `AddAccountExpiration` is an output event of the op
that spawns it; the delay of that goroutine is runtime behaviour outside the model.
-/
namespace Pool.C09

abbrev Key := Nat

structure St where
  best : Nat
  exp  : Key → Option Nat
  perH : List (Nat × Key)

def init : St := { best := 0, exp := fun _ => none, perH := [] }

inductive Op where
  | add (k : Key) (h : Nat)
  | block (b : Nat)
deriving Repr, DecidableEq

/-- bucket-selection rule of `NewBlock`: which buckets are visited when the new best height is `b`. -/
abbrev Sel := Nat → Nat → Bool

/-- the rule of the pinned tree before the `fix:` commit: only the bucket of exactly the new height. -/
def selExact : Sel := fun h b => h == b
/-- the rule of the current tree: every bucket at or below the new height. -/
def selUpTo : Sel := fun h b => decide (h ≤ b)

def erase (e : Key → Option Nat) (k : Key) : Key → Option Nat :=
  fun k' => if k' = k then none else e k'

def insert (e : Key → Option Nat) (k : Key) (h : Nat) : Key → Option Nat :=
  fun k' => if k' = k then some h else e k'

/-- `overdueExpirations` over the visited entries: an entry `(h,k)` fires iff the key's *current* expiry
is `h`; firing deletes the key from `exp`.  Output: notifications `(key, reportedHeight)`. -/
def visit (sel : Sel) (b : Nat) :
    List (Nat × Key) → (Key → Option Nat) → (Key → Option Nat) × List (Key × Nat)
  | [], e => (e, [])
  | (h, k) :: rest, e =>
    if sel h b then
      if e k = some h then
        let r := visit sel b rest (erase e k)
        (r.1, (k, h) :: r.2)
      else visit sel b rest e
    else visit sel b rest e

def step (sel : Sel) (s : St) : Op → St × List (Key × Nat)
  | .add k h =>
    if h ≤ s.best then
      -- already expired: hand off immediately, forget the key
      ({ s with exp := erase s.exp k }, [(k, s.best)])
    else
      ({ s with exp := insert s.exp k h, perH := s.perH ++ [(h, k)] }, [])
  | .block b =>
    let r := visit sel b s.perH s.exp
    ({ best := b, exp := r.1, perH := s.perH.filter (fun p => !sel p.1 b) }, r.2)

/-- run an op list, returning the per-op notifications -/
def run (sel : Sel) : St → List Op → List (List (Key × Nat))
  | _, [] => []
  | s, op :: ops => (step sel s op).2 :: run sel (step sel s op).1 ops

def final (sel : Sel) : St → List Op → St
  | s, [] => s
  | s, op :: ops => final sel (step sel s op).1 ops

/-! ## The specification: one pending registration per account

This is the property restated as the simplest possible machine: per account at most one *live*
registration; it fires at the first op at which `best ≥ h`, and then it is gone. -/

structure Spec where
  best : Nat
  pending : Key → Option Nat

def Spec.init : Spec := { best := 0, pending := fun _ => none }

/-- keys notified by the spec at an op, as a predicate (order-free) -/
def Spec.fires (s : Spec) : Op → Key → Prop
  | .add k h, k' => k' = k ∧ h ≤ s.best
  | .block b, k' => ∃ h, s.pending k' = some h ∧ h ≤ b

def Spec.step (s : Spec) : Op → Spec
  | .add k h =>
    if h ≤ s.best then { s with pending := erase s.pending k }
    else { s with pending := insert s.pending k h }
  | .block b =>
    { best := b,
      pending := fun k => match s.pending k with
        | some h => if h ≤ b then none else some h
        | none => none }

def Spec.final : Spec → List Op → Spec
  | s, [] => s
  | s, op :: ops => Spec.final (s.step op) ops

end Pool.C09
