import PoolModel.Generated.C06
/-!
Model of the trader database's batch staging code (`clientdb/batch.go`, `batch_snapshot.go`, the
`updateOrder`/`copyOrder` helpers of `clientdb/order.go`, `updateAccount` of `clientdb/account.go`), of
`Client.checkPendingBatch` (`auctioneer/batch.go`) and of the pending-batch clause of
`manager.HandleAccountSpend` (`account/manager.go`).

Go state (bbolt buckets)                          model (`DB`)
------------------------                          ------------
account bucket: key → serialized account          accounts : List (Key × Acct)      (keys unique, `KeysNodup`)
orders bucket: nonce → sub-bucket with order      orders   : List (Key × Ord)
event bucket + per-order `event-ref` sub-buckets  events   : List (Key × Evt)       global log, in time order
batch/pending-id                                  pendingId : Option Nat
batch/pending-accounts (nested bucket, may be     pendingAccts  : Option (List (Key × Acct))   `none` = bucket absent
  absent)
batch/pending-orders                              pendingOrders : Option (List (Key × Ord))
batch-snapshot-bucket/batch-snapshot-pending      pendingSnap : Option Snap
  …/batch-snapshot-seq-bucket/<seq>               snaps : List Snap                 (sequence number = position+1)
  …/batch-snapshot-batchid-index-bucket           index : List (Nat × Nat)          batch id → sequence number

Every exported DB method runs its body inside one `bbolt.Update`; a body is a function
`DB → Except Err DB` and `commit` returns the OLD state when the body fails.  That a failed bbolt
`Update` leaves no trace, that a committed one is atomic and durable, and that close/reopen is the
identity on committed state are properties of bbolt and part of the trusted base; the correspondence
run exercises them on a real database file (reopen at random positions, failing element at every
position of a staging call).

Abstractions
* accounts/orders are records of the fields a `Modifier` can assign plus the fields the fill
  arithmetic reads (`Units`, `MinUnitsMatch`); keys, scripts, secrets, rates … are constant under every
  modelled operation and are not represented.  Transactions and outpoints are opaque tags
  (a tag stands for a txid; `0` = nil `LatestTx`).
* `normA` is the one lossy step of `serializeAccount`/`deserializeAccount` that a modifier sequence can
  trigger (no `LatestTx` in `StateInitiated`/`StateCanceledAfterRecovery`, list regenerated from source).
* Go panic sites of the mirrored code: `orderModifiers[idx]`/`accountModifiers[idx]` are guarded by the
  length checks (mirrored), the fee schedule assertion is comma-ok (mirrored as `feeOk`).  A nil
  `*Batch`, nil `BatchTX` or nil `*Account` argument panics in Go; callers never pass those and the
  model's argument types cannot express them (not covered).
* `DB.DeleteOrder` is modelled although it is outside the property's operation alphabet: it is the one way a
  staged order can be missing from the main bucket at completion (`copyOrder` then re-creates it).
-/
namespace Pool.C06
open Pool.Gen.C06

abbrev Key := Nat

/-! ### association lists = bbolt buckets -/

def lookup (k : Key) : List (Key × α) → Option α
  | [] => none
  | (k', v) :: r => if k = k' then some v else lookup k r

/-- `bucket.Put`: replace in place when the key exists, else append -/
def upsert (k : Key) (v : α) : List (Key × α) → List (Key × α)
  | [] => [(k, v)]
  | (k', v') :: r => if k = k' then (k, v) :: r else (k', v') :: upsert k v r

def keys (l : List (Key × α)) : List Key := l.map (·.1)

/-- `DeleteBucket` / `Delete` of a key -/
def erase (k : Key) : List (Key × α) → List (Key × α)
  | [] => []
  | (k', v) :: r => if k = k' then erase k r else (k', v) :: erase k r

/-! ### outcomes -/

inductive Err where
  | lenOrder        -- "order modifier length mismatch" / "invalid number of modifiers"
  | lenAcct         -- "account modifier length mismatch"
  | noOrder         -- ErrNoOrder
  | orderExists     -- ErrOrderExists
  | noAcct          -- ErrAccountNotFound
  | feeSched        -- "unsupported fee schedule"
  | noPending       -- account.ErrNoPendingBatch
  | bucketMissing   -- getNestedBucket(create=false) on an absent staging bucket
  | snapMissing     -- "pending snapshot not found" / seq bucket entry missing
  | getOrder        -- batchStorer: "error getting order"
  | getAccount      -- batchStorer: "error getting account"
  | endingState     -- batchStorer: "invalid ending account state"
  | panicNilLatestTx  -- Go PANIC: nil LatestTx serialized in a state that stores it
  | other
deriving DecidableEq, Repr

/-! ### accounts -/

structure Acct where
  value : Nat
  expiry : Nat
  state : Nat
  bkey : Nat      -- number of `IncrementKey` steps from the account's initial batch key
  opTx : Nat      -- OutPoint.Hash (tag)
  opIdx : Nat     -- OutPoint.Index
  hint : Nat
  tx : Nat        -- LatestTx (tag, 0 = nil)
  version : Nat
deriving DecidableEq, Repr, Inhabited

/-- `account.Modifier` constructors (`account/interfaces.go`), see `Gen.C06.acctModifierCtors` -/
inductive AMod where
  | state (s : Nat)
  | value (v : Nat)
  | expiry (e : Nat)
  | incBatchKey
  | outPoint (tx idx : Nat)
  | heightHint (h : Nat)
  | latestTx (t : Nat)
  | version (v : Nat)
deriving DecidableEq, Repr

def AMod.apply : AMod → Acct → Acct
  | .state s, a => { a with state := s }
  | .value v, a => { a with value := v }
  | .expiry e, a => { a with expiry := e }
  | .incBatchKey, a => { a with bkey := a.bkey + 1 }
  | .outPoint t i, a => { a with opTx := t, opIdx := i }
  | .heightHint h, a => { a with hint := h }
  | .latestTx t, a => { a with tx := t }
  | .version v, a => { a with version := v }

/-- `for _, modifier := range modifiers { modifier(acct) }` -/
def applyAMods (ms : List AMod) (a : Acct) : Acct := ms.foldl (fun a m => m.apply a) a

/-- `serializeAccount` ∘ `deserializeAccount`: `LatestTx` is not written in the listed states -/
def normA (a : Acct) : Acct :=
  if serializeNoLatestTx.contains a.state then { a with tx := 0 } else a

/-- `serializeAccount` panics (nil `*wire.MsgTx` handed to `codec.WriteElement`) when `LatestTx` is nil in a
state that stores it.  bbolt's `Update` rolls back on a panic, so the state is unchanged; the panic itself
reaches the caller. -/
def serPanics (a : Acct) : Bool := !serializeNoLatestTx.contains a.state && a.tx == 0

/-- `storeAccount` / snapshot serialization of one account: what a later read returns, or the panic -/
def storeA (a : Acct) : Except Err Acct := if serPanics a then .error .panicNilLatestTx else .ok (normA a)

/-! ### orders and events -/

/-- One order sub-bucket as `fetchOrderTX` + the callbacks of `GetOrder`/`updateOrder`/`copyOrder` read it.
Go keeps four keys per order: `order` (fixed-size encoding: state, units, unfilled, type, …),
`order-min-units-match`, `order-tier` (bids only) and `order-tlv` (channel type, allowed/blocked node ids, auction type,
public flag, bid: self channel balance, sidecar ticket, unannounced/zero-conf flags, ask: announcement /
confirmation constraints).  `updateOrder` decodes all of them, applies the modifiers and REWRITES all of them into
`dst`; `copyOrder` decodes and rewrites all of them into `dst` (`Gen.C06.updateOrderStores`, `copyOrderStores`,
`…Decodes`; theorem `facts_order_keys`).  The record therefore moves as a whole; `extras` is an opaque tag for the
contents of the TLV stream. -/
structure Ord where
  state : Nat
  unfilled : Nat   -- Kit.UnitsUnfulfilled
  units : Nat      -- Kit.Units
  minMatch : Nat   -- Kit.MinUnitsMatch       (key `order-min-units-match`)
  isBid : Bool := false   -- order type       (in the fixed-size encoding)
  tier : Nat := 0         -- Bid.MinNodeTier   (key `order-tier`, bids only)
  extras : Nat := 0       -- tag of the TLV-encoded optional terms (key `order-tlv`)
deriving DecidableEq, Repr, Inhabited

/-- the terms no modifier can change -/
def Ord.fixed (o : Ord) : Nat × Nat × Bool × Nat × Nat := (o.units, o.minMatch, o.isBid, o.tier, o.extras)

/-- `order.Modifier` constructors (`order/interfaces.go`), see `Gen.C06.orderModifierCtors` -/
inductive OMod where
  | state (s : Nat)
  | unitsUnfulfilled (u : Nat)
deriving DecidableEq, Repr

def OMod.apply : OMod → Ord → Ord
  | .state s, o => { o with state := s }
  | .unitsUnfulfilled u, o => { o with unfilled := u }

def applyOMods (ms : List OMod) (o : Ord) : Ord := ms.foldl (fun o m => m.apply o) o

def two64 : Nat := 18446744073709551616

/-- Go `a - b` on `SupplyUnit` (uint64): wraps -/
def sub64 (a b : Nat) : Nat := (a + (two64 - b % two64)) % two64

/-- `CreatedEvent` / `UpdatedEvent{PrevState, NewState, UnitsFilled}` (`clientdb/order_event.go`) -/
inductive Evt where
  | created
  | updated (prev new filled : Nat)
deriving DecidableEq, Repr

/-! ### snapshots and the database -/

/-- the parts of `LocalBatchSnapshot` that vary in the modelled operations -/
structure Snap where
  id : Nat
  tx : Nat
  accts : List (Key × Acct)
  orders : List (Key × Ord)
  matched : List (Key × List Nat)   -- MatchedOrders: our nonce → UnitsFilled of each counterparty order
deriving DecidableEq, Repr

structure DB where
  accounts : List (Key × Acct) := []
  orders : List (Key × Ord) := []
  events : List (Key × Evt) := []
  pendingId : Option Nat := none
  pendingAccts : Option (List (Key × Acct)) := none
  pendingOrders : Option (List (Key × Ord)) := none
  pendingSnap : Option Snap := none
  snaps : List Snap := []
  index : List (Nat × Nat) := []
  /-- orders whose sub-bucket has no `event-ref` sub-bucket: `copyOrder` re-created the order bucket of an order
  that had been deleted from the main bucket (`storeOrderTX(dst, …, nil)` = `CreateBucketIfNotExists` without
  event).  `GetOrderEvents` fails for them until the next `updateOrder` creates the refs bucket. -/
  noRefs : List Key := []
deriving DecidableEq, Repr

/-- a freshly created database (`clientdb.New` → `initDB`): all top-level buckets exist and are empty -/
def DB.init : DB := {}


/-- `db.Update(body)`: the OLD state when the body fails (bbolt rollback, trusted) -/
def commit (db : DB) (r : Except Err DB) : DB × Option Err :=
  match r with
  | .ok d => (d, none)
  | .error e => (db, some e)

/-! ### `clientdb/order.go` -/

/-- `updateOrder(ordersBucket, dst, nonce, modifiers)` up to the two writes: read the order from
`ordersBucket`, apply the modifiers, build `NewUpdatedEvent(prevState, o)`.  The caller appends the event
(always owned by the MAIN order bucket) and puts the order into `dst`. -/
def updateOrderCore (ordersBucket : List (Key × Ord)) (nonce : Key) (mods : List OMod) :
    Except Err (Ord × Evt) :=
  match lookup nonce ordersBucket with
  | none => .error .noOrder
  | some o =>
    let o' := applyOMods mods o
    .ok (o', .updated o.state o'.state (sub64 o'.units o'.unfilled))

/-- `DB.SubmitOrder` body -/
def submitOrderTx (n : Key) (o : Ord) (db : DB) : Except Err DB :=
  match lookup n db.orders with
  | some _ => .error .orderExists
  | none => .ok { db with orders := upsert n o db.orders, events := db.events ++ [(n, .created)] }

/-- `DB.DeleteOrder` body: the whole order sub-bucket (order, extra keys, event refs) is removed.  "Note: this
method deletes the order without checking if it is referenced somewhere else (e.g. pending batch)." -/
def deleteOrderTx (n : Key) (db : DB) : Except Err DB :=
  match lookup n db.orders with
  | none => .error .noOrder
  | some _ => .ok { db with orders := erase n db.orders, events := db.events.filter (fun p => p.1 != n),
                            noRefs := db.noRefs.filter (fun k => k != n) }

/-- loop of `DB.UpdateOrders` (`updateOrder(rootBucket, rootBucket, …)`): source = destination = main -/
def updateOrdersLoop : List (Key × List OMod) → List (Key × Ord) → List (Key × Evt) →
    Except Err (List (Key × Ord) × List (Key × Evt))
  | [], os, ev => .ok (os, ev)
  | (n, m) :: r, os, ev =>
    match updateOrderCore os n m with
    | .error e => .error e
    | .ok (o', e) => updateOrdersLoop r (upsert n o' os) (ev ++ [(n, e)])

def updateOrdersTx (ns : List Key) (ms : List (List OMod)) (db : DB) : Except Err DB :=
  match updateOrdersLoop (ns.zip ms) db.orders db.events with
  | .error e => .error e
  | .ok (os, ev) =>
    -- every updated order got an event, i.e. an `event-ref` sub-bucket (CreateBucketIfNotExists)
    .ok { db with orders := os, events := ev, noRefs := db.noRefs.filter (fun k => !ns.contains k) }

/-- `DB.UpdateOrder` -/
def updateOrderTx (n : Key) (m : List OMod) (db : DB) : Except Err DB := updateOrdersTx [n] [m] db

/-- `DB.UpdateOrders`: length check outside the transaction -/
def updateOrders (ns : List Key) (ms : List (List OMod)) (db : DB) : Except Err DB :=
  if ns.length ≠ ms.length then .error .lenOrder else updateOrdersTx ns ms db

/-! ### `clientdb/account.go` -/

/-- `updateAccount(src, dst, key, modifiers)` up to the write: the caller stores `storeA` of it in `dst` -/
def updateAccountCore (src : List (Key × Acct)) (k : Key) (mods : List AMod) : Except Err Acct :=
  match lookup k src with
  | none => .error .noAcct
  | some a => .ok (applyAMods mods a)

/-- `DB.AddAccount` body (`storeAccount` = `Put`) -/
def addAccountTx (k : Key) (a : Acct) (db : DB) : Except Err DB :=
  match storeA a with
  | .error e => .error e
  | .ok a' => .ok { db with accounts := upsert k a' db.accounts }

/-- `DB.UpdateAccount` body -/
def updateAccountTx (k : Key) (mods : List AMod) (db : DB) : Except Err DB :=
  match updateAccountCore db.accounts k mods with
  | .error e => .error e
  | .ok a =>
    match storeA a with
    | .error e => .error e
    | .ok a' => .ok { db with accounts := upsert k a' db.accounts }

/-! ### `clientdb/batch.go` -/

/-- arguments of `DB.StorePendingBatch` -/
structure StageArgs where
  batchId : Nat
  batchTx : Nat
  feeOk : Bool                       -- `batch.ExecutionFee.(*terms.LinearFeeSchedule)` succeeds
  orders : List Key
  orderMods : List (List OMod)
  accounts : List Key                -- `getAccountKey(acct)` of each passed account
  acctMods : List (List AMod)
  matched : List (Key × List Nat) := []   -- `batch.MatchedOrders` (only copied into the snapshot here)
deriving DecidableEq, Repr

/-- order loop of `StorePendingBatch`: `updateOrder(ordersBucket, pendingOrdersBucket, …)` – reads MAIN,
event into MAIN, order into the staging bucket.  Returns (staging bucket, events, `updatedOrders`). -/
def stageOrdersLoop (main : List (Key × Ord)) : List (Key × List OMod) → List (Key × Ord) →
    List (Key × Evt) → List (Key × Ord) → Except Err (List (Key × Ord) × List (Key × Evt) × List (Key × Ord))
  | [], st, ev, upd => .ok (st, ev, upd)
  | (n, m) :: r, st, ev, upd =>
    match updateOrderCore main n m with
    | .error e => .error e
    | .ok (o', e) => stageOrdersLoop main r (upsert n o' st) (ev ++ [(n, e)]) (upd ++ [(n, o')])

/-- account loop of `StorePendingBatch`: `updateAccount(accountsBucket, pendingAccountsBucket, …)`.
Returns (staging bucket, `updatedAccounts` – the in-memory, not yet serialized accounts). -/
def stageAcctsLoop (main : List (Key × Acct)) : List (Key × List AMod) → List (Key × Acct) →
    List (Key × Acct) → Except Err (List (Key × Acct) × List (Key × Acct))
  | [], st, upd => .ok (st, upd)
  | (k, m) :: r, st, upd =>
    match updateAccountCore main k m with
    | .error e => .error e
    | .ok a =>
      match storeA a with
      | .error e => .error e
      | .ok a' => stageAcctsLoop main r (upsert k a' st) (upd ++ [(k, a)])

/-- `NewSnapshot` followed by `serializeLocalBatchSnapshot`: maps built from the slices (later entry of a
key wins), accounts pass through the account serializer -/
def newSnapshot (a : StageArgs) (updOrders : List (Key × Ord)) (updAccts : List (Key × Acct)) :
    Except Err Snap :=
  if !a.feeOk then .error .feeSched else
  .ok { id := a.batchId, tx := a.batchTx,
        accts := updAccts.foldl (fun m p => upsert p.1 (normA p.2) m) [],
        orders := updOrders.foldl (fun m p => upsert p.1 p.2 m) [],
        matched := a.matched }

/-- body of the `db.Update` in `StorePendingBatch` -/
def storePendingBatchTx (a : StageArgs) (db : DB) : Except Err DB :=
  -- DeleteBucket(pending-accounts), DeleteBucket(pending-orders): ErrBucketNotFound tolerated
  let db := { db with pendingAccts := none, pendingOrders := none }
  -- getNestedBucket(bucket, pending-orders, create = true)
  let db := { db with pendingOrders := some [] }
  match stageOrdersLoop db.orders (a.orders.zip a.orderMods) [] db.events [] with
  | .error e => .error e
  | .ok (po, ev, updOrders) =>
    let db := { db with pendingOrders := some po, events := ev,
                        noRefs := db.noRefs.filter (fun k => !a.orders.contains k) }
    match stageAcctsLoop db.accounts (a.accounts.zip a.acctMods) [] [] with
    | .error e => .error e
    | .ok (pa, updAccts) =>
      let db := { db with pendingAccts := some pa }
      let db := { db with pendingId := some a.batchId }
      match newSnapshot a updOrders updAccts with
      | .error e => .error e
      | .ok snap => .ok { db with pendingSnap := some snap }   -- storePendingBatchSnapshot

/-- `DB.StorePendingBatch`: the two length checks happen before the transaction -/
def storePendingBatch (a : StageArgs) (db : DB) : Except Err DB :=
  if a.orders.length ≠ a.orderMods.length then .error .lenOrder
  else if a.accounts.length ≠ a.acctMods.length then .error .lenAcct
  else storePendingBatchTx a db

/-- `DB.DeletePendingBatch` body (never fails: absent buckets/keys are tolerated) -/
def deletePendingBatchTx (db : DB) : Except Err DB :=
  .ok { db with pendingId := none, pendingAccts := none, pendingOrders := none, pendingSnap := none }

/-- account half of `applyBatchUpdates`: `updateAccount(pendingAccounts, accounts, k, nil)` per entry -/
def applyAccts : List (Key × Acct) → List (Key × Acct) → Except Err (List (Key × Acct))
  | [], main => .ok main
  | (k, v) :: r, main =>
    match storeA v with
    | .error e => .error e
    | .ok v' => applyAccts r (upsert k v' main)

/-- order half: `copyOrder(pendingOrders, orders, nonce)` per entry (order only, no event refs) -/
def applyOrders : List (Key × Ord) → List (Key × Ord) → List (Key × Ord)
  | [], main => main
  | (k, v) :: r, main => applyOrders r (upsert k v main)

/-- `applyBatchUpdates` -/
def applyBatchUpdates (db : DB) : Except Err DB :=
  match db.pendingAccts with
  | none => .error .bucketMissing
  | some pa =>
    match applyAccts pa db.accounts with
    | .error e => .error e
    | .ok accts =>
      let db := { db with accounts := accts }
      let db := { db with pendingAccts := none }
      match db.pendingOrders with
      | none => .error .bucketMissing
      | some po =>
        -- copyOrder re-creates the bucket of an order missing from main, without event refs
        let db := { db with noRefs := db.noRefs ++ (keys po).filter (fun k => (lookup k db.orders).isNone) }
        let db := { db with orders := applyOrders po db.orders }
        let db := { db with pendingOrders := none }
        .ok { db with pendingId := none }

/-- `finalizeBatchSnapshot(tx, batchID)` -/
def finalizeBatchSnapshot (batchID : Nat) (db : DB) : Except Err DB :=
  match db.pendingSnap with
  | none => .error .snapMissing
  | some raw =>
    let seq := db.snaps.length + 1      -- seqBucket.NextSequence()
    .ok { db with pendingSnap := none, snaps := db.snaps ++ [raw], index := upsert batchID seq db.index }

/-- `DB.MarkBatchComplete` body -/
def markBatchCompleteTx (db : DB) : Except Err DB :=
  match db.pendingId with
  | none => .error .noPending
  | some pid =>
    match applyBatchUpdates db with
    | .error e => .error e
    | .ok db => finalizeBatchSnapshot pid db

/-! ### observers -/

/-- `completeSnapshotOrders` (used by `fetchPendingBatchSnapshot` and `fetchLocalBatchSnapshot`) completes every
snapshot order from the MAIN order bucket (min units match, TLV, node tier): `ErrNoOrder` when one of them has
been deleted -/
def snapReadable (db : DB) (s : Snap) : Bool := (keys s.orders).all (fun n => (lookup n db.orders).isSome)

/-- `DB.PendingBatchSnapshot` (`len(snapshotBytes) == 0 → ErrNoPendingBatch`; own orders completed from main) -/
def pendingBatchSnapshot (db : DB) : Except Err Snap :=
  match db.pendingSnap with
  | none => .error .noPending
  | some s => if snapReadable db s then .ok s else .error .noOrder

/-- `DB.GetLocalBatchSnapshot(id)` -/
def getLocalBatchSnapshot (db : DB) (id : Nat) : Except Err Snap :=
  match lookup id db.index with
  | none => .error .other
  | some seq =>
    match db.snaps[seq - 1]? with
    | none => .error .snapMissing
    | some s => if snapReadable db s then .ok s else .error .noOrder

/-- `DB.GetLocalBatchSnapshots()`: fails as a whole when one snapshot is not readable -/
def getLocalBatchSnapshots (db : DB) : Except Err (List Snap) :=
  if db.snaps.all (snapReadable db) then .ok db.snaps else .error .noOrder

def getOrderEvents (db : DB) (n : Key) : Except Err (List Evt) :=
  match lookup n db.orders with
  | none => .error .noOrder
  | some _ =>
    if db.noRefs.contains n then .error .other      -- "order event sub bucket not found"
    else .ok ((db.events.filter (fun p => p.1 == n)).map (·.2))

/-! ### `account/manager.go` HandleAccountSpend, multi-sig spend clause

```go
err := m.cfg.Store.PendingBatch()            // = DB.PendingBatchSnapshot()
switch err {
case ErrNoPendingBatch:                       // proceed
case nil: m.cfg.Store.MarkBatchComplete()     // commit it
default:  return err }
```
(under `pendingBatchMtx`, so the two store calls are one atomic step w.r.t. other spends). -/
def spendPendingClause (db : DB) : Except Err DB :=
  match pendingBatchSnapshot db with
  | .error .noPending => .ok db
  | .error e => .error e
  | .ok _ => markBatchCompleteTx db

/-- classification of the spending input's witness (`poolscript.IsExpirySpend`/`IsTaprootExpirySpend`,
`IsMultiSigSpend`/`IsTaprootMultiSigSpend`, neither) -/
inductive Witness where
  | expiry | multiSig | unknown
  /-- a multi-sig spend whose transaction RECREATES the account output (the normal case of a confirmed batch):
  after the pending-batch clause the handler calls `resumeAccount`, which – in the states an account has after a
  batch (`StatePendingBatch`, `StatePendingUpdate`, `StateExpired`, `StateExpiredPendingUpdate`) – only registers
  chain watchers / the auctioneer subscription and writes nothing to the database -/
  | multiSigRecreate
deriving DecidableEq, Repr

/-- the final `UpdateAccount(account, StateClosed, HeightHint(spendHeight), LatestTx(spendTx))` -/
def closeMods (tx h : Nat) : List AMod := [.state acctStateClosed, .heightHint h, .latestTx tx]

/-- `manager.HandleAccountSpend(traderKey, spendDetails)`.  For a spending transaction that does not recreate the
account output the account is closed; the recreate branch (`multiSigRecreate`) hands over to `resumeAccount`.  Three store calls in sequence, not one transaction: `Account`, (multi-sig only) the pending-batch clause
`PendingBatch` + `MarkBatchComplete` + `Account` under `pendingBatchMtx`, then `UpdateAccount` closing the account. -/
def handleAccountSpend (k : Key) (w : Witness) (tx h : Nat) (db : DB) : DB × Option Err :=
  match lookup k db.accounts with
  | none => (db, some .noAcct)
  | some _ =>
    match w with
    | .unknown => (db, some .other)                       -- "unknown spend witness"
    | .expiry => commit db (updateAccountTx k (closeMods tx h) db)
    | .multiSigRecreate => commit db (spendPendingClause db)
    | .multiSig =>
      match commit db (spendPendingClause db) with
      | (db1, some e) => (db1, some e)
      | (db1, none) => commit db1 (updateAccountTx k (closeMods tx h) db1)

/-! ### `auctioneer/batch.go` checkPendingBatch -/

/-- what `c.client.BatchSnapshot` + `batchTx.Deserialize` yield -/
inductive Rpc where
  | rpcErr (mentionsNotFinalized : Bool)  -- RPC failed; does the text contain "batch snapshot not found"
  | malformed                              -- reply whose BatchTx bytes do not deserialize
  | finalized (tx : Nat)                   -- well-formed transaction (tag = txid)
deriving DecidableEq, Repr

/-- behaviour of the `BatchCleaner` in this call -/
structure CleanerEnv where
  removeOk : Bool   -- RemovePendingBatchArtifacts succeeds
  deleteOk : Bool   -- DeletePendingBatch succeeds (bbolt commit)
deriving DecidableEq, Repr

inductive Call where
  | removeArtifacts (tx : Nat)
  | deletePendingBatch
deriving DecidableEq, Repr

inductive CheckErr where
  | load | query | remove | delete
deriving DecidableEq, Repr

/-- `Client.checkPendingBatch`: the `BatchCleaner` calls made (in order) and the returned error.
`src` is what `BatchSource.PendingBatchSnapshot` returned. -/
def checkPendingBatch (src : Except Err Snap) (rpc : Rpc) (env : CleanerEnv) :
    List Call × Option CheckErr :=
  match src with
  | .error .noPending => ([], none)
  | .error _ => ([], some .load)
  | .ok snap =>
    match rpc with
    | .rpcErr true => ([], none)            -- not finalised yet: wait for Finalize
    | .rpcErr false => ([], some .query)
    | .malformed => ([], some .query)
    | .finalized ftx =>
      if snap.tx ≠ ftx then
        if !env.removeOk then ([.removeArtifacts snap.tx], some .remove)
        else if !env.deleteOk then ([.removeArtifacts snap.tx, .deletePendingBatch], some .delete)
        else ([.removeArtifacts snap.tx, .deletePendingBatch], none)
      else ([], none)

/-- effect of `checkPendingBatch` on the database when the cleaner is the real one
(`funding.Manager.DeletePendingBatch` = `DB.DeletePendingBatch`) -/
def reconnect (rpc : Rpc) (removeOk : Bool) (db : DB) : DB × List Call × Option CheckErr :=
  let r := checkPendingBatch (pendingBatchSnapshot db) rpc { removeOk := removeOk, deleteOk := true }
  if r.1.contains .deletePendingBatch then ((commit db (deletePendingBatchTx db)).1, r) else (db, r)

/-- the three ways the stream to the auctioneer is (re-)created -/
inductive Path where
  | firstConnect     -- daemon start: `connectAndAuthenticate` with `serverStream == nil`
  | streamError      -- stream error → `rpcServer.serverHandler` → `HandleServerShutdown(err)`
  | shutdownNotice   -- SERVER_SHUTDOWN message → `readIncomingStream` → `HandleServerShutdown(nil)`
deriving DecidableEq, Repr

/-- A whole (re-)connection along `p`.  Every function that creates the stream runs `checkPendingBatch` right
after `connectServerStream` and before (re-)subscribing accounts (`Gen.C06.streamCreators`).  The two in-process
reconnect paths presuppose an earlier first connect, whose check the scripted auctioneer answers with "not
finalised".  Result: the database and the outcome of each check, in order. -/
def reconnectVia (p : Path) (rpc : Rpc) (removeOk : Bool) (db : DB) : DB × List (List Call × Option CheckErr) :=
  match p with
  | .firstConnect => let r := reconnect rpc removeOk db; (r.1, [r.2])
  | _ =>
    let r0 := reconnect (.rpcErr true) true db
    let r := reconnect rpc removeOk r0.1
    (r.1, [r0.2, r.2])

/-! ### operations -/

inductive Op where
  | addAccount (k : Key) (a : Acct)
  | submitOrder (n : Key) (o : Ord)
  | stage (a : StageArgs)
  | complete
  | discard
  | updateOrder (n : Key) (mods : List OMod)
  | deleteOrder (n : Key)
  | updateOrders (ns : List Key) (mods : List (List OMod))
  | updateAccount (k : Key) (mods : List AMod)
  | reopen
  | spend                                   -- HandleAccountSpend's pending-batch clause
  | accountSpend (k : Key) (w : Witness) (tx h : Nat)   -- the whole HandleAccountSpend (closing branch)
  | reconnect (rpc : Rpc) (removeOk : Bool) -- checkPendingBatch against the real DB
deriving DecidableEq, Repr

/-- one exported call = one transaction; result = new state and the error, if any -/
def step (db : DB) : Op → DB × Option Err
  | .addAccount k a => commit db (addAccountTx k a db)
  | .submitOrder n o => commit db (submitOrderTx n o db)
  | .stage a => commit db (storePendingBatch a db)
  | .complete => commit db (markBatchCompleteTx db)
  | .discard => commit db (deletePendingBatchTx db)
  | .updateOrder n m => commit db (updateOrderTx n m db)
  | .deleteOrder n => commit db (deleteOrderTx n db)
  | .updateOrders ns ms => commit db (updateOrders ns ms db)
  | .updateAccount k m => commit db (updateAccountTx k m db)
  | .reopen => (db, none)                   -- close + `clientdb.New` on the same file (trusted: identity)
  | .spend => commit db (spendPendingClause db)
  | .accountSpend k w tx h => handleAccountSpend k w tx h db
  | .reconnect rpc rm => ((reconnect rpc rm db).1, none)

def run (db : DB) : List Op → DB
  | [] => db
  | op :: ops => run (step db op).1 ops

end Pool.C06
