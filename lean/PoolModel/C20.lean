import PoolModel.C08
/-!
Model of auctioneer-assisted recovery (C20): the key sweep of `Client.RecoverAccounts`
(auctioneer/client.go), the state mapping of `unmarshallServerRecoveredAccount` (regenerated table,
`Pool.C08.recoverState`) and `manager.RecoverAccount` = op `recover` of the C08 machine.
-/
namespace Pool.C20
open Pool.Gen Pool.C08

/-- the auctioneer's answer to the subscription handshake for one key -/
inductive Ans where
  | unknown       -- ACCOUNT_DOES_NOT_EXIST
  | reservation   -- INCOMPLETE_ACCOUNT_RESERVATION
  | full          -- account exists: the recovery message is sent
deriving DecidableEq, Repr

/-- `Client.RecoverAccounts`: `c` = numNotFoundAccounts, `i` = index of the key.  Returns the recovered
keys (index, reservation-only?).  A reservation-only answer does not touch the counter, a full account
resets it, more than `MaxUnusedAccountKeyLookup` consecutive misses end the sweep. -/
def sweep : Nat → Nat → List Ans → List (Nat × Bool)
  | _, _, [] => []
  | c, i, .reservation :: r => (i, true) :: sweep c (i + 1) r
  | c, i, .unknown :: r =>
    if c + 1 > Lifecycle.maxUnusedAccountKeyLookup then [] else sweep (c + 1) (i + 1) r
  | _, i, .full :: r => (i, false) :: sweep 0 (i + 1) r

/-- number of handshakes performed -/
def requests : Nat → List Ans → Nat
  | _, [] => 0
  | c, .reservation :: r => 1 + requests c r
  | c, .unknown :: r => if c + 1 > Lifecycle.maxUnusedAccountKeyLookup then 1 else 1 + requests (c + 1) r
  | _, .full :: r => 1 + requests 0 r

/-- the record `unmarshallServerRecoveredAccount` builds from the auctioneer's report -/
def recovered (srv : Nat) (outpoint : OutPoint) (value expiry version bk hint : Nat) (latest : Option Tx) : Acct :=
  { state := recoverState srv, outpoint := outpoint, value := value, expiry := expiry, version := version,
    bk := bk, heightHint := hint,
    latestTx := if Lifecycle.recoveryNoLatestTx.contains srv then none else latest }

/-- `AdvanceAccountDerivationIndex`: the wallet's pool account key count afterwards.  Keys are derived until
the derived key's *index* reaches `minIndex` (count = index + 1), unless the wallet is already ahead. -/
def advance (count minIndex : Nat) : Nat := if count > minIndex then count else minIndex + 1

end Pool.C20
