/-! Shared helpers for the line-protocol driver (core Lean only). -/
namespace Pool.Util

def hexDigit (c : Char) : Option Nat :=
  if '0' ≤ c ∧ c ≤ '9' then some (c.toNat - '0'.toNat)
  else if 'a' ≤ c ∧ c ≤ 'f' then some (c.toNat - 'a'.toNat + 10)
  else if 'A' ≤ c ∧ c ≤ 'F' then some (c.toNat - 'A'.toNat + 10)
  else none

/-- decode a hex string into bytes; `none` on odd length / bad digit.  "-" denotes the empty string. -/
def unhex (s : String) : Option (List UInt8) :=
  if s == "-" then some [] else
  let rec go : List Char → List UInt8 → Option (List UInt8)
    | [], acc => some acc.reverse
    | [_], _ => none
    | a :: b :: rest, acc =>
      match hexDigit a, hexDigit b with
      | some x, some y => go rest (UInt8.ofNat (x * 16 + y) :: acc)
      | _, _ => none
  go s.toList []

def hexChar (n : Nat) : Char :=
  if n < 10 then Char.ofNat (n + '0'.toNat) else Char.ofNat (n - 10 + 'a'.toNat)

def hex (bs : List UInt8) : String :=
  if bs.isEmpty then "-" else
  String.ofList (bs.flatMap fun b => [hexChar (b.toNat / 16), hexChar (b.toNat % 16)])

def insertSorted [Ord α] (x : α) : List α → List α
  | [] => [x]
  | y :: ys => if compare x y == .gt then y :: insertSorted x ys else x :: y :: ys

def sortList [Ord α] (l : List α) : List α := l.foldr insertSorted []

def joinWith (sep : String) : List String → String
  | [] => ""
  | [x] => x
  | x :: xs => x ++ sep ++ joinWith sep xs

def words (line : String) : List String :=
  (line.splitOn " ").filter (fun w => !w.isEmpty)

end Pool.Util
