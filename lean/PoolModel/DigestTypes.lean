/-! Record types of the regenerated digest facts (`Generated/DigestFacts.lean`,
`Generated/TicketDigestFacts.lean`).  Plain data; the generated files only contain literals of these. -/
namespace Pool.Gen

/-- one argument of a `codec.WriteElements(&msg, …)` call: source expression and its static Go type as
resolved from the declarations (`[N]byte[:]` = full slice of an N-byte array) -/
structure DigestArg where
  expr : String
  goType : String
deriving DecidableEq, Repr

/-- one `case` of the version switch of a digest function -/
structure DigestCase where
  labels : List String      -- constant names of the case labels
  versions : List Nat       -- their values
  pre : List String         -- statements of the clause before the WriteElements call
  args : List DigestArg     -- ORDERED arguments after `&msg`
  post : List String        -- statements of the clause after the call
deriving DecidableEq, Repr

structure DigestFn where
  name : String
  head : List String        -- statements before the version switch
  tag : String              -- switch tag expression
  cases : List DigestCase
  dflt : List String        -- statements of the default clause
  tail : List String        -- statements after the switch
deriving DecidableEq, Repr

end Pool.Gen
