import PoolModel.C13
import PoolModel.C06Drv
/-! Line-protocol driver for the C13 model.  All C06 lines are accepted (own database state) plus

```
bstage id tx feeOk ext tap hint <matched> <diffs>
```
`<matched>` as in C06 (`_` or `n:u+u/n:u`), `<diffs>`: `_` or `/`-separated `acct:endingState:balance:idx:expiry:version`. -/
namespace Pool.C13
open Pool.C06 Pool.Util

def diffs? (s : String) : Option (List Diff) :=
  if s == "_" then some [] else
  (s.splitOn "/").mapM fun e =>
    match nats? ':' e with
    | some [k, st, bal, idx, ex, v] =>
      some { acct := k, endingState := st, endingBalance := bal, outpointIndex := idx, newExpiry := ex, newVersion := v }
    | _ => none

abbrev DrvSt := DB
def drvInit : DrvSt := DB.init

def drvStep (db : DB) (args : List String) : DB × String :=
  match args with
  | ["bstage", id, tx, fee, ext, tap, hint, mt, ds] =>
    match id.toNat?, tx.toNat?, bool? fee, bool? ext, bool? tap, hint.toNat?, matches? mt, diffs? ds with
    | some id, some tx, some fee, some ext, some tap, some hint, some mt, some ds =>
      let r := step db (.stage { id := id, tx := tx, feeOk := fee, supportsExt := ext, supportsTaproot := tap,
                                 heightHint := hint, matched := mt, diffs := ds })
      (r.1, resName r.2)
    | _, _, _, _, _, _, _, _ => (db, "bad-op")
  | _ => C06.drvStep db args

end Pool.C13
