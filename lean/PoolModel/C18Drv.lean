import PoolModel.C18
import PoolModel.C18Client
import PoolModel.Util
import PoolModel.Sha256
/-! Line-protocol driver for the C18 model.

* `commit <key> <nonce>` / `chal <commit> <nonce>` / `authhash <commit> <chal>` → hex digest
* `hs <key> <nonce> <challengeField> <batchVersion>` → the two handshake messages + the auctioneer's verdict
* `backoff <init> <min> <max> <numRetries> <fails>` → `ok=<0|1> waits=<..> backoffs=<..>`
* `sw reset|send <e>|take <main|k>|divert <k>|restore|end` → ErrChanSwitch macro steps (compositions of the
  atomic steps of `Switch.step`; see `swSend`/`swTake`). -/
namespace Pool.C18
open Pool.Util

def bit (b : Bool) : String := if b then "1" else "0"

def sha (b : Bytes) : Bytes := Pool.Sha256.sha256 b

def fmtInts (l : List Int) : String :=
  if l.isEmpty then "-" else joinWith "," (l.map fun (i : Int) => toString i)

def fmtTarget : Target → String
  | .main => "main"
  | .temp c => s!"t{c}"

structure DrvSt where
  sw : Switch := {}
  /-- a `Divert`/`Restore` call blocked on the mutex held by `run` -/
  waiter : Option Act := none
  cl : Client := {}

def drvInit : DrvSt := {}

def stepOr (s : Switch) (a : Act) : Switch := (s.step a).getD s

/-- after the mutex became free: `run` takes the next blocked sender's value and locks again -/
def swPump (s : Switch) : Switch :=
  if s.held.isNone && s.inflight.isNone && !s.pending.isEmpty then stepOr (stepOr s (.recv 0)) .lock else s

/-- what the sender's side can observe after `send`: did `run` take the value (`inflight`) or is the sender
still blocked behind an undelivered one (`queued`) -/
def swStatus (before s : Switch) : String :=
  if before.inflight.isNone && s.inflight.isSome then "inflight" else "queued"

def swSend (d : DrvSt) (e : Nat) : DrvSt × String :=
  let s := swPump (stepOr d.sw (.send e))
  ({ d with sw := s }, swStatus d.sw s)

def swTake (d : DrvSt) (t : Target) : DrvSt × String :=
  match d.sw.inflight with
  | some (e, t', _) =>
    if t' = t then
      let s := stepOr d.sw .deliver
      let s := match d.waiter with | some a => stepOr s a | none => s
      let s := swPump s
      ({ sw := s, waiter := none }, s!"got={e}")
    else (d, "none")
  | none => (d, "none")

def swCtl (d : DrvSt) (a : Act) : DrvSt × String :=
  match d.sw.step a with
  | some s => ({ d with sw := s }, "ok")
  | none => ({ d with waiter := some a }, "blocked")

def fmtDelivered (l : List (Nat × Target × Bool)) : String :=
  if l.isEmpty then "-" else joinWith "," (l.map fun x => s!"{x.1}>{fmtTarget x.2.1}")

def parseTarget (s : String) : Option Target :=
  if s == "main" then some .main else s.toNat?.map .temp

/-! ### whole-client ops: `cl reset` | `cl <sub|err|shut> <acct> <refuse> <failOpen> <failBatch> <beh,..|->` -/

def parseBeh (s : String) : Option Beh :=
  if s == "ok" then some .ok else if s == "errBC" then some .errBC else if s == "shutBC" then some .shutBC
  else if s == "errAC" then some .errAC else if s == "shutAC" then some .shutAC else if s == "errMid" then some .errMid
  else if s == "reject" then some .reject else if s == "okShut" then some .okShut else none

def parseList {α} (sep : String) (f : String → Option α) (s : String) : Option (List α) :=
  if s == "-" then some [] else (s.splitOn sep).mapM f

def fmtNats (l : List Nat) : String :=
  if l.isEmpty then "-" else joinWith "." ((sortList l).map toString)

def fmtErrs (l : List ErrClass) : String :=
  if l.isEmpty then "-" else joinWith "," (l.map fun
    | .none_ => "nil" | .serverErrored => "ErrServerErrored" | .other => "other")

def clStep (d : DrvSt) (op : Op) (refuse failOpen failBatch : Nat) (beh : List Beh) : DrvSt × String :=
  let c0 := d.cl.script refuse beh failOpen failBatch
  let (c, ret) := c0.step variantOfSource id op
  let out :=
    if c.chaos then "chaos" else
    let r := match ret with | .none_ => "-" | .ok => "ok" | .err => "err"
    s!"ret={r} new={c.streams.length - c0.streams.length} " ++
    s!"attempts={c.attempts - c0.attempts} map={fmtNats c.accts} cur={fmtNats c.cur.success} " ++
    s!"subs={fmtNats c.cur.subs} alive={bit c.cur.alive} open={bit c.isOpen}"
  ({ d with cl := c }, out)

def drvStep (d : DrvSt) (args : List String) : DrvSt × String :=
  match args with
  | ["commit", k, n] =>
    match unhex k, unhex n with
    | some k, some n => (d, hex (commitAccount sha k n))
    | _, _ => (d, "bad-op")
  | ["chal", c, n] =>
    match unhex c, unhex n with
    | some c, some n => (d, hex (authChallenge sha c n))
    | _, _ => (d, "bad-op")
  | ["authhash", c, ch] =>
    match unhex c, unhex ch with
    | some c, some ch => (d, hex (authHash sha c ch))
    | _, _ => (d, "bad-op")
  | ["hs", k, n, ch, v] =>
    match unhex k, unhex n, unhex ch, v.toNat? with
    | some k, some n, some ch, some v =>
      match authCommit sha k n v, authSubscribe sha k n ch with
      | .commit c ver, .subscribe tk cn sig =>
        (d, s!"commit={hex c},ver={ver};sub={hex tk},{hex cn};signer={hex sig.signer};signed={hex sig.msg};" ++
            s!"verify={bit (serverVerify sha c (copyN 32 ch) (.subscribe tk cn sig))}")
      | _, _ => (d, "bad-op")
    | _, _, _, _ => (d, "bad-op")
  | ["backoff", i, mn, mx, r, f] =>
    match i.toInt?, mn.toInt?, mx.toInt?, r.toNat?, f.toNat? with
    | some i, some mn, some mx, some r, some f =>
      let c := connect i mn mx r f
      (d, s!"ok={bit c.ok} waits={fmtInts c.waits} backoffs={fmtInts c.backoffs}")
    | _, _, _, _, _ => (d, "bad-op")
  | ["cl", "reset"] => ({ d with cl := {} }, "ok")
  | ["cl", kind, a, k, fo, fb, b] =>
    let op : Option Op := if kind == "sub" then a.toNat?.map .sub else if kind == "err" then some .errIdle
      else if kind == "shut" then some .shutIdle else none
    match op, k.toNat?, fo.toNat?, fb.toNat?, parseList "," parseBeh b with
    | some op, some k, some fo, some fb, some b => clStep d op k fo fb b
    | _, _, _, _, _ => (d, "bad-op")
  | ["sw", "reset"] => ({ d with sw := {}, waiter := none }, "ok")
  | ["sw", "send", e] =>
    match e.toNat? with
    | some e => swSend d e
    | none => (d, "bad-op")
  | ["sw", "take", t] =>
    match parseTarget t with
    | some t => swTake d t
    | none => (d, "bad-op")
  | ["sw", "divert", c] =>
    match c.toNat? with
    | some c => swCtl d (.divert c)
    | none => (d, "bad-op")
  | ["sw", "restore"] => swCtl d .restore
  | ["sw", "end"] => (d, fmtDelivered d.sw.delivered)
  | _ => (d, "bad-op")

end Pool.C18
