import PoolModel.C16
import PoolModel.Util
/-!
Line-protocol driver for the C16 model.

Ticket token: `nil` | `<id>.<state>.<offerSig>.<rcp>.<ord>` with sig ∈ n/v/x, rcp ∈ 0/1, ord = `-` | `<nonce><sig>`.

Single steps (scripted or real driver answers):
  `stepP <cur> <recv> <prov> <send01> <upd01> <submit: ok|exists|other|real0|real1>`
  `stepR <cur> <recv> <prov> <send01> <validate: 0|1|real> <expect: 0|1|realN|realP>`
Whole runs (composites of the model's small steps, see `PoolModel/C16.lean`):
  `reset` | `dlv P|R i` | `rerr P|R` | `restart P|R` | `crash P|R i k` | `fin P|R st` | `cancel P|R` | `complete P|R` | `race P|R a b st bf|fb`
-/
namespace Pool.C16
open Pool.Util

def sigTok : Sig → String
  | .none => "n" | .valid => "v" | .bad => "x"

def tktTok : Option Ticket → String
  | none => "nil"
  | some t =>
    let ord := match t.order with
      | none => "-"
      | some o => s!"{o.nonce}{sigTok o.sig}"
    s!"{t.id}.{t.state}.{sigTok t.offerSig}.{if t.recipient then 1 else 0}.{ord}"

def parseSig : Char → Option Sig
  | 'n' => some .none | 'v' => some .valid | 'x' => some .bad
  | 'y' => some .bad   -- the registered signature bytes over a changed signed field: invalid all the same
  | _ => none

def parseTkt (s : String) : Option (Option Ticket) :=
  if s == "nil" then some none else
  match s.splitOn "." with
  | [id, st, os, rc, ord] =>
    match id.toNat?, st.toNat?, os.toList, rc.toNat? with
    | some id, some st, [oc], some rc =>
      match parseSig oc with
      | none => none
      | some osig =>
        if rc > 1 then none else
        if ord == "-" then some (some ⟨id, st, osig, rc == 1, none⟩) else
        match ord.toList.reverse with
        | sc :: nrev =>
          match parseSig sc, (String.ofList nrev.reverse).toNat? with
          | some sg, some n => some (some ⟨id, st, osig, rc == 1, some ⟨n, sg⟩⟩)
          | _, _ => none
        | [] => none
    | _, _, _, _ => none
  | _ => none

def b01 (b : Bool) : String := if b then "1" else "0"

def effTok : Eff → String
  | .send tp t ok => s!"snd:{if tp then "P" else "R"}:{tktTok (some t)}:{b01 ok}"
  | .update t ok => s!"upd:{tktTok (some t)}:{b01 ok}"
  | .submit t r => s!"sub:{tktTok (some t)}:{match r with | .ok => "ok" | .errExists => "exists" | .errOther => "other"}"
  | .validate t ok => s!"val:{tktTok (some t)}:{b01 ok}"
  | .expect t ok => s!"exp:{tktTok (some t)}:{b01 ok}"
  | .spawnFin => "spawn"
  | .delMailbox => "del"
  | .initMailbox => "init"

def effsTok (es : List Eff) : String := if es.isEmpty then "-" else joinWith "," (es.map effTok)

def outTok (o : Out) : String :=
  let r := match o.res with
    | .ok c rv pv => s!"ok {c} {tktTok rv} {tktTok pv}"
    | .err e => s!"err {e}"
    | .panic => "panic"
  match o.res with
  | .panic => "panic"
  | _ => s!"{r}|prov={tktTok o.provAfter}|{effsTok o.effs}"

/-- scripted `SubmitSidecarOrder` success: the mock signs the order like `sidecar.SignOrder` -/
def forceSign (t : Ticket) : Ticket := { t with state := sOrdered, order := some ⟨1, .valid⟩ }

def parse01 (s : String) : Option Bool := if s == "1" then some true else if s == "0" then some false else none

def mkEnv (send upd sub val exp : String) : Option Env := do
  let sendOk ← parse01 send
  let updOk ← parse01 upd
  let submit ← match sub with
    | "ok" => some (fun (t : Ticket) => (forceSign t, SubmitRes.ok))
    | "exists" => some (fun (t : Ticket) => (t, SubmitRes.errExists))
    | "other" => some (fun (t : Ticket) => (t, SubmitRes.errOther))
    | "real0" => some (driverSubmit false)
    | "real1" => some (driverSubmit true)
    | _ => none
  let validate ← match val with
    | "1" => some (fun (_ : Ticket) => true) | "0" => some (fun (_ : Ticket) => false)
    | "real" => some validateOrdered | _ => none
  let expect ← match exp with
    | "1" => some (fun (t : Ticket) => ({ t with state := sExpecting }, true))
    | "0" => some (fun (t : Ticket) => (t, false))
    | "realN" => some (driverExpect none)
    | "realP" => some (driverExpect (some 1))
    | _ => none
  pure { sendOk := sendOk, updateOk := fun _ => updOk, submit := submit, validate := validate, expect := expect }

/-! ### whole-run composites -/

structure DrvSt where
  sys : Sys := init

abbrev drvInit : DrvSt := {}

def partyTok (x : Party) : String :=
  s!"{if x.alive then toString x.cur else "-"}/{tktTok (some x.store)}"

def newEffs (before after : Sys) : List (Bool × Eff) :=
  (after.log.take (after.log.length - before.log.length)).reverse

def sumTok (before after : Sys) : String :=
  let es := (newEffs before after).filter (fun pe => pe.2 != Eff.spawnFin)
  let et := if es.isEmpty then "-" else
    joinWith "," (es.map fun (p, e) => (if p then "P" else "R") ++ "." ++ effTok e)
  s!"{et}|P={partyTok after.p} R={partyTok after.r} bids={after.bids}{if after.panicked then " PANIC" else ""}"

def tryAct (s : Sys) (a : Act) : Sys := (apply s a).getD s

/-- run party `prov` until its main loop is parked: packets, then the spawned finalization, then quit. -/
def settle (prov : Bool) : Nat → Sys → Sys
  | 0, s => s
  | fuel + 1, s =>
    let x := getParty s prov
    if !x.alive || s.panicked then s else
    if (nextPkt x).isSome then
      match apply s (.proc prov) with
      | some s' => settle prov fuel s'
      | none => s
    else if x.finPend then
      match apply s (.fin prov) with
      | some s' => settle prov fuel s'
      | none => s
    else if x.quit then tryAct s (.quit prov)
    else s

/-- deliver, then run the handler but die after `k` effects (counted over the stateUpdateLoop iterations);
when the handler has at most `k` effects it completes and the party is restarted gracefully. -/
def crashRun (prov : Bool) : Nat → Nat → Sys → Sys
  | 0, _, s => s
  | fuel + 1, k, s =>
    let x := getParty s prov
    if !x.alive || s.panicked then restart prov s else
    match nextPkt x with
    | some pkt =>
      let (_, es) := procStep s prov (takePkt x) pkt
      -- `k` counts driver / mailbox calls; a goroutine spawn is not a call (it is the only effect of its clause)
      let calls := (es.filter (fun e => e != Eff.spawnFin)).length
      if k < calls then tryAct s (.procCrash prov k)
      else match apply s (.proc prov) with
        | some s' => crashRun prov fuel (k - calls) s'
        | none => s
    | none =>
      if x.finPend then
        -- the finalization handler: 2 effects
        match finStep finReturns prov x sCanceled true with
        | (some _, es) =>
          if k < es.length then restart prov (applyEffs prov s (es.take k))
          else restart prov (settle prov 8 s)
        | _ => s
      else restart prov (settle prov 8 s)

/-- finish the provider's stateUpdateLoop (no new packet is taken) -/
def finishLoop (prov : Bool) : Nat → Sys → Sys
  | 0, s => s
  | fuel + 1, s =>
    if (getParty s prov).loopPkt.isSome && (getParty s prov).alive && !s.panicked then
      match apply s (.proc prov) with
      | some s' => finishLoop prov fuel s'
      | none => s
    else s

def parseSide (s : String) : Option Bool := if s == "P" then some true else if s == "R" then some false else none

def drvStep (st : DrvSt) (args : List String) : DrvSt × String :=
  match args with
  | ["stepP", cur, recv, prov, send, upd, sub] =>
    match cur.toNat?, parseTkt recv, parseTkt prov, mkEnv send upd sub "1" "1" with
    | some cur, some recv, some prov, some env => (st, outTok (stepProvider env cur recv prov))
    | _, _, _, _ => (st, "bad-op")
  | ["stepR", cur, recv, prov, send, val, exp] =>
    match cur.toNat?, parseTkt recv, parseTkt prov, mkEnv send "1" "other" val exp with
    | some cur, some recv, some prov, some env => (st, outTok (stepRecipient env cur recv prov))
    | _, _, _, _ => (st, "bad-op")
  | ["reset"] =>
    -- both negotiators start; the recipient handles its simulated starting packet
    let s := settle false 8 init
    ({ sys := s }, sumTok init s)
  | ["dlv", side, i] =>
    match parseSide side, i.toNat? with
    | some prov, some i =>
      let s0 := st.sys
      match apply s0 (.deliver prov i) with
      | none => (st, "not-enabled")
      | some s1 => let s2 := settle prov 16 s1; ({ sys := s2 }, sumTok s0 s2)
    | _, _ => (st, "bad-op")
  | ["db", kind, seq] =>
    -- a sequence of UpdateSidecar calls on a store prepared with AddSidecarWithBid (bid) / AddSidecar (plain) /
    -- nothing (none); items `<state><n|z|b>` (order part missing / zero nonce / bid nonce)
    let db0 : Option TicketDB := match kind with
      | "bid" => some ⟨true, true, true⟩
      | "plain" => some ⟨true, false, false⟩
      | "none" => some ⟨false, false, false⟩
      | _ => none
    match db0 with
    | none => (st, "bad-op")
    | some db0 =>
      let items := seq.splitOn ","
      let step := fun (acc : Option (TicketDB × List String)) (it : String) =>
        match acc with
        | none => none
        | some (db, outs) =>
          match it.toList.reverse with
          | c :: rest =>
            match (String.ofList rest.reverse).toNat? with
            | some stt =>
              if c == 'n' || c == 'z' || c == 'b' then
                let r := updateSidecarDB db stt (c != 'n') (c == 'z')
                some (r.1, outs ++ [b01 r.2])
              else none
            | none => none
          | [] => none
      match items.foldl step (some (db0, [])) with
      | some (_, outs) => (st, joinWith "," outs)
      | none => (st, "bad-op")
  | ["outage", side] =>
    -- receive error whose first reconnect attempt fails as well: the reader just retries
    match parseSide side with
    | some prov =>
      let s0 := st.sys
      match apply s0 (.recvErr prov) with
      | none => (st, "not-enabled")
      | some s1 => ({ sys := s1 }, sumTok s0 s1)
    | none => (st, "bad-op")
  | ["rerr", side] =>
    match parseSide side with
    | some prov =>
      let s0 := st.sys
      match apply s0 (.recvErr prov) with
      | none => (st, "not-enabled")
      | some s1 => ({ sys := s1 }, sumTok s0 s1)
    | none => (st, "bad-op")
  | ["restart", side] =>
    match parseSide side with
    | some prov =>
      let s0 := st.sys
      let s1 := settle prov 8 (tryAct s0 (.stop prov))
      let s2 := settle prov 16 (restart prov s1)
      ({ sys := s2 }, sumTok s0 s2)
    | none => (st, "bad-op")
  | ["crash", side, i, k] =>
    match parseSide side, i.toNat?, k.toNat? with
    | some prov, some i, some k =>
      let s0 := st.sys
      match apply s0 (.deliver prov i) with
      | none => (st, "not-enabled")
      | some s1 =>
        let s2 := crashRun prov 16 k s1
        let s3 := settle prov 16 s2
        ({ sys := s3 }, sumTok s0 s3)
    | _, _, _ => (st, "bad-op")
  | ["fin", side, fs] =>
    match parseSide side, fs.toNat? with
    | some prov, some fs =>
      let s0 := st.sys
      match apply s0 (.finalize prov fs) with
      | none => (st, "not-enabled")
      | some s1 => let s2 := settle prov 8 s1; ({ sys := s2 }, sumTok s0 s2)
    | _, _ => (st, "bad-op")
  | [rpc, side] =>
    match parseSide side, (if rpc == "cancel" then some (Act.cancelRPC) else if rpc == "complete" then
        some (Act.completeRPC) else none) with
    | some prov, some mk =>
      let s0 := st.sys
      match apply s0 (mk prov) with
      | none => (st, "not-enabled")
      | some s1 => let s2 := settle prov 8 s1; ({ sys := s2 }, sumTok s0 s2)
    | _, _ => (st, "bad-op")
  | ["race", side, a, b, fs, ord] =>
    -- ticket `a` is handled; while its handler runs ticket `b` reaches packetChan and a local
    -- TicketExecuted(fs,false) waits for the hand-off. `bf`: the loop takes `b`, then the finalization;
    -- `fb`: the finalization first - the loop then returns and `b` is never handled.
    match parseSide side, a.toNat?, b.toNat?, fs.toNat? with
    | some prov, some a, some b, some fs =>
      let s0 := st.sys
      let ms := if prov then s0.toP else s0.toR
      if ms[a]?.isNone || ms[b]?.isNone || !(getParty s0 prov).alive then (st, "not-enabled") else
      match apply s0 (.deliver prov a) with
      | none => (st, "not-enabled")
      | some s1 =>
        let s2 := tryAct s1 (.proc prov)          -- the loop takes `a` out of packetChan
        let s3 := tryAct s2 (.deliver prov b)     -- `b` is buffered
        if ord == "bf" then
          let s4 := settle prov 16 s3
          let s5 := settle prov 8 (tryAct s4 (.finalize prov fs))
          ({ sys := s5 }, sumTok s0 s5)
        else if ord == "fb" then
          let s4 := finishLoop prov 8 s3
          let s5 := tryAct s4 (.finalize prov fs)
          let s6 := tryAct s5 (.quit prov)
          ({ sys := s6 }, sumTok s0 s6)
        else (st, "bad-op")
    | _, _, _, _ => (st, "bad-op")
  | _ => (st, "bad-op")

end Pool.C16
