import PoolModel.BatchDrv
/-! C02 line-protocol driver: the batch-verification model is shared by C01/C02/C03 (see `PoolModel/BatchDrv.lean`). -/
namespace Pool.C02
abbrev DrvSt := Pool.Batch.DrvSt
def drvInit : DrvSt := Pool.Batch.drvInit
def drvStep (s : DrvSt) (args : List String) : DrvSt × String := Pool.Batch.drvStep s args
end Pool.C02
