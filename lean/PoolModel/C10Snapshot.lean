import PoolModel.C10Order
/-! C10 – batch snapshots (/repo/clientdb/batch_snapshot.go): `serializeLocalBatchSnapshot` /
`deserializeLocalBatchSnapshot` with the nested `serializeAccounts`, `serializeOrders`,
`serializeMatchedOrder`, the duration→price map behind the zero-price marker, lnwire net addresses
(`lnwire.WriteNetAddrs` / `ReadElement(*[]net.Addr)`), and the completion of the trader's own orders from the
orders bucket in `fetchLocalBatchSnapshot`.

Go maps are association lists **in the order the serialiser happened to iterate them** (Go's map iteration
order is unspecified; the harness recovers it from the bytes); decoding yields lists in stream order, which
the Go code folds into maps. `MatchedOrders` (nonce ↦ list) is its flattening to (our nonce, match) pairs –
faithful for maps without empty lists (an empty list writes nothing and its key is lost).

Addresses: a `*net.TCPAddr` is `tcp4` when `IP.To4() != nil` (so an IPv4-mapped IPv6 address is a `tcp4`, as
`IP.Equal` sees it), else `tcp6`; a `*tor.OnionAddr` is its decoded host bytes (10 for v2, 35 for v3; the
base32 text ↔ bytes step is lnd's and not modelled); an `*lnwire.OpaqueAddrs` is its payload. -/
namespace Pool.C10
open Pool.Gen

inductive Addr where
  | tcp4 (ip : Bytes) (port : Nat)
  | tcp6 (ip : Bytes) (port : Nat)
  | onionV2 (host : Bytes) (port : Nat)
  | onionV3 (host : Bytes) (port : Nat)
  | unknown (payload : Bytes)
  deriving Repr, DecidableEq

/-- `WriteTCPAddr` / `WriteOnionAddr` / `WriteOpaqueAddrs` -/
def encAddr : Addr → Bytes
  | .tcp4 ip p => 1 :: ip ++ encU16 p
  | .tcp6 ip p => 2 :: ip ++ encU16 p
  | .onionV2 h p => 3 :: h ++ encU16 p
  | .onionV3 h p => 4 :: h ++ encU16 p
  | .unknown pl => pl

def encAddrBody (as : List Addr) : Bytes := (as.map encAddr).flatten

/-- `WriteNetAddrs`: `writeDataWithLength` puts `uint16(len(data))` – silently truncated above 65535 -/
def encAddrs (as : List Addr) : Bytes := encU16 (encAddrBody as).length ++ encAddrBody as

/-- one known address of host length `n`: host bytes then the port -/
def readHostPort (n : Nat) (mk : Bytes → Nat → Addr) : Dec Addr := do
  let h ← take n
  let p ← readU16
  pure (mk h p)

/-- the `for addrBytesRead < addrsLen` loop over the length-delimited address buffer -/
def parseAddrs : Nat → Bytes → Option (List Addr)
  | 0, _ => none
  | _ + 1, [] => some []
  | fuel + 1, d :: rest =>
    if d = 0 then parseAddrs fuel rest                       -- noAddr: skipped
    else
      let known : Option (Dec Addr) :=
        if d = 1 then some (readHostPort 4 .tcp4)
        else if d = 2 then some (readHostPort 16 .tcp6)
        else if d = 3 then some (readHostPort 10 .onionV2)
        else if d = 4 then some (readHostPort 35 .onionV3)
        else none
      match known with
      | some dec =>
        match dec rest with
        | .ok a rest' => (parseAddrs fuel rest').map (a :: ·)
        | _ => none
      | none => some [.unknown (d :: rest)]                    -- unknown type: keep everything that is left

/-- `lnwire.ReadElement(r, *[]net.Addr)` -/
def readAddrs : Dec (List Addr) := do
  let n ← readU16
  let body ← take n
  match parseAddrs (body.length + 1) body with
  | some as => pure as
  | none => Dec.fail

/-- `order.MatchedOrder` together with the key of `MatchedOrders` it is listed under -/
structure Match where
  ourNonce : Bytes
  order : Order
  multiSigKey : Bytes
  nodeKey : Bytes
  nodeAddrs : List Addr
  unitsFilled : Nat
  deriving Repr, DecidableEq

structure Snapshot where
  version : Nat
  batchID : Bytes
  clearingPrices : List (Nat × Nat)
  feeBase : Nat
  feeRate : Nat
  batchTx : Tx
  batchTxFeeRate : Nat
  accounts : List (Bytes × Account)
  orders : List (Bytes × Order)
  matched : List Match
  deriving Repr, DecidableEq

/-- run a decoder `n` times (`for i := uint32(0); i < n; i++`) -/
def readN (d : Dec α) : Nat → Dec (List α)
  | 0 => pure []
  | n + 1 => do
    let a ← d
    let as ← readN d n
    pure (a :: as)

/-- working record of the snapshot header: the snapshot and the legacy clearing price -/
structure SnapW where
  s : Snapshot
  clearingPrice : Nat

def snapTbl : String → Option (FieldCodec SnapW)
  | "uint32(b.Version)" => some ⟨fun w => encU32 w.s.version,
      fun w => do let v ← readU32; pure { w with s := { w.s with version := v } }⟩
  | "b.Version" => some ⟨fun w => encU32 w.s.version,
      fun w => do let v ← readU32; pure { w with s := { w.s with version := v } }⟩
  | "b.BatchID[:]" => some ⟨fun w => w.s.batchID,
      fun w => do let v ← take 33; pure { w with s := { w.s with batchID := v } }⟩
  | "uint32(zeroPrice)" => some ⟨fun _ => encU32 0, fun w => do let v ← readU32; pure { w with clearingPrice := v }⟩
  | "clearingPrice" => some ⟨fun _ => encU32 0, fun w => do let v ← readU32; pure { w with clearingPrice := v }⟩
  | "uint64(b.ExecutionFee.BaseFee())" => some ⟨fun w => encU64 w.s.feeBase,
      fun w => do let v ← readU64; pure { w with s := { w.s with feeBase := v } }⟩
  | "uint64(b.ExecutionFee.FeeRate())" => some ⟨fun w => encU64 w.s.feeRate,
      fun w => do let v ← readU64; pure { w with s := { w.s with feeRate := v } }⟩
  -- `*terms.LinearFeeSchedule`: base then rate
  | "b.ExecutionFee" => some ⟨fun w => encU64 w.s.feeBase ++ encU64 w.s.feeRate,
      fun w => do
        let b ← readU64
        let r ← readU64
        pure { w with s := { w.s with feeBase := b, feeRate := r } }⟩
  | "b.BatchTX" => some ⟨fun w => encTx w.s.batchTx,
      fun w => do let t ← readTx; pure { w with s := { w.s with batchTx := t } }⟩
  | "b.BatchTxFeeRate" => some ⟨fun w => encU64 w.s.batchTxFeeRate,
      fun w => do let v ← readU64; pure { w with s := { w.s with batchTxFeeRate := v } }⟩
  | _ => none

/-- sequence serialiser results -/
def Ser.append : Ser → Ser → Ser
  | .ok a, .ok b => .ok (a ++ b)
  | .panic, _ => .panic
  | .err, _ => .err
  | .ok _, .err => .err
  | .ok _, .panic => .panic

def serConcat : List Ser → Ser
  | [] => .ok []
  | x :: xs => x.append (serConcat xs)

/-- `serializeAccounts`: count, then key and account per entry -/
def serializeAccounts (as : List (Bytes × Account)) : Ser :=
  (Ser.ok (encU32 as.length)).append
    (serConcat (as.map fun (k, a) => (Ser.ok k).append (serializeAccount a)))

def deserializeAccounts : Dec (List (Bytes × Account)) := do
  let n ← readU32
  readN (do let k ← take 33; let a ← deserializeAccount; pure (k, a)) n

/-- `serializeOrders`: count, then nonce and `SerializeOrder` per entry -/
def serializeOrders (os : List (Bytes × Order)) : Bytes :=
  encU32 os.length ++ (os.map fun (n, o) => n ++ serializeOrder o).flatten

def deserializeOrders : Dec (List (Bytes × Order)) := do
  let n ← readU32
  readN (do let nonce ← take 32; let o ← deserializeOrder nonce; pure (nonce, o)) n

/-- `serializeMatchedOrder` -/
def serializeMatch (m : Match) : Bytes :=
  m.ourNonce ++ m.order.kit.nonce ++ serializeOrder m.order ++
  m.multiSigKey ++ m.nodeKey ++ encAddrs m.nodeAddrs ++ encU64 m.unitsFilled

def deserializeMatch : Dec Match := do
  let ourNonce ← take 32
  let theirNonce ← take 32
  let o ← deserializeOrder theirNonce
  let msk ← take 33
  let nk ← take 33
  let addrs ← readAddrs
  let units ← readU64
  pure ⟨ourNonce, o, msk, nk, addrs, units⟩

def emptyTx : Tx := ⟨0, [], [], 0⟩
def Snapshot.empty : Snapshot := ⟨0, [], [], 0, 0, emptyTx, 0, [], [], []⟩

/-- `serializeLocalBatchSnapshot` -/
def serializeSnapshot (s : Snapshot) : Ser :=
  (Ser.ok (encFields snapTbl (elemList "serializeLocalBatchSnapshot" 0) ⟨s, 0⟩)).append <|
  (serializeAccounts s.accounts).append <|
  Ser.ok (serializeOrders s.orders ++
    encU32 s.matched.length ++ (s.matched.map serializeMatch).flatten ++
    encU32 s.clearingPrices.length ++ (s.clearingPrices.map fun (d, p) => encU32 d ++ encU32 p).flatten)

/-- `deserializeLocalBatchSnapshot` -/
def deserializeSnapshot : Dec Snapshot := do
  let w ← decFields snapTbl (elemList "deserializeLocalBatchSnapshot" 0) ⟨Snapshot.empty, 0⟩
  let accounts ← deserializeAccounts
  let orders ← deserializeOrders
  let numMatches ← readU32
  let ms ← readN deserializeMatch numMatches
  let s := { w.s with accounts := accounts, orders := orders, matched := ms }
  if w.clearingPrice > 0 then
    -- legacy snapshot: single clearing price, nothing further is read
    pure { s with clearingPrices := [(Store.legacyLeaseDurationBucket, w.clearingPrice)] }
  else
    let numPrices ← readU32
    let ps ← readN (do let d ← readU32; let p ← readU32; pure (d, p)) numPrices
    pure { s with clearingPrices := ps }

/-- `fetchLocalBatchSnapshot`'s completion of one own order from its order bucket: minimum units match
(default 1), additional TLV data (when the key exists), node tier of bids (default `DefaultMinNodeTier`).
`none` bucket = `ErrNoOrder`. -/
def completeOrder (o : Order) (bucket : Option OrderRec) : Res Order :=
  match bucket with
  | none => .err
  | some rec =>
    match (match rec.minUnits with
           | some b => readU64 b
           | none => .ok 1 []) with
    | .ok mum _ =>
      let o := o.setKit { o.kit with minUnitsMatch := mum }
      match (match rec.tlv with
             | some t => deserializeOrderTlvData t o
             | none => .ok o []) with
      | .ok o _ =>
        match o with
        | .bid k _ s tk u z =>
          match (match rec.tier with
                 | some b => readU32 b
                 | none => .ok (enumVal Store.nodeTiers "NodeTier1") []) with
          | .ok t _ => .ok (.bid k t s tk u z) []
          | .err => .err
          | .panic => .panic
        | o => .ok o []
      | .err => .err
      | .panic => .panic
    | .err => .err
    | .panic => .panic

/-! ### well-formedness -/

def Addr.WF : Addr → Prop
  | .tcp4 ip p => ip.length = 4 ∧ WFu16 p
  | .tcp6 ip p => ip.length = 16 ∧ WFu16 p
  | .onionV2 h p => h.length = 10 ∧ WFu16 p
  | .onionV3 h p => h.length = 35 ∧ WFu16 p
  | .unknown _ => False          -- opaque (unknown-type) addresses are outside the encodable domain
instance decAddrWF : (a : Addr) → Decidable a.WF
  | .tcp4 ip p => inferInstanceAs (Decidable (ip.length = 4 ∧ WFu16 p))
  | .tcp6 ip p => inferInstanceAs (Decidable (ip.length = 16 ∧ WFu16 p))
  | .onionV2 h p => inferInstanceAs (Decidable (h.length = 10 ∧ WFu16 p))
  | .onionV3 h p => inferInstanceAs (Decidable (h.length = 35 ∧ WFu16 p))
  | .unknown _ => inferInstanceAs (Decidable False)

def Match.WF (m : Match) : Prop :=
  m.ourNonce.length = 32 ∧ m.order.kit.WF ∧ m.multiSigKey.length = 33 ∧ m.nodeKey.length = 33 ∧
  (∀ a ∈ m.nodeAddrs, a.WF) ∧ (encAddrBody m.nodeAddrs).length < 2 ^ 16 ∧ WFu64 m.unitsFilled
instance decMatchWF : Decidable (Match.WF m) := by unfold Match.WF; infer_instance

/-- Encodable domain of a snapshot: widths, a well-formed batch transaction, well-formed nested accounts and
orders keyed by 33-byte keys / their own nonces, counts that fit the uint32 prefixes. -/
def Snapshot.WF (s : Snapshot) : Prop :=
  WFu32 s.version ∧ s.batchID.length = 33 ∧ WFu64 s.feeBase ∧ WFu64 s.feeRate ∧ s.batchTx.WF ∧
  WFu64 s.batchTxFeeRate ∧
  (∀ p ∈ s.accounts, p.1.length = 33 ∧ p.2.WF) ∧ WFu32 s.accounts.length ∧
  (∀ p ∈ s.orders, p.1 = p.2.kit.nonce ∧ p.2.kit.WF) ∧ WFu32 s.orders.length ∧
  (∀ m ∈ s.matched, m.WF) ∧ WFu32 s.matched.length ∧
  (∀ p ∈ s.clearingPrices, WFu32 p.1 ∧ WFu32 p.2) ∧ WFu32 s.clearingPrices.length
instance decSnapshotWF : Decidable (Snapshot.WF s) := by unfold Snapshot.WF; infer_instance

/-- what the snapshot blob keeps: every nested order reduced to its base fields -/
def Snapshot.proj (s : Snapshot) : Snapshot :=
  { s with orders := s.orders.map fun (n, o) => (n, o.baseProj),
           matched := s.matched.map fun m => { m with order := m.order.baseProj } }

end Pool.C10
