import PoolModel.Digest
import PoolModel.Generated.TicketDigestFacts
import PoolModel.Generated.CodecFacts
/-!
# C14 model — sidecar ticket digests and signatures

Mirrors, function by function,
* `/repo/sidecar/interfaces.go`   `Ticket.OfferDigest`, `Ticket.OrderDigest`
* `/repo/sidecar/verification.go` `SignOffer`, `VerifyOffer`, `SignOrder`, `VerifyOrder`
* `/repo/order/interfaces.go`     `CheckOfferParams`, `CheckOfferParamsForOrder`
* `/repo/order/manager.go`        `manager.validateAndSignTicketForOrder`
* `/repo/sidecar_acceptor.go`     `validateOrderedTicket`, `SidecarAcceptor.RegisterSidecar` (guards)

The hashed preimages are NOT restated here: they are built from the argument lists regenerated from the Go
source (`Generated/TicketDigestFacts.lean`).  SHA-256 is a parameter `H`; signatures are ideal
(`verify pk m σ ⇔ σ = ⟨pk, m⟩`).
-/
namespace Pool.C14
open Pool.Digest

abbrev Key := Nat
abbrev Bytes := List UInt8

/-- ideal signature: the pair (signing key, signed message) -/
structure Sig where
  signer : Key
  msg : Bytes
deriving DecidableEq, Repr

def verify (pk : Key) (m : Bytes) (σ : Sig) : Bool := σ.signer == pk && σ.msg == m

/-- `sidecar.Recipient` (pointer fields may be nil) -/
structure Recipient where
  nodeKey : Option Key
  multiSigKey : Option Key
  idx : Nat
deriving DecidableEq, Repr

/-- `sidecar.Order` -/
structure Order where
  bidNonce : Bytes            -- [32]byte
  sig : Option Sig            -- SigOrderDigest
deriving DecidableEq, Repr

/-- `sidecar.Ticket` with its `Offer` flattened; `Execution` is not read by any modelled function -/
structure Ticket where
  id : Bytes                  -- [8]byte
  version : Nat               -- uint8
  state : Nat                 -- uint8
  capacity : Int              -- Offer.Capacity  (btcutil.Amount = int64)
  pushAmt : Int               -- Offer.PushAmt
  leaseDuration : Nat         -- Offer.LeaseDurationBlocks
  signPubKey : Option Key     -- Offer.SignPubKey
  sigOffer : Option Sig       -- Offer.SigOfferDigest
  auto : Bool
  unannounced : Bool
  zeroConf : Bool
  recipient : Option Recipient
  order : Option Order
deriving DecidableEq, Repr

/-! ## digests, from the regenerated argument lists -/

/-- the source expressions that may appear as `WriteElements` arguments of the ticket digests -/
inductive Term
  | id | version | capacity | pushAmt | auto | unannounced | zeroConf | bidNonce | leaseDuration | state
deriving DecidableEq, Repr

def parseExpr : String → Option Term
  | "t.ID[:]" => some .id
  | "uint8(t.Version)" => some .version
  | "t.Offer.Capacity" => some .capacity
  | "t.Offer.PushAmt" => some .pushAmt
  | "t.Offer.Auto" => some .auto
  | "t.Offer.UnannouncedChannel" => some .unannounced
  | "t.Offer.ZeroConfChannel" => some .zeroConf
  | "t.Order.BidNonce[:]" => some .bidNonce
  | "t.Offer.LeaseDurationBlocks" => some .leaseDuration
  | "uint8(t.State)" => some .state
  | _ => none

/-- value written for a term; `none` = nil dereference of `t.Order` (a Go panic) -/
def encTerm (t : Ticket) : Term → Option FV
  | .id => some (.raw t.id)
  | .version => some (.num 1 t.version)
  | .capacity => some (.num 8 (u64OfInt t.capacity))
  | .pushAmt => some (.num 8 (u64OfInt t.pushAmt))
  | .auto => some (.num 1 (boolNat t.auto))
  | .unannounced => some (.num 1 (boolNat t.unannounced))
  | .zeroConf => some (.num 1 (boolNat t.zeroConf))
  | .bidNonce => t.order.map fun o => .raw o.bidNonce
  | .leaseDuration => some (.num 4 t.leaseDuration)
  | .state => some (.num 1 t.state)

/-- version switch table: (case values, ordered terms) -/
abbrev Table := List (List Nat × List Term)

def compileFn (f : Gen.DigestFn) : Option Table :=
  f.cases.mapM fun c => do
    let ts ← c.args.mapM fun a => parseExpr a.expr
    pure (c.versions, ts)

def offerTable : Option Table := compileFn Gen.C14.ticketOfferDigest
def orderTable : Option Table := compileFn Gen.C14.ticketOrderDigest

/-- Go `switch v { case …: }`: the first clause listing `v` -/
def lookupCase (tbl : Table) (v : Nat) : Option (List Term) :=
  (tbl.find? fun c => c.1.contains v).map (·.2)

inductive Err
  | state | offerState | unsigned | orderUnsigned | nonceEmpty
  | digestVersion | digestState | badSig | panic | facts
  | ticketState | recipient | notOurs | market | capacity | pushAmt | pushOut | bidAmt | minUnits
  | bidLease | bidPush | bidUnannounced | bidZeroConf
  | exists | unknown
deriving DecidableEq, Repr

/-- all arguments are evaluated before the call: one nil dereference panics the whole call -/
def encTerms (t : Ticket) : List Term → Option (List FV)
  | [] => some []
  | x :: xs =>
    match encTerm t x, encTerms t xs with
    | some a, some l => some (a :: l)
    | _, _ => none

def preimageOf (tbl : Option Table) (t : Ticket) : Except Err Bytes :=
  match tbl with
  | none => .error .facts
  | some tbl =>
    match lookupCase tbl t.version with
    | none => .error .digestVersion                -- default: "unknown version"
    | some ts =>
      match encTerms t ts with
      | none => .error .panic
      | some fvs => .ok (encAll fvs)

/-- bytes hashed by `Ticket.OfferDigest` -/
def offerPreimage (t : Ticket) : Except Err Bytes := preimageOf offerTable t

def stateOffered := Gen.C14.sidecarStateOffered
def stateRegistered := Gen.C14.sidecarStateRegistered
def stateOrdered := Gen.C14.sidecarStateOrdered

/-- bytes hashed by `Ticket.OrderDigest` (guard `t.State < StateOrdered || t.Order == nil` first) -/
def orderPreimage (t : Ticket) : Except Err Bytes :=
  if t.state < stateOrdered || t.order.isNone then .error .digestState
  else preimageOf orderTable t

def offerDigest (H : Bytes → Bytes) (t : Ticket) : Except Err Bytes := (offerPreimage t).map H
def orderDigest (H : Bytes → Bytes) (t : Ticket) : Except Err Bytes := (orderPreimage t).map H

/-! ## sidecar/verification.go -/

/-- `SignOffer(ctx, ticket, loc, signer)`; `k` = the key the signer holds at `loc` -/
def signOffer (H : Bytes → Bytes) (t? : Option Ticket) (k : Key) : Except Err Ticket :=
  match t? with
  | none => .error .state
  | some t =>
    if t.state < stateOffered then .error .state
    else if t.signPubKey.isNone || t.sigOffer.isSome then .error .offerState
    else match offerDigest H t with
      | .error e => .error e
      | .ok d => .ok { t with sigOffer := some ⟨k, d⟩ }

/-- `VerifyOffer(ctx, ticket, signer)` -/
def verifyOffer (H : Bytes → Bytes) (t? : Option Ticket) : Except Err Unit :=
  match t? with
  | none => .error .state
  | some t =>
    if t.state < stateOffered then .error .state
    else match t.signPubKey, t.sigOffer with
      | some pk, some σ =>
        match offerDigest H t with
        | .error e => .error e
        | .ok d => if verify pk d σ then .ok () else .error .badSig
      | _, _ => .error .unsigned

def zeroNonce : Bytes := List.replicate 32 0

/-- `if ticket.Order == nil { ticket.Order = &Order{} }; ticket.Order.BidNonce = bidNonce` -/
def withNonce (o? : Option Order) (nonce : Bytes) : Order :=
  match o? with
  | none => { bidNonce := nonce, sig := none }
  | some o => { o with bidNonce := nonce }

/-- `SignOrder(ctx, ticket, bidNonce, loc, signer)`: the ticket is mutated (order part added, state set to
ordered) BEFORE the digest can fail, so the ticket after the call is returned next to the error. -/
def signOrder (H : Bytes → Bytes) (t? : Option Ticket) (nonce : Bytes) (k : Key) :
    Option Ticket × Option Err :=
  match t? with
  | none => (none, some .state)
  | some t =>
    if t.state < stateRegistered then (some t, some .state)
    else if t.signPubKey.isNone || t.sigOffer.isNone then (some t, some .unsigned)
    else
      let o : Order := withNonce t.order nonce
      let t1 := { t with order := some o, state := stateOrdered }
      match orderDigest H t1 with
      | .error e => (some t1, some e)
      | .ok d => (some { t1 with order := some { o with sig := some ⟨k, d⟩ } }, none)

/-- `VerifyOrder(ctx, ticket, signer)` -/
def verifyOrder (H : Bytes → Bytes) (t? : Option Ticket) : Except Err Unit :=
  match t? with
  | none => .error .state
  | some t =>
    if t.state < stateOrdered then .error .state
    else if t.signPubKey.isNone || t.sigOffer.isNone then .error .unsigned
    else match t.order with
      | none => .error .orderUnsigned
      | some o =>
        match o.sig, t.signPubKey with
        | some σ, some pk =>
          if o.bidNonce == zeroNonce then .error .nonceEmpty
          else match orderDigest H t with
            | .error e => .error e
            | .ok d => if verify pk d σ then .ok () else .error .badSig
        | _, _ => .error .orderUnsigned

/-! ## order/interfaces.go: CheckOfferParams / CheckOfferParamsForOrder -/

def baseUnit : Int := Gen.C14.orderBaseSupplyUnit
def inbound := Gen.C14.orderBTCInboundLiquidity
def outbound := Gen.C14.orderBTCOutboundLiquidity

/-- `CheckOfferParams(auctionType, capacity, pushAmt, baseSupplyUnit)` -/
def checkOfferParams (auctionType : Nat) (capacity pushAmt base : Int) : Option Err :=
  if capacity == 0 || capacity % base != 0 then some .capacity
  else if auctionType == inbound && pushAmt > capacity then some .pushAmt
  else if auctionType == outbound && (pushAmt == 0 || pushAmt % base != 0) then some .pushOut
  else none

/-- `CheckOfferParamsForOrder(auctionType, offer, bidAmt, bidMinUnitsMatch, baseSupplyUnit)`; the call
site passes `btcutil.Amount(bid.MinUnitsMatch)` (uint64 → int64) and the product wraps like int64. -/
def checkOfferParamsForOrder (auctionType : Nat) (t : Ticket) (bidAmt : Int) (minUnits : Nat) : Option Err :=
  if auctionType != inbound then some .market
  else match checkOfferParams auctionType t.capacity t.pushAmt baseUnit with
    | some e => some e
    | none =>
      if t.capacity != bidAmt then some .bidAmt
      else if t.capacity != wrapI64 ((minUnits : Int) * baseUnit) then some .minUnits
      else none

/-- the terms of the bid that `validateAndSignTicketForOrder` reads (incl. `CheckOfferMatchesBid`) -/
structure BidTerms where
  auctionType : Nat           -- uint32
  amt : Int                   -- btcutil.Amount
  minUnitsMatch : Nat         -- SupplyUnit = uint64
  nonce : Bytes               -- [32]byte
  leaseDuration : Nat         -- uint32
  selfChanBalance : Int       -- btcutil.Amount
  unannounced : Bool
  zeroConf : Bool
deriving DecidableEq, Repr

/-- `CheckOfferMatchesBid(offer, bid)`: the channel parameters of the bid are the ones promised in the
offer; an offer lease duration of zero does not restrict the bid. -/
def checkOfferMatchesBid (t : Ticket) (bid : BidTerms) : Option Err :=
  if t.leaseDuration != 0 && t.leaseDuration != bid.leaseDuration then some .bidLease
  else if t.pushAmt != bid.selfChanBalance then some .bidPush
  else if t.unannounced != bid.unannounced then some .bidUnannounced
  else if t.zeroConf != bid.zeroConf then some .bidZeroConf
  else none

/-- `manager.validateAndSignTicketForOrder(ctx, t, bid, acct)`: `acctKey` = `acct.TraderKey.PubKey`,
`k` = the key the manager's signer holds at `acct.TraderKey.KeyLocator`. -/
def validateAndSign (H : Bytes → Bytes) (t : Ticket) (bid : BidTerms) (acctKey k : Key) :
    Ticket × Option Err :=
  if t.state != stateRegistered then (t, some .ticketState)
  else match t.recipient with
    | none => (t, some .recipient)
    | some r =>
      if r.nodeKey.isNone || r.multiSigKey.isNone then (t, some .recipient)
      else match verifyOffer H (some t) with
        | .error e => (t, some e)
        | .ok () =>
          if t.signPubKey != some acctKey then (t, some .notOurs)
          else match checkOfferParamsForOrder bid.auctionType t bid.amt bid.minUnitsMatch with
            | some e => (t, some e)
            | none =>
              match checkOfferMatchesBid t bid with
              | some e => (t, some e)
              | none =>
                match signOrder H (some t) bid.nonce k with
                | (some t', e) => (t', e)
                | (none, e) => (t, e)

/-! ## sidecar_acceptor.go guards -/

/-- `validateOrderedTicket(ctx, t, signer, db)`; `known` = `db.Sidecar(t.ID, t.Offer.SignPubKey)` finds it -/
def validateOrderedTicket (H : Bytes → Bytes) (t : Ticket) (known : Bool) : Option Err :=
  if t.state != stateOrdered then some .ticketState
  else match verifyOffer H (some t) with
    | .error e => some e
    | .ok () =>
      match verifyOrder H (some t) with
      | .error e => some e
      | .ok () => if known then none else some .unknown

/-- `SidecarAcceptor.RegisterSidecar(ctx, ticket)`; `known` as above, `nodeKey` = cfg.NodePubKey,
`(msKey, idx)` = the freshly derived multisig key. -/
def registerSidecar (H : Bytes → Bytes) (t : Ticket) (known : Bool) (nodeKey msKey : Key) (idx : Nat) :
    Except Err Ticket :=
  match verifyOffer H (some t) with
  | .error e => .error e
  | .ok () =>
    if known then .error .exists
    else .ok { t with state := stateRegistered,
                      recipient := some { nodeKey := some nodeKey, multiSigKey := some msKey, idx := idx } }

end Pool.C14
