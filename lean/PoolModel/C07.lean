import PoolModel.Generated.AcctModFacts
/-!
# C07 — model of account modifications (deposit / withdraw / renew / close)

Mirrors, function by function, `/repo/account/manager.go` (`valueAfterAccountUpdate`,
`addBaseAccountModificationWeight`, `inputsForDeposit`, `createNewAccountOutput`, `createSpendTx`,
`spendAccount`, `sanityCheckAccountSpendTx`, `validateAccountExpiry`, `validateAccountValue`,
`determineWitnessType`, `DepositAccount`, `WithdrawAccount`, `RenewAccount`, `CloseAccount`) and
`/repo/account/interfaces.go` (`OutputWithFee.CloseOutputs`, `OutputsWithImplicitFee.CloseOutputs`), together with
the third-party arithmetic they call: lnd `input.TxWeightEstimator`, `chainfee.SatPerKWeight.FeeForWeight`,
`lnwallet.DustLimitForSize`, btcd `blockchain.CheckTransactionSanity` (value-range / duplicate-input part),
`mempool.GetDustThreshold` / `txrules.IsDustOutput`, `txscript.ParsePkScript` classification and BIP-69 sorting.

Amounts are unbounded `Int` (Go: `int64`; see `InDomain` in the proofs for the overflow guard), heights are `UInt32`
(the property is about the wrap corner of `validateAccountExpiry`).  Keys, scripts of account outputs, signatures and
transaction ids are not modelled: the account script is an uninterpreted function `scriptOf (version, expiry, batch
counter)` supplied per run as an oracle table, the txid of the spend is the symbol `self`.
Constants and the per-script-class switch tables come from `Generated/AcctModFacts.lean`.
-/
namespace Pool.C07
open Pool.Gen.C07

abbrev Script := List UInt8

/-! ## btcd `txscript`: script classification -/

/-- classes accepted by `txscript.ParsePkScript` (`isSupportedScriptType`); everything else is `unsupported` -/
inductive ScriptClass
  | pubKeyHash | scriptHash | witnessV0PubKeyHash | witnessV0ScriptHash | witnessV1Taproot | unsupported
deriving DecidableEq, Repr

/-- the name of the class constant in btcd, used as key into the regenerated switch tables -/
def ScriptClass.name : ScriptClass → String
  | .pubKeyHash => "PubKeyHashTy"
  | .scriptHash => "ScriptHashTy"
  | .witnessV0PubKeyHash => "WitnessV0PubKeyHashTy"
  | .witnessV0ScriptHash => "WitnessV0ScriptHashTy"
  | .witnessV1Taproot => "WitnessV1TaprootTy"
  | .unsupported => "NonStandardTy"

/-- `txscript.ParsePkScript(..).Class()`: template match of the five supported standard forms
(`extractPubKeyHash`, `extractScriptHash`, `extractWitnessPubKeyHash`, `extractWitnessV0ScriptHash`,
`extractWitnessV1KeyBytes`). -/
def classify (s : Script) : ScriptClass :=
  if s.length == 25 && s.take 3 == [0x76, 0xa9, 0x14] && s.drop 23 == [0x88, 0xac] then .pubKeyHash
  else if s.length == 23 && s.take 2 == [0xa9, 0x14] && s.drop 22 == [0x87] then .scriptHash
  else if s.length == 22 && s.take 2 == [0x00, 0x14] then .witnessV0PubKeyHash
  else if s.length == 34 && s.take 2 == [0x00, 0x20] then .witnessV0ScriptHash
  else if s.length == 34 && s.take 2 == [0x51, 0x20] then .witnessV1Taproot
  else .unsupported

/-- one step of `txscript.ScriptTokenizer.Next`: `(opcode, data, rest)`; `none` on a malformed push -/
def nextOp : Script → Option (UInt8 × Script × Script)
  | [] => none
  | op :: rest =>
    if 0x01 ≤ op ∧ op ≤ 0x4b then
      if rest.length < op.toNat then none else some (op, rest.take op.toNat, rest.drop op.toNat)
    else if op = 0x4c then
      match rest with
      | a :: r => if r.length < a.toNat then none else some (op, r.take a.toNat, r.drop a.toNat)
      | _ => none
    else if op = 0x4d then
      match rest with
      | a :: b :: r =>
        let n := a.toNat + 256 * b.toNat
        if r.length < n then none else some (op, r.take n, r.drop n)
      | _ => none
    else if op = 0x4e then
      match rest with
      | a :: b :: c :: d :: r =>
        let n := a.toNat + 256 * b.toNat + 65536 * c.toNat + 16777216 * d.toNat
        if r.length < n then none else some (op, r.take n, r.drop n)
      | _ => none
    else some (op, [], rest)

/-- `checkScriptParses == nil` -/
def scriptParses : Nat → Script → Bool
  | _, [] => true
  | 0, _ => false
  | fuel + 1, s =>
    match nextOp s with
    | none => false
    | some (_, _, rest) => scriptParses fuel rest

/-- `txscript.IsSmallInt` -/
def isSmallInt (op : UInt8) : Bool := op == 0x00 || (0x51 ≤ op && op ≤ 0x60)

/-- `txscript.isCanonicalPush` -/
def isCanonicalPush (op : UInt8) (data : Script) : Bool :=
  if op > 0x60 then true
  else if op < 0x4c && op > 0x00 && (data.length == 1 && (data.headD 0) ≤ 16) then false
  else if op == 0x4c && data.length < 0x4c then false
  else if op == 0x4d && data.length ≤ 0xff then false
  else if op == 0x4e && data.length ≤ 0xffff then false
  else true

/-- `txscript.IsWitnessProgram` -/
def isWitnessProgram (s : Script) : Bool :=
  if s.length < 4 || s.length > 42 then false else
  match nextOp s with
  | none => false
  | some (op1, _, r1) =>
    if !isSmallInt op1 then false else
    match nextOp r1 with
    | none => false
    | some (op2, d2, r2) => isCanonicalPush op2 d2 && r2.isEmpty

/-- `txscript.GetScriptClass(s) == NullDataTy` (a script starting with OP_RETURN matches none of the earlier
classes of `typeOfScript`) -/
def isNullData (s : Script) : Bool :=
  match s with
  | [] => false
  | op :: rest =>
    if op != 0x6a then false
    else if rest.isEmpty then true
    else match nextOp rest with
      | none => false
      | some (o, d, r) => r.isEmpty && (isSmallInt o || o ≤ 0x4e) && d.length ≤ 80

/-- `txscript.IsUnspendable` -/
def isUnspendable (s : Script) : Bool :=
  (s.headD 0 == 0x6a && !s.isEmpty) || s.length > 10000 || !scriptParses (s.length + 1) s

/-- `wire.VarIntSerializeSize` -/
def varIntSize (n : Nat) : Nat :=
  if n < 0xfd then 1 else if n ≤ 0xffff then 3 else if n ≤ 0xffffffff then 5 else 9

/-! ## transactions -/

structure TxOut where
  value : Int
  script : Script
deriving DecidableEq, Repr

/-- `wire.TxOut.SerializeSize` -/
def TxOut.serializeSize (o : TxOut) : Nat := 8 + varIntSize o.script.length + o.script.length

/-- `mempool.GetDustThreshold` -/
def dustThreshold (o : TxOut) : Int :=
  3 * ((o.serializeSize + 41 + (if isWitnessProgram o.script then 107 / witnessScaleFactor else 107) : Nat) : Int)

/-- `txrules.IsDustOutput(o, DefaultRelayFeePerKb = 1000)` (callers have already excluded negative values) -/
def isDustOutput (o : TxOut) : Bool :=
  if isNullData o.script then false
  else if isUnspendable o.script then true
  else decide (Int.tdiv (o.value * 1000) (dustThreshold o) < 1000)

/-- an outpoint; `hash` is the txid in display (big-endian) byte order, which is the order BIP-69 compares -/
structure OutPoint where
  hash : List UInt8
  index : Nat
deriving DecidableEq, Repr

/-- a transaction input together with the PSBT data the sanity check looks at -/
structure TxIn where
  prev : OutPoint
  /-- `WitnessUtxo.Value` -/
  utxoValue : Int
  /-- `WitnessUtxo.PkScript` -/
  utxoScript : Script
  /-- `len(RedeemScript)` (np2wkh wallet inputs); the signature script is one push of it -/
  redeemLen : Nat
deriving DecidableEq, Repr

structure Tx where
  inputs : List TxIn
  outputs : List TxOut
  lockTime : Nat
deriving DecidableEq, Repr

/-- lexicographic `bytes.Compare a b < 0` -/
def bytesLt : List UInt8 → List UInt8 → Bool
  | [], [] => false
  | [], _ :: _ => true
  | _ :: _, [] => false
  | a :: as, b :: bs => if a < b then true else if b < a then false else bytesLt as bs

/-- BIP-69 output order (`txsort.sortableOutputSlice.Less`) -/
def outLt (a b : TxOut) : Bool :=
  if a.value == b.value then bytesLt a.script b.script else decide (a.value < b.value)

/-- BIP-69 input order (`txsort.sortableInputSlice.Less`) -/
def inLt (a b : TxIn) : Bool :=
  if a.prev.hash == b.prev.hash then decide (a.prev.index < b.prev.index) else bytesLt a.prev.hash b.prev.hash

def insertBy (lt : α → α → Bool) (x : α) : List α → List α
  | [] => [x]
  | y :: ys => if lt y x then y :: insertBy lt x ys else x :: y :: ys

/-- insertion sort (ties: the elements are indistinguishable for everything the model observes) -/
def sortBy (lt : α → α → Bool) (l : List α) : List α := l.foldr (insertBy lt) []

def sumValues (os : List TxOut) : Int := (os.map (·.value)).sum

/-- `poolscript.LocateOutputScript`: index of the first output carrying the script -/
def locateScript (s : Script) : List TxOut → Option Nat
  | [] => none
  | o :: os => if o.script = s then some 0 else (locateScript s os).map (· + 1)

/-! ## lnd `input.TxWeightEstimator`, `chainfee.FeeForWeight`, `lnwallet.DustLimitForSize` -/

structure Twe where
  hasWitness : Bool := false
  inputCount : Nat := 0
  outputCount : Nat := 0
  inputSize : Nat := 0
  inputWitnessSize : Nat := 0
  outputSize : Nat := 0
deriving Repr

/-- `AddWitnessInput(witnessSize)` -/
def Twe.addWitnessInput (t : Twe) (w : Nat) : Twe :=
  { t with inputSize := t.inputSize + InputSize, inputWitnessSize := t.inputWitnessSize + w,
           inputCount := t.inputCount + 1, hasWitness := true }

/-- `AddP2xxOutput()` with the class's output size -/
def Twe.addOutput (t : Twe) (sz : Nat) : Twe :=
  { t with outputSize := t.outputSize + sz, outputCount := t.outputCount + 1 }

/-- `Weight()` -/
def Twe.weight (t : Twe) : Nat :=
  (BaseTxSize + varIntSize t.inputCount + t.inputSize + varIntSize t.outputCount + t.outputSize) * witnessScaleFactor
    + (if t.hasWitness then WitnessHeaderSize + t.inputWitnessSize else 0)

/-- `SatPerKWeight.FeeForWeight`: `rate * weight / 1000`, Go's truncating division -/
def feeForWeight (rate : Int) (w : Nat) : Int := Int.tdiv (rate * (w : Int)) 1000

/-- `lnwallet.DustLimitForSize`: `GetDustThreshold` of a generated script of that size (`none` = Go panics) -/
def dustLimitForSize (sz : Nat) : Option Int :=
  if sz = P2WPKHSize ∨ sz = P2WSHSize ∨ sz = 42 then some (3 * ((8 + 1 + sz + 41 + 107 / witnessScaleFactor : Nat) : Int))
  else if sz = P2SHSize ∨ sz = P2PKHSize then some (3 * ((8 + 1 + sz + 41 + 107 : Nat) : Int))
  else none

/-! ## account/manager.go: witness types -/

/-- `witnessType.witnessSize` (regenerated table; `none` = "unknown witness type") -/
def witnessSize (wt : Nat) : Option Nat := (witnessSizeTable.find? (·.1 == wt)).map (·.2)

/-- `witnessType.IsExpirySpend` -/
def isExpirySpend (wt : Nat) : Bool := expirySpendTypes.contains wt

structure Account where
  value : Int
  expiry : UInt32
  state : Nat
  version : Nat
  /-- number of `IncrementBatchKey` steps applied to the batch key -/
  batchCtr : Nat
  outPoint : OutPoint
  heightHint : UInt32 := 0
deriving DecidableEq, Repr

/-- `determineWitnessType` -/
def determineWitnessType (a : Account) (best : UInt32) : Nat :=
  if a.version = VersionTaprootEnabled ∨ a.version = VersionMuSig2V100RC2 then
    if a.state = StateExpired ∨ best ≥ a.expiry then wt_expiryTaproot else wt_muSig2Taproot
  else
    if a.state = StateExpired ∨ best ≥ a.expiry then wt_expiryWitness else wt_multiSigWitness

/-- uninterpreted account script `poolscript.AccountScript(version.ScriptVersion(), expiry, keys(batchCtr))` -/
abbrev ScriptOf := Nat → UInt32 → Nat → Script

/-- `Account.Output` -/
def Account.output (so : ScriptOf) (a : Account) : TxOut := ⟨a.value, so a.version a.expiry a.batchCtr⟩

/-! ## refusals -/

inductive Refusal
  | badState | downgrade | termsFail | aboveMax | expiryLow | expiryHigh
  | unparsable | unsupportedScript | belowMin | unknownWitness | closeDust | ownScript
  | fundFail | fundWrongScript | fundWrongValue
  | scriptNotFound | expiredNoModify
  | noInputs | noOutputs | negativeOutput | outputTooLarge | totalTooLarge | duplicateInputs
  | dustOutput | unsupportedInput | outputsExceedInputs | feeBelowRelay
  | auctioneerFail | storeFail | publishFail
deriving DecidableEq, Repr

/-! ## `valueAfterAccountUpdate`, `addBaseAccountModificationWeight` -/

/-- `addBaseAccountModificationWeight` -/
def addBaseWeight (t : Twe) (wt : Nat) : Except Refusal Twe :=
  match witnessSize wt with
  | none => .error .unknownWitness
  | some w => .ok ((t.addWitnessInput w).addOutput baseAccountOutputSize)

/-- the output loop of `valueAfterAccountUpdate`: estimator and running total -/
def vauLoop : Twe → Int → List TxOut → Except Refusal (Twe × Int)
  | t, tot, [] => .ok (t, tot)
  | t, tot, o :: os =>
    match classify o.script with
    | .unsupported => .error .unparsable
    | c =>
      match vauOutputSwitch.find? (·.1 == c.name) with
      | none => .error .unsupportedScript
      | some e => vauLoop (t.addOutput e.2) (tot + o.value) os

/-- `valueAfterAccountUpdate` -/
def valueAfterAccountUpdate (value : Int) (outputs : List TxOut) (wt : Nat) (rate : Int) : Except Refusal Int :=
  match addBaseWeight {} wt with
  | .error r => .error r
  | .ok t0 =>
    match vauLoop t0 0 outputs with
    | .error r => .error r
    | .ok (t, total) =>
      let nv := value - total - feeForWeight rate t.weight
      if nv < MinAccountValue then .error .belowMin else .ok nv

/-! ## `validateAccountExpiry`, `validateAccountValue` -/

/-- `validateAccountExpiry`.  `expiryWindowWide` (regenerated from the source) tells whether the window bounds are
computed in 64 bits; otherwise they are `uint32` sums that wrap. -/
def validateAccountExpiry (expiry best : UInt32) : Except Refusal Unit :=
  if expiryWindowWide then
    if expiry.toNat < best.toNat + minAccountExpiry then .error .expiryLow
    else if expiry.toNat > best.toNat + maxAccountExpiry then .error .expiryHigh
    else .ok ()
  else
    if expiry < best + UInt32.ofNat minAccountExpiry then .error .expiryLow
    else if expiry > best + UInt32.ofNat maxAccountExpiry then .error .expiryHigh
    else .ok ()

/-- `validateAccountValue` -/
def validateAccountValue (value maxValue : Int) : Except Refusal Unit :=
  if value < MinAccountValue then .error .belowMin
  else if value > maxValue then .error .aboveMax
  else .ok ()

/-! ## fee expressions (account/interfaces.go) -/

/-- `OutputWithFee.CloseOutputs` -/
def outputWithFeeCloseOutputs (script : Script) (rate : Int) (value : Int) (wt : Nat) :
    Except Refusal (List TxOut) :=
  match witnessSize wt with
  | none => .error .unknownWitness
  | some w =>
    let t := ({} : Twe).addWitnessInput w
    match classify script with
    | .unsupported => .error .unparsable
    | c =>
      -- a class without a `case` adds no output weight and has dust limit 0
      let (t, dust) : Twe × Int :=
        match closeOutputSwitch.find? (·.1 == c.name) with
        | none => (t, 0)
        | some e => (t.addOutput e.2.1, (dustLimitForSize e.2.2).getD 0)
      let fee := feeForWeight rate t.weight
      let ov := value - fee
      if ov < dust then .error .closeDust else .ok [⟨ov, script⟩]

/-- `OutputWithFee` (`script = none`: Go's `PkScript == nil`, a wallet address is used) / `OutputsWithImplicitFee` -/
inductive FeeExpr
  | outputWithFee (script : Option Script) (rate : Int)
  | implicit (outputs : List TxOut)
deriving Repr

/-- `witnessType.scriptVersion() == VersionTaprootMuSig2` -/
def wtIsTaproot (wt : Nat) : Bool := wt = wt_expiryTaproot ∨ wt = wt_muSig2Taproot

/-- `FeeExpr.CloseOutputs`, preceded by `CloseAccount`'s substitution of a wallet script (`walletScript taproot?`:
P2TR for taproot accounts, P2WKH otherwise) for a missing `OutputWithFee.PkScript` -/
def FeeExpr.closeOutputs (f : FeeExpr) (walletScript : Bool → Script) (value : Int) (wt : Nat) :
    Except Refusal (List TxOut) :=
  match f with
  | .outputWithFee s r => outputWithFeeCloseOutputs (s.getD (walletScript (wtIsTaproot wt))) r value wt
  | .implicit os => .ok os

/-! ## `createNewAccountOutput`, `createSpendTx` -/

inductive Modifier
  | value (v : Int) | incBatchKey | expiry (e : UInt32) | version (v : Nat) | state (s : Nat)
  | outPoint (idx : Nat) | heightHint (h : UInt32) | latestTx
deriving DecidableEq, Repr

/-- the txid of the spending transaction under construction -/
def selfHash : List UInt8 := []

def Modifier.apply (a : Account) : Modifier → Account
  | .value v => { a with value := v }
  | .incBatchKey => { a with batchCtr := a.batchCtr + 1 }
  | .expiry e => { a with expiry := e }
  | .version v => { a with version := v }
  | .state s => { a with state := s }
  | .outPoint i => { a with outPoint := ⟨selfHash, i⟩ }
  | .heightHint h => { a with heightHint := h }
  | .latestTx => a

/-- `account.Copy(modifiers...)` -/
def applyMods (a : Account) (ms : List Modifier) : Account := ms.foldl Modifier.apply a

/-- `createNewAccountOutput` -/
def createNewAccountOutput (so : ScriptOf) (a : Account) (newValue : Int) (newExpiry : Option UInt32)
    (newVersion : Nat) : TxOut × List Modifier :=
  let ms := [Modifier.value newValue, .incBatchKey]
    ++ (match newExpiry with | some e => [.expiry e] | none => [])
    ++ (if newVersion > a.version then [.version newVersion] else [])
  ((applyMods a ms).output so, ms)

/-- the account's own input as it appears in the spend -/
def Account.txIn (so : ScriptOf) (a : Account) : TxIn := ⟨a.outPoint, a.value, (a.output so).script, 0⟩

/-- `createSpendTx`: one input (the account outpoint), the given outputs, BIP-69 sorted -/
def createSpendTx (so : ScriptOf) (a : Account) (outputs : List TxOut) : Tx :=
  { inputs := [a.txIn so], outputs := sortBy outLt outputs, lockTime := 0 }

/-! ## `sanityCheckAccountSpendTx` -/

def maxSatoshi : Int := 2100000000000000

/-- value-range loop of `blockchain.CheckTransactionSanity` -/
def checkOutputRange : Int → List TxOut → Except Refusal Unit
  | _, [] => .ok ()
  | tot, o :: os =>
    if o.value < 0 then .error .negativeOutput
    else if o.value > maxSatoshi then .error .outputTooLarge
    else if tot + o.value > maxSatoshi then .error .totalTooLarge
    else checkOutputRange (tot + o.value) os

def hasDupInputs : List OutPoint → Bool
  | [] => false
  | p :: ps => ps.contains p || hasDupInputs ps

/-- `MsgTx.SerializeSizeStripped` of the unsigned tx with the np2wkh signature scripts filled in -/
def Tx.strippedSize (tx : Tx) : Nat :=
  8 + varIntSize tx.inputs.length
    + (tx.inputs.map fun i =>
        let ss := if i.redeemLen = 0 then 0 else
          (if i.redeemLen < 0x4c then 1 else if i.redeemLen ≤ 0xff then 2 else 3) + i.redeemLen
        40 + varIntSize ss + ss).sum
    + varIntSize tx.outputs.length + (tx.outputs.map TxOut.serializeSize).sum

/-- the input loop of `sanityCheckAccountSpendTx`: total input value and witness size -/
def sanityInputs (a : Account) (wt : Nat) : List TxIn → Int → Nat → Except Refusal (Int × Nat)
  | [], tot, w => .ok (tot, w)
  | i :: is, tot, w =>
    if i.prev = a.outPoint then
      match witnessSize wt with
      | none => .error .unknownWitness
      | some aw => sanityInputs a wt is (tot + a.value) (w + aw)
    else
      match classify i.utxoScript with
      | .witnessV0PubKeyHash => sanityInputs a wt is (tot + i.utxoValue) (w + P2WKHWitnessSize)
      | .scriptHash => sanityInputs a wt is (tot + i.utxoValue) (w + P2WKHWitnessSize)
      | .witnessV1Taproot => sanityInputs a wt is (tot + i.utxoValue) (w + (1 + 1 + 64))
      | .unsupported => .error .unparsable
      | _ => .error .unsupportedInput

/-- full weight used for the relay-fee floor: stripped weight + marker/flag + estimated witnesses -/
def fullWeight (tx : Tx) (witness : Nat) : Nat := tx.strippedSize * witnessScaleFactor + 2 + witness

/-- `sanityCheckAccountSpendTx` -/
def sanityCheck (a : Account) (tx : Tx) (wt : Nat) : Except Refusal Unit :=
  if tx.inputs.isEmpty then .error .noInputs else
  if tx.outputs.isEmpty then .error .noOutputs else
  match checkOutputRange 0 tx.outputs with
  | .error r => .error r
  | .ok () =>
  if hasDupInputs (tx.inputs.map (·.prev)) then .error .duplicateInputs else
  if tx.outputs.any isDustOutput then .error .dustOutput else
  match sanityInputs a wt tx.inputs 0 0 with
  | .error r => .error r
  | .ok (inTotal, w) =>
  if inTotal < sumValues tx.outputs then .error .outputsExceedInputs else
  if inTotal - sumValues tx.outputs < feeForWeight FeePerKwFloor (fullWeight tx w) then .error .feeBelowRelay else
  .ok ()

/-! ## `spendAccount` and the effect trace -/

inductive Action | deposit | withdraw | renew | close
deriving DecidableEq, Repr

/-- what leaves the manager, in program order -/
inductive Effect
  /-- `Auctioneer.ModifyAccount(account, inputs, outputs, modifiers, …)`; `modified = none` for a close -/
  | auctioneerModify (inputs : List OutPoint) (outputs : List TxOut) (modified : Option Account)
  /-- `Store.UpdateAccount(account, modifiers…)`: the account as stored afterwards -/
  | storeWrite (acct : Account)
  /-- `Wallet.PublishTransaction(tx)` -/
  | publish (tx : Tx)
deriving Repr

/-- injected failures of the collaborators -/
structure Faults where
  auctioneer : Bool := false
  store : Bool := false
  publish : Bool := false
deriving Repr

structure OpResult where
  /-- `none` = success, `some r` = the error class returned -/
  refusal : Option Refusal
  trace : List Effect
  /-- the account returned / stored on success -/
  account : Option Account
  tx : Option Tx
deriving Repr

def refuse (r : Refusal) : OpResult := ⟨some r, [], none, none⟩

def removeAt : List α → Nat → List α
  | [], _ => []
  | _ :: xs, 0 => xs
  | x :: xs, n + 1 => x :: removeAt xs n

def findIdx (p : α → Bool) : List α → Nat
  | [] => 0
  | x :: xs => if p x then 0 else findIdx p xs + 1

/-- first half of `spendAccount` up to and including the sanity check of `signSpendTx`: locate the re-created
account output (`OutPointModifier`), choose the lock time by witness type, check the transaction.  Nothing has
left the manager yet. -/
def spendPrepare (so : ScriptOf) (a : Account) (action : Action) (tx : Tx) (wt : Nat) (mods : List Modifier)
    (best : UInt32) : Except Refusal (Option Nat × List Modifier × Tx) :=
  -- locate the re-created account output
  let located : Except Refusal (Option Nat × List Modifier) :=
    if action ≠ .close then
      match locateScript ((applyMods a mods).output so).script tx.outputs with
      | none => .error .scriptNotFound
      | some idx => .ok (some idx, mods ++ [.outPoint idx])
    else .ok (none, mods)
  match located with
  | .error r => .error r
  | .ok (outIdx, mods) =>
    -- lock time by witness type
    let lock : Except Refusal Nat :=
      if wt = wt_expiryWitness ∨ wt = wt_expiryTaproot then
        if action ≠ .close then .error .expiredNoModify else .ok best.toNat
      else if wt = wt_multiSigWitness ∨ wt = wt_muSig2Taproot then .ok 0
      else .error .unknownWitness
    match lock with
    | .error r => .error r
    | .ok lockTime =>
      let tx := { tx with lockTime := lockTime }
      -- signSpendTx: sanity check first
      match sanityCheck a tx wt with
      | .error r => .error r
      | .ok () => .ok (outIdx, mods, tx)

/-- second half of `spendAccount`: request the auctioneer's signature (cooperative paths only), write the store,
broadcast – in this order (`addAccountSpendSignature`/`getAuctioneerSig`, `Store.UpdateAccount`,
`maybeBroadcastTx`; signatures themselves are not modelled) -/
def spendCommit (a : Account) (wt : Nat) (outIdx : Option Nat) (mods : List Modifier) (tx : Tx)
    (best : UInt32) (f : Faults) : OpResult :=
  let coop : Bool := wt = wt_multiSigWitness ∨ wt = wt_muSig2Taproot
  let acctIn := findIdx (fun i => i.prev = a.outPoint) tx.inputs
  let modifyEv : List Effect :=
    if coop then
      match outIdx with
      | none => [.auctioneerModify [] tx.outputs none]
      | some oi => [.auctioneerModify ((removeAt tx.inputs acctIn).map (·.prev)) (removeAt tx.outputs oi)
                      (some (applyMods a mods))]
    else []
  if coop ∧ f.auctioneer then ⟨some .auctioneerFail, modifyEv, none, none⟩ else
  let mods := mods ++ [.heightHint best, .latestTx]
  if f.store then ⟨some .storeFail, modifyEv, none, none⟩ else
  let stored := applyMods a mods
  if f.publish then ⟨some .publishFail, modifyEv ++ [.storeWrite stored, .publish tx], none, none⟩ else
  ⟨none, modifyEv ++ [.storeWrite stored, .publish tx], some stored, some tx⟩

/-- `spendAccount` -/
def spendAccount (so : ScriptOf) (a : Account) (action : Action) (tx : Tx) (wt : Nat) (mods : List Modifier)
    (best : UInt32) (f : Faults) : OpResult :=
  match spendPrepare so a action tx wt mods best with
  | .error r => refuse r
  | .ok (outIdx, mods', tx') => spendCommit a wt outIdx mods' tx' best f

/-! ## the four operations -/

/-- the common preamble of Deposit/Withdraw: optional new expiry -/
def optExpiry (expiryHeight best : UInt32) : Except Refusal (Option UInt32) :=
  if expiryHeight ≠ 0 then
    match validateAccountExpiry expiryHeight best with
    | .error r => .error r
    | .ok () => .ok (some expiryHeight)
  else .ok none

/-- `WithdrawAccount` -/
def withdraw (so : ScriptOf) (a : Account) (outputs : List TxOut) (rate : Int) (best expiryHeight : UInt32)
    (newVersion : Nat) (f : Faults) : OpResult :=
  if a.state ≠ StateOpen then refuse .badState else
  if newVersion < a.version then refuse .downgrade else
  match optExpiry expiryHeight best with
  | .error r => refuse r
  | .ok newExpiry =>
  let wt := determineWitnessType a best
  match valueAfterAccountUpdate a.value outputs wt rate with
  | .error r => refuse r
  | .ok nv =>
  let (newOut, mods) := createNewAccountOutput so a nv newExpiry newVersion
  -- (regenerated fact) requested outputs paying to the new account script itself are refused
  if withdrawRefusesOwnScript ∧ outputs.any (fun o => o.script = newOut.script) then refuse .ownScript else
  let tx := createSpendTx so a (newOut :: outputs)
  spendAccount so a .withdraw tx wt (mods ++ [.state StatePendingUpdate]) best f

/-- `RenewAccount` -/
def renew (so : ScriptOf) (a : Account) (newExpiry : UInt32) (rate : Int) (best : UInt32)
    (newVersion : Nat) (f : Faults) : OpResult :=
  if ¬ (a.state = StateOpen ∨ a.state = StateExpired) then refuse .badState else
  match validateAccountExpiry newExpiry best with
  | .error r => refuse r
  | .ok () =>
  if newVersion < a.version then refuse .downgrade else
  let wt := if a.version ≥ VersionTaprootEnabled then wt_muSig2Taproot else wt_multiSigWitness
  match valueAfterAccountUpdate a.value [] wt rate with
  | .error r => refuse r
  | .ok nv =>
  let (newOut, mods) := createNewAccountOutput so a nv (some newExpiry) newVersion
  let tx := createSpendTx so a [newOut]
  spendAccount so a .renew tx wt (mods ++ [.state StatePendingUpdate]) best f

/-- `CloseAccount` -/
def close (so : ScriptOf) (a : Account) (fe : FeeExpr) (walletScript : Bool → Script) (best : UInt32)
    (f : Faults) : OpResult :=
  if ¬ (a.state = StateOpen ∨ a.state = StateExpired) then refuse .badState else
  let wt := determineWitnessType a best
  match fe.closeOutputs walletScript a.value wt with
  | .error r => refuse r
  | .ok outs =>
  let tx := createSpendTx so a outs
  spendAccount so a .close tx wt [.value 0, .state StatePendingClosed] best f

/-- what `Wallet.FundPsbt` hands back (a PARAMETER of the model): the wallet inputs it selected, the outputs of the
funded packet (the template output, plus a change output at `changeIdx` if ≥ 0) -/
structure Funded where
  inputs : List TxIn
  outputs : List TxOut
  changeIdx : Int
deriving Repr

/-- output fix-up loop of `inputsForDeposit` -/
def fixupOutputs (changeIdx : Int) (acctScript : Script) (expect newValue : Int) :
    Nat → List TxOut → Except Refusal (List TxOut)
  | _, [] => .ok []
  | idx, o :: os =>
    if changeIdx ≥ 0 ∧ changeIdx = (idx : Int) then
      (fixupOutputs changeIdx acctScript expect newValue (idx + 1) os).map (o :: ·)
    else if o.script ≠ acctScript then .error .fundWrongScript
    else if o.value ≠ expect then .error .fundWrongValue
    else (fixupOutputs changeIdx acctScript expect newValue (idx + 1) os).map (⟨newValue, o.script⟩ :: ·)

/-- the amount `inputsForDeposit` asks the wallet to fund on top of the deposit: fee of the account input -/
def acctInputFee (wt : Nat) (rate : Int) : Except Refusal Int :=
  match witnessSize wt with
  | none => .error .unknownWitness
  | some w => .ok (feeForWeight rate (({} : Twe).addWitnessInput w).weight)

/-- `inputsForDeposit` after `FundPsbt` returned `fd` (`none` = FundPsbt failed) -/
def inputsForDeposit (so : ScriptOf) (a : Account) (newOut : TxOut) (deposit : Int) (wt : Nat) (rate : Int)
    (fd : Option Funded) : Except Refusal Tx :=
  match acctInputFee wt rate with
  | .error r => .error r
  | .ok fee =>
    match fd with
    | none => .error .fundFail
    | some fd =>
      match fixupOutputs fd.changeIdx newOut.script (deposit + fee) newOut.value 0 fd.outputs with
      | .error r => .error r
      | .ok outs =>
        .ok { inputs := sortBy inLt (fd.inputs ++ [a.txIn so]), outputs := sortBy outLt outs, lockTime := 0 }

/-- `DepositAccount` -/
def deposit (so : ScriptOf) (a : Account) (amount : Int) (rate : Int) (best expiryHeight : UInt32)
    (newVersion : Nat) (maxValue : Option Int) (fd : Option Funded) (f : Faults) : OpResult :=
  if a.state ≠ StateOpen then refuse .badState else
  if newVersion < a.version then refuse .downgrade else
  match maxValue with
  | none => refuse .termsFail
  | some maxV =>
  let nv := a.value + amount
  if depositChecksMin ∧ nv < MinAccountValue then refuse .belowMin else
  if nv > maxV then refuse .aboveMax else
  match optExpiry expiryHeight best with
  | .error r => refuse r
  | .ok newExpiry =>
  let (newOut, mods) := createNewAccountOutput so a nv newExpiry newVersion
  let wt := determineWitnessType a best
  match inputsForDeposit so a newOut amount wt rate fd with
  | .error r => refuse r
  | .ok tx => spendAccount so a .deposit tx wt (mods ++ [.state StatePendingUpdate]) best f

/-! ## wallet input leases of a deposit

`FundPsbt` leases (locks) every wallet input it selects.  `inputsForDeposit` builds `releaseInputs` from the returned
leases and calls it on each of its own error paths after funding; `DepositAccount` calls it when `spendAccount`
fails.  An accepted deposit keeps the leases (the inputs are spent by the broadcast transaction). -/

inductive Locks
  | none | held (n : Nat) | released (n : Nat)
deriving DecidableEq, Repr

/-- the prefix of `DepositAccount` up to a successful `FundPsbt`: the funded packet if the call was reached and
succeeded -/
def depositReachesFunding (a : Account) (amount rate : Int) (best expiryHeight : UInt32) (newVersion : Nat)
    (maxValue : Option Int) (fd : Option Funded) : Option Funded :=
  if a.state ≠ StateOpen then .none else
  if newVersion < a.version then .none else
  match maxValue with
  | .none => .none
  | some maxV =>
  if depositChecksMin ∧ a.value + amount < MinAccountValue then .none else
  if a.value + amount > maxV then .none else
  match optExpiry expiryHeight best with
  | .error _ => .none
  | .ok _ =>
  match acctInputFee (determineWitnessType a best) rate with
  | .error _ => .none
  | .ok _ => fd

/-- what happened to the leases when `DepositAccount` returned -/
def depositLocks (so : ScriptOf) (a : Account) (amount rate : Int) (best expiryHeight : UInt32) (newVersion : Nat)
    (maxValue : Option Int) (fd : Option Funded) (f : Faults) : Locks :=
  match depositReachesFunding a amount rate best expiryHeight newVersion maxValue fd with
  | .none => .none
  | some fdv =>
    if fdv.inputs.isEmpty then .none
    else if (deposit so a amount rate best expiryHeight newVersion maxValue fd f).refusal = Option.none then
      .held fdv.inputs.length
    else .released fdv.inputs.length

end Pool.C07
