import PoolModel.C07
import PoolModel.Util
/-! Line-protocol driver for the C07 model.  See `harness/overlay/cmd/verifharness/c07.go` for the encodings. -/
namespace Pool.C07
open Pool.Util Pool.Gen.C07

def splitOn1 (s : String) (c : String) : List String := if s == "-" then [] else s.splitOn c

def parseInt? (s : String) : Option Int := s.toInt?

def parseU32? (s : String) : Option UInt32 :=
  match s.toNat? with
  | some n => if n < 4294967296 then some (UInt32.ofNat n) else none
  | none => none

def parseOut? (s : String) : Option TxOut :=
  match s.splitOn ":" with
  | [v, h] => do some ⟨← parseInt? v, ← unhex h⟩
  | _ => none

def parseOuts? (s : String) : Option (List TxOut) := (splitOn1 s ",").mapM parseOut?

def parseOp? (h i : String) : Option OutPoint := do some ⟨← unhex h, ← i.toNat?⟩

def parseIn? (s : String) : Option TxIn :=
  match s.splitOn ":" with
  | [h, i, v, sc, rl] => do some ⟨← parseOp? h i, ← parseInt? v, ← unhex sc, ← rl.toNat?⟩
  | _ => none

def parseIns? (s : String) : Option (List TxIn) := (splitOn1 s ",").mapM parseIn?

def parseAcct? : List String → Option Account
  | [v, e, st, ver, ctr, op] =>
    match op.splitOn ":" with
    | [h, i] => do some { value := ← parseInt? v, expiry := ← parseU32? e, state := ← st.toNat?,
                           version := ← ver.toNat?, batchCtr := ← ctr.toNat?, outPoint := ← parseOp? h i }
    | _ => none
  | _ => none

def parseTable? (s : String) : Option ScriptOf := do
  let rows ← (splitOn1 s ",").mapM fun r =>
    match r.splitOn ":" with
    | [v, e, c, h] => do some ((← v.toNat?, ← parseU32? e, ← c.toNat?), ← unhex h)
    | _ => none
  some fun v e c => ((rows.find? (fun r => r.1 == (v, e, c))).map (·.2)).getD []

def parseFaults? (s : String) : Option Faults :=
  match s.toList with
  | [a, b, c] => some ⟨a == '1', b == '1', c == '1'⟩
  | _ => none

def fmtOut (o : TxOut) : String := s!"{o.value}:{hex o.script}"
def fmtList (f : α → String) (l : List α) : String := if l.isEmpty then "-" else joinWith "," (l.map f)
def fmtOuts := fmtList fmtOut
def fmtOp (acctHash : List UInt8) (p : OutPoint) : String :=
  (if p.hash == selfHash then "self" else if p.hash == acctHash then "acct" else hex p.hash) ++ s!":{p.index}"
def fmtAcct (h : List UInt8) (a : Account) : String :=
  s!"{a.value}/{a.expiry.toNat}/{a.state}/{a.version}/{a.batchCtr}/{fmtOp h a.outPoint}/{a.heightHint.toNat}"
def fmtTx (h : List UInt8) (tx : Tx) : String :=
  s!"in={fmtList (fmtOp h) (tx.inputs.map (·.prev))}|out={fmtOuts tx.outputs}|lock={tx.lockTime}"

/-- refusal classes as far as the Go side can tell them apart without reading error texts: btcd rule errors by
their error code, collaborator faults by the call that failed, everything else `refused` -/
def fmtRefusal : Refusal → String
  | .noInputs => "noInputs"
  | .noOutputs => "noOutputs"
  | .duplicateInputs => "duplicateInputs"
  | .negativeOutput | .outputTooLarge | .totalTooLarge => "badOutputValue"
  | .auctioneerFail => "auctioneerFail"
  | .storeFail => "storeFail"
  | .publishFail => "publishFail"
  | .termsFail => "termsFail"
  | .fundFail => "fundFail"
  | _ => "refused"

def fmtEffect (h : List UInt8) : Effect → String
  | .auctioneerModify ins outs m =>
    s!"M[in={fmtList (fmtOp h) ins}|out={fmtOuts outs}|acct={match m with | some a => fmtAcct h a | none => "nil"}]"
  | .storeWrite a => s!"S[{fmtAcct h a}]"
  | .publish tx => s!"P[{fmtTx h tx}]"

def fmtResult (h : List UInt8) (r : OpResult) : String :=
  (match r.refusal with | none => "ok" | some x => "err:" ++ fmtRefusal x)
    ++ " trace=" ++ (if r.trace.isEmpty then "-" else joinWith ";" (r.trace.map (fmtEffect h)))

def fmtExcept (f : α → String) : Except Refusal α → String
  | .ok x => "ok " ++ f x
  | .error r => "err " ++ fmtRefusal r

def fmtUnit : Except Refusal Unit → String
  | .ok _ => "ok"
  | .error r => "err " ++ fmtRefusal r

def constsLine : String :=
  joinWith " " ([MinAccountValue, minAccountExpiry, maxAccountExpiry, MultiSigWitnessSize, ExpiryWitnessSize,
    TaprootMultiSigWitnessSize, TaprootExpiryWitnessSize, InputSize, BaseTxSize, WitnessHeaderSize,
    witnessScaleFactor, P2PKHOutputSize, P2WKHOutputSize, P2WSHOutputSize, P2SHOutputSize, P2TROutputSize,
    P2PKHSize, P2WPKHSize, P2WSHSize, P2SHSize, P2TRSize, P2WKHWitnessSize, FeePerKwFloor,
    maxSatoshi.toNat].map toString
    ++ [P2WPKHSize, P2WSHSize, P2SHSize, P2PKHSize].map fun s => toString ((dustLimitForSize s).getD 0))

abbrev DrvSt := Unit
def drvInit : DrvSt := ()

def run (args : List String) : Option String :=
  match args with
  | ["consts"] => some constsLine
  | ["wsize", wt] => do
    let wt ← wt.toNat?
    some (match witnessSize wt with | some w => s!"ok {w} {isExpirySpend wt}" | none => "err")
  | ["class", h] => do
    let s ← unhex h
    some s!"{(classify s).name} nd={isNullData s} un={isUnspendable s} wp={isWitnessProgram s}"
  | ["dust", o] => do
    let o ← parseOut? o
    some s!"{isDustOutput o} {dustThreshold o}"
  | ["vau", v, wt, rate, outs] => do
    some (fmtExcept toString (valueAfterAccountUpdate (← parseInt? v) (← parseOuts? outs) (← wt.toNat?) (← parseInt? rate)))
  | ["closeout", v, wt, rate, h] => do
    some (fmtExcept fmtOuts (outputWithFeeCloseOutputs (← unhex h) (← parseInt? rate) (← parseInt? v) (← wt.toNat?)))
  | ["expiry", e, b] => do
    some (fmtUnit (validateAccountExpiry (← parseU32? e) (← parseU32? b)))
  | ["value", v, m] => do
    some (fmtUnit (validateAccountValue (← parseInt? v) (← parseInt? m)))
  | ["sanity", v, e, st, ver, ctr, op, wt, lock, ins, outs] => do
    let a ← parseAcct? [v, e, st, ver, ctr, op]
    let tx : Tx := ⟨← parseIns? ins, ← parseOuts? outs, ← lock.toNat?⟩
    some (fmtUnit (sanityCheck a tx (← wt.toNat?)))
  | ["withdraw", v, e, st, ver, ctr, op, tbl, outs, rate, best, eh, nv, fl] => do
    let a ← parseAcct? [v, e, st, ver, ctr, op]
    some (fmtResult a.outPoint.hash (withdraw (← parseTable? tbl) a (← parseOuts? outs) (← parseInt? rate)
      (← parseU32? best) (← parseU32? eh) (← nv.toNat?) (← parseFaults? fl)))
  | ["renew", v, e, st, ver, ctr, op, tbl, ne, rate, best, nv, fl] => do
    let a ← parseAcct? [v, e, st, ver, ctr, op]
    some (fmtResult a.outPoint.hash (renew (← parseTable? tbl) a (← parseU32? ne) (← parseInt? rate)
      (← parseU32? best) (← nv.toNat?) (← parseFaults? fl)))
  | ["close", v, e, st, ver, ctr, op, tbl, fe, best, fl, wkh, wtr] => do
    let a ← parseAcct? [v, e, st, ver, ctr, op]
    let wkh ← unhex wkh
    let wtr ← unhex wtr
    let fe : FeeExpr ← match fe.splitOn "=" with
      | ["owf", "nil", r] => do some (.outputWithFee none (← parseInt? r))
      | ["owf", h, r] => do some (.outputWithFee (some (← unhex h)) (← parseInt? r))
      | ["imp", os] => do some (.implicit (← parseOuts? os))
      | _ => none
    some (fmtResult a.outPoint.hash (close (← parseTable? tbl) a fe (fun t => if t then wtr else wkh)
      (← parseU32? best) (← parseFaults? fl)))
  | ["deposit", v, e, st, ver, ctr, op, tbl, amt, rate, best, eh, nv, mx, fins, fouts, fci, fl] => do
    let a ← parseAcct? [v, e, st, ver, ctr, op]
    let mx : Option Int ← if mx == "fail" then some none else do some (some (← parseInt? mx))
    let fd : Option Funded ← if fins == "fail" then some none else do
      some (some ⟨← parseIns? fins, ← parseOuts? fouts, ← parseInt? fci⟩)
    let so ← parseTable? tbl
    let amt ← parseInt? amt
    let rate ← parseInt? rate
    let best ← parseU32? best
    let eh ← parseU32? eh
    let nv ← nv.toNat?
    let fl ← parseFaults? fl
    let lk := match depositLocks so a amt rate best eh nv mx fd fl with
      | .none => "none" | .held n => s!"held:{n}" | .released n => s!"released:{n}"
    some (fmtResult a.outPoint.hash (deposit so a amt rate best eh nv mx fd fl) ++ " locks=" ++ lk)
  | _ => none

def drvStep (s : DrvSt) (args : List String) : DrvSt × String :=
  (s, (run args).getD "bad-op")

end Pool.C07
