import PoolModel.C10Db
import PoolModel.Util
/-! Line-protocol driver of the C10 model. Every op carries bytes produced by the real code (hex; `-` = empty,
`nil` = absent key) and prints the model's decoding in a canonical text form plus `re=1` when the model's
*encoding* of the decoded value reproduces the consumed bytes exactly (byte-exact tie in both directions).

  acct <hex>                       deserializeAccount
  tx <hex>                         wire.MsgTx.Deserialize
  el <type> <hex>                  one ReadElement of the given element type
  tlv <known: t:k,t:k…|-> <hex>    tlv stream decode (k = b|q|v for u8/u64/bytes)
  order <nonce> <base> <minunits> <tlv> <tier>     fetchOrderTX + GetOrder callback on the four bucket values
  ordbase <nonce> <hex> / ordtlv ask|bid <hex>     DeserializeOrder / deserializeOrderTlvData alone
  snap <hex>                       deserializeLocalBatchSnapshot (maps rendered sorted by key)
  snapfull <hex> (<nonce> <base> <minunits> <tlv> <tier>)*   + completion of own orders (GetLocalBatchSnapshot)
  addrs <hex>                      lnwire net address list
  copyord <nonce> <base> <minunits> <tlv> <tier> <dstTier>   copyOrder of MarkBatchComplete on bucket values
-/
namespace Pool.C10
open Pool.Util

def hx (b : Bytes) : String := hex b

def renderTxIn (ti : TxIn) : String :=
  s!"{hx ti.prevHash}:{ti.prevIndex}:{hx ti.sigScript}:{ti.sequence}:" ++
    (if ti.witness.isEmpty then "." else joinWith "/" (ti.witness.map hx))

def renderTx (t : Tx) : String :=
  "tx{" ++ s!"{t.version}|{t.lockTime}|" ++ joinWith "," (t.ins.map renderTxIn) ++ "|" ++
    joinWith "," (t.outs.map fun o => s!"{o.value}:{hx o.pkScript}") ++ "}"

def renderAcct (a : Account) : String :=
  s!"v={a.value} e={a.expiry} tk={a.traderKey.loc.family}/{a.traderKey.loc.index}/{hx a.traderKey.pub} " ++
  s!"ak={hx a.auctioneerKey} bk={hx a.batchKey} sec={hx a.secret} st={a.state} hh={a.heightHint} " ++
  s!"op={hx a.outPoint.hash}:{a.outPoint.index} ver={a.version} tx=" ++
  (match a.latestTx with
   | some t => renderTx t
   | none => "nil")

/-- render a decode result; `reenc` re-encodes the value, compared with the consumed prefix of the input -/
def renderRes (input : Bytes) (r : Res α) (render : α → String) (reenc : α → Option Bytes) : String :=
  match r with
  | .ok a rest =>
    let consumed := input.take (input.length - rest.length)
    let re := if reenc a == some consumed then "1" else "0"
    s!"ok {render a} rest={rest.length} re={re}"
  | .err => "err"
  | .panic => "panic"

def serBytes : Ser → Option Bytes
  | .ok b => some b
  | _ => none

def elemOp (ty : String) (b : Bytes) : String :=
  match ty with
  | "u8" => renderRes b (readU8 b) toString (fun v => some (encU8 v))
  | "u16" => renderRes b (readU16 b) toString (fun v => some (encU16 v))
  | "u32" => renderRes b (readU32 b) toString (fun v => some (encU32 v))
  | "u64" => renderRes b (readU64 b) toString (fun v => some (encU64 v))
  | "bool" => renderRes b (readBool b) (fun v => if v then "1" else "0") (fun v => some (encBool v))
  | "pub" => renderRes b (readPubKey b) hx (fun v => some v)
  | "b32" => renderRes b (take 32 b) hx (fun v => some v)
  | "b33" => renderRes b (take 33 b) hx (fun v => some v)
  | "keyloc" => renderRes b (readKeyLoc b) (fun k => s!"{k.family}/{k.index}") (fun k => some (encKeyLoc k))
  | "keydesc" => renderRes b (readKeyDesc b) (fun k => s!"{k.loc.family}/{k.loc.index}/{hx k.pub}")
      (fun k => some (encKeyDesc k))
  | "outpoint" => renderRes b (readOutPoint b) (fun o => s!"{hx o.hash}:{o.index}") (fun o => some (encOutPoint o))
  | _ => "bad-op"

def renderKeys (ks : List Bytes) : String :=
  if ks.isEmpty then "." else joinWith "/" (ks.map hx)

def b2s (b : Bool) : String := if b then "1" else "0"

def renderKit (k : Kit) : String :=
  s!"n={hx k.nonce} pre={hx k.preimage} ver={k.version} st={k.state} fr={k.fixedRate} amt={k.amt} " ++
  s!"u={k.units} uu={k.unitsUnfulfilled} kl={k.multiSigKeyLocator.family}/{k.multiSigKeyLocator.index} " ++
  s!"fee={k.maxBatchFeeRate} ak={hx k.acctKey} ld={k.leaseDuration} mum={k.minUnitsMatch} ct={k.channelType} " ++
  s!"allow={renderKeys k.allowedNodeIDs} deny={renderKeys k.notAllowedNodeIDs} pub={b2s k.isPublic} " ++
  s!"at={k.auctionType}"

def renderOrder : Order → String
  | .ask k a c => s!"ask {renderKit k} ann={a} conf={c}"
  | .bid k t s tk u z =>
    s!"bid {renderKit k} tier={t} scb={s} tk=" ++
    (match tk with
     | some b => hx b
     | none => "nil") ++ s!" un={b2s u} zc={b2s z}"

/-- `nil` = key absent -/
def optBytes (s : String) : Option (Option Bytes) :=
  if s == "nil" then some none else (unhex s).map some

def renderAddr : Addr → String
  | .tcp4 ip p => s!"t4:{hx ip}:{p}"
  | .tcp6 ip p => s!"t6:{hx ip}:{p}"
  | .onionV2 h p => s!"o2:{hx h}:{p}"
  | .onionV3 h p => s!"o3:{hx h}:{p}"
  | .unknown pl => s!"op:{hx pl}"

def renderAddrs (as : List Addr) : String := if as.isEmpty then "." else joinWith ";" (as.map renderAddr)

/-- stable insertion sort of (key, text) pairs by key -/
def insertByKey (x : String × String) : List (String × String) → List (String × String)
  | [] => [x]
  | y :: ys => if x.1 > y.1 then y :: insertByKey x ys else x :: y :: ys

def sortByKey (l : List (String × String)) : List (String × String) := l.foldr insertByKey []

def renderSorted (l : List (String × String)) : String :=
  if l.isEmpty then "." else joinWith "|" ((sortByKey l).map (·.2))

def renderMatch (m : Match) : String :=
  "{" ++ s!"{hx m.ourNonce} {renderOrder m.order} msk={hx m.multiSigKey} nk={hx m.nodeKey} " ++
  s!"addrs={renderAddrs m.nodeAddrs} uf={m.unitsFilled}" ++ "}"

def padNum (n : Nat) : String :=
  let s := toString n
  String.ofList (List.replicate (12 - s.length) '0') ++ s

def renderSnapshot (s : Snapshot) : String :=
  s!"snap ver={s.version} id={hx s.batchID} fee={s.feeBase}/{s.feeRate} txfee={s.batchTxFeeRate} " ++
  s!"tx={renderTx s.batchTx} prices=" ++
  renderSorted (s.clearingPrices.map fun (d, p) => (padNum d, s!"{d}:{p}")) ++
  " accts=" ++ renderSorted (s.accounts.map fun (k, a) => (hx k, "{" ++ s!"{hx k} {renderAcct a}" ++ "}")) ++
  " orders=" ++ renderSorted (s.orders.map fun (n, o) => (hx n, "{" ++ s!"{hx n} {renderOrder o}" ++ "}")) ++
  " matched=" ++ renderSorted (s.matched.map fun m => (hx m.ourNonce, renderMatch m))

/-- parse `n` groups of 5 tokens (nonce base minUnits tlv tier) -/
def parseRecs : List String → Option (List (Bytes × OrderRec))
  | [] => some []
  | n :: b :: mu :: t :: ti :: rest =>
    match unhex n, optBytes b, optBytes mu, optBytes t, optBytes ti, parseRecs rest with
    | some n, some b, some mu, some t, some ti, some tl => some ((n, ⟨b, mu, t, ti⟩) :: tl)
    | _, _, _, _, _, _ => none
  | _ => none

/-- complete every own order of a decoded snapshot from the given order buckets (`fetchLocalBatchSnapshot`) -/
def completeAll (recs : List (Bytes × OrderRec)) : List (Bytes × Order) → Res (List (Bytes × Order))
  | [] => .ok [] []
  | (n, o) :: rest =>
    match completeOrder o (recs.lookup n) with
    | .ok o' _ =>
      match completeAll recs rest with
      | .ok tl _ => .ok ((n, o') :: tl) []
      | .err => .err
      | .panic => .panic
    | .err => .err
    | .panic => .panic

def parseKnown (s : String) : Option (List (Nat × RecKind)) :=
  if s == "-" then some [] else
  (s.splitOn ",").mapM fun e =>
    match e.splitOn ":" with
    | [t, k] =>
      match t.toNat?, k with
      | some t, "b" => some (t, RecKind.u8)
      | some t, "q" => some (t, RecKind.u64)
      | some t, "v" => some (t, RecKind.bytes)
      | _, _ => none
    | _ => none

def renderTlvMap (m : List (Nat × Option TlvVal)) : String :=
  if m.isEmpty then "-" else
  joinWith "," (m.map fun (t, v) =>
    match v with
    | some (.num n) => s!"{t}=n{n}"
    | some (.bytes b) => s!"{t}=x{hx b}"
    | none => s!"{t}=?")

abbrev DrvSt := Unit
def drvInit : DrvSt := ()

def drvStep (s : DrvSt) (args : List String) : DrvSt × String :=
  match args with
  | ["acct", h] =>
    match unhex h with
    | some b => (s, renderRes b (deserializeAccount b) renderAcct (fun a => serBytes (serializeAccount a)))
    | none => (s, "bad-op")
  | ["tx", h] =>
    match unhex h with
    | some b => (s, renderRes b (readTx b) renderTx (fun t => some (encTx t)))
    | none => (s, "bad-op")
  | ["el", ty, h] =>
    match unhex h with
    | some b => (s, elemOp ty b)
    | none => (s, "bad-op")
  | ["order", n, b, mu, t, ti] =>
    match unhex n, optBytes b, optBytes mu, optBytes t, optBytes ti with
    | some n, some b, some mu, some t, some ti =>
      let rec' : OrderRec := ⟨b, mu, t, ti⟩
      (s, match loadOrder n rec' with
          | .ok o _ => s!"ok {renderOrder o} re={b2s (storeOrder o == rec')}"
          | .err => "err"
          | .panic => "panic")
    | _, _, _, _, _ => (s, "bad-op")
  | ["copyord", n, b, mu, t, ti, dt] =>
    match unhex n, optBytes b, optBytes mu, optBytes t, optBytes ti, optBytes dt with
    | some n, some b, some mu, some t, some ti, some dt =>
      let tok := fun (o : Option Bytes) => match o with
        | some x => hx x
        | none => "nil"
      (s, match copyOrderRec n ⟨b, mu, t, ti⟩ dt with
          | .ok r _ => s!"ok {tok r.base} {tok r.minUnits} {tok r.tlv} {tok r.tier}"
          | .err => "err"
          | .panic => "panic")
    | _, _, _, _, _, _ => (s, "bad-op")
  | ["ordbase", n, h] =>
    match unhex n, unhex h with
    | some n, some b => (s, renderRes b (deserializeOrder n b) renderOrder (fun o => some (serializeOrder o)))
    | _, _ => (s, "bad-op")
  | ["ordtlv", kind, h] =>
    match unhex h with
    | some b =>
      let fresh : Order := if kind == "bid" then .bid (Kit.new (List.replicate 32 0)) 0 0 none false false
        else .ask (Kit.new (List.replicate 32 0)) 0 0
      (s, match deserializeOrderTlvData b fresh with
          | .ok o _ => s!"ok {renderOrder o}"
          | .err => "err"
          | .panic => "panic")
    | none => (s, "bad-op")
  | ["snap", h] =>
    match unhex h with
    | some b => (s, renderRes b (deserializeSnapshot b) renderSnapshot (fun x => serBytes (serializeSnapshot x)))
    | none => (s, "bad-op")
  | ["snapm", h] =>
    match unhex h with
    | some b =>
      (s, match deserializeSnapshot b with
          | .ok sn _ => "ok " ++ renderSnapshot sn
          | .err => "err"
          | .panic => "panic")
    | none => (s, "bad-op")
  | "snapfull" :: h :: recs =>
    match unhex h, parseRecs recs with
    | some b, some recs =>
      (s, match deserializeSnapshot b with
          | .ok sn _ =>
            match completeAll recs sn.orders with
            | .ok os _ => "ok " ++ renderSnapshot { sn with orders := os }
            | .err => "err"
            | .panic => "panic"
          | .err => "err"
          | .panic => "panic")
    | _, _ => (s, "bad-op")
  | ["addrs", h] =>
    match unhex h with
    | some b => (s, renderRes b (readAddrs b) renderAddrs (fun x => some (encAddrs x)))
    | none => (s, "bad-op")
  | ["tlv", k, h] =>
    match parseKnown k, unhex h with
    | some known, some b =>
      (s, match decodeStream known b with
          | .ok m _ => "ok " ++ renderTlvMap m
          | .err => "err"
          | .panic => "panic")
    | _, _ => (s, "bad-op")
  | _ => (s, "bad-op")

end Pool.C10
