import PoolModel.Float64
import PoolModel.Generated.ReserveFacts
/-! # C11 — reserved value, per-match debit, order admission (executable model, core Lean only)

Mirrors, function by function:
* `/repo/order/supplyunit.go`      `SupplyUnit.ToSatoshis`
* `/repo/terms/fees.go`            `LinearFeeSchedule.ExecutionFee`, `BaseFee`
* `/repo/order/tradingfees.go`     `LumpSumPremium` (→ `Float64.premium`), `executionFee`, `makerDelta`, `takerDelta`,
                                   `EstimateTraderFee` (+ lnd `SatPerKWeight.FeeForWeight`), `AccountTally.ChainFees`
* `/repo/order/interfaces.go`      `State.Archived`, `reservedValue`, `Ask.ReservedValue`, `Bid.ReservedValue`,
                                   `CheckOfferParams`, `Bid.ValidateSelfChanBalance`
* `/repo/order/manager.go`         `manager.validateOrder`
* `/repo/order/batch_verifier.go`  the tally formulas of `validateMatchedOrder` + `Verify` for one order's matches
                                   in one batch (`CalcMakerDelta`/`CalcTakerDelta`, `NumChansCreated++`, `ChainFees`)
* `/repo/marshaler.go`             `MarshallAccountsWithAvailableBalance` (the per-account debit sum)

All amounts are modelled as unbounded integers; Go computes in `int64`/`uint64`.  The two agree inside the
domain `inDomain` below (non-negative inputs in a stated box, premium far below 2^63): there is no wrap-around
there.  Outside the domain nothing is claimed and the driver answers `ood`.
Go panic site: the integer division by `MinUnitsMatch.ToSatoshis()` in `reservedValue` (→ `Outcome.panic`). -/
namespace Pool.C11
open Pool.Gen.Reserve
open Pool.Float64 (premium)

/-- `terms.LinearFeeSchedule` -/
structure FeeSchedule where
  baseFee : Nat
  feeRate : Nat
deriving Repr, DecidableEq

/-- the fields of `order.Kit` / `order.Bid` that enter the reserve and `validateOrder`.
    `selfChanBalance` is `Bid.SelfChanBalance` (0 for an ask). -/
structure Order where
  isBid : Bool
  auctionType : Nat
  version : Nat
  state : Nat
  fixedRate : Nat
  amt : Nat
  units : Nat
  unitsUnfulfilled : Nat
  minUnitsMatch : Nat
  maxBatchFeeRate : Nat
  leaseDuration : Nat
  selfChanBalance : Nat
  acctKey : Nat
deriving Repr, DecidableEq

/-- `State.Archived` (the set is regenerated from the switch in the source) -/
def archived (s : Nat) : Bool := archivedStates.contains s

/-- `SupplyUnit.ToSatoshis` -/
def toSatoshis (u : Nat) : Nat := u * baseSupplyUnit

/-- `order.executionFee` = `schedule.BaseFee() + schedule.ExecutionFee(amount)` -/
def executionFee (fs : FeeSchedule) (amount : Nat) : Nat :=
  fs.baseFee + amount * fs.feeRate / execFeeRateDivisor

/-- `makerDelta`: first component (balance delta) -/
def makerDelta (fs : FeeSchedule) (price makerAmt baseAmt duration : Nat) : Int :=
  -(makerAmt : Int) + (premium baseAmt price duration : Int) - (executionFee fs makerAmt : Int)

/-- `takerDelta`: first component (balance delta) -/
def takerDelta (fs : FeeSchedule) (price baseAmt takerAmt duration : Nat) : Int :=
  -(premium baseAmt price duration : Int) - (takerAmt : Int) - (executionFee fs baseAmt : Int)

/-- witness size chosen by the `switch accountVersion` of `EstimateTraderFee` -/
def traderWitness (ver : Nat) : Nat :=
  if taprootVersions.contains ver then taprootMultiSigWitnessSize else multiSigWitnessSize

/-- weight estimate of `EstimateTraderFee`; `chanOutputSize*numTraderChans+1` is `uint32` arithmetic -/
def traderWeight (numChans ver : Nat) : Nat :=
  (p2wshOutputSize + inputSize + ((p2wshOutputSize * numChans + 1) % 4294967296) / 2) * witnessScaleFactor
    + traderWitness ver

/-- `EstimateTraderFee` (`feeRate.FeeForWeight(w) = feeRate * w / 1000`) -/
def estimateTraderFee (numChans feeRate ver : Nat) : Nat := feeRate * traderWeight numChans ver / 1000

inductive Outcome where
  | panic
  | ok (v : Int)
deriving Repr, DecidableEq

/-- `reservedValue` -/
def reservedValue (o : Order) (perMatchDelta : Nat → Int) (ver : Nat) : Outcome :=
  if archived o.state then .ok 0 else
  let totalSats := toSatoshis o.unitsUnfulfilled
  let minMatchSize := toSatoshis o.minUnitsMatch
  if minMatchSize = 0 then .panic else     -- integer division by zero
  let n0 : Int := ((totalSats / minMatchSize : Nat) : Int)
  let (maxNumMatches, rem) : Int × Int :=
    if n0 * minMatchSize < totalSats then (n0 - 1, (totalSats : Int) - (n0 - 1) * minMatchSize) else (n0, 0)
  let balanceDelta := maxNumMatches * perMatchDelta minMatchSize
  let balanceDelta := if 0 < rem then balanceDelta + perMatchDelta rem.toNat else balanceDelta
  let fee1 : Int := estimateTraderFee 1 o.maxBatchFeeRate ver
  let balanceDelta := balanceDelta - maxNumMatches * fee1
  let balanceDelta := if 0 < rem then balanceDelta - fee1 else balanceDelta
  if balanceDelta < 0 then .ok (-balanceDelta) else .ok 0

/-- the closure passed by `Ask.ReservedValue` -/
def askPerMatch (fs : FeeSchedule) (o : Order) (amt : Nat) : Int :=
  makerDelta fs o.fixedRate amt amt o.leaseDuration

/-- the premium base amount of a bid match of `amt`: `amt (+ SelfChanBalance in the outbound market)` -/
def bidPremiumAmt (o : Order) (amt : Nat) : Nat :=
  if o.auctionType = btcOutboundLiquidity then amt + o.selfChanBalance else amt

/-- the closure passed by `Bid.ReservedValue` -/
def bidPerMatch (fs : FeeSchedule) (o : Order) (amt : Nat) : Int :=
  takerDelta fs o.fixedRate (bidPremiumAmt o amt) o.selfChanBalance o.leaseDuration

/-- `Order.ReservedValue(feeSchedule, accountVersion)` for `*Ask` / `*Bid` -/
def orderReservedValue (fs : FeeSchedule) (o : Order) (ver : Nat) : Outcome :=
  if o.isBid then reservedValue o (bidPerMatch fs o) ver else reservedValue o (askPerMatch fs o) ver

/-! ## what a verified batch debits (tally of `batchVerifier.Verify` for the matches of one order) -/

/-- one match of our order in a batch: filled units, the batch's clearing price for the order's duration, and
    (for an ask in the outbound market) the matched bid's `SelfChanBalance` -/
structure Fill where
  units : Nat
  price : Nat
  otherSelf : Nat := 0
deriving Repr, DecidableEq

/-- `-balanceDelta` of `CalcTakerDelta` as called by `validateMatchedOrder` for our bid -/
def bidMatchDebit (fs : FeeSchedule) (o : Order) (f : Fill) : Int :=
  Int.neg (takerDelta fs f.price (bidPremiumAmt o (toSatoshis f.units)) o.selfChanBalance o.leaseDuration)

/-- `-balanceDelta` of `CalcMakerDelta` as called by `validateMatchedOrder` for our ask -/
def askMatchDebit (fs : FeeSchedule) (o : Order) (f : Fill) : Int :=
  let makerAmt := toSatoshis f.units
  let premiumAmt := if o.auctionType = btcOutboundLiquidity then makerAmt + f.otherSelf else makerAmt
  Int.neg (makerDelta fs f.price makerAmt premiumAmt o.leaseDuration)

def matchDebit (fs : FeeSchedule) (o : Order) (f : Fill) : Int :=
  if o.isBid then bidMatchDebit fs o f else askMatchDebit fs o f

/-- a batch as far as one order is concerned: its chain fee rate, the account version used for the chain fee,
    and the matches of the order -/
structure BatchFills where
  feeRate : Nat
  ver : Nat
  fills : List Fill
deriving Repr

/-- total debit of a batch in which the order is the account's only matched order:
    Σ match debits + `EstimateTraderFee(NumChansCreated, BatchTxFeeRate, acct.Version)` -/
def batchDebit (fs : FeeSchedule) (o : Order) (b : BatchFills) : Int :=
  (b.fills.map (matchDebit fs o)).sum + (estimateTraderFee b.fills.length b.feeRate b.ver : Int)

def fillsUnits (fl : List Fill) : Nat := (fl.map (·.units)).sum
/-- units filled over a sequence of batches -/
def totalUnits (bs : List BatchFills) : Nat := (bs.map (fun b => fillsUnits b.fills)).sum
/-- number of matches (= channels) over a sequence of batches -/
def totalFills (bs : List BatchFills) : Nat := (bs.map (fun b => b.fills.length)).sum
/-- what the verified batches debit from the account for this order over a sequence of batches -/
def totalDebit (fs : FeeSchedule) (o : Order) (bs : List BatchFills) : Int := (bs.map (batchDebit fs o)).sum

/-- the two unit checks that end `batchVerifier.Verify`'s per-order loop, for `unitsFilled` = the units all matches of
    the order in the batch add up to: reject if `unitsFilled > UnitsUnfulfilled`; reject if the market is not the
    outbound one and `unitsFilled < MinUnitsMatch` -/
def verifyUnitsOk (o : Order) (unitsFilled : Nat) : Bool :=
  !(decide (o.unitsUnfulfilled < unitsFilled)) &&
  !(o.auctionType != btcOutboundLiquidity && decide (unitsFilled < o.minUnitsMatch))

/-- single match, one channel, one batch -/
def singleDebit (fs : FeeSchedule) (o : Order) (ver feeRate : Nat) (f : Fill) : Int :=
  matchDebit fs o f + (estimateTraderFee 1 feeRate ver : Int)

/-! ## `manager.validateOrder` -/

structure Account where
  key : Nat
  value : Nat
  version : Nat
deriving Repr, DecidableEq

structure Terms where
  baseFee : Nat
  feeRate : Nat
  buckets : List Nat
deriving Repr

inductive VResult where
  | ok | errDuration | errFeeFloor | errSelfChan | errInsufficient | panic
deriving Repr, DecidableEq

/-- `CheckOfferParams(auctionType, capacity, pushAmt, BaseSupplyUnit)`: true = error -/
def checkOfferParamsErr (auctionType capacity pushAmt : Nat) : Bool :=
  (capacity == 0 || capacity % baseSupplyUnit != 0) ||
  (auctionType == btcInboundLiquidity && decide (capacity < pushAmt)) ||
  (auctionType == btcOutboundLiquidity && (pushAmt == 0 || pushAmt % baseSupplyUnit != 0))

/-- `Bid.ValidateSelfChanBalance`: true = error -/
def validateSelfChanBalanceErr (b : Order) : Bool :=
  decide (b.version < versionSelfChanBalance) ||
  checkOfferParamsErr b.auctionType b.amt b.selfChanBalance ||
  (b.units != b.minUnitsMatch) ||
  (b.auctionType == btcOutboundLiquidity && decide (b.selfChanBalance < baseSupplyUnit))

/-- the running sum `reserved += o.ReservedValue(feeSchedule, acct.Version)` over the stored orders of the
    account; `none` = a panic occurred -/
def sumReserved (fs : FeeSchedule) (acct : Account) : List Order → Option Int
  | [] => some 0
  | o :: rest =>
    if o.acctKey ≠ acct.key then sumReserved fs acct rest else
    match orderReservedValue fs o acct.version with
    | .panic => none
    | .ok v => (sumReserved fs acct rest).map (v + ·)

/-- `manager.validateOrder(order, acct, terms)` with `dbOrders` the content of the order store -/
def validateOrder (dbOrders : List Order) (o : Order) (acct : Account) (t : Terms) : VResult :=
  if !t.buckets.contains o.leaseDuration then .errDuration else
  if o.maxBatchFeeRate < feePerKwFloor then .errFeeFloor else
  if o.isBid && decide (0 < o.selfChanBalance) && validateSelfChanBalanceErr o then .errSelfChan else
  let fs : FeeSchedule := ⟨t.baseFee, t.feeRate⟩
  match orderReservedValue fs o acct.version with
  | .panic => .panic
  | .ok r0 =>
    match sumReserved fs acct dbOrders with
    | none => .panic
    | some rs => if (acct.value : Int) < r0 + rs then .errInsufficient else .ok

/-! ## `MarshallAccountsWithAvailableBalance` -/

/-- `rpcAccount.Value - uint64(accountDebit)` (uint64 arithmetic); `none` = panic in a `ReservedValue` -/
def availableBalance (fs : FeeSchedule) (orders : List Order) (acct : Account) : Option Nat :=
  (sumReserved fs acct orders).map fun debit =>
    ((acct.value : Int) - debit).emod (18446744073709551616 : Int) |>.toNat

/-! ## every value Go holds in an `int64` while computing `ReservedValue`

Closed form of `reservedValue` (`n0 = U / m`, `r = U % m`; the Go condition `maxNumMatches*minMatchSize < totalSats`
is `r ≠ 0`, and then `rem = m + r`) together with the list of all integer intermediates of the computation, in
program order. `PoolProofs.C11Overflow` proves the closed form equal to `reservedValue` and every listed value inside
the `int64` range whenever `inDomain` holds. -/

/-- intermediates of `executionFee(amount, schedule)`: `amt * feeRate`, `… / 1_000_000`, `base + …` -/
def execFeeParts (fs : FeeSchedule) (amount : Nat) : List Int :=
  [((amount * fs.feeRate : Nat) : Int), ((amount * fs.feeRate / execFeeRateDivisor : Nat) : Int),
   (executionFee fs amount : Int)]

/-- intermediates of the `perMatchDelta` closure for a match of `amt` (bid: `takerDelta`, ask: `makerDelta`) -/
def perMatchParts (fs : FeeSchedule) (o : Order) (amt : Nat) : List Int :=
  if o.isBid then
    let base := bidPremiumAmt o amt
    let p : Int := premium base o.fixedRate o.leaseDuration
    [(base : Int), p, -p, -p - (o.selfChanBalance : Int)] ++ execFeeParts fs base ++ [bidPerMatch fs o amt]
  else
    let p : Int := premium amt o.fixedRate o.leaseDuration
    [(amt : Int), p, -(amt : Int), -(amt : Int) + p] ++ execFeeParts fs amt ++ [askPerMatch fs o amt]

/-- intermediates of `EstimateTraderFee` / `FeeForWeight` -/
def traderFeeParts (k feeRate ver : Nat) : List Int :=
  [(traderWeight k ver : Int), ((feeRate * traderWeight k ver : Nat) : Int), (estimateTraderFee k feeRate ver : Int)]

/-- the closure `perMatchDelta` of `Ask/Bid.ReservedValue` -/
def perMatch (fs : FeeSchedule) (o : Order) : Nat → Int :=
  if o.isBid then bidPerMatch fs o else askPerMatch fs o

/-- `balanceDelta` of `reservedValue` just before the final sign test, in closed form -/
def closedBalanceDelta (fs : FeeSchedule) (o : Order) (ver : Nat) : Int :=
  let U := toSatoshis o.unitsUnfulfilled
  let m := toSatoshis o.minUnitsMatch
  let fee1 : Int := estimateTraderFee 1 o.maxBatchFeeRate ver
  if U % m ≠ 0 then
    (((U / m : Nat) : Int) - 1) * perMatch fs o m + perMatch fs o (m + U % m) - (((U / m : Nat) : Int) - 1) * fee1 - fee1
  else
    ((U / m : Nat) : Int) * perMatch fs o m - ((U / m : Nat) : Int) * fee1

/-- all `int64` intermediates of `ReservedValue` for an active order with a non-zero minimum match -/
def reservedIntermediates (fs : FeeSchedule) (o : Order) (ver : Nat) : List Int :=
  let U := toSatoshis o.unitsUnfulfilled
  let m := toSatoshis o.minUnitsMatch
  let n0 : Int := ((U / m : Nat) : Int)
  let fee1 : Int := estimateTraderFee 1 o.maxBatchFeeRate ver
  let pm := perMatch fs o
  [(U : Int), (m : Int), n0, n0 * m] ++ perMatchParts fs o m ++ traderFeeParts 1 o.maxBatchFeeRate ver ++
  (if U % m ≠ 0 then
    [n0 - 1, (n0 - 1) * m, ((m + U % m : Nat) : Int)] ++ perMatchParts fs o (m + U % m) ++
    [(n0 - 1) * pm m, (n0 - 1) * pm m + pm (m + U % m), (n0 - 1) * fee1,
     (n0 - 1) * pm m + pm (m + U % m) - (n0 - 1) * fee1]
   else
    [n0 * pm m, n0 * fee1]) ++
  [closedBalanceDelta fs o ver, -closedBalanceDelta fs o ver]

/-- the values the variable `reserved` of `validateOrder` takes, in program order: the new order's reserved value,
    then one running sum per stored order of the account (orders of other accounts are skipped, a panic ends it) -/
def runningSums (fs : FeeSchedule) (acct : Account) (acc : Int) : List Order → List Int
  | [] => []
  | o :: rest =>
    if o.acctKey ≠ acct.key then runningSums fs acct acc rest else
    match orderReservedValue fs o acct.version with
    | .panic => []
    | .ok v => (acc + v) :: runningSums fs acct (acc + v) rest

/-! ## the domain in which Go's fixed-width arithmetic agrees with the model -/

/-- largest number of matches the reserve is computed for -/
def maxMatches (o : Order) : Nat := o.unitsUnfulfilled / o.minUnitsMatch

/-- premium-magnitude guard: the exact premium of the whole unfilled amount (plus the self balances of all
    matches) at the order's own rate is at most 2^48 sat, so that the accumulated float error stays below 1/2 sat -/
def premiumGuard (o : Order) : Bool :=
  decide ((toSatoshis o.unitsUnfulfilled + maxMatches o * o.selfChanBalance) * o.fixedRate * o.leaseDuration
            ≤ 2 ^ 48 * feeRateTotalParts)

/-- Box + premium guards.  Inside it every intermediate of `ReservedValue` is below 2^63 in absolute value, every
    float premium is below 2^50, and `float64(amt)` is exact. -/
def inDomain (fs : FeeSchedule) (o : Order) : Bool :=
  decide (o.unitsUnfulfilled ≤ 10 ^ 7) && decide (o.minUnitsMatch ≤ 10 ^ 7) && decide (o.units ≤ 10 ^ 7) &&
  decide (o.amt ≤ 10 ^ 12) &&
  decide (o.selfChanBalance ≤ 10 ^ 11) && decide (fs.baseFee ≤ 10 ^ 9) && decide (fs.feeRate ≤ 10 ^ 6) &&
  decide (o.maxBatchFeeRate ≤ 10 ^ 8) && decide (o.fixedRate < 2 ^ 32) && decide (o.leaseDuration < 2 ^ 32) &&
  premiumGuard o &&
  decide ((toSatoshis o.unitsUnfulfilled + 2 * toSatoshis o.minUnitsMatch + o.selfChanBalance) * o.fixedRate * o.leaseDuration
            ≤ 2 ^ 48 * feeRateTotalParts)

end Pool.C11
