import PoolModel.Dec.Fmt
/-! Deterministic enumeration of single-byte / single-character alterations, truncations and extensions
of an encoding; the Go harness enumerates in exactly the same order. -/
namespace Pool.Dec

def setAt (b : Bytes) (i : Nat) (v : UInt8) : Bytes := b.set i v

/-- xor masks applied to every byte position: mode 0 = three masks, mode 1 = all 255 -/
def masks (mode : Nat) : List UInt8 :=
  if mode = 0 then [0x01, 0x80, 0xff] else (List.range 255).map (fun i => UInt8.ofNat (i + 1))

def binExtensions : List Bytes :=
  [[0x00], [0x01], [0xff], [0x2a], [99, 0], [99, 0xff, 0xff, 0xff, 0xff, 0xff, 0xff, 0xff, 0xff, 0xff],
   [99, 0xfe, 0x00, 0x01, 0x00, 0x00], [99, 0xfd, 0xff, 0xff]]

/-- all variants of a binary encoding -/
def binVariants (mode : Nat) (b : Bytes) : List Bytes :=
  ((List.range b.length).flatMap fun i => (masks mode).map fun m => setAt b i (b.getD i 0 ^^^ m))
  ++ (List.range b.length).map (fun n => b.take n)
  ++ binExtensions.map (fun e => b ++ e)

/-- replacement characters for one position of a string: two other alphabet characters, a foreign
character, the same letter in the other case (`c xor 0x20`) and the next byte value; mode 1: every
other alphabet character plus foreign ones -/
def strRepl (mode : Nat) (c : UInt8) : List UInt8 :=
  let idx := (b58Index c).getD 0
  if mode = 0 then [b58Char ((idx + 1) % 58), b58Char ((idx + 29) % 58), 0x30, c ^^^ 0x20, c + 1]
  else ((List.range 57).map fun k => b58Char ((idx + 1 + k) % 58)) ++ [0x30, 0x6c, 0x20, 0xc3, c ^^^ 0x20, c + 1, c - 1]

def strExtensions : List UInt8 := [0x31, 0x32, 0x7a, 0x30]

/-- positions at which single-character insertions / deletions are tried: around the prefix / version boundary and
every 16th position after it -/
def strEditPos (i : Nat) : Bool := decide (i < 12) || i % 16 == 0

def strVariants (mode : Nat) (s : Bytes) : List Bytes :=
  ((List.range s.length).flatMap fun i => (strRepl mode (s.getD i 0)).map fun r => setAt s i r)
  ++ (List.range s.length).map (fun n => s.take n)
  ++ strExtensions.map (fun e => s ++ [e])
  ++ ((List.range s.length).filter strEditPos).flatMap fun i =>
      [s.take i ++ [0x31] ++ s.drop i, s.take i ++ [0x7a] ++ s.drop i, s.take i ++ s.drop (i + 1)]

def errChar : Err → Char
  | .eof => 'f' | .varint => 'v' | .stream => 's' | .badlen => 'l' | .toolarge => 'L'
  | .pubkey => 'k' | .sig => 'u' | .pfx => 'u' | .length => 'u' | .checksum => 'u' | .other => 'u'

/-- outcome class of a variant relative to the ticket the unaltered encoding decodes to -/
def classify (orig : Outcome Ticket) (r : Outcome Ticket) : Char :=
  match r with
  | .panic => 'P'
  | .err e => errChar e
  | .ok t =>
    match orig with
    | .ok t0 => if t = t0 then '=' else 'D'
    | _ => 'D'

end Pool.Dec
