import PoolModel.Dec.Ticket
/-! Model of the sidecar ticket store of clientdb/sidecar.go: the `sidecars` bucket maps
`id ‖ compressed offer sign key` (41 bytes) to `SerializeTicket(ticket)`.  `AddSidecar`, `UpdateSidecar`,
`Sidecar`, `SidecarsByID`, `Sidecars`.  bbolt keeps keys in byte order; the bucket is an association list
kept in that order.  (The nested `bid-template` bucket is not part of this model; it is C10's.) -/
namespace Pool.Dec

/-- `bytes.Compare(a, b) < 0` -/
def bytesLt : Bytes → Bytes → Bool
  | [], [] => false
  | [], _ :: _ => true
  | _ :: _, [] => false
  | a :: as, b :: bs => if a.toNat < b.toNat then true else if a = b then bytesLt as bs else false

abbrev SBucket := List (Bytes × Bytes)

def SBucket.get : SBucket → Bytes → Option Bytes
  | [], _ => none
  | (k', v) :: rest, k => if k' = k then some v else SBucket.get rest k

/-- `bucket.Put(key, value)`: replace, or insert in key order -/
def SBucket.put : SBucket → Bytes → Bytes → SBucket
  | [], k, v => [(k, v)]
  | (k', v') :: rest, k, v =>
    if k' = k then (k, v) :: rest
    else if bytesLt k k' then (k, v) :: (k', v') :: rest
    else (k', v') :: SBucket.put rest k v

/-- results of the store operations -/
inductive SRes (α : Type) where
  | ok (a : α)
  | noKey                 -- "offer signing pubkey cannot be nil"
  | exists_               -- "sidecar for key … already exists"
  | noSidecar             -- ErrNoSidecar
  | codec (e : Err)       -- error of SerializeTicket / DeserializeTicket
  | panic
  deriving Repr

/-- `getSidecarKey` -/
def getSidecarKey (id : Bytes) (spk : Option Bytes) : Option Bytes :=
  match spk with
  | none => none
  | some k => some (id ++ k)

/-- `storeSidecar` -/
def storeSidecar (b : SBucket) (key : Bytes) (t : Ticket) : SRes SBucket :=
  match serializeTicket t with
  | .ok bytes => .ok (b.put key bytes)
  | .err e => .codec e
  | .panic => .panic

/-- `AddSidecar` -/
def addSidecar (b : SBucket) (t : Ticket) : SRes SBucket :=
  match getSidecarKey t.id t.offer.signPubKey with
  | none => .noKey
  | some key =>
    match b.get key with
    | some v => if v.length ≠ 0 then .exists_ else storeSidecar b key t
    | none => storeSidecar b key t

/-- `AddSidecarWithBid`: the ticket's order part is REPLACED by a fresh one holding only the bid's nonce,
then the ticket is stored as by `AddSidecar`.  (The bid template goes into the nested template bucket, which
belongs to C10's model; `UpdateSidecar` into a terminal state deletes it again and then stores the ticket.) -/
def addSidecarWithBid (b : SBucket) (t : Ticket) (bidNonce : Bytes) : SRes SBucket :=
  addSidecar b { t with order := some { bidNonce := bidNonce, sigOrderDigest := none } }

/-- `UpdateSidecar`: the ticket given by the caller replaces the stored one entirely -/
def updateSidecar (b : SBucket) (t : Ticket) : SRes SBucket :=
  match getSidecarKey t.id t.offer.signPubKey with
  | none => .noKey
  | some key =>
    match b.get key with
    | some v => if v.length = 0 then .noSidecar else storeSidecar b key t
    | none => .noSidecar

/-- `readSidecar` -/
def readSidecar (cfg : Cfg) (b : SBucket) (key : Bytes) : SRes Ticket :=
  match b.get key with
  | none => .noSidecar
  | some bytes =>
    match deserializeTicket cfg bytes with
    | .ok t => .ok t
    | .err e => .codec e
    | .panic => .panic

/-- `Sidecar(id, offerSignPubKey)` -/
def sidecarGet (cfg : Cfg) (b : SBucket) (id : Bytes) (spk : Option Bytes) : SRes Ticket :=
  match getSidecarKey id spk with
  | none => .noKey
  | some key => readSidecar cfg b key

def readAll (cfg : Cfg) : SBucket → SRes (List Ticket)
  | [] => .ok []
  | (_, v) :: rest =>
    match deserializeTicket cfg v with
    | .ok t =>
      match readAll cfg rest with
      | .ok ts => .ok (t :: ts)
      | r => r
    | .err e => .codec e
    | .panic => .panic

/-- `Sidecars()`: all tickets in key order -/
def sidecars (cfg : Cfg) (b : SBucket) : SRes (List Ticket) := readAll cfg b

/-- `SidecarsByID(id)`: cursor from `Seek(id)` while the key has the prefix – in a key-ordered bucket exactly
the entries whose key starts with `id` -/
def sidecarsByID (cfg : Cfg) (b : SBucket) (id : Bytes) : SRes (List Ticket) :=
  readAll cfg (b.filter fun e => e.1.take id.length == id)

end Pool.Dec
