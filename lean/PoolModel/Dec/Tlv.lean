import PoolModel.Dec.Basic
/-! Model of the lnd `tlv` package (v1.3.0) as used by sidecar/tlv.go: BigSize varints (`ReadVarInt`,
`WriteVarInt`), `Stream.Encode`, `Stream.decode` (canonical increasing type order, unknown-type
skipping, parsed-types map, optional 65535 record cap of the `…P2P` variants) and the primitive
record decoders.  Readers are `List UInt8` (the unread rest of a `bytes.Reader`). -/
namespace Pool.Dec

/-- tlv.MaxRecordSize -/
def maxRecordSize : Nat := 65535

structure Cfg where
  /-- `DeserializeTicket` uses the size-capped `DecodeWithParsedTypesP2P` (the repaired sidecar/tlv.go)
      rather than `DecodeWithParsedTypes` (the pinned code) -/
  p2pTop : Bool
  /-- `decodeBytes` (nested streams) uses a size-capped `…P2P` variant rather than an uncapped one -/
  p2pSub : Bool
  /-- `decodeBytes` asks for the parsed-types map (`DecodeWithParsedTypes…`): unknown records are then
      buffered in `make([]byte, 0, length)` instead of being discarded -/
  typesSub : Bool := false
  /-- largest `make([]byte, n)` the runtime grants -/
  maxAlloc : Nat

/-- result of tlv.ReadVarInt -/
inductive VarRes where
  | eof                       -- io.EOF: no byte left for the discriminant
  | ueof                      -- io.ErrUnexpectedEOF inside the integer
  | noncanon                  -- ErrVarIntNotCanonical
  | ok (v : Nat) (rest : Bytes)
  deriving Repr

/-- tlv.ReadVarInt -/
def readVarInt : Bytes → VarRes
  | [] => .eof
  | d :: rest =>
    if d.toNat < 0xfd then .ok d.toNat rest
    else if d.toNat = 0xfd then
      if rest.length < 2 then .ueof
      else
        let v := beNat (rest.take 2)
        if v < 0xfd then .noncanon else .ok v (rest.drop 2)
    else if d.toNat = 0xfe then
      if rest.length < 4 then .ueof
      else
        let v := beNat (rest.take 4)
        if v ≤ 0xffff then .noncanon else .ok v (rest.drop 4)
    else
      if rest.length < 8 then .ueof
      else
        let v := beNat (rest.take 8)
        if v ≤ 0xffffffff then .noncanon else .ok v (rest.drop 8)

/-- tlv.WriteVarInt (argument < 2^64) -/
def writeVarInt (v : Nat) : Bytes :=
  if v < 0xfd then [UInt8.ofNat v]
  else if v ≤ 0xffff then (0xfd : UInt8) :: toBE 2 v
  else if v ≤ 0xffffffff then (0xfe : UInt8) :: toBE 4 v
  else (0xff : UInt8) :: toBE 8 v

/-- A known record of a decoding stream: its type and its `Decoder`, which is given the declared
length, the unread input and the values decoded so far, and returns the new values and the rest. -/
structure Rec (σ : Type) where
  typ : Nat
  dec : Nat → Bytes → σ → Outcome (σ × Bytes)

/-- tlv.Stream.getRecord: walk forward through the (sorted) remaining records. -/
def getRecord {σ : Type} : List (Rec σ) → Nat → Option (Rec σ) × List (Rec σ)
  | [], _ => (none, [])
  | r :: rs, typ =>
    if r.typ = typ then (some r, rs)
    else if r.typ < typ then getRecord rs typ
    else (none, r :: rs)

/-- `io.CopyN(w, r, int64(length))` on the unread rest: a length ≥ 2^63 becomes a negative count, for
which CopyN copies nothing and returns nil; otherwise fewer than `n` available bytes ⇒ io.EOF. -/
def copyN (len : Nat) (inp : Bytes) : Outcome Bytes :=
  if len ≥ 2 ^ 63 then .ok inp
  else if inp.length < len then .err .eof
  else .ok (inp.drop len)

/-- tlv.Stream.decode.  `withTypes` = the caller passed a TypeMap (`DecodeWithParsedTypes…`): unknown
records are then copied into `bytes.NewBuffer(make([]byte, 0, length))`.  The result carries the list
of known types that were decoded (the keys of the TypeMap whose value is nil).  `fuel` bounds the
number of loop iterations; running out of it (a loop that makes no progress) is reported as `panic`,
so the "never panics" theorems also say that the loop ends within `len(input)+1` iterations. -/
def decodeLoop {σ : Type} (p2p : Bool) (maxAlloc : Nat) (withTypes : Bool) :
    Nat → List (Rec σ) → Nat → Bytes → σ → List Nat → Outcome (σ × List Nat)
  | 0, _, _, _, _, _ => .panic
  | fuel + 1, recs, min, inp, s, parsed =>
    match readVarInt inp with
    | .eof => .ok (s, parsed)
    | .ueof => .err .eof
    | .noncanon => .err .varint
    | .ok typ inp1 =>
      if typ < min then .err .stream else
      match readVarInt inp1 with
      | .eof => .err .eof
      | .ueof => .err .eof
      | .noncanon => .err .varint
      | .ok len inp2 =>
        if p2p && len > maxRecordSize then .err .toolarge else
        match getRecord recs typ with
        | (some r, recs') =>
          match r.dec len inp2 s with
          | .ok (s', inp3) => decodeLoop p2p maxAlloc withTypes fuel recs' (typ + 1) inp3 s' (parsed ++ [typ])
          | .err e => .err e
          | .panic => .panic
        | (none, recs') =>
          match (if withTypes then alloc maxAlloc len else .ok ()) with
          | .ok () =>
            match copyN len inp2 with
            | .ok inp3 => decodeLoop p2p maxAlloc withTypes fuel recs' (typ + 1) inp3 s parsed
            | .err e => .err e
            | .panic => .panic
          | .err e => .err e
          | .panic => .panic

/-- tlv.NewStream: the records must be sorted by strictly increasing type. -/
def sortedTypes : List Nat → Bool
  | [] => true
  | [_] => true
  | a :: b :: rest => a < b && sortedTypes (b :: rest)

/-- `tlv.NewStream(recs…)` followed by `Stream.decode` -/
def decodeStream {σ : Type} (p2p : Bool) (maxAlloc : Nat) (withTypes : Bool) (recs : List (Rec σ))
    (inp : Bytes) (s : σ) : Outcome (σ × List Nat) :=
  if sortedTypes (recs.map (·.typ)) then decodeLoop p2p maxAlloc withTypes (inp.length + 1) recs 0 inp s []
  else .err .stream

/-! ### primitive decoders (tlv/primitive.go, sidecar/tlv.go) -/

/-- `io.ReadFull(r, b[:n])` -/
def readFull (n : Nat) (inp : Bytes) : Outcome (Bytes × Bytes) :=
  if inp.length < n then .err .eof else .ok (inp.take n, inp.drop n)

/-- DUint8/DUint32/DUint64/DBytes8/DBytes32/DBytes33/DBytes64: `l == size` else ErrTypeForDecoding,
then `io.ReadFull` of `size` bytes. -/
def dStatic {σ : Type} (size : Nat) (set : Bytes → σ → σ) : Nat → Bytes → σ → Outcome (σ × Bytes) :=
  fun l inp s =>
    if l = size then
      match readFull size inp with
      | .ok (v, rest) => .ok (set v s, rest)
      | .err e => .err e
      | .panic => .panic
    else .err .badlen

/-- tlv.DVarBytes: `*b = make([]byte, l); io.ReadFull(r, *b)` -/
def dVarBytes {σ : Type} (cfg : Cfg) (set : Bytes → σ → σ) : Nat → Bytes → σ → Outcome (σ × Bytes) :=
  fun l inp s =>
    match alloc cfg.maxAlloc l with
    | .ok () =>
      match readFull l inp with
      | .ok (v, rest) => .ok (set v s, rest)
      | .err e => .err e
      | .panic => .panic
    | .err e => .err e
    | .panic => .panic

/-- A static record whose value is validated after reading (DPubKey, DSig): `check` returns the new
values or the error of the validation. -/
def dChecked {σ : Type} (size : Nat) (check : Bytes → σ → Outcome σ) : Nat → Bytes → σ → Outcome (σ × Bytes) :=
  fun l inp s =>
    if l = size then
      match readFull size inp with
      | .ok (v, rest) =>
        match check v s with
        | .ok s' => .ok (s', rest)
        | .err e => .err e
        | .panic => .panic
      | .err e => .err e
      | .panic => .panic
    else .err .badlen

/-! ### encoding -/

/-- one record of `Stream.Encode`: varint type, varint length, value -/
def encodeRecord (r : Nat × Bytes) : Bytes := writeVarInt r.1 ++ writeVarInt r.2.length ++ r.2

/-- `Stream.Encode` -/
def encodeRecords (rs : List (Nat × Bytes)) : Bytes := rs.flatMap encodeRecord

def insertRec (x : Nat × Bytes) : List (Nat × Bytes) → List (Nat × Bytes)
  | [] => [x]
  | y :: ys => if x.1 ≤ y.1 then x :: y :: ys else y :: insertRec x ys

/-- tlv.SortRecords -/
def sortRecords (rs : List (Nat × Bytes)) : List (Nat × Bytes) := rs.foldr insertRec []

/-- sidecar/tlv.go `encodeBytes`: SortRecords, NewStream (canonical-order assertion), Encode -/
def encodeBytes (rs : List (Nat × Bytes)) : Outcome Bytes :=
  let sorted := sortRecords rs
  if sortedTypes (sorted.map (·.1)) then .ok (encodeRecords sorted) else .err .stream

end Pool.Dec
