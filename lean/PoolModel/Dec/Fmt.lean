import PoolModel.Dec.Ticket
import PoolModel.Util
/-! Space-free text tokens for tickets and outcomes used on the driver line protocol (C15, C19). -/
namespace Pool.Dec
open Pool.Util

def hexOpt : Option Bytes → String
  | none => "~"
  | some b => hex b

def sigRaw (g : Sig) : Bytes := toBE 32 g.r ++ toBE 32 g.s

def b01 (b : Bool) : String := if b then "1" else "0"

/-- canonical token of a ticket: 14 comma-separated fields, `~` = absent, nested parts `;`-separated -/
def fmtTicket (t : Ticket) : String :=
  joinWith "," [
    hex t.id, toString t.version, toString t.state,
    toString t.offer.capacity, toString t.offer.pushAmt, toString t.offer.leaseDuration,
    hexOpt t.offer.signPubKey, hexOpt (t.offer.sigOfferDigest.map sigRaw),
    b01 t.offer.auto, b01 t.offer.unannounced, b01 t.offer.zeroConf,
    (match t.recipient with
     | none => "~"
     | some r => joinWith ";" [hexOpt r.nodePubKey, hexOpt r.multiSigPubKey, toString r.multiSigKeyIndex]),
    (match t.order with
     | none => "~"
     | some o => joinWith ";" [hex o.bidNonce, hexOpt (o.sigOrderDigest.map sigRaw)]),
    (match t.execution with
     | none => "~"
     | some e => hex e.pendingChannelID)]

def unhexN (n : Nat) (s : String) : Option Bytes :=
  match unhex s with
  | some b => if b.length = n then some b else none
  | none => none

/-- `~` ↦ absent, else exactly `n` hex bytes -/
def unhexOptN (n : Nat) (s : String) : Option (Option Bytes) :=
  if s == "~" then some none else (unhexN n s).map some

def parseSigTok (s : String) : Option (Option Sig) :=
  if s == "~" then some none else
  match unhexN 64 s with
  | some b => some (some ⟨beNat (b.take 32), beNat (b.drop 32)⟩)
  | none => none

def parse01 (s : String) : Option Bool :=
  if s == "1" then some true else if s == "0" then some false else none

def parseTicket (tok : String) : Option Ticket :=
  match tok.splitOn "," with
  | [id, ver, st, cap, push, dur, spk, osig, auto, un, zc, rec, ord, exe] => do
    let id ← unhexN 8 id
    let ver ← ver.toNat?
    let st ← st.toNat?
    let cap ← cap.toNat?
    let push ← push.toNat?
    let dur ← dur.toNat?
    let spk ← unhexOptN 33 spk
    let osig ← parseSigTok osig
    let auto ← parse01 auto
    let un ← parse01 un
    let zc ← parse01 zc
    let rec ← (if rec == "~" then some none else
      match rec.splitOn ";" with
      | [n, m, i] => do
        let n ← unhexOptN 33 n
        let m ← unhexOptN 33 m
        let i ← i.toNat?
        some (some ({ nodePubKey := n, multiSigPubKey := m, multiSigKeyIndex := i } : Recipient))
      | _ => none)
    let ord ← (if ord == "~" then some none else
      match ord.splitOn ";" with
      | [n, g] => do
        let n ← unhexN 32 n
        let g ← parseSigTok g
        some (some ({ bidNonce := n, sigOrderDigest := g } : Order))
      | _ => none)
    let exe ← (if exe == "~" then some none else do
      let p ← unhexN 32 exe
      some (some ({ pendingChannelID := p } : Execution)))
    if ver < 256 ∧ st < 256 ∧ cap < 2 ^ 64 ∧ push < 2 ^ 64 ∧ dur < 2 ^ 32 then
      some { id := id, version := ver, state := st,
             offer := { capacity := cap, pushAmt := push, leaseDuration := dur, signPubKey := spk,
                        sigOfferDigest := osig, auto := auto, unannounced := un, zeroConf := zc },
             recipient := rec, order := ord, execution := exe }
    else none
  | _ => none

def fmtOutcome {α : Type} (f : α → String) : Outcome α → String
  | .ok a => "ok " ++ f a
  | .err e => "err " ++ e.name
  | .panic => "panic"

/-- the largest `make([]byte, n)` the Go runtime grants on linux/amd64 (`maxAlloc` = 2^48) -/
def goMaxAlloc : Nat := 2 ^ 48

end Pool.Dec
