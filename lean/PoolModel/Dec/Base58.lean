import PoolModel.Dec.Basic
/-! btcutil/base58 (v1.1.5) `Encode` / `Decode`: the big-number definition (the 10-digit chunking of
the Go code is an optimisation of exactly this), the leading-zero rule, and "any character outside
the alphabet ⇒ empty result".  Strings are their bytes (Go ranges over runes, but every non-ASCII rune
is either > 255 or maps to 255 in the `b58` table, so the result is empty as for any other foreign
byte). -/
namespace Pool.Dec

def b58Alphabet : Bytes := "123456789ABCDEFGHJKLMNPQRSTUVWXYZabcdefghijkmnopqrstuvwxyz".toUTF8.toList

/-- position of a character in the alphabet (the `b58` table; `none` = 255) -/
def b58Index (c : UInt8) : Option Nat :=
  let i := b58Alphabet.idxOf c
  if i < 58 then some i else none

def b58Char (d : Nat) : UInt8 := b58Alphabet.getD d 0

/-- `big.Int.Bytes()`: minimal big-endian bytes, empty for 0 (fuel = upper bound on the digit count) -/
def natBytesF : Nat → Nat → Bytes
  | 0, _ => []
  | fuel + 1, n => if n = 0 then [] else natBytesF fuel (n / 256) ++ [UInt8.ofNat (n % 256)]

def natBytes (n : Nat) : Bytes := natBytesF n n

def natDigits58F : Nat → Nat → Bytes
  | 0, _ => []
  | fuel + 1, n => if n = 0 then [] else natDigits58F fuel (n / 58) ++ [b58Char (n % 58)]

/-- base-58 digits of `n`, most significant first, none for 0 -/
def natDigits58 (n : Nat) : Bytes := natDigits58F n n

def leadingCount (c : UInt8) : Bytes → Nat
  | [] => 0
  | x :: xs => if x = c then leadingCount c xs + 1 else 0

/-- base58.Encode -/
def b58Encode (b : Bytes) : Bytes :=
  List.replicate (leadingCount 0 b) (b58Char 0) ++ natDigits58 (beNat b)

/-- all characters mapped through the table, `none` as soon as one is foreign -/
def b58Digits : Bytes → Option (List Nat)
  | [] => some []
  | c :: cs =>
    match b58Index c, b58Digits cs with
    | some d, some ds => some (d :: ds)
    | _, _ => none

/-- base58.Decode; the final `make([]byte, flen)` is an allocation request. -/
def b58Decode (maxAlloc : Nat) (s : Bytes) : Outcome Bytes :=
  match b58Digits s with
  | none => .ok []
  | some ds =>
    let v := ds.foldl (fun a d => a * 58 + d) 0
    let tmp := natBytes v
    let nz := leadingCount (b58Char 0) s
    match alloc maxAlloc (nz + tmp.length) with
    | .ok () => .ok (List.replicate nz 0 ++ tmp)
    | .err e => .err e
    | .panic => .panic

end Pool.Dec
