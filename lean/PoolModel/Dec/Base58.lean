import PoolModel.Dec.Basic
/-! btcutil/base58 (v1.1.5) `Encode` / `Decode`: the big-number definition (the 10-digit chunking of
the Go code is an optimisation of exactly this), the leading-zero rule, and "any character outside
the alphabet ⇒ empty result".  Strings are their bytes (Go ranges over runes, but every non-ASCII rune
is either > 255 or maps to 255 in the `b58` table, so the result is empty as for any other foreign
byte). -/
namespace Pool.Dec

def b58Alphabet : Bytes :=
  "123456789ABCDEFGHJKLMNPQRSTUVWXYZabcdefghijkmnopqrstuvwxyz".toList.map (fun c => UInt8.ofNat c.toNat)

/-- position of a character in the alphabet (the `b58` table; `none` = 255) -/
def b58Index (c : UInt8) : Option Nat :=
  let i := b58Alphabet.idxOf c
  if i < 58 then some i else none

def b58Char (d : Nat) : UInt8 := b58Alphabet.getD d 0

/-- `big.Int.Bytes()`: minimal big-endian bytes, empty for 0 (fuel = upper bound on the digit count) -/
def natBytesF : Nat → Nat → Bytes
  | 0, _ => []
  | fuel + 1, n => if n = 0 then [] else natBytesF fuel (n / 256) ++ [UInt8.ofNat (n % 256)]

def natBytes (n : Nat) : Bytes := natBytesF n n

def natDigits58F : Nat → Nat → Bytes
  | 0, _ => []
  | fuel + 1, n => if n = 0 then [] else natDigits58F fuel (n / 58) ++ [b58Char (n % 58)]

/-- base-58 digits of `n`, most significant first, none for 0 -/
def natDigits58 (n : Nat) : Bytes := natDigits58F n n

def leadingCount (c : UInt8) : Bytes → Nat
  | [] => 0
  | x :: xs => if x = c then leadingCount c xs + 1 else 0

/-- base58.Encode -/
def b58Encode (b : Bytes) : Bytes :=
  List.replicate (leadingCount 0 b) (b58Char 0) ++ natDigits58 (beNat b)

/-- all characters mapped through the table, `none` as soon as one is foreign -/
def b58Digits : Bytes → Option (List Nat)
  | [] => some []
  | c :: cs =>
    match b58Index c, b58Digits cs with
    | some d, some ds => some (d :: ds)
    | _, _ => none

/-- value of a digit list (most significant digit first) in radix 58 -/
def digitsValue (ds : List Nat) : Nat := ds.foldl (fun a d => a * 58 + d) 0

/-! #### compiled fast paths (proved equal, installed with `@[csimp]`)

`digitsValue` multiplies a growing big number once per digit and `natBytes` appends at the end; the
compiled driver uses the 10-digit chunking of the Go code and an accumulator instead. -/

/-- up to `k` digits folded into a machine-size total and the matching power of 58 -/
def takeChunk : Nat → List Nat → Nat → Nat → Nat × Nat × List Nat
  | 0, ds, t, p => (t, p, ds)
  | _ + 1, [], t, p => (t, p, [])
  | k + 1, d :: ds, t, p => takeChunk k ds (t * 58 + d) (p * 58)

def digitsValueFastAux : Nat → List Nat → Nat → Nat
  | 0, _, acc => acc
  | _ + 1, [], acc => acc
  | f + 1, d :: ds, acc =>
    let r := takeChunk 9 ds d 58
    digitsValueFastAux f r.2.2 (acc * r.2.1 + r.1)

def digitsValueFast (ds : List Nat) : Nat := digitsValueFastAux ds.length ds 0

theorem takeChunk_spec (k : Nat) : ∀ (ds : List Nat) (t p acc : Nat),
    ds.foldl (fun a d => a * 58 + d) (acc * p + t)
      = (takeChunk k ds t p).2.2.foldl (fun a d => a * 58 + d)
          (acc * (takeChunk k ds t p).2.1 + (takeChunk k ds t p).1) := by
  induction k with
  | zero => intro ds t p acc; rfl
  | succ k ih =>
    intro ds t p acc
    cases ds with
    | nil => rfl
    | cons d ds =>
      simp only [takeChunk, List.foldl_cons]
      rw [← ih ds (t * 58 + d) (p * 58) acc]
      congr 1
      rw [Nat.add_mul, Nat.mul_assoc]
      omega

theorem takeChunk_length (k : Nat) : ∀ (ds : List Nat) (t p : Nat), (takeChunk k ds t p).2.2.length ≤ ds.length := by
  induction k with
  | zero => intro ds t p; simp [takeChunk]
  | succ k ih =>
    intro ds t p
    cases ds with
    | nil => simp [takeChunk]
    | cons d ds => simp only [takeChunk, List.length_cons]; have := ih ds (t * 58 + d) (p * 58); omega

theorem digitsValueFastAux_spec : ∀ (f : Nat) (ds : List Nat) (acc : Nat), ds.length ≤ f →
    digitsValueFastAux f ds acc = ds.foldl (fun a d => a * 58 + d) acc := by
  intro f
  induction f with
  | zero => intro ds acc h; cases ds with
    | nil => rfl
    | cons d ds => simp at h
  | succ f ih =>
    intro ds acc h
    cases ds with
    | nil => rfl
    | cons d ds =>
      simp only [digitsValueFastAux, List.foldl_cons]
      rw [ih _ _ (by have := takeChunk_length 9 ds d 58; simp only [List.length_cons] at h; omega)]
      have := takeChunk_spec 9 ds d 58 acc
      rw [← this]

@[csimp] theorem digitsValue_eq_fast : @digitsValue = @digitsValueFast := by
  funext ds
  unfold digitsValue digitsValueFast
  rw [digitsValueFastAux_spec _ _ _ (Nat.le_refl _)]

def natBytesAcc : Nat → Nat → Bytes → Bytes
  | 0, _, acc => acc
  | fuel + 1, n, acc => if n = 0 then acc else natBytesAcc fuel (n / 256) (UInt8.ofNat (n % 256) :: acc)

theorem natBytesAcc_spec : ∀ (fuel n : Nat) (acc : Bytes), natBytesAcc fuel n acc = natBytesF fuel n ++ acc := by
  intro fuel
  induction fuel with
  | zero => intro n acc; rfl
  | succ fuel ih =>
    intro n acc
    simp only [natBytesAcc, natBytesF]
    split
    · rfl
    · rw [ih]; simp

/-- any two fuels that cover the number give the same bytes -/
theorem natBytesF_fuel : ∀ (f g n : Nat), n < 256 ^ f → n < 256 ^ g → natBytesF f n = natBytesF g n := by
  intro f
  induction f with
  | zero =>
    intro g n h _
    have : n = 0 := by simp at h; omega
    subst this
    cases g <;> simp [natBytesF]
  | succ f ih =>
    intro g n hf hg
    cases g with
    | zero =>
      have : n = 0 := by simp at hg; omega
      subst this; simp [natBytesF]
    | succ g =>
      simp only [natBytesF]
      split
      · rfl
      · rw [ih g (n / 256)
          (Nat.div_lt_of_lt_mul (by rw [Nat.pow_succ] at hf; omega))
          (Nat.div_lt_of_lt_mul (by rw [Nat.pow_succ] at hg; omega))]

/-- fuel = bit length instead of the number itself (a 2000-bit fuel costs a big-number decrement per step) -/
def natBytesFast (n : Nat) : Bytes := natBytesAcc (n.log2 + 1) n []

@[csimp] theorem natBytes_eq_fast : @natBytes = @natBytesFast := by
  funext n
  unfold natBytes natBytesFast
  rw [natBytesAcc_spec, List.append_nil]
  apply natBytesF_fuel
  · exact Nat.lt_of_lt_of_le (Nat.lt_pow_self (by omega)) (Nat.le_refl _)
  · have h1 : n < 2 ^ (n.log2 + 1) := Nat.lt_log2_self
    have h2 : 2 ^ (n.log2 + 1) ≤ 256 ^ (n.log2 + 1) := Nat.pow_le_pow_left (by omega) _
    omega

/-- base58.Decode; the final `make([]byte, flen)` is an allocation request. -/
def b58Decode (maxAlloc : Nat) (s : Bytes) : Outcome Bytes :=
  match b58Digits s with
  | none => .ok []
  | some ds =>
    let v := digitsValue ds
    let tmp := natBytes v
    let nz := leadingCount (b58Char 0) s
    match alloc maxAlloc (nz + tmp.length) with
    | .ok () => .ok (List.replicate nz 0 ++ tmp)
    | .err e => .err e
    | .panic => .panic

end Pool.Dec
