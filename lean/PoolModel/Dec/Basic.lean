/-! Shared definitions of the decoding models (C15, C19): outcomes with an explicit `panic`, byte/number
conversions, Go slice expressions and allocation requests.  Core Lean only. -/
namespace Pool.Dec

/-- Error classes the Go errors are mapped to (the harness maps with `errors.Is/As`, never by text). -/
inductive Err where
  | eof        -- io.ErrUnexpectedEOF (io.EOF is converted by tlv.Stream.decode)
  | varint     -- tlv.ErrVarIntNotCanonical
  | stream     -- tlv.ErrStreamNotCanonical
  | badlen     -- tlv.ErrTypeForDecoding / ErrTypeForEncoding (static record with a wrong length)
  | toolarge   -- tlv.ErrRecordTooLarge
  | pubkey     -- secp256k1.Error from btcec.ParsePubKey
  | sig        -- ecdsa.Error from ParseDERSignature
  | pfx        -- codec.go: "string contains invalid prefix" / "not a sidecar ticket, invalid prefix"
  | length     -- codec.go: "not a sidecar ticket, invalid length"
  | checksum   -- codec.go: "invalid sidecar ticket, checksum mismatch"
  | other
  deriving DecidableEq, Repr, Inhabited

/-- class name on the line protocol.  Errors that carry no sentinel / type in Go (the `fmt.Errorf`s of
codec.go, btcec's signature parser) are ONE class: the harness never tells errors apart by their text. -/
def Err.name : Err → String
  | .eof => "eof" | .varint => "varint" | .stream => "stream" | .badlen => "badlen"
  | .toolarge => "toolarge" | .pubkey => "pubkey" | .sig => "untyped" | .pfx => "untyped"
  | .length => "untyped" | .checksum => "untyped" | .other => "untyped"

/-- Result of running a piece of Go code: a value, a returned `error`, or a run-time panic
(nil dereference, slice bounds, `makeslice: len out of range`, loop without progress). -/
inductive Outcome (α : Type) where
  | ok (a : α)
  | err (e : Err)
  | panic
  deriving Repr

namespace Outcome
@[inline] def bind {α β : Type} (x : Outcome α) (f : α → Outcome β) : Outcome β :=
  match x with
  | .ok a => f a
  | .err e => .err e
  | .panic => .panic

instance : Monad Outcome where
  pure := .ok
  bind := Outcome.bind

def isPanic {α : Type} : Outcome α → Bool
  | .panic => true
  | _ => false

def cls {α : Type} : Outcome α → String
  | .ok _ => "ok" | .err _ => "err" | .panic => "panic"

@[simp] theorem bind_ok {α β : Type} (a : α) (f : α → Outcome β) : (Outcome.ok a >>= f) = f a := rfl
@[simp] theorem bind_err {α β : Type} (e : Err) (f : α → Outcome β) : (Outcome.err e >>= f) = .err e := rfl
@[simp] theorem bind_panic {α β : Type} (f : α → Outcome β) : (Outcome.panic >>= f) = .panic := rfl
@[simp] theorem pure_eq {α : Type} (a : α) : (pure a : Outcome α) = .ok a := rfl
end Outcome

abbrev Bytes := List UInt8

/-- big-endian bytes → number (`binary.BigEndian.UintN`, `big.Int.SetBytes`) -/
def beNat (bs : Bytes) : Nat := bs.foldl (fun a b => a * 256 + b.toNat) 0

/-- number → exactly `w` big-endian bytes (`binary.BigEndian.PutUintN`; high bits dropped) -/
def toBE : Nat → Nat → Bytes
  | 0, _ => []
  | w + 1, n => toBE w (n / 256) ++ [UInt8.ofNat (n % 256)]

/-- `make([]byte, n)` / `make([]byte, 0, n)`: the Go runtime panics (`makeslice: len out of range`) when the
request exceeds what it can ever grant.  `maxAlloc` is a parameter of the model. -/
def alloc (maxAlloc n : Nat) : Outcome Unit := if n > maxAlloc then .panic else .ok ()

/-- Go slice expression `b[lo:hi]` on a slice whose capacity equals its length: panics unless
`lo ≤ hi ≤ len b`. -/
def slice (b : List α) (lo hi : Nat) : Outcome (List α) :=
  if lo ≤ hi ∧ hi ≤ b.length then .ok ((b.take hi).drop lo) else .panic

end Pool.Dec
