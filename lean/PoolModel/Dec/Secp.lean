import PoolModel.Dec.Basic
/-! Which byte strings `btcec.ParsePubKey` (dcrd secp256k1 v4 `ParsePubKey`) and lnwire/ecdsa
(`NewSigFromWireECDSA` + `Sig.ToSignature` = `ecdsa.ParseDERSignature`) accept, and how an ECDSA signature
is written back (`Signature.Serialize` normalises S to the lower half before `NewSigFromSignature`
extracts r‖s).  Only acceptance and the canonical bytes matter to the decoders; no group law is
modelled. -/
namespace Pool.Dec

/-- secp256k1 field prime -/
def secpP : Nat := 2 ^ 256 - 2 ^ 32 - 977
/-- secp256k1 group order -/
def secpN : Nat := 0xFFFFFFFFFFFFFFFFFFFFFFFFFFFFFFFEBAAEDCE6AF48A03BBFD25E8CD0364141

/-- square-and-multiply `b^e mod m`, recursing on the binary digits of `e` (fuel = bit length) -/
def powModAux (m : Nat) : Nat → Nat → Nat → Nat → Nat
  | 0, _, _, acc => acc
  | fuel + 1, b, e, acc =>
    if e = 0 then acc
    else powModAux m fuel (b * b % m) (e / 2) (if e % 2 = 1 then acc * b % m else acc)

def powMod (b e m : Nat) : Nat := powModAux m 257 (b % m) e (1 % m)

/-- `DecompressY`: is x³+7 a square mod p?  (p ≡ 3 mod 4, candidate root c^((p+1)/4)) ; returns the root -/
def sqrtRhs (x : Nat) : Option Nat :=
  let c := (x * x % secpP * x + 7) % secpP
  let y := powMod c ((secpP + 1) / 4) secpP
  if y * y % secpP = c then some y else none

/-- `secp256k1.ParsePubKey` accepts exactly: 33 bytes, format 02/03, x < p, x on the curve; or 65 bytes,
format 04/06/07, x,y < p, hybrid oddness matching, (x,y) on the curve.  Returns the compressed
serialisation of the parsed key (`SerializeCompressed`). -/
def parsePubKey (b : Bytes) : Option Bytes :=
  if b.length = 33 then
    match b with
    | f :: xs =>
      let x := beNat xs
      if (f.toNat = 2 ∨ f.toNat = 3) ∧ x < secpP then
        match sqrtRhs x with
        | some _ => some b
        | none => none
      else none
    | [] => none
  else if b.length = 65 then
    match b with
    | f :: rest =>
      let x := beNat (rest.take 32)
      let y := beNat (rest.drop 32)
      if (f.toNat = 4 ∨ f.toNat = 6 ∨ f.toNat = 7) ∧ x < secpP ∧ y < secpP
          ∧ (f.toNat = 6 → y % 2 = 0) ∧ (f.toNat = 7 → y % 2 = 1)
          ∧ y * y % secpP = (x * x % secpP * x + 7) % secpP then
        some (UInt8.ofNat (2 + y % 2) :: rest.take 32)
      else none
    | [] => none
  else none

def validPubKey33 (b : Bytes) : Bool := b.length = 33 && (parsePubKey b).isSome

/-- An in-memory `*ecdsa.Signature`: the two scalars. -/
structure Sig where
  r : Nat
  s : Nat
  deriving DecidableEq, Repr

/-- `NewSigFromWireECDSA(raw).ToSignature()`: r and s (32 big-endian bytes each) must be in [1, N-1]. -/
def parseSig (raw : Bytes) : Option Sig :=
  let r := beNat (raw.take 32)
  let s := beNat (raw.drop 32)
  if 0 < r ∧ r < secpN ∧ 0 < s ∧ s < secpN then some ⟨r, s⟩ else none

/-- `NewSigFromSignature(sig).RawBytes()`: `Serialize` negates an S above N/2 first. -/
def sigBytes (g : Sig) : Bytes :=
  toBE 32 g.r ++ toBE 32 (if g.s > secpN / 2 then secpN - g.s else g.s)

/-- well-formed signature object: what lnd's signer produces (non-zero scalars, low S) -/
def Sig.wf (g : Sig) : Bool := 0 < g.r && g.r < secpN && 0 < g.s && g.s ≤ secpN / 2

end Pool.Dec
