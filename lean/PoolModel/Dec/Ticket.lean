import PoolModel.Dec.Tlv
import PoolModel.Dec.Secp
import PoolModel.Dec.Base58
import PoolModel.Generated.C15Ticket
/-! Model of sidecar/tlv.go (`SerializeTicket`, `DeserializeTicket`, the nested offer / recipient / order /
execution streams, `ESig/DSig`, `EBytes8/DBytes8`) and sidecar/codec.go (`EncodeToString`,
`DecodeString`).  TLV type numbers, `checksumLen` and `sidecarPrefix` come from the regenerated
`Pool.Gen.C15Ticket` facts.  SHA-256 is a parameter `H`. -/
namespace Pool.Dec
open Pool.Gen.C15

/-- sidecar.Offer.  Keys are the 33 compressed bytes, amounts the `uint64(btcutil.Amount)` image. -/
structure Offer where
  capacity : Nat := 0
  pushAmt : Nat := 0
  leaseDuration : Nat := 0
  signPubKey : Option Bytes := none
  sigOfferDigest : Option Sig := none
  auto : Bool := false
  unannounced : Bool := false
  zeroConf : Bool := false
  deriving DecidableEq, Repr

structure Recipient where
  nodePubKey : Option Bytes := none
  multiSigPubKey : Option Bytes := none
  multiSigKeyIndex : Nat := 0
  deriving DecidableEq, Repr

structure Order where
  bidNonce : Bytes := List.replicate 32 0
  sigOrderDigest : Option Sig := none
  deriving DecidableEq, Repr

structure Execution where
  pendingChannelID : Bytes := List.replicate 32 0
  deriving DecidableEq, Repr

/-- sidecar.Ticket -/
structure Ticket where
  id : Bytes := List.replicate 8 0
  version : Nat := 0
  state : Nat := 0
  offer : Offer := {}
  recipient : Option Recipient := none
  order : Option Order := none
  execution : Option Execution := none
  deriving DecidableEq, Repr

/-! ### encoders -/

/-- `ESig`: a nil signature is written as 64 zero bytes -/
def eSig : Option Sig → Bytes
  | none => List.replicate 64 0
  | some g => sigBytes g

def optRec (t : Nat) : Option Bytes → List (Nat × Bytes)
  | none => []
  | some v => [(t, v)]

/-- `serializeOffer` -/
def serializeOffer (o : Offer) : Outcome Bytes :=
  encodeBytes (
    [(capacityType, toBE 8 o.capacity), (pushAmtType, toBE 8 o.pushAmt),
     (leaseDurationType, toBE 4 o.leaseDuration),
     (offerAutoType, [if o.auto then 1 else 0])]
    ++ (if o.unannounced then [(unannouncedChannelType, [(1 : UInt8)])] else [])
    ++ (if o.zeroConf then [(zeroConfChannelType, [(1 : UInt8)])] else [])
    ++ optRec signPubKeyType o.signPubKey
    ++ (match o.sigOfferDigest with
        | none => []
        | some g => [(sigOfferDigestType, eSig (some g))]))

/-- `serializeRecipient` -/
def serializeRecipient (r : Recipient) : Outcome Bytes :=
  encodeBytes (optRec nodePubKeyType r.nodePubKey ++ optRec multiSigPubKeyType r.multiSigPubKey
    ++ [(multiSigKeyIndexType, toBE 4 r.multiSigKeyIndex)])

/-- `serializeOrder` -/
def serializeOrder (o : Order) : Outcome Bytes :=
  encodeBytes ([(bidNonceType, o.bidNonce)] ++
    (match o.sigOrderDigest with
     | none => []
     | some g => [(sigOrderDigestType, eSig (some g))]))

/-- `serializeExecution` -/
def serializeExecution (e : Execution) : Outcome Bytes :=
  encodeBytes [(pendingChannelIDType, e.pendingChannelID)]

/-- `SerializeTicket` (the records are appended in this order and handed to `tlv.NewStream` unsorted) -/
def serializeTicket (t : Ticket) : Outcome Bytes := do
  let offerBytes ← serializeOffer t.offer
  let recs := [(idType, t.id), (versionType, [UInt8.ofNat t.version]), (stateType, [UInt8.ofNat t.state]),
               (offerType, offerBytes)]
  let recs ← match t.recipient with
    | none => pure recs
    | some r => do let b ← serializeRecipient r; pure (recs ++ [(recipientType, b)])
  let recs ← match t.order with
    | none => pure recs
    | some o => do let b ← serializeOrder o; pure (recs ++ [(orderType, b)])
  let recs ← match t.execution with
    | none => pure recs
    | some e => do let b ← serializeExecution e; pure (recs ++ [(executionType, b)])
  if sortedTypes (recs.map (·.1)) then .ok (encodeRecords recs) else .err .stream

/-! ### decoders -/

/-- `tlv.DPubKey` after the 33 bytes were read -/
def checkPubKey {σ : Type} (set : Bytes → σ → σ) (v : Bytes) (s : σ) : Outcome σ :=
  match parsePubKey v with
  | some c => .ok (set c s)
  | none => .err .pubkey

/-- `DSig` after the 64 bytes were read: all-zero ⇒ the target stays nil -/
def checkSig {σ : Type} (set : Sig → σ → σ) (v : Bytes) (s : σ) : Outcome σ :=
  if v = List.replicate 64 0 then .ok s
  else match parseSig v with
    | some g => .ok (set g s)
    | none => .err .sig

/-- `decodeBytes` : SortRecords, NewStream, `Decode` (pinned) / `DecodeP2P` (repaired) -/
def decodeBytes {σ : Type} (cfg : Cfg) (recs : List (Rec σ)) (b : Bytes) (s : σ) : Outcome σ :=
  match decodeStream cfg.p2pSub cfg.maxAlloc cfg.typesSub recs b s with
  | .ok (s', _) => .ok s'
  | .err e => .err e
  | .panic => .panic

/-- the decoding state of `deserializeOffer`: the offer plus the three local uint8 flags -/
structure OfferAcc where
  o : Offer := {}
  autoAsInt : Nat := 0
  isUnannounced : Nat := 0
  isZeroConf : Nat := 0

def offerRecs : List (Rec OfferAcc) := [
  ⟨capacityType, dStatic 8 (fun v a => { a with o := { a.o with capacity := beNat v } })⟩,
  ⟨pushAmtType, dStatic 8 (fun v a => { a with o := { a.o with pushAmt := beNat v } })⟩,
  ⟨leaseDurationType, dStatic 4 (fun v a => { a with o := { a.o with leaseDuration := beNat v } })⟩,
  ⟨signPubKeyType, dChecked 33 (checkPubKey fun c a => { a with o := { a.o with signPubKey := some c } })⟩,
  ⟨sigOfferDigestType, dChecked 64 (checkSig fun g a => { a with o := { a.o with sigOfferDigest := some g } })⟩,
  ⟨offerAutoType, dStatic 1 (fun v a => { a with autoAsInt := beNat v })⟩,
  ⟨unannouncedChannelType, dStatic 1 (fun v a => { a with isUnannounced := beNat v })⟩,
  ⟨zeroConfChannelType, dStatic 1 (fun v a => { a with isZeroConf := beNat v })⟩]

/-- `deserializeOffer` -/
def deserializeOffer (cfg : Cfg) (b : Bytes) : Outcome Offer :=
  match decodeBytes cfg offerRecs b {} with
  | .ok a => .ok { a.o with auto := a.autoAsInt == 1, unannounced := a.isUnannounced == 1,
                            zeroConf := a.isZeroConf == 1 }
  | .err e => .err e
  | .panic => .panic

def recipientRecs : List (Rec Recipient) := [
  ⟨nodePubKeyType, dChecked 33 (checkPubKey fun c r => { r with nodePubKey := some c })⟩,
  ⟨multiSigPubKeyType, dChecked 33 (checkPubKey fun c r => { r with multiSigPubKey := some c })⟩,
  ⟨multiSigKeyIndexType, dStatic 4 (fun v r => { r with multiSigKeyIndex := beNat v })⟩]

/-- `deserializeRecipient` -/
def deserializeRecipient (cfg : Cfg) (b : Bytes) : Outcome Recipient := decodeBytes cfg recipientRecs b {}

def orderRecs : List (Rec Order) := [
  ⟨bidNonceType, dStatic 32 (fun v o => { o with bidNonce := v })⟩,
  ⟨sigOrderDigestType, dChecked 64 (checkSig fun g o => { o with sigOrderDigest := some g })⟩]

/-- `deserializeOrder` -/
def deserializeOrder (cfg : Cfg) (b : Bytes) : Outcome Order := decodeBytes cfg orderRecs b {}

def executionRecs : List (Rec Execution) := [
  ⟨pendingChannelIDType, dStatic 32 (fun v e => { e with pendingChannelID := v })⟩]

/-- `deserializeExecution` -/
def deserializeExecution (cfg : Cfg) (b : Bytes) : Outcome Execution := decodeBytes cfg executionRecs b {}

/-- the locals of `DeserializeTicket` filled by the top-level stream -/
structure TicketAcc where
  id : Bytes := List.replicate 8 0
  version : Nat := 0
  state : Nat := 0
  offerBytes : Bytes := []
  recipientBytes : Bytes := []
  orderBytes : Bytes := []
  executionBytes : Bytes := []

def ticketRecs (cfg : Cfg) : List (Rec TicketAcc) := [
  ⟨idType, dStatic 8 (fun v a => { a with id := v })⟩,
  ⟨versionType, dStatic 1 (fun v a => { a with version := beNat v })⟩,
  ⟨stateType, dStatic 1 (fun v a => { a with state := beNat v })⟩,
  ⟨offerType, dVarBytes cfg (fun v a => { a with offerBytes := v })⟩,
  ⟨recipientType, dVarBytes cfg (fun v a => { a with recipientBytes := v })⟩,
  ⟨orderType, dVarBytes cfg (fun v a => { a with orderBytes := v })⟩,
  ⟨executionType, dVarBytes cfg (fun v a => { a with executionBytes := v })⟩]

/-- `if t, ok := parsedTypes[typ]; ok && t == nil { part, err := deserialize…(bytes); … ; ticket.Part = &part }` -/
def optPart {α : Type} (present : Bool) (f : Outcome α) : Outcome (Option α) :=
  if present then
    match f with
    | .ok a => .ok (some a)
    | .err e => .err e
    | .panic => .panic
  else .ok none

/-- `DeserializeTicket`: top-level stream with the parsed-types map, then the sub-streams of the parts
whose record was present. -/
def deserializeTicket (cfg : Cfg) (b : Bytes) : Outcome Ticket :=
  match decodeStream cfg.p2pTop cfg.maxAlloc true (ticketRecs cfg) b {} with
  | .err e => .err e
  | .panic => .panic
  | .ok (a, parsed) =>
  match (if parsed.contains offerType then deserializeOffer cfg a.offerBytes else .ok {}) with
  | .err e => .err e
  | .panic => .panic
  | .ok offer =>
  match optPart (parsed.contains recipientType) (deserializeRecipient cfg a.recipientBytes) with
  | .err e => .err e
  | .panic => .panic
  | .ok recipient =>
  match optPart (parsed.contains orderType) (deserializeOrder cfg a.orderBytes) with
  | .err e => .err e
  | .panic => .panic
  | .ok order =>
  match optPart (parsed.contains executionType) (deserializeExecution cfg a.executionBytes) with
  | .err e => .err e
  | .panic => .panic
  | .ok execution =>
    .ok { id := a.id, version := a.version, state := a.state, offer := offer, recipient := recipient,
          order := order, execution := execution }

/-- The decode variants the current source of sidecar/tlv.go calls (regenerated fact). -/
def repoCfg (maxAlloc : Nat) : Cfg :=
  { p2pTop := DeserializeTicketCall == "DecodeWithParsedTypesP2P",
    p2pSub := decodeBytesCall == "DecodeP2P" || decodeBytesCall == "DecodeWithParsedTypesP2P",
    typesSub := decodeBytesCall == "DecodeWithParsedTypes" || decodeBytesCall == "DecodeWithParsedTypesP2P",
    maxAlloc := maxAlloc }

/-- The pinned (unrepaired) code: uncapped decoders everywhere. -/
def pinnedCfg (maxAlloc : Nat) : Cfg := { p2pTop := false, p2pSub := false, typesSub := false, maxAlloc := maxAlloc }

/-! ### string form (sidecar/codec.go) -/

/-- the bytes of the (ASCII) prefix string -/
def prefixBytes : Bytes := sidecarPrefix.toList.map (fun c => UInt8.ofNat c.toNat)
/-- `encodingVersion = []byte{0}` (regenerated) -/
def encVersion : Bytes := Pool.Gen.C15.encodingVersion.map UInt8.ofNat

/-- the bytes whose SHA-256 gives the checksum: prefix ‖ version ‖ payload -/
def checksumInput (payload : Bytes) : Bytes := prefixBytes ++ encVersion ++ payload

/-- `EncodeToString` -/
def encodeToString (H : Bytes → Bytes) (t : Ticket) : Outcome Bytes :=
  match serializeTicket t with
  | .ok ser =>
    match slice (H (checksumInput ser)) 0 checksumLen with       -- checksum[:checksumLen]
    | .ok chk => .ok (prefixBytes ++ b58Encode (encVersion ++ ser ++ chk))
    | .err e => .err e
    | .panic => .panic
  | .err e => .err e
  | .panic => .panic

/-- `DecodeString`, statement by statement, with every slice expression explicit. -/
def decodeString (H : Bytes → Bytes) (cfg : Cfg) (s : Bytes) : Outcome Ticket :=
  let prefixLength := prefixBytes.length
  if s.length < prefixLength then .err .pfx else
  match slice s prefixLength s.length with                         -- s[prefixLength:]
  | .err e => .err e
  | .panic => .panic
  | .ok tail =>
  match b58Decode cfg.maxAlloc tail with
  | .err e => .err e
  | .panic => .panic
  | .ok rawBytes =>
  let expectedLen := encVersion.length + checksumLen
  if rawBytes.length < expectedLen then .err .length else
  match slice s 0 prefixLength with                                -- s[:prefixLength]
  | .err e => .err e
  | .panic => .panic
  | .ok encodedPrefix =>
  if encodedPrefix ≠ prefixBytes then .err .pfx else
  let totalLength := rawBytes.length
  let versionLen := encVersion.length
  -- Go `int` arithmetic; the length check above keeps it non-negative (else the slice panics)
  if totalLength < checksumLen + encVersion.length then .panic else
  let payloadLength := totalLength - checksumLen - encVersion.length
  match slice rawBytes versionLen (versionLen + payloadLength) with
  | .err e => .err e
  | .panic => .panic
  | .ok payload =>
  match slice rawBytes (totalLength - checksumLen) totalLength with
  | .err e => .err e
  | .panic => .panic
  | .ok checksum =>
  match slice (H (checksumInput payload)) 0 checksumLen with       -- hash.Sum(nil)[:checksumLen]
  | .err e => .err e
  | .panic => .panic
  | .ok calculated =>
  if checksum ≠ calculated then .err .checksum else
  deserializeTicket cfg payload

end Pool.Dec
