import PoolModel.Dec.Secp
import PoolModel.Generated.C19Pb
/-! Model of order/rpc_parse.go (`ParseRPCBatch`, `ParseRPCMatchedOrders`, `ParseRPCServerAsk/Bid/Order`,
`parseNodeAddrs`, `ParseRPCSign`) and of the Prepare / Sign branches of `handleServerMessage` in
rpcserver.go and sidecar_acceptor.go up to the reject.

The message trees mirror the generated protobuf structs of auctioneerrpc (only the fields the parsers
read): every singular message-typed field is an `Option` (it can be absent after a wire decode), repeated
fields and map values are always materialised.  `modelFields` lists the fields with their kinds and is
compared with the table regenerated from auctioneer.pb.go.  Dereferencing an absent field is
`Outcome.panic`.  Results of third-party parsers that the model does not re-implement are carried as
oracle bits measured by the harness with direct calls (`net.ResolveTCPAddr` / lnd `tor`,
`wire.MsgTx.Deserialize`). -/
namespace Pool.Dec

structure NodeAddress where
  /-- oracle bit: `net.ResolveTCPAddr` / `parseOnionAddr` accepted (network, addr) -/
  addrOK : Bool
  deriving Repr

structure ServerOrder where
  orderNonce : Bytes
  nodePub : Bytes
  nodeAddr : List NodeAddress
  multiSigKey : Bytes
  /-- OrderChannelType (int32 enum on the wire) -/
  channelType : Int
  deriving Repr

structure ServerAsk where
  details : Option ServerOrder
  leaseDurationBlocks : Nat
  deriving Repr

structure ServerBid where
  details : Option ServerOrder
  leaseDurationBlocks : Nat
  deriving Repr

structure MatchedAsk where
  ask : Option ServerAsk
  deriving Repr

structure MatchedBid where
  bid : Option ServerBid
  deriving Repr

structure MatchedOrder where
  matchedBids : List MatchedBid
  matchedAsks : List MatchedAsk
  deriving Repr

structure MatchedMarket where
  /-- map[string]*MatchedOrder: key = the string's bytes -/
  matchedOrders : List (Bytes × MatchedOrder)
  deriving Repr

structure AccountDiff where
  traderKey : Bytes
  deriving Repr

structure ExecutionFee where
  baseFee : Nat
  feeRate : Nat
  deriving Repr

structure OrderMatchPrepare where
  /-- map[uint32]*MatchedMarket -/
  matchedMarkets : List (Nat × MatchedMarket)
  chargedAccounts : List AccountDiff
  executionFee : Option ExecutionFee
  /-- oracle bit: `wire.MsgTx.Deserialize(BatchTransaction)` succeeded -/
  batchTxOK : Bool
  batchId : Bytes
  deriving Repr

structure OrderMatchSignBegin where
  batchId : Bytes
  /-- map[string][]byte -/
  serverNonces : List (Bytes × Bytes)
  /-- []*TxOut: only the count matters -/
  prevOutputs : Nat
  deriving Repr

/-- (struct, field, kind) of every modelled field; kinds as emitted by the `C19Pb` facts job. -/
def modelFields : List (String × String × String) := [
  ("NodeAddress", "Network", "string"), ("NodeAddress", "Addr", "string"),
  ("ServerOrder", "OrderNonce", "bytes"), ("ServerOrder", "NodePub", "bytes"), ("ServerOrder", "NodeAddr", "rep:NodeAddress"),
  ("ServerOrder", "MultiSigKey", "bytes"), ("ServerOrder", "ChannelType", "scalar"),
  ("ServerAsk", "Details", "opt:ServerOrder"), ("ServerAsk", "LeaseDurationBlocks", "scalar"),
  ("ServerBid", "Details", "opt:ServerOrder"), ("ServerBid", "LeaseDurationBlocks", "scalar"),
  ("MatchedAsk", "Ask", "opt:ServerAsk"), ("MatchedBid", "Bid", "opt:ServerBid"),
  ("MatchedOrder", "MatchedBids", "rep:MatchedBid"), ("MatchedOrder", "MatchedAsks", "rep:MatchedAsk"),
  ("MatchedMarket", "MatchedOrders", "map:string:MatchedOrder"),
  ("AccountDiff", "TraderKey", "bytes"),
  ("ExecutionFee", "BaseFee", "scalar"), ("ExecutionFee", "FeeRate", "scalar"),
  ("OrderMatchPrepare", "MatchedMarkets", "map:uint32:MatchedMarket"),
  ("OrderMatchPrepare", "ChargedAccounts", "rep:AccountDiff"),
  ("OrderMatchPrepare", "ExecutionFee", "opt:ExecutionFee"),
  ("OrderMatchPrepare", "BatchTransaction", "bytes"), ("OrderMatchPrepare", "BatchId", "bytes"),
  ("OrderMatchSignBegin", "BatchId", "bytes"), ("OrderMatchSignBegin", "ServerNonces", "map:string:bytes"),
  ("OrderMatchSignBegin", "PrevOutputs", "rep:TxOut")]

/-- error classes of the parsers (a small enum; the harness compares only ok/err/panic, plus the class
for single-defect messages) -/
inductive PErr where
  | nilMsg | pubkey | addr | chanType | bothSides | hexKey | lease | tx | feeMissing | batchId
  | keyLen | nonceLen
  deriving DecidableEq, Repr

def PErr.name : PErr → String
  | .nilMsg => "nil-msg" | .pubkey => "pubkey" | .addr => "addr" | .chanType => "chan-type"
  | .bothSides => "both-sides" | .hexKey => "hex" | .lease => "lease" | .tx => "tx"
  | .feeMissing => "fee-missing" | .batchId => "batch-id" | .keyLen => "key-len" | .nonceLen => "nonce-len"

/-- outcome of a parser: value, returned error, or panic -/
inductive POut (α : Type) where
  | ok (a : α)
  | err (e : PErr)
  | panic
  deriving Repr

namespace POut
@[inline] def bind {α β : Type} (x : POut α) (f : α → POut β) : POut β :=
  match x with
  | .ok a => f a
  | .err e => .err e
  | .panic => .panic
instance : Monad POut where
  pure := .ok
  bind := POut.bind
@[simp] theorem bind_ok {α β : Type} (a : α) (f : α → POut β) : (POut.ok a >>= f) = f a := rfl
@[simp] theorem bind_err {α β : Type} (e : PErr) (f : α → POut β) : (POut.err e >>= f) = .err e := rfl
@[simp] theorem bind_panic {α β : Type} (f : α → POut β) : (POut.panic >>= f) = .panic := rfl
@[simp] theorem pure_eq {α : Type} (a : α) : (pure a : POut α) = .ok a := rfl
def cls {α : Type} : POut α → String
  | .ok _ => "ok" | .err _ => "err" | .panic => "panic"
end POut

/-- `*p` / `p.Field` on a pointer that may be nil -/
def deref {α : Type} : Option α → POut α
  | some a => .ok a
  | none => .panic

/-- Which tree is modelled: `nilChecks` = ParseRPCServerAsk/Bid/Order test their argument for nil and
return an error (the repaired rpc_parse.go); `false` = the pinned code dereferences it. -/
structure RpcCfg where
  nilChecks : Bool
  /-- handleServerMessage rejects an unparsable prepare message by its raw batch ID (repaired
      rpcserver.go) instead of calling `sendRejectBatch(nil, err)` -/
  rejectByRawID : Bool
  /-- the Sign branches test for a missing pending batch before using it -/
  signNilCheck : Bool

/-- The checks present in the current source (regenerated facts). -/
def repoRpcCfg : RpcCfg :=
  { nilChecks := Pool.Gen.C19.ParseRPCServerOrderNilTest && Pool.Gen.C19.ParseRPCServerAskNilTest
      && Pool.Gen.C19.ParseRPCServerBidNilTest,
    rejectByRawID := Pool.Gen.C19.prepareParseErrArg0 == "msg.Prepare.BatchId",
    signNilCheck := Pool.Gen.C19.rpcServerSignNilTest && Pool.Gen.C19.acceptorSignNilTest
      && Pool.Gen.C19.acceptorMatchSignNilTest }

/-- The pinned code: no nil tests, reject through the nil batch. -/
def pinnedRpcCfg : RpcCfg := { nilChecks := false, rejectByRawID := false, signNilCheck := false }

/-- the argument of a parser: with nil checks an absent message is an error, without them the first
field access panics -/
def arg {α : Type} (cfg : RpcCfg) (p : Option α) : POut α :=
  match p with
  | some a => .ok a
  | none => if cfg.nilChecks then .err .nilMsg else .panic

/-- `parseNodeAddrs` -/
def parseNodeAddrs (addrs : List NodeAddress) (orderIsAsk : Bool) : POut Unit :=
  if addrs.isEmpty && orderIsAsk then .err .addr
  else if addrs.all (·.addrOK) then .ok () else .err .addr

/-- `copy(nonce[:], details.OrderNonce); nonce == ZeroNonce` -/
def nonceIsZero (n : Bytes) : Bool := (n.take 32).all (· == 0)

/-- `ParseRPCServerOrder` (the part that can fail).  Returns the `LeaseDuration` of the returned kit:
for a zero nonce the kit is REPLACED by `NewKitWithPreimage(...)` after its fields were set, so the
lease duration (and the other fields) are back to zero. -/
def parseRPCServerOrder (cfg : RpcCfg) (details : Option ServerOrder) (orderIsAsk : Bool)
    (leaseDuration : Nat) : POut Nat := do
  let d ← arg cfg details
  if (parsePubKey d.nodePub).isNone then .err .pubkey else do
  parseNodeAddrs d.nodeAddr orderIsAsk
  if (parsePubKey d.multiSigKey).isNone then .err .pubkey else
  if Pool.Gen.C19.serverOrderChannelTypes.contains d.channelType then
    .ok (if nonceIsZero d.orderNonce then 0 else leaseDuration)
  else .err .chanType

/-- `ParseRPCServerAsk`; returns the lease duration of the parsed order -/
def parseRPCServerAsk (cfg : RpcCfg) (details : Option ServerAsk) : POut Nat := do
  let a ← arg cfg details
  let _ ← parseRPCServerOrder cfg a.details true a.leaseDurationBlocks
  pure a.leaseDurationBlocks       -- `kit.LeaseDuration = details.LeaseDurationBlocks`

/-- `ParseRPCServerBid` -/
def parseRPCServerBid (cfg : RpcCfg) (details : Option ServerBid) : POut Nat := do
  let b ← arg cfg details
  parseRPCServerOrder cfg b.details false b.leaseDurationBlocks

def parseAsks (cfg : RpcCfg) : List MatchedAsk → POut (List Nat)
  | [] => .ok []
  | a :: rest => do
    let d ← parseRPCServerAsk cfg a.ask
    let ds ← parseAsks cfg rest
    pure (d :: ds)

def parseBids (cfg : RpcCfg) : List MatchedBid → POut (List Nat)
  | [] => .ok []
  | b :: rest => do
    let d ← parseRPCServerBid cfg b.bid
    let ds ← parseBids cfg rest
    pure (d :: ds)

/-- `ParseRPCMatchedOrders`: the lease durations of the parsed orders -/
def parseRPCMatchedOrders (cfg : RpcCfg) (o : MatchedOrder) : POut (List Nat) :=
  if o.matchedAsks.length > 0 ∧ o.matchedBids.length > 0 then .err .bothSides
  else if o.matchedAsks.length > 0 then parseAsks cfg o.matchedAsks
  else if o.matchedBids.length > 0 then parseBids cfg o.matchedBids
  else .ok []

def isHexDigit (c : UInt8) : Bool :=
  (0x30 ≤ c.toNat ∧ c.toNat ≤ 0x39) || (0x61 ≤ c.toNat ∧ c.toNat ≤ 0x66) || (0x41 ≤ c.toNat ∧ c.toNat ≤ 0x46)

/-- `hex.DecodeString` succeeds -/
def hexOK (s : Bytes) : Bool := s.length % 2 = 0 && s.all isHexDigit

def parseOrders (cfg : RpcCfg) (leaseDuration : Nat) : List (Bytes × MatchedOrder) → POut Unit
  | [] => .ok ()
  | (key, mo) :: rest =>
    if !hexOK key then .err .hexKey else do
    let durs ← parseRPCMatchedOrders cfg mo
    if durs.all (· == leaseDuration) then parseOrders cfg leaseDuration rest else .err .lease

def parseMarkets (cfg : RpcCfg) : List (Nat × MatchedMarket) → POut Unit
  | [] => .ok ()
  | (dur, m) :: rest => do
    parseOrders cfg dur m.matchedOrders
    parseMarkets cfg rest

def parseDiffs : List AccountDiff → POut Unit
  | [] => .ok ()
  | d :: rest => if (parsePubKey d.traderKey).isNone then .err .pubkey else parseDiffs rest

/-- `ParseRPCBatch` -/
def parseRPCBatch (cfg : RpcCfg) (m : OrderMatchPrepare) : POut Unit := do
  parseMarkets cfg m.matchedMarkets
  parseDiffs m.chargedAccounts
  if !m.batchTxOK then .err .tx else
  if m.executionFee.isNone then .err .feeMissing else
  if (parsePubKey m.batchId).isNone then .err .batchId else .ok ()

def parseNonces : List (Bytes × Bytes) → POut Unit
  | [] => .ok ()
  | (k, n) :: rest =>
    if k.length ≠ 66 then .err .keyLen
    else if n.length ≠ 66 then .err .nonceLen
    else if !hexOK k then .err .hexKey
    else parseNonces rest

/-- `ParseRPCSign` -/
def parseRPCSign (m : OrderMatchSignBegin) : POut Unit := parseNonces m.serverNonces

/-! ### handlers -/

/-- what a handler did with a message -/
inductive Handled where
  | reject (batchId : Bytes)   -- an OrderMatchReject was handed to the auctioneer client
  | proceed                    -- parsing succeeded, the handler goes on with the batch
  | panic
  deriving DecidableEq, Repr

/-- rpcserver.go `sendRejectBatch(batch, err)`: starts with `batch.MatchedOrders` -/
def sendRejectBatch (batch : Option Bytes) : Handled :=
  match batch with
  | some id => .reject id
  | none => .panic

/-- rpcserver.go `handleServerMessage`, Prepare branch up to the reject.  `ParseRPCBatch` returns a nil
batch together with every error. -/
def handlePrepare (cfg : RpcCfg) (m : OrderMatchPrepare) : Handled :=
  match parseRPCBatch cfg m with
  | .ok () => .proceed
  | .err _ => if cfg.rejectByRawID then .reject m.batchId else sendRejectBatch none
  | .panic => .panic

/-- sidecar_acceptor.go `handleServerMessage` Prepare branch: `matchPrepare` error ⇒
`sendRejectBatch(msg.Prepare.BatchId, nil, err)`, which tests `batch != nil`. -/
def acceptorHandlePrepare (cfg : RpcCfg) (m : OrderMatchPrepare) : Handled :=
  match parseRPCBatch cfg m with
  | .ok () => .proceed
  | .err _ => .reject m.batchId
  | .panic => .panic

/-- rpcserver.go Sign branch: `batch := s.orderManager.PendingBatch()` may be nil when no prepare message
was accepted before. `pending` = ID of the pending batch. -/
def handleSign (cfg : RpcCfg) (pending : Option Bytes) (m : OrderMatchSignBegin) : Handled :=
  if cfg.signNilCheck && pending.isNone then .reject m.batchId else
  match parseRPCSign m with
  | .err _ => sendRejectBatch pending
  | .panic => .panic
  | .ok () =>
    match pending with
    | none => .panic                 -- `batch.ServerNonces = serverNonces`
    | some _ => .proceed

/-- sidecar_acceptor.go Sign branch: `matchSign` → `isPending(msg.BatchId)`; on mismatch the error text
is formatted from `a.pendingBatch.ID[:]`, and the reject uses `a.pendingBatch.ID[:]` again. -/
def acceptorHandleSign (cfg : RpcCfg) (pending : Option Bytes) (m : OrderMatchSignBegin) : Handled :=
  if cfg.signNilCheck && pending.isNone then .reject m.batchId else
  match pending with
  | none => .panic                   -- `a.pendingBatch.ID[:]` in the error of matchSign
  | some id => if id = m.batchId then .proceed else .reject id

end Pool.Dec
