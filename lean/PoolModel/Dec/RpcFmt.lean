import PoolModel.Dec.Rpc
import PoolModel.Util
/-! Text tokens of prepare / sign messages on the driver line protocol: nested lists `(a,b,(c,d))`,
`~` = absent sub-message, hex atoms for bytes (`-` = empty). -/
namespace Pool.Dec
open Pool.Util

inductive Sx where
  | atom (s : String)
  | list (l : List Sx)
  deriving Repr, Inhabited

/-- parse one expression from a character list; returns the expression and the rest -/
partial def parseSxAux : List Char → Option (Sx × List Char)
  | '(' :: rest =>
    let rec items (cs : List Char) (acc : List Sx) : Option (List Sx × List Char) :=
      match cs with
      | ')' :: r => some (acc.reverse, r)
      | _ =>
        match parseSxAux cs with
        | some (x, ',' :: r) => items r (x :: acc)
        | some (x, ')' :: r) => some ((x :: acc).reverse, r)
        | _ => none
    match items rest [] with
    | some (l, r) => some (.list l, r)
    | none => none
  | cs =>
    let a := cs.takeWhile (fun c => c != ',' && c != '(' && c != ')')
    if a.isEmpty then none else some (.atom (String.ofList a), cs.drop a.length)

def parseSx (s : String) : Option Sx :=
  match parseSxAux s.toList with
  | some (x, []) => some x
  | _ => none

def sxBytes : Sx → Option Bytes
  | .atom s => unhex s
  | _ => none

def sxNat : Sx → Option Nat
  | .atom s => s.toNat?
  | _ => none

def sxInt : Sx → Option Int
  | .atom s => s.toInt?
  | _ => none

def sxBool : Sx → Option Bool
  | .atom "1" => some true
  | .atom "0" => some false
  | _ => none

def sxServerOrder : Sx → Option (Option ServerOrder)
  | .atom "~" => some none
  | .list [nonce, np, .list addrs, msk, ct] => do
    let nonce ← sxBytes nonce
    let np ← sxBytes np
    let addrs ← addrs.mapM (fun a => do let b ← sxBool a; pure ({ addrOK := b } : NodeAddress))
    let msk ← sxBytes msk
    let ct ← sxInt ct
    some (some { orderNonce := nonce, nodePub := np, nodeAddr := addrs, multiSigKey := msk, channelType := ct })
  | _ => none

def sxAsk : Sx → Option MatchedAsk
  | .atom "~" => some { ask := none }
  | .list [d, lease] => do
    let d ← sxServerOrder d
    let lease ← sxNat lease
    some { ask := some { details := d, leaseDurationBlocks := lease } }
  | _ => none

def sxBid : Sx → Option MatchedBid
  | .atom "~" => some { bid := none }
  | .list [d, lease] => do
    let d ← sxServerOrder d
    let lease ← sxNat lease
    some { bid := some { details := d, leaseDurationBlocks := lease } }
  | _ => none

def sxOrders : Sx → Option (Bytes × MatchedOrder)
  | .list [key, .list asks, .list bids] => do
    let key ← sxBytes key
    let asks ← asks.mapM sxAsk
    let bids ← bids.mapM sxBid
    some (key, { matchedAsks := asks, matchedBids := bids })
  | _ => none

def sxMarket : Sx → Option (Nat × MatchedMarket)
  | .list [dur, .list orders] => do
    let dur ← sxNat dur
    let orders ← orders.mapM sxOrders
    some (dur, { matchedOrders := orders })
  | _ => none

def sxPrepare : Sx → Option OrderMatchPrepare
  | .list [.list markets, .list diffs, fee, tx, bid] => do
    let markets ← markets.mapM sxMarket
    let diffs ← diffs.mapM (fun d => do let k ← sxBytes d; pure ({ traderKey := k } : AccountDiff))
    let fee ← (match fee with
      | .atom "~" => some none
      | .atom "f" => some (some ({ baseFee := 0, feeRate := 0 } : ExecutionFee))
      | _ => none)
    let tx ← sxBool tx
    let bid ← sxBytes bid
    some { matchedMarkets := markets, chargedAccounts := diffs, executionFee := fee, batchTxOK := tx,
           batchId := bid }
  | _ => none

def sxSign : Sx → Option OrderMatchSignBegin
  | .list [bid, .list nonces, nprev] => do
    let bid ← sxBytes bid
    let nonces ← nonces.mapM (fun
      | .list [k, n] => do let k ← sxBytes k; let n ← sxBytes n; pure (k, n)
      | _ => none)
    let nprev ← sxNat nprev
    some { batchId := bid, serverNonces := nonces, prevOutputs := nprev }
  | _ => none

def fmtHandled : Handled → String
  | .reject id => "reject:" ++ hex id
  | .proceed => "proceed"
  | .panic => "panic"

def fmtPOut {α : Type} : POut α → String
  | .ok _ => "ok"
  | .err e => "err:" ++ e.name
  | .panic => "panic"

end Pool.Dec
