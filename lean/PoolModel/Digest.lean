import PoolModel.DigestTypes
/-! Shared by C12 and C14: what `codec.WriteElements` appends for the element types the digests use
(`/repo/codec/codec.go`, lnd `lnwire.Write{Bool,Uint8,Uint32,Uint64,Satoshi,Bytes}`): unsigned integers as
fixed-width big-endian, `bool` as one byte 0/1, `btcutil.Amount` as `uint64(amount)` (8 bytes), byte slices
raw WITHOUT a length prefix (so their width is fixed only because they are full slices of arrays). -/
namespace Pool.Digest

/-- value of one `WriteElements` argument -/
inductive FV where
  | num (w : Nat) (v : Nat)      -- `w` bytes big-endian of `v mod 256^w`
  | raw (bs : List UInt8)        -- bytes written as they are
deriving DecidableEq, Repr

/-- `w`-byte big-endian encoding of `v mod 256^w` (binary.BigEndian.PutUintN) -/
def beBytes : Nat → Nat → List UInt8
  | 0, _ => []
  | w + 1, v => beBytes w (v / 256) ++ [UInt8.ofNat (v % 256)]

def FV.enc : FV → List UInt8
  | .num w v => beBytes w v
  | .raw bs => bs

/-- the bytes a `codec.WriteElements(&msg, args…)` call appends to the empty buffer -/
def encAll : List FV → List UInt8
  | [] => []
  | a :: l => a.enc ++ encAll l

/-- Go `uint64(x)` for an `int64` (`btcutil.Amount`) value: two's complement image -/
def u64OfInt (a : Int) : Nat := (a % 18446744073709551616).toNat

/-- Go `int64(x)` of a value known modulo 2^64 (wrap-around of int64 arithmetic) -/
def wrapI64 (a : Int) : Int := (a + 9223372036854775808) % 18446744073709551616 - 9223372036854775808

def boolNat (b : Bool) : Nat := if b then 1 else 0

/-- writer of `codec.WriteElement` for a static Go type, looked up in the REGENERATED type switch:
`some (some w)` = `w`-byte integer, `some none` = raw bytes, `none` = not a supported element type
(the real code returns "unhandled element type"). -/
def writerWidth (codec : List (String × String)) (goType : String) : Option (Option Nat) :=
  -- a full slice `x[:]` of a byte array has static type []byte
  let key := if goType == "[8]byte[:]" || goType == "[32]byte[:]" || goType == "[33]byte[:]" then "[]byte" else goType
  match codec.lookup key with
  | some "return lnwire.WriteBool(w, e)" => some (some 1)
  | some "return lnwire.WriteUint8(w, e)" => some (some 1)
  | some "return lnwire.WriteUint32(w, e)" => some (some 4)
  | some "return lnwire.WriteUint64(w, e)" => some (some 8)
  | some "return lnwire.WriteSatoshi(w, e)" => some (some 8)
  | some "return lnwire.WriteBytes(w, e)" => some none
  | _ => none

/-- width class of an encoded value, for comparison with `writerWidth` -/
def FV.widthClass : FV → Option Nat
  | .num w _ => some w
  | .raw _ => none

end Pool.Digest
