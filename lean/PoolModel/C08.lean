import PoolModel.Generated.LifecycleFacts
/-!
Model of the account lifecycle of `account/manager.go` (+ `account/watcher/controller.go`,
`order/batch_storer.go` account modifiers, `clientdb` staged batch) as a **per-account** machine.

Accounts only interact through (i) the global staged batch (`MarkBatchComplete` applies the staged copy of
every account of the batch) and (ii) the watcher's best height; both are per-account ops here
(`completeOnly`, `block`), so the global system is the product of these machines and every invariant below
is a per-account statement.  The driver (`C08Drv.lean`) does the fan-out and is compared with the real
manager on multi-account histories.

Go                                              model
--                                              -----
account.Account                                 `Acct` (keys / secret fixed per account: `key`)
Account.Output() = (Value, AccountScript(..))   `Acct.out` : value + `Script{key, sver, expiry, bk}`
wire.MsgTx (LatestTx, spend details)            `Tx{id, spends, outs, signed, wit}` (only account outputs)
controller.confCancels / spendCancels +         `Watch.confMap/spendMap` (the cancellable handle) and
  live lnd registrations                        `Watch.confRegs/spendRegs` (live registrations, in order)
expiryWatcher.expirations[key], bestHeight      `Watch.expiry`, `AState.best`
Store (main record / staged copy)               `AState.acct` / `AState.staged`
Store.UpdateAccount/AddAccount, Wallet.Publish  `Effect.write` / `Effect.publish` appended to `AState.trace`
Wallet.SendOutputs                              `Effect.fund`

The new value / output index / tx id of a modification are *parameters* (value arithmetic is C07).
Every switch over `account.State` is driven by the tables regenerated from the Go source
(`Pool.Gen.Lifecycle`).
-/
namespace Pool.C08
open Pool.Gen

inductive State where
  | initiated | pendingOpen | pendingUpdate | open_ | expired | pendingClosed | closed | canceled
  | pendingBatch | expiredPendingUpdate
deriving DecidableEq, Repr, Inhabited

def State.toNat : State → Nat
  | .initiated => 0 | .pendingOpen => 1 | .pendingUpdate => 2 | .open_ => 3 | .expired => 4
  | .pendingClosed => 5 | .closed => 6 | .canceled => 7 | .pendingBatch => 8 | .expiredPendingUpdate => 9

def State.all : List State :=
  [.initiated, .pendingOpen, .pendingUpdate, .open_, .expired, .pendingClosed, .closed, .canceled,
   .pendingBatch, .expiredPendingUpdate]

def State.ofNat? (n : Nat) : Option State := State.all.find? (fun s => s.toNat == n)

def State.name : State → String
  | .initiated => "StateInitiated" | .pendingOpen => "StatePendingOpen" | .pendingUpdate => "StatePendingUpdate"
  | .open_ => "StateOpen" | .expired => "StateExpired" | .pendingClosed => "StatePendingClosed"
  | .closed => "StateClosed" | .canceled => "StateCanceledAfterRecovery" | .pendingBatch => "StatePendingBatch"
  | .expiredPendingUpdate => "StateExpiredPendingUpdate"

/-! ## regenerated switch tables, as functions on `State` -/

/-- `HandleAccountConf`: new state, `none` = the `default:` error branch. -/
def confNext (s : State) : Option State := (Lifecycle.handleConf.lookup s.toNat).bind State.ofNat?

inductive ExpRes where
  | err | noop | to (t : State)
deriving DecidableEq, Repr

/-- `HandleAccountExpiry`. -/
def expiryNext (s : State) : ExpRes :=
  match Lifecycle.handleExpiry.lookup s.toNat with
  | none => .err
  | some none => .noop
  | some (some n) => match State.ofNat? n with | some t => .to t | none => .err

/-- reading of the regenerated call lists: `a` is called, `b` is called afterwards and never before the first
`a` (further calls – helpers that were inlined, logging, look-ups – do not matter) -/
def callsBefore (l : List String) (a b : String) : Bool :=
  match l.dropWhile (· != a) with
  | [] => false
  | _ :: t => t.contains b && !(l.takeWhile (· != a)).contains b

/-- ordered significant calls of the `resumeAccount` clause of a state; `none` = `default:` error. -/
def resumeActs (s : State) : Option (List String) := Lifecycle.resume.lookup s.toNat

def accepts (tbl : List Nat) (s : State) : Bool := tbl.contains s.toNat

/-- `unmarshallServerRecoveredAccount`: auctioneer state → local state. -/
def recoverState (srv : Nat) : State :=
  match Lifecycle.recoveryMap.lookup srv with
  | some n => (State.ofNat? n).getD .closed
  | none => (State.ofNat? Lifecycle.recoveryDefault).getD .closed

/-- the state `HandleAccountSpend` writes when the account is not re-created. -/
def spendCloseState : State :=
  if Lifecycle.handleSpendFinal.contains "UpdateAccount(StateClosed)" then .closed else .initiated

/-! ## data -/

structure OutPoint where
  txid : Nat
  idx : Nat
deriving DecidableEq, Repr, Inhabited

structure Script where
  key : Nat
  sver : Nat
  expiry : Nat
  bk : Nat
deriving DecidableEq, Repr, Inhabited

structure TxOut where
  value : Nat
  script : Script
deriving DecidableEq, Repr, Inhabited

/-- witness kind of the account input: 0 none, 1 expiry path, 2 multi-sig / MuSig2, 3 unknown -/
structure Tx where
  id : Nat
  spends : List OutPoint
  outs : List (Nat × TxOut)
  signed : Bool
  wit : Nat
deriving DecidableEq, Repr, Inhabited

def Tx.outAt (t : Tx) (i : Nat) : Option TxOut := t.outs.lookup i

/-- `poolscript.LocateOutputScript` -/
def Tx.locate (t : Tx) (sc : Script) : Option Nat :=
  (t.outs.find? (fun p => p.2.script == sc)).map (·.1)

structure Acct where
  state : State
  outpoint : OutPoint
  value : Nat
  expiry : Nat
  version : Nat
  bk : Nat
  heightHint : Nat
  latestTx : Option Tx
  secret : Nat := 0        -- Account.Secret (what the signer's DeriveSharedKey returned when it was set)
deriving DecidableEq, Repr, Inhabited

/-- `Version.ScriptVersion()` -/
def scriptVer (version : Nat) : Nat := if version == 1 then 1 else if version == 2 then 2 else 0

def Acct.script (key : Nat) (a : Acct) : Script :=
  { key := key, sver := scriptVer a.version, expiry := a.expiry, bk := a.bk }

/-- `Account.Output()` -/
def Acct.out (key : Nat) (a : Acct) : TxOut := { value := a.value, script := a.script key }

structure ConfReg where
  id : Nat
  txid : Nat
  script : Script
deriving DecidableEq, Repr

structure SpendReg where
  id : Nat
  op : OutPoint
  script : Script
deriving DecidableEq, Repr

structure Watch where
  confRegs : List ConfReg := []
  confMap : Option Nat := none
  spendRegs : List SpendReg := []
  spendMap : Option Nat := none
  expiry : Option Nat := none
  confDirty : Bool := false   -- a live conf registration was cancelled: its goroutine is winding down
  spendDirty : Bool := false
deriving Repr

inductive Effect where
  | write (a : Acct)
  | publish (t : Tx)
  | fund (o : TxOut)
deriving DecidableEq, Repr

structure AState where
  key : Nat
  acct : Option Acct := none
  staged : Option Acct := none
  w : Watch := {}
  best : Nat := 0
  nextReg : Nat := 0
  wallet : List Tx := []
  trace : List Effect := []
  signerSecret : Nat := 0  -- Signer.DeriveSharedKey(auctioneer key, trader key locator) of this account
  subFail : Bool := false    -- environment fault: Auctioneer.StartAccountSubscription fails
  walletFail : Bool := false -- environment fault: the wallet's ListTransactions fails
deriving Repr

def AState.init (key : Nat) : AState := { key := key }

/-! ## store / wallet / watcher primitives -/

/-- `clientdb.serializeAccount`: the latest transaction is not stored in `StateInitiated` and
`StateCanceledAfterRecovery`. -/
def Acct.stored (a : Acct) : Acct :=
  if a.state = .initiated ∨ a.state = .canceled then { a with latestTx := none } else a

/-- `Store.UpdateAccount` / `AddAccount`: the record is replaced and the write is logged. -/
def write (s : AState) (a : Acct) : AState :=
  { s with acct := some a.stored, trace := s.trace ++ [.write a.stored] }

/-- `maybeBroadcastTx`: publish only if every input is signed. -/
def maybeBroadcast (s : AState) (t : Tx) : AState :=
  if t.signed then { s with trace := s.trace ++ [.publish t] } else s

/-- was the registration with this id still live (cancelling it makes its goroutine exit)? -/
def liveConf (w : Watch) (id : Nat) : Bool := w.confRegs.any (fun r => r.id == id)
def liveSpend (w : Watch) (id : Nat) : Bool := w.spendRegs.any (fun r => r.id == id)

/-- `controller.WatchAccountConf`: cancel the handle in the map (if any), register, store the handle. -/
def regConf (s : AState) (txid : Nat) (sc : Script) : AState :=
  let regs := match s.w.confMap with
    | some id => s.w.confRegs.filter (fun r => r.id != id)
    | none => s.w.confRegs
  let dirty := match s.w.confMap with
    | some id => s.w.confDirty || liveConf s.w id
    | none => s.w.confDirty
  { s with
    w := { s.w with
      confRegs := regs ++ [{ id := s.nextReg, txid := txid, script := sc }]
      confMap := some s.nextReg
      confDirty := dirty }
    nextReg := s.nextReg + 1 }

def regSpend (s : AState) (op : OutPoint) (sc : Script) : AState :=
  let regs := match s.w.spendMap with
    | some id => s.w.spendRegs.filter (fun r => r.id != id)
    | none => s.w.spendRegs
  let dirty := match s.w.spendMap with
    | some id => s.w.spendDirty || liveSpend s.w id
    | none => s.w.spendDirty
  { s with
    w := { s.w with
      spendRegs := regs ++ [{ id := s.nextReg, op := op, script := sc }]
      spendMap := some s.nextReg
      spendDirty := dirty }
    nextReg := s.nextReg + 1 }

/-- `controller.CancelAccountConf`: cancels the handle, the map entry stays. -/
def cancelConf (s : AState) : AState :=
  match s.w.confMap with
  | some id => { s with w := { s.w with confRegs := s.w.confRegs.filter (fun r => r.id != id),
                                        confDirty := s.w.confDirty || liveConf s.w id } }
  | none => s

def cancelSpend (s : AState) : AState :=
  match s.w.spendMap with
  | some id => { s with w := { s.w with spendRegs := s.w.spendRegs.filter (fun r => r.id != id),
                                        spendDirty := s.w.spendDirty || liveSpend s.w id } }
  | none => s

/-- the goroutines of cancelled registrations see lnd's `Canceled` stream error and exit; their deferred
clean-up deletes the map entry of the account – *whichever* registration it belongs to by then (the map is
keyed by the trader key only), without cancelling it. -/
def flush (s : AState) : AState :=
  { s with w := { s.w with
      confMap := if s.w.confDirty then none else s.w.confMap
      spendMap := if s.w.spendDirty then none else s.w.spendMap
      confDirty := false
      spendDirty := false } }

/-- `HandleAccountExpiry` -/
def handleExpiry (s : AState) : AState :=
  match s.acct with
  | none => s
  | some a =>
    match expiryNext a.state with
    | .to t => write s { a with state := t }
    | _ => s

/-- `controller.WatchAccountExpiration` → `expiryWatcher.AddAccountExpiration`: an expiry at or below the
best height is handed to `HandleAccountExpiry` at once (goroutine; the harness waits for it) and forgotten. -/
def watchExpiration (s : AState) (e : Nat) : AState :=
  if e ≤ s.best then handleExpiry { s with w := { s.w with expiry := none } }
  else { s with w := { s.w with expiry := some e } }

/-- `handleStateOpen` (calls taken from the regenerated list) -/
def handleStateOpen (s : AState) (a : Acct) : AState :=
  let s := if Lifecycle.handleStateOpenCalls.contains "WatchAccountSpend"
    then regSpend s a.outpoint (a.script s.key) else s
  if Lifecycle.handleStateOpenCalls.contains "WatchAccountExpiration"
    then watchExpiration s a.expiry else s

/-- `HandleAccountConf` -/
def handleConf (s : AState) (height : Nat) : AState :=
  match s.acct with
  | none => s
  | some a =>
    match confNext a.state with
    | none => s
    | some t =>
      let a' := { a with state := t, heightHint := height }
      handleStateOpen (write s a') a'

/-- `locateTxByOutput` -/
def txHasOutput (t : Tx) (o : TxOut) : Bool :=
  match t.locate o.script with
  | some i => (t.outAt i).map (·.value) == some o.value
  | none => false

def locateTxByOutput (wallet : List Tx) (o : TxOut) (full : Option Tx) : Option Tx :=
  match full with
  | some t => if txHasOutput t o then some t else wallet.find? (fun t => txHasOutput t o)
  | none => wallet.find? (fun t => txHasOutput t o)

def locateTxByHash (wallet : List Tx) (id : Nat) : Option Tx := wallet.find? (fun t => t.id == id)

inductive Res where
  | ok | err | panic
deriving DecidableEq, Repr

/-- rebroadcast part of a `resumeAccount` clause -/
def rebroadcast (s : AState) (a : Acct) (onRestart : Bool) (acts : List String) : AState × Res :=
  if acts.contains "[onRestart]maybeBroadcastTx" && onRestart then
    -- StatePendingOpen: LatestTx if it is the funding tx, else look it up by hash
    let tx? := match a.latestTx with
      | some t => if t.id == a.outpoint.txid then some t else locateTxByHash s.wallet a.outpoint.txid
      | none => locateTxByHash s.wallet a.outpoint.txid
    match tx? with
    | some t => (maybeBroadcast s t, .ok)
    | none => (s, .err)
  else if acts.contains "maybeBroadcastTx" then
    -- StatePendingClosed: deriveFeeFromTx(account.LatestTx) dereferences LatestTx
    match a.latestTx with
    | some t => (maybeBroadcast s t, .ok)
    | none => (s, .panic)
  else (s, .ok)

/-- watcher part of a `resumeAccount` clause -/
def watchers (s : AState) (a : Acct) (acts : List String) : AState :=
  let s := if acts.contains "WatchAccountConf" then regConf s a.outpoint.txid (a.script s.key) else s
  let s := if acts.contains "handleStateOpen" then handleStateOpen s a else s
  if acts.contains "WatchAccountSpend" then regSpend s a.outpoint (a.script s.key) else s

/-- a clause that (re-)registers the account's expiry with the watcher directly (the pending update / batch
clause once the expiry-tracking fix is in; absent before) -/
def expiryRearm (s : AState) (a : Acct) (acts : List String) : AState :=
  if acts.contains "WatchAccountExpiration" then watchExpiration s a.expiry else s

/-- the auctioneer subscription is the *last* step of the clauses that have one (`handleStateOpen`, and the
pending-batch clause): when it fails the watchers are armed already and only the result is an error -/
def subscribeRes (s : AState) (a : Acct) (acts : List String) : Res :=
  if s.subFail && (acts.contains "handleStateOpen" ||
      (a.state = .pendingBatch && acts.contains "[account.State == StatePendingBatch]StartAccountSubscription"))
  then .err else .ok

/-- clauses of `resumeAccount` after `StateInitiated` (the `fallthrough` target and the other states). -/
def resumeRest (s : AState) (a : Acct) (onRestart : Bool) : AState × Res :=
  match resumeActs a.state with
  | none => (s, .err)
  | some acts =>
    let r := rebroadcast s a onRestart acts
    if r.2 = .ok then (expiryRearm (watchers r.1 a acts) a acts, subscribeRes s a acts) else r

/-- does the stored / reported latest transaction itself carry the account output? -/
def viaFull (key : Nat) (a : Acct) : Bool :=
  match a.latestTx with
  | some t => txHasOutput t (a.out key)
  | none => false

inductive FundRes where
  | fail (r : Res)
  | cancel
  | got (s : AState) (t : Tx)

/-- `StateInitiated` clause of `resumeAccount` up to the funding transaction: locate it (restart /
recovery), or create it with `SendOutputs`; on recovery an unknown funding transaction is never re-created. -/
def fundOrLocate (s : AState) (a : Acct) (onRestart onRecovery feeOk : Bool) (fundTx : Option (Nat × Nat))
    (acts : List String) : FundRes :=
  let look := (onRestart || onRecovery) && acts.contains "[onRecovery || onRestart]locateTxByOutput"
  let located : Option Tx := if look then locateTxByOutput s.wallet (a.out s.key) a.latestTx else none
  -- the stored / reported latest transaction is tried first; only then the wallet is asked, and any error
  -- other than "not found" aborts (`default: return fmt.Errorf("unable to locate output …")`)
  match located with
  | some t => if look && s.walletFail && !viaFull s.key a then .fail .err else .got s t
  | none =>
    if look && s.walletFail then .fail .err
    else if onRecovery then .cancel
    else if !feeOk then .fail .err
    else if !acts.contains "[notLocated]SendOutputs" then .fail .err
    else match fundTx with
      | none => .fail .err
      | some (id, idx) =>
        let t : Tx := { id := id, spends := [], outs := [(idx, a.out s.key)], signed := true, wit := 0 }
        .got { s with wallet := s.wallet ++ [t], trace := s.trace ++ [.fund (a.out s.key)] } t

/-- `resumeAccount(account, onRestart, onRecovery, feeRate)`; `fundTx` is the transaction `SendOutputs`
returns when it is called (id and output index chosen by the wallet), `none` = `SendOutputs` fails. -/
def resume (s : AState) (a : Acct) (onRestart onRecovery feeOk : Bool) (fundTx : Option (Nat × Nat)) :
    AState × Res :=
  if a.state = .initiated then
    match resumeActs .initiated with
    | none => (s, .err)
    | some acts =>
      match fundOrLocate s a onRestart onRecovery feeOk fundTx acts with
      | .fail r => (s, r)
      | .cancel =>
        -- funding tx unknown to the wallet on recovery: never fund again
        (write s { a with state := .canceled }, .err)
      | .got s t =>
        match t.locate (a.script s.key) with
        | none => (s, .err)
        | some idx =>
          let a' := { a with state := .pendingOpen, outpoint := { txid := t.id, idx := idx }, latestTx := some t }
          let s := write s a'
          if acts.contains "fallthrough" then resumeRest s a' onRestart else (s, .ok)
  else resumeRest s a onRestart

/-! ## user actions -/

/-- `validateAccountExpiry` -/
def expiryValid (expiry height : Nat) : Bool := height + 144 ≤ expiry && expiry ≤ height + 144 * 365

/-- `determineWitnessType`: 1 = expiry path, 2 = multi-sig path -/
def witnessType (a : Acct) (height : Nat) : Nat :=
  if a.state = .expired || height ≥ a.expiry then 1 else 2

inductive Kind where
  | deposit | withdraw | renew
deriving DecidableEq, Repr

structure ModArgs where
  newValue : Nat
  valueOk : Bool          -- the value / fee / dust checks of the real code passed (C07)
  newExpiry : Nat         -- 0 = keep (deposit / withdraw)
  newVersion : Nat
  height : Nat
  txid : Nat
  idx : Nat
  signed : Bool
deriving Repr

/-- `DepositAccount` / `WithdrawAccount` / `RenewAccount` → `createNewAccountOutput` → `spendAccount` -/
def modify (s : AState) (k : Kind) (m : ModArgs) : AState × Res :=
  match s.acct with
  | none => (s, .err)
  | some a =>
    let tbl := match k with
      | .deposit => Lifecycle.acceptsDepositAccount
      | .withdraw => Lifecycle.acceptsWithdrawAccount
      | .renew => Lifecycle.acceptsRenewAccount
    if !accepts tbl a.state then (s, .err)
    else if m.newVersion < a.version then (s, .err)
    else if (k = .renew || m.newExpiry != 0) && !expiryValid m.newExpiry m.height then (s, .err)
    else if !m.valueOk then (s, .err)
    else
      let wt := if k = .renew then 2 else witnessType a m.height
      if wt == 1 then (s, .err)   -- "modifications for expired accounts are not currently supported"
      else
        let a1 : Acct := { a with
          value := m.newValue
          bk := a.bk + 1
          expiry := if k = .renew || m.newExpiry != 0 then m.newExpiry else a.expiry
          version := if m.newVersion > a.version then m.newVersion else a.version }
        let t : Tx := { id := m.txid, spends := [a.outpoint], outs := [(m.idx, a1.out s.key)],
                        signed := m.signed, wit := 2 }
        let a' := { a1 with
          state := .pendingUpdate
          outpoint := { txid := m.txid, idx := m.idx }
          heightHint := m.height
          latestTx := some t }
        -- spendAccount: UpdateAccount, then maybeBroadcastTx
        let s := maybeBroadcast (write s a') t
        -- RenewAccount always re-registers the expiry; Deposit / WithdrawAccount (with the
        -- expiry-tracking fix) when the request changes it
        let rearm := match k with
          | .renew => Lifecycle.renewAccountCalls.contains "WatchAccountExpiration"
          | .deposit => Lifecycle.depositAccountCalls.contains "WatchAccountExpiration" && m.newExpiry != 0
          | .withdraw => Lifecycle.withdrawAccountCalls.contains "WatchAccountExpiration" && m.newExpiry != 0
        let s := if rearm then watchExpiration s a'.expiry else s
        (s, .ok)

/-- `CloseAccount` → `spendAccount(CLOSE)` -/
def close (s : AState) (height txid : Nat) (outputsOk signed : Bool) : AState × Res :=
  match s.acct with
  | none => (s, .err)
  | some a =>
    if !accepts Lifecycle.acceptsCloseAccount a.state then (s, .err)
    else if !outputsOk then (s, .err)
    else
      let t : Tx := { id := txid, spends := [a.outpoint], outs := [], signed := signed,
                      wit := witnessType a height }
      let a' := { a with value := 0, state := .pendingClosed, heightHint := height, latestTx := some t }
      (maybeBroadcast (write s a') t, .ok)

/-- `BumpAccountFee`: no store / watcher effect -/
def bump (s : AState) : AState × Res :=
  match s.acct with
  | none => (s, .err)
  | some a =>
    if !accepts Lifecycle.acceptsBumpAccountFee a.state then (s, .err)
    else match a.latestTx with
      | none => (s, .panic)
      | some _ => (s, .ok)

/-- `InitAccount` (parameters already validated by `validateAccountParams`) -/
def initAccount (s : AState) (value expiry version height : Nat) (fundTx : Option (Nat × Nat)) : AState × Res :=
  let a : Acct := { state := .initiated, outpoint := ⟨0, 0⟩, value := value, expiry := expiry,
                    version := version, bk := 0, heightHint := height, latestTx := none,
                    secret := s.signerSecret }
  resume (write s a) a false false true fundTx

/-! ## batches -/

structure StageArgs where
  ending : Nat            -- auctioneerrpc.AccountDiff_AccountState
  txid : Nat
  idx : Nat
  endBal : Nat
  newExpiry : Nat
  newVersion : Nat
  supportsExt : Bool      -- batch.Version.SupportsAccountExtension()
  supportsUpgrade : Bool  -- batch.Version.SupportsAccountTaprootUpgrade()
  height : Nat
deriving Repr

/-- account part of `batchStorer.StorePendingBatch`: the staged copy; the main record is untouched.
The batch transaction is assumed validated (C02): it spends the account outpoint and, if the output is
re-created, carries it at `idx`. -/
def stage (s : AState) (g : StageArgs) : AState × Res :=
  match s.acct with
  | none => (s, .err)
  | some a =>
    match Lifecycle.storerEnding.lookup g.ending with
    | none => (s, .err)
    | some (stN, hasOp, hasInc) =>
      match State.ofNat? stN with
      | none => (s, .err)
      | some st =>
        let a1 : Acct := { a with
          state := st
          outpoint := if hasOp then { txid := g.txid, idx := g.idx } else a.outpoint
          bk := if hasInc then a.bk + 1 else a.bk
          expiry := if hasOp && g.supportsExt && g.newExpiry != 0 then g.newExpiry else a.expiry
          version := if hasOp && g.supportsUpgrade && g.newVersion > a.version
                        && !(Lifecycle.storerOptionalExclusive && g.supportsExt && g.newExpiry != 0)
                     then g.newVersion else a.version
          value := g.endBal
          heightHint := g.height }
        let t : Tx := { id := g.txid, spends := [a.outpoint],
                        outs := if hasOp then [(g.idx, a1.out s.key)] else [], signed := false, wit := 2 }
        ({ s with staged := some { a1 with latestTx := some t } }, .ok)

/-- `MarkBatchComplete` for this account: the staged copy replaces the record. -/
def completeOnly (s : AState) : AState :=
  match s.staged with
  | none => s
  | some b => { (write s b) with staged := none }

/-- `WatchMatchedAccounts` for this account -/
def watchMatched (s : AState) : AState × Res :=
  match s.acct with
  | none => (s, .err)
  | some a => resume (cancelConf (cancelSpend s)) a false false false none

/-! ## chain events -/

/-- `HandleAccountSpend` -/
def handleSpend (s : AState) (t : Tx) (height : Nat) : AState × Res :=
  match s.acct with
  | none => (s, .err)
  | some a =>
    let closeIt (s : AState) (a : Acct) : AState × Res :=
      (write s { a with state := spendCloseState, heightHint := height, latestTx := some t }, .ok)
    if t.wit == 1 then closeIt s a
    else if t.wit == 2 then
      let s := completeOnly s
      match s.acct with
      | none => (s, .err)
      | some a =>
        match t.locate (a.script s.key) with
        | some _ => resume s a false false false none
        | none => closeIt s a
    else (s, .err)

inductive SpendKind where
  | latest                 -- the record's LatestTx (own modification / close / completed batch tx)
  | staged                 -- the staged batch tx
  | sweep (id : Nat)       -- expiry-path spend without account output
  | foreign (id : Nat)     -- multi-sig-shaped witness, no account output
  | garbage (id : Nat)     -- unknown witness
deriving DecidableEq, Repr

def spendTx (s : AState) (k : SpendKind) (op : OutPoint) : Option Tx :=
  match k with
  | .latest => s.acct.bind (·.latestTx)
  | .staged => s.staged.bind (·.latestTx)
  | .sweep id => some { id := id, spends := [op], outs := [], signed := true, wit := 1 }
  | .foreign id => some { id := id, spends := [op], outs := [], signed := true, wit := 2 }
  | .garbage id => some { id := id, spends := [op], outs := [], signed := true, wit := 3 }

inductive Op where
  | init (value expiry version height : Nat) (fundTx : Option (Nat × Nat))
  | modify (k : Kind) (m : ModArgs)
  | close (height txid : Nat) (outputsOk signed : Bool)
  | bump
  | conf (pos height : Nat)              -- deliver on the live conf registration #pos
  | confDirect (height : Nat)            -- stale / racing notification: handler called directly
  | spend (pos : Nat) (k : SpendKind) (height : Nat)
  | consumeSpend (pos : Nat)                   -- the live spend registration #pos fires (its goroutine takes the event)
  | spendH (t : Tx) (height : Nat)             -- … and runs HandleAccountSpend with the reported transaction
  | spendDirect (k : SpendKind) (height : Nat)
  | block (h : Nat)                      -- expiryWatcher.NewBlock(h)
  | expiryDirect
  | stage (g : StageArgs)
  | completeOnly                         -- MarkBatchComplete triggered for the whole batch
  | dropStage                            -- DeletePendingBatch
  | watchMatched
  | restart (feeOk : Bool) (fundTx : Option (Nat × Nat))
  | recover (a : Acct) (known : List Tx) -- RecoverAccount (C20), `known` = wallet transactions
  | flush                                -- cancelled watcher goroutines wind down
deriving Repr

def step (s : AState) : Op → AState × Res
  | .init v e ver h f => initAccount s v e ver h f
  | .modify k m => modify s k m
  | .close h t ok sg => close s h t ok sg
  | .bump => bump s
  | .conf pos h =>
    match s.w.confRegs[pos]? with
    | none => (s, .err)
    | some r =>
      let s := { s with w := { s.w with confRegs := s.w.confRegs.filter (fun x => x.id != r.id) } }
      let s := handleConf s h
      -- waitForAccountConf's deferred `delete(c.confCancels, key)`
      ({ s with w := { s.w with confMap := none } }, .ok)
  | .confDirect h => (handleConf s h, .ok)
  | .spend pos k h =>
    match s.w.spendRegs[pos]? with
    | none => (s, .err)
    | some r =>
      match spendTx s k r.op with
      | none => (s, .err)
      | some t =>
        let s := { s with w := { s.w with spendRegs := s.w.spendRegs.filter (fun x => x.id != r.id) } }
        let r := handleSpend s t h
        ({ r.1 with w := { r.1.w with spendMap := none } }, r.2)
  | .consumeSpend pos =>
    match s.w.spendRegs[pos]? with
    | none => (s, .err)
    | some r => ({ s with w := { s.w with spendRegs := s.w.spendRegs.filter (fun x => x.id != r.id) } }, .ok)
  | .spendH t h =>
    let r := handleSpend s t h
    ({ r.1 with w := { r.1.w with spendMap := none } }, r.2)
  | .spendDirect k h =>
    match spendTx s k (s.acct.map (·.outpoint) |>.getD ⟨0, 0⟩) with
    | none => (s, .err)
    | some t => handleSpend s t h
  | .block h =>
    let s := { s with best := h }
    match s.w.expiry with
    | some e => if e ≤ h then (handleExpiry { s with w := { s.w with expiry := none } }, .ok) else (s, .ok)
    | none => (s, .ok)
  | .expiryDirect => (handleExpiry s, .ok)
  | .stage g => stage s g
  | .completeOnly => (completeOnly s, .ok)
  | .dropStage => ({ s with staged := none }, .ok)
  | .watchMatched => watchMatched s
  | .restart feeOk f =>
    -- Stop(): every registration is cancelled; new controller / expiry watcher
    let s := { s with w := {}, best := 0 }
    match s.acct with
    | none => (s, .ok)
    | some a => resume s a true false feeOk f
  | .recover a known =>
    -- RecoverAccount: DeriveSharedKey (the reported record carries no secret), AddAccount,
    -- resumeAccount(onRecovery)
    let s := { s with wallet := known }
    let a := { a with secret := s.signerSecret }
    resume (write s a) a false true false none
  | .flush => (flush s, .ok)

def run (s : AState) : List Op → AState
  | [] => s
  | op :: ops => run (step s op).1 ops

end Pool.C08
