import PoolModel.C10Snapshot
/-! C10 – the trader database as nested key/value buckets. A bbolt bucket is a function from keys to values
(`none` = key absent); a committed `Put` overrides exactly one key. bbolt itself (B+tree pages, transactions,
durability across close/reopen) is trusted: the model's database *is* its committed content, so closing and
reopening is the identity – the real-database runs of the harness exercise that part. -/
namespace Pool.C10

abbrev Bucket (V : Type) := Bytes → Option V

def Bucket.empty : Bucket V := fun _ => none
def Bucket.put (b : Bucket V) (k : Bytes) (v : V) : Bucket V := fun k' => if k' = k then some v else b k'

structure DB where
  accounts : Bucket Bytes          -- "account": trader key ↦ serialized account
  orders : Bucket OrderRec         -- "orders": nonce ↦ order bucket
  bidTemplates : Bucket OrderRec   -- "sidecars"/"sidecar-bids": bid nonce ↦ order bucket
  pendingSnapshot : Option Bytes   -- "batch-snapshot-pending"
  snapshots : Bucket Bytes         -- batch id ↦ finalized snapshot (via the sequence index)

def DB.empty : DB := ⟨Bucket.empty, Bucket.empty, Bucket.empty, none, Bucket.empty⟩

/-- `DB.AddAccount` / `storeAccount` (`none` = the serializer failed and nothing is written) -/
def DB.addAccount (db : DB) (a : Account) : Option DB :=
  match serializeAccount a with
  | .ok b => some { db with accounts := db.accounts.put a.traderKey.pub b }
  | _ => none

/-- `DB.Account` / `readAccount` -/
def DB.account (db : DB) (traderKey : Bytes) : Res Account :=
  match db.accounts traderKey with
  | none => .err                                  -- ErrAccountNotFound
  | some b =>
    match deserializeAccount b with
    | .ok a _ => .ok a []
    | .err => .err
    | .panic => .panic

/-- `DB.SubmitOrder` (for a nonce not yet present) / `updateOrder`'s write-back -/
def DB.putOrder (db : DB) (o : Order) : DB := { db with orders := db.orders.put o.kit.nonce (storeOrder o) }

/-- `DB.GetOrder` -/
def DB.getOrder (db : DB) (nonce : Bytes) : Res Order :=
  match db.orders nonce with
  | none => .err                                  -- ErrNoOrder
  | some rec => loadOrder nonce rec

/-- `storeBidTemplate` (inside `AddSidecarWithBid`) -/
def DB.putBidTemplate (db : DB) (bid : Order) : DB :=
  { db with bidTemplates := db.bidTemplates.put bid.kit.nonce (storeOrder bid) }

/-- `DB.SidecarBidTemplate` / `readBidTemplate` (the Go code then asserts the result is a bid) -/
def DB.bidTemplate (db : DB) (nonce : Bytes) : Res Order :=
  match db.bidTemplates nonce with
  | none => .err
  | some rec => loadOrder nonce rec

/-- `storePendingBatchSnapshot` -/
def DB.storePending (db : DB) (s : Snapshot) : Option DB :=
  match serializeSnapshot s with
  | .ok b => some { db with pendingSnapshot := some b }
  | _ => none

/-- complete the own orders of a decoded snapshot from the orders bucket -/
def completeOrders (orders : Bucket OrderRec) : List (Bytes × Order) → Res (List (Bytes × Order))
  | [] => .ok [] []
  | (n, o) :: rest =>
    match completeOrder o (orders n) with
    | .ok o' _ =>
      match completeOrders orders rest with
      | .ok tl _ => .ok ((n, o') :: tl) []
      | .err => .err
      | .panic => .panic
    | .err => .err
    | .panic => .panic

/-- the read path of a stored snapshot blob: decode, then complete own orders (`fetchLocalBatchSnapshot`; with
the repair also `fetchPendingBatchSnapshot`) -/
def readSnapshot (orders : Bucket OrderRec) (blob : Bytes) : Res Snapshot :=
  match deserializeSnapshot blob with
  | .ok s _ =>
    match completeOrders orders s.orders with
    | .ok os _ => .ok { s with orders := os } []
    | .err => .err
    | .panic => .panic
  | .err => .err
  | .panic => .panic

/-- `DB.PendingBatchSnapshot` (repaired) -/
def DB.pending (db : DB) : Res Snapshot :=
  match db.pendingSnapshot with
  | none => .err                                  -- ErrNoPendingBatch
  | some b => readSnapshot db.orders b

/-- `DB.PendingBatchSnapshot` as it was before the repair: the blob alone -/
def DB.pendingUnrepaired (db : DB) : Res Snapshot :=
  match db.pendingSnapshot with
  | none => .err
  | some b => deserializeSnapshot b

/-- `finalizeBatchSnapshot` -/
def DB.finalize (db : DB) (batchID : Bytes) : Option DB :=
  match db.pendingSnapshot with
  | none => none
  | some b => some { db with pendingSnapshot := none, snapshots := db.snapshots.put batchID b }

/-- `DB.GetLocalBatchSnapshot` -/
def DB.snapshot (db : DB) (batchID : Bytes) : Res Snapshot :=
  match db.snapshots batchID with
  | none => .err
  | some b => readSnapshot db.orders b

end Pool.C10

namespace Pool.C10

/-! ### multi-object transactions (`StorePendingBatch`, `MarkBatchComplete`, `UpdateOrders`)

One bbolt transaction that writes several objects is the sequence of its `Put`s. (Go-level aliasing of the value
slices handed to `Put` – which bbolt references until commit – has no counterpart in a value-semantics model; it
is covered by the real-database batch scenarios of the harness.) -/

/-- several `storeAccount` calls in one transaction (`applyBatchUpdates`' account loop) -/
def DB.addAccounts (db : DB) : List Account → Option DB
  | [] => some db
  | a :: as =>
    match db.addAccount a with
    | some db' => db'.addAccounts as
    | none => none

/-- several order write-backs in one transaction (`UpdateOrders`, the order loop of `StorePendingBatch`) -/
def DB.putOrders (db : DB) : List Order → DB
  | [] => db
  | o :: os => (db.putOrder o).putOrders os

/-- `copyOrder(src, dst, nonce)` of `applyBatchUpdates` on bucket values: the raw `order` bytes are copied; the
order is decoded (base + additional data) only to re-serialise its TLV stream and to know whether it is a bid;
node tier and min units match are copied from the extra data read by `fetchOrderTX`. `dstTier` = the `order-tier`
value already present in the destination bucket (kept for asks, since only bids write that key). -/
def copyOrderRec (nonce : Bytes) (src : OrderRec) (dstTier : Option Bytes) : Res OrderRec :=
  match src.base with
  | none => .err
  | some orderBytes =>
    match (match src.tier with
           | some b => readU32 b
           | none => .ok 0 []) with
    | .ok tier _ =>
      match (match src.minUnits with
             | some b => readU64 b
             | none => .ok 1 []) with
      | .ok minUnits _ =>
        match deserializeOrder nonce orderBytes with
        | .ok o _ =>
          match deserializeOrderTlvData (src.tlv.getD []) o with
          | .ok o _ =>
            .ok { base := some orderBytes, minUnits := some (encU64 minUnits),
                  tlv := some (serializeOrderTlvData o),
                  tier := if o.isBid then some (encU32 tier) else dstTier } []
          | .err => .err
          | .panic => .panic
        | .err => .err
        | .panic => .panic
      | .err => .err
      | .panic => .panic
    | .err => .err
    | .panic => .panic

end Pool.C10
