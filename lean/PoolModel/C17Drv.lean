import PoolModel.C17
import PoolModel.Sha256
import PoolModel.Util
/-! Line-protocol driver of the C17 model.

Acceptor ops (state = the `expectedChans` registry):
* `areset`
* `reg <pid> <nonce> <selfBal> <chanType> <unann 0/1> <zc 0/1>`          → `ok <n entries>`
* `rm <nonce>`                                                           → `ok <n entries>`
* `acc <pid> <pushMsat> <commitType | -> <channelFlags> <wantsZC 0/1>`   → `accept=<0/1> zc=<0/1> depth=<n> err=<0/1>` (whether an error text is set, not which)
* `consts`  → the lnd / pool constants the model uses (compared with the compiled Go values)

Funding ops (stateless).  Syntax of the pieces:
* kit      `<nonce> <lease> <chanType> <keyFamily> <keyIndex>`
* ticket   `-` | `T:<cap>:<push>:<lease>:<un>:<zc>:<recipient>:<orderNonce|nil>`,
           recipient = `n` | `<nodeKey>/<multiSigKey|nil>/<index>`
* order    `a <kit>` | `b <kit> <selfBal> <un> <zc> <ticket>`
* matched  `<order> <multiSigKey> <nodeKey> <units>`
* tx       `<txid> <script,script,…|->`
* env      `DK=<fam/idx/key|err;…|->` `FS=<0|1/ourKey/theirKey/script|err;…|->` `VK=<key;…|->`
* `derive <order> <matched> <tx> <hint> <env>`            → shim | `err` | `panic`
* `prep <nodePubKey> <order> <matched> <tx> <hint> <env>` → `none` | shim + `reg=…` | `err` | `panic`
* `open <order> <matched> <tx> <hint> <env>`              → `none` | request | `err` | `panic`
* `projask <kit> <multiSigKey> <nodeKey> <units> <env>`   → matched | `err` | `randomnonce`
* `projbid <order b…> <multiSigKey> <nodeKey> <units> <env>`
* `prepb <nodePubKey> <tx> <hint> <env> <k> (<order> <n> <matched>×n)×k` → whole-batch `PrepChannelFunding`:
  `ok conns=<sorted nodes> n=<registrations> <sorted registrations>` | `err` | `panic`
* `openb <tx> <hint> <env> <k> (<order> <n> <matched>×n)×k` → whole-batch `BatchChannelSetup`: sorted requests
* `lreset` | `lprepb …` (as `prepb`, against the shims lnd holds; `… held=<sorted shims>` | `err`) |
  `lcancel <failing pids,|-> <k> (<order> <n> <matched>×n)×k` → `ok held=…`: re-proposed batches
* `sidecar <nonce> <ticket>…`                             → order | `err` | `panic`
* `offer <ticket>`                                        → `offer=<0/1>` (`Manager.OfferSidecar` accepts the offer)
* `gate <ticket> <order b…> <bidAmt> <minUnits>`          → `gate=<0/1>` (the repaired gate)
-/
namespace Pool.C17
open Pool.Util

def parseBool (s : String) : Option Bool :=
  if s == "1" then some true else if s == "0" then some false else none

def parseInt (s : String) : Option Int := s.toInt?

def b01 (b : Bool) : String := if b then "1" else "0"

def fmtResp (r : AccResp) : String :=
  s!"accept={b01 r.accept} zc={b01 r.zeroConf} depth={r.minAcceptDepth} err={b01 (r.err != .none)}"

structure DrvSt where
  exp : Expected := []
  lnd : LndShims := []

def drvInit : DrvSt := {}

def constsLine : String :=
  s!"cse={lnwCommitScriptEnforcedLease} cst={lnwCommitSimpleTaproot} ffa={ffAnnounceChannel} msat={mSatScale} " ++
  s!"pd={Gen.C17.chanTypePeerDependent} se={Gen.C17.chanTypeScriptEnforced} st={Gen.C17.chanTypeSimpleTaproot} " ++
  s!"unit={Gen.C17.baseSupplyUnit} rpcunk={rpcCommitUnknown} rpcsel={rpcCommitScriptEnforcedLease} " ++
  s!"rpcst={rpcCommitSimpleTaproot} kfms={keyFamilyMultiSig}"

/-! ### token parsers -/
abbrev P (α : Type) := List String → Option (α × List String)

def pNat : P Nat := fun ts => match ts with
  | t :: rest => t.toNat?.map fun n => (n, rest)
  | [] => none
def pInt : P Int := fun ts => match ts with
  | t :: rest => t.toInt?.map fun n => (n, rest)
  | [] => none
def pBool : P Bool := fun ts => match ts with
  | t :: rest => (parseBool t).map fun n => (n, rest)
  | [] => none
def pHex : P Bytes := fun ts => match ts with
  | t :: rest => (unhex t).map fun n => (n, rest)
  | [] => none

def pKit : P Kit := fun ts =>
  match pHex ts with
  | none => none
  | some (nonce, ts) =>
  match pNat ts with
  | none => none
  | some (lease, ts) =>
  match pNat ts with
  | none => none
  | some (ct, ts) =>
  match pNat ts with
  | none => none
  | some (fam, ts) =>
  match pNat ts with
  | none => none
  | some (idx, ts) => some ({ nonce := nonce, leaseDuration := lease, channelType := ct, keyFamily := fam, keyIndex := idx }, ts)

def parseRecipient (s : String) : Option (Option Recipient) :=
  if s == "n" then some none else
  match s.splitOn "/" with
  | [nk, mk, idx] =>
    let mkv : Option (Option Bytes) := if mk == "nil" then some none else (unhex mk).map some
    match unhex nk, mkv, idx.toNat? with
    | some nk, some mk, some idx => some (some { nodeKey := nk, multiSigKey := mk, multiSigKeyIndex := idx })
    | _, _, _ => none
  | _ => none

def parseTicket (s : String) : Option (Option Ticket) :=
  if s == "-" then some none else
  match s.splitOn ":" with
  | ["T", cap, push, lease, un, zc, rec, onon] =>
    let ononv : Option (Option Bytes) := if onon == "nil" then some none else (unhex onon).map some
    match cap.toInt?, push.toInt?, lease.toNat?, parseBool un, parseBool zc, parseRecipient rec, ononv with
    | some cap, some push, some lease, some un, some zc, some rec, some onon =>
      some (some { offer := { capacity := cap, pushAmt := push, leaseDurationBlocks := lease, unannounced := un, zeroConf := zc },
                   recipient := rec, orderBidNonce := onon })
    | _, _, _, _, _, _, _ => none
  | _ => none

def pOrder : P Order := fun ts =>
  match ts with
  | "a" :: ts => (pKit ts).map fun (k, rest) => (.ask k, rest)
  | "b" :: ts =>
    match pKit ts with
    | none => none
    | some (k, ts) =>
    match pInt ts with
    | none => none
    | some (sb, ts) =>
    match pBool ts with
    | none => none
    | some (un, ts) =>
    match pBool ts with
    | none => none
    | some (zc, ts) =>
    match ts with
    | t :: ts =>
      match parseTicket t with
      | some tk => some (.bid { kit := k, selfChanBalance := sb, unannounced := un, zeroConf := zc, sidecar := tk }, ts)
      | none => none
    | [] => none
  | _ => none

def pMatched : P MatchedOrder := fun ts =>
  match pOrder ts with
  | none => none
  | some (o, ts) =>
  match pHex ts with
  | none => none
  | some (mk, ts) =>
  match pHex ts with
  | none => none
  | some (nk, ts) =>
  match pNat ts with
  | none => none
  | some (u, ts) => some ({ order := o, multiSigKey := mk, nodeKey := nk, unitsFilled := u }, ts)

def parseList {α : Type} (sep : String) (f : String → Option α) (s : String) : Option (List α) :=
  if s == "-" then some [] else (s.splitOn sep).mapM f

def pTx : P BatchTx := fun ts =>
  match pHex ts with
  | none => none
  | some (txid, ts) =>
  match ts with
  | t :: ts => (parseList "," unhex t).map fun outs => ({ txid := txid, outs := outs }, ts)
  | [] => none

def optHex (s : String) : Option (Option Bytes) := if s == "err" then some none else (unhex s).map some

def parseDK (s : String) : Option (Nat × Nat × Option Bytes) :=
  match s.splitOn "/" with
  | [f, i, k] => match f.toNat?, i.toNat?, optHex k with
    | some f, some i, some k => some (f, i, k)
    | _, _, _ => none
  | _ => none

def parseFS (s : String) : Option (Bool × Bytes × Bytes × Option Bytes) :=
  match s.splitOn "/" with
  | [t, a, b, r] => match parseBool t, unhex a, unhex b, optHex r with
    | some t, some a, some b, some r => some (t, a, b, r)
    | _, _, _, _ => none
  | _ => none

def stripPrefix (pre s : String) : Option String :=
  if s.startsWith pre then some (s.drop pre.length).toString else none

def pEnv : P Env := fun ts =>
  match ts with
  | dk :: fs :: vk :: rest =>
    match (stripPrefix "DK=" dk).bind (parseList ";" parseDK), (stripPrefix "FS=" fs).bind (parseList ";" parseFS),
          (stripPrefix "VK=" vk).bind (parseList ";" unhex) with
    | some dk, some fs, some vk =>
      some ({ deriveKey := fun f i => match dk.find? (fun e => e.1 == f && e.2.1 == i) with
                | some e => e.2.2
                | none => none
              fundScript := fun t a b => match fs.find? (fun e => e.1 == t && e.2.1 == a && e.2.2.1 == b) with
                | some e => e.2.2.2
                | none => none
              H := Pool.Sha256.sha256
              validKey := fun k => vk.contains k }, rest)
    | _, _, _ => none
  | _ => none

/-! ### formatters -/
def fmtKit (k : Kit) : String := s!"{hex k.nonce} {k.leaseDuration} {k.channelType} {k.keyFamily} {k.keyIndex}"

def fmtRecipient : Option Recipient → String
  | none => "n"
  | some r => s!"{hex r.nodeKey}/{match r.multiSigKey with | some k => hex k | none => "nil"}/{r.multiSigKeyIndex}"

def fmtTicket : Option Ticket → String
  | none => "-"
  | some t =>
    s!"T:{t.offer.capacity}:{t.offer.pushAmt}:{t.offer.leaseDurationBlocks}:{b01 t.offer.unannounced}:" ++
    s!"{b01 t.offer.zeroConf}:{fmtRecipient t.recipient}:{match t.orderBidNonce with | some n => hex n | none => "nil"}"

def fmtOrder : Order → String
  | .ask k => s!"a {fmtKit k}"
  | .bid b => s!"b {fmtKit b.kit} {b.selfChanBalance} {b01 b.unannounced} {b01 b.zeroConf} {fmtTicket b.sidecar}"

def fmtMatched (m : MatchedOrder) : String :=
  s!"{fmtOrder m.order} {hex m.multiSigKey} {hex m.nodeKey} {m.unitsFilled}"

def fmtShim (s : Shim) : String :=
  s!"amt={s.amt} txid={hex s.txid} idx={s.outputIndex} lk={hex s.localKey} lf={s.localKeyFamily} li={s.localKeyIndex} " ++
  s!"rk={hex s.remoteKey} pid={hex s.pendingChanId} thaw={s.thawHeight} m2={b01 s.musig2}"

def fmtRes {α : Type} (f : α → String) : Res α → String
  | .ok a => f a
  | .err => "err"
  | .panic => "panic"

def fmtProj : Proj → String
  | .ok m => "ok " ++ fmtMatched m
  | .err => "err"
  | .randomNonce => "randomnonce"

/-- parse `<order> <matched> <tx> <hint> <env>` -/
def pCall : P (Order × MatchedOrder × BatchTx × Nat × Env) := fun ts =>
  match pOrder ts with
  | none => none
  | some (o, ts) =>
  match pMatched ts with
  | none => none
  | some (m, ts) =>
  match pTx ts with
  | none => none
  | some (tx, ts) =>
  match pNat ts with
  | none => none
  | some (hint, ts) =>
  match pEnv ts with
  | none => none
  | some (env, ts) => some ((o, m, tx, hint, env), ts)

def pRepeat {α : Type} (p : P α) : Nat → P (List α)
  | 0 => fun ts => some ([], ts)
  | n + 1 => fun ts =>
    match p ts with
    | none => none
    | some (a, ts) =>
      match pRepeat p n ts with
      | none => none
      | some (as, ts) => some (a :: as, ts)

/-- `<order> <nMatches> <matched>…` -/
def pEntry : P (Order × List MatchedOrder) := fun ts =>
  match pOrder ts with
  | none => none
  | some (o, ts) =>
  match pNat ts with
  | none => none
  | some (n, ts) =>
  match pRepeat pMatched n ts with
  | none => none
  | some (ms, ts) => some ((o, ms), ts)

/-- `<tx> <hint> <env> <k> <entry>…` -/
def pBatchCall : P (BatchTx × Nat × Env × List (Order × List MatchedOrder)) := fun ts =>
  match pTx ts with
  | none => none
  | some (tx, ts) =>
  match pNat ts with
  | none => none
  | some (hint, ts) =>
  match pEnv ts with
  | none => none
  | some (env, ts) =>
  match pNat ts with
  | none => none
  | some (k, ts) =>
  match pRepeat pEntry k ts with
  | none => none
  | some (es, ts) => some ((tx, hint, env, es), ts)

def shimCols (s : Shim) : String :=
  s!"{s.amt}:{hex s.txid}:{s.outputIndex}:{hex s.localKey}:{s.localKeyFamily}:{s.localKeyIndex}:{hex s.remoteKey}:" ++
  s!"{s.thawHeight}:{b01 s.musig2}"

def joinOrDash (sep : String) (xs : List String) : String := if xs.isEmpty then "-" else joinWith sep xs

def fmtPrepOut (o : PrepOut) : String :=
  let regs := o.regs.map fun (r : Shim × Bytes × ExpBid) =>
    s!"{hex r.2.1}:{hex r.1.pendingChanId}:{shimCols r.1}:{hex r.2.2.nonce}:{r.2.2.selfChanBalance}:{r.2.2.channelType}:" ++
    s!"{b01 r.2.2.unannounced}:{b01 r.2.2.zeroConf}"
  s!"ok conns={joinOrDash "," (sortList (o.conns.map hex))} n={regs.length} {joinOrDash ";" (sortList regs)}"

def fmtOpens (qs : List OpenReq) : String :=
  let es := qs.map fun (q : OpenReq) =>
    s!"{hex q.shim.pendingChanId}:{hex q.nodePubkey}:{q.localFundingAmount}:{q.pushSat}:{q.commitmentType}:" ++
    s!"{b01 q.isPrivate}:{b01 q.zeroConf}:{shimCols q.shim}"
  s!"ok n={es.length} {joinOrDash ";" (sortList es)}"

def fmtHeld (l : LndShims) : String :=
  "held=" ++ joinOrDash ";" (sortList (l.map fun (e : Bytes × Shim) => s!"{hex e.1}:{shimCols e.2}"))

def fundingStep (args : List String) : String :=
  match args with
  | "derive" :: ts =>
    match pCall ts with
    | some ((o, m, tx, hint, env), []) =>
      fmtRes (fun (r : Shim × Bytes) => "ok " ++ fmtShim r.1 ++ s!" ret={hex r.2}") (deriveFundingShim env o m tx hint)
    | _ => "bad-op"
  | "prep" :: ts =>
    match pHex ts with
    | some (npk, ts) =>
      match pCall ts with
      | some ((o, m, tx, hint, env), []) =>
        fmtRes (fun (r : Option (Shim × Bytes × ExpBid)) => match r with
          | none => "none"
          | some (s, pid, e) =>
            "ok " ++ fmtShim s ++ s!" reg={hex pid} {hex e.nonce} {e.selfChanBalance} {e.channelType} {b01 e.unannounced} {b01 e.zeroConf}")
          (prepRegisters env npk o m tx hint)
      | _ => "bad-op"
    | none => "bad-op"
  | "open" :: ts =>
    match pCall ts with
    | some ((o, m, tx, hint, env), []) =>
      fmtRes (fun (r : Option OpenReq) => match r with
        | none => "none"
        | some q =>
          s!"ok node={hex q.nodePubkey} lfa={q.localFundingAmount} push={q.pushSat} ct={q.commitmentType} " ++
          s!"priv={b01 q.isPrivate} zc={b01 q.zeroConf} " ++ fmtShim q.shim)
        (batchChannelSetup env o m tx hint)
    | _ => "bad-op"
  | "prepb" :: ts =>
    match pHex ts with
    | some (npk, ts) =>
      match pBatchCall ts with
      | some ((tx, hint, env, es), []) => fmtRes fmtPrepOut (prepBatch env npk es tx hint)
      | _ => "bad-op"
    | none => "bad-op"
  | "openb" :: ts =>
    match pBatchCall ts with
    | some ((tx, hint, env, es), []) => fmtRes fmtOpens (setupBatch env es tx hint)
    | _ => "bad-op"
  | "projask" :: ts =>
    match pKit ts with
    | some (k, ts) =>
      match pHex ts with
      | some (mk, ts) =>
        match pHex ts with
        | some (nk, ts) =>
          match pNat ts with
          | some (u, ts) =>
            match pEnv ts with
            | some (env, []) => fmtProj (projAsk env k mk nk u)
            | _ => "bad-op"
          | none => "bad-op"
        | none => "bad-op"
      | none => "bad-op"
    | none => "bad-op"
  | "projbid" :: ts =>
    match pOrder ts with
    | some (.bid b, ts) =>
      match pHex ts with
      | some (mk, ts) =>
        match pHex ts with
        | some (nk, ts) =>
          match pNat ts with
          | some (u, ts) =>
            match pEnv ts with
            | some (env, []) => fmtProj (projBid env b mk nk u)
            | _ => "bad-op"
          | none => "bad-op"
        | none => "bad-op"
      | none => "bad-op"
    | _ => "bad-op"
  | "sidecar" :: nonce :: tickets =>
    match unhex nonce, tickets.mapM parseTicket with
    | some n, some tks =>
      match tks.mapM id with
      | some tks => fmtRes (fun o => "ok " ++ fmtOrder o) (getSidecarAsOrder tks n)
      | none => "bad-op"
    | _, _ => "bad-op"
  | ["offer", t] =>
    match parseTicket t with
    | some (some tk) => s!"offer={b01 (offerSidecarOK tk.offer)}"
    | _ => "bad-op"
  | "gate" :: t :: ts =>
    match parseTicket t, pOrder ts with
    | some (some tk), some (.bid b, [amt, mu]) =>
      match amt.toInt?, mu.toNat? with
      | some amt, some mu => s!"gate={b01 (offerGate tk.offer b amt mu)}"
      | _, _ => "bad-op"
    | _, _ => "bad-op"
  | _ => "bad-op"

def drvStep (s : DrvSt) (args : List String) : DrvSt × String :=
  match args with
  | ["areset"] => ({ s with exp := [] }, "ok")
  | ["consts"] => (s, constsLine)
  | ["reg", pid, nonce, sb, ct, un, zc] =>
    match unhex pid, unhex nonce, parseInt sb, ct.toNat?, parseBool un, parseBool zc with
    | some pid, some nonce, some sb, some ct, some un, some zc =>
      let m := shimRegistered s.exp pid
        { nonce := nonce, selfChanBalance := sb, channelType := ct, unannounced := un, zeroConf := zc }
      ({ s with exp := m }, s!"ok {m.length}")
    | _, _, _, _, _, _ => (s, "bad-op")
  | ["rm", nonce] =>
    match unhex nonce with
    | some nonce => let m := shimRemoved s.exp nonce; ({ s with exp := m }, s!"ok {m.length}")
    | none => (s, "bad-op")
  | ["acc", pid, push, ct, flags, wz] =>
    let ctv : Option (Option Nat) := if ct == "-" then some none else ct.toNat?.map some
    match unhex pid, parseInt push, ctv, flags.toNat?, parseBool wz with
    | some pid, some push, some ctv, some flags, some wz =>
      let req : AccReq := { pid := pid, pushAmt := push, commitType := ctv, channelFlags := flags, wantsZeroConf := wz }
      (s, fmtResp (acceptChannel s.exp req))
    | _, _, _, _, _ => (s, "bad-op")
  | ["lreset"] => ({ s with lnd := [] }, "ok")
  | "lprepb" :: ts =>
    match pHex ts with
    | some (npk, ts) =>
      match pBatchCall ts with
      | some ((tx, hint, env, es), []) =>
        match prepBatchLnd env npk es tx hint s.lnd with
        | .ok st => ({ s with lnd := st.lnd }, fmtPrepOut st.out ++ " " ++ fmtHeld st.lnd)
        | .err => (s, "err")
        | .panic => (s, "panic")
      | _ => (s, "bad-op")
    | none => (s, "bad-op")
  | "lcancel" :: fails :: ts =>
    match parseList "," unhex fails, pNat ts with
    | some fl, some (k, ts) =>
      match pRepeat pEntry k ts with
      | some (es, []) =>
        let l := cancelPendingFundingShims Pool.Sha256.sha256 es fl s.lnd
        ({ s with lnd := l }, "ok " ++ fmtHeld l)
      | _ => (s, "bad-op")
    | _, _ => (s, "bad-op")
  | _ => (s, fundingStep args)

end Pool.C17
