import PoolModel.C17Acceptor
import PoolModel.Util
/-! Line-protocol driver of the C17 model.

Acceptor ops (state = the `expectedChans` registry):
* `areset`
* `reg <pid> <nonce> <selfBal> <chanType> <unann 0/1> <zc 0/1>`          → `ok <n entries>`
* `rm <nonce>`                                                           → `ok <n entries>`
* `acc <pid> <pushMsat> <commitType | -> <channelFlags> <wantsZC 0/1>`   → `accept=<0/1> zc=<0/1> depth=<n> err=<enum>`
* `consts`  → the lnd / pool constants the model uses (compared with the compiled Go values)
-/
namespace Pool.C17
open Pool.Util

def parseBool (s : String) : Option Bool :=
  if s == "1" then some true else if s == "0" then some false else none

def parseInt (s : String) : Option Int := s.toInt?

def b01 (b : Bool) : String := if b then "1" else "0"

def errName : AccErr → String
  | .none => "none" | .push => "push" | .explicitNeg => "explicit" | .leaseType => "lease"
  | .taprootType => "taproot" | .internal => "internal" | .announce => "announce" | .zeroConf => "zeroconf"

def fmtResp (r : AccResp) : String :=
  s!"accept={b01 r.accept} zc={b01 r.zeroConf} depth={r.minAcceptDepth} err={errName r.err}"

structure DrvSt where
  exp : Expected := []

def drvInit : DrvSt := {}

def constsLine : String :=
  s!"cse={lnwCommitScriptEnforcedLease} cst={lnwCommitSimpleTaproot} ffa={ffAnnounceChannel} msat={mSatScale} " ++
  s!"pd={Gen.C17.chanTypePeerDependent} se={Gen.C17.chanTypeScriptEnforced} st={Gen.C17.chanTypeSimpleTaproot} " ++
  s!"unit={Gen.C17.baseSupplyUnit}"

def drvStep (s : DrvSt) (args : List String) : DrvSt × String :=
  match args with
  | ["areset"] => ({ s with exp := [] }, "ok")
  | ["consts"] => (s, constsLine)
  | ["reg", pid, nonce, sb, ct, un, zc] =>
    match unhex pid, unhex nonce, parseInt sb, ct.toNat?, parseBool un, parseBool zc with
    | some pid, some nonce, some sb, some ct, some un, some zc =>
      let m := shimRegistered s.exp pid
        { nonce := nonce, selfChanBalance := sb, channelType := ct, unannounced := un, zeroConf := zc }
      ({ s with exp := m }, s!"ok {m.length}")
    | _, _, _, _, _, _ => (s, "bad-op")
  | ["rm", nonce] =>
    match unhex nonce with
    | some nonce => let m := shimRemoved s.exp nonce; ({ s with exp := m }, s!"ok {m.length}")
    | none => (s, "bad-op")
  | ["acc", pid, push, ct, flags, wz] =>
    let ctv : Option (Option Nat) := if ct == "-" then some none else ct.toNat?.map some
    match unhex pid, parseInt push, ctv, flags.toNat?, parseBool wz with
    | some pid, some push, some ctv, some flags, some wz =>
      let req : AccReq := { pid := pid, pushAmt := push, commitType := ctv, channelFlags := flags, wantsZeroConf := wz }
      (s, fmtResp (acceptChannel s.exp req))
    | _, _, _, _, _ => (s, "bad-op")
  | _ => (s, "bad-op")

end Pool.C17
