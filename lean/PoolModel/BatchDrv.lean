import Lean.Data.Json
import PoolModel.Batch
import PoolModel.Util
/-!
Line-protocol driver shared by C01/C02/C03 (`PoolModel/C0{1,2,3}Drv.lean` forward to it).

* `reset`               → forget the pending batch; prints `ok`
* `consts`              → prints the regenerated constants the model consumes (compared with the compiled Go values)
* `validate <json>`     → `ParseRPCBatch` + `OrderMatchValidate` on one proposal; prints
                          `ok pending=<id>` or `rej <class> pending=<id|->`

The JSON token carries the trader's environment, the prepare message, the order in which the real `Verify` visited
`MatchedOrders` in this run, and the oracle tables of the external functions (computed by the harness with direct
calls).  A premium looked up but absent from its table yields `oracle-miss` (detected by running the model with two
different default values).
-/
namespace Pool.Batch
open Lean (Json)

private def gS (j : Json) (k : String) : Except String String := j.getObjValAs? String k
private def gN (j : Json) (k : String) : Except String Nat := j.getObjValAs? Nat k
private def gI (j : Json) (k : String) : Except String Int := j.getObjValAs? Int k
private def gB (j : Json) (k : String) : Except String Bool := j.getObjValAs? Bool k
private def gOS (j : Json) (k : String) : Except String (Option String) := j.getObjValAs? (Option String) k
private def gL (j : Json) (k : String) : Except String (List Json) := do
  let a ← j.getObjValAs? (Array Json) k
  pure a.toList
private def gLS (j : Json) (k : String) : Except String (List String) := j.getObjValAs? (List String) k

def decOurs (j : Json) : Except String Ours := do
  let sc ← gN j "sidecar"
  let sk ← gS j "sidecarKey"
  let sidecar ← match sc with
    | 0 => pure none
    | 1 => pure (some none)
    | 2 => pure (some (some sk))
    | _ => throw "bad sidecar"
  pure {
    nonce := ← gS j "nonce", isAsk := ← gB j "isAsk", acctKey := ← gS j "acctKey",
    acctKeyParses := ← gB j "acctKeyParses", auctionType := ← gN j "auctionType",
    duration := ← gN j "duration", rate := ← gN j "rate", unitsUnfulfilled := ← gN j "unitsUnfulfilled",
    minUnitsMatch := ← gN j "minUnitsMatch", chanType := ← gN j "chanType",
    selfChanBalance := ← gI j "selfChanBalance", sidecar := sidecar, derivedKey := ← gOS j "derivedKey",
    allowed := ← gLS j "allowed", notAllowed := ← gLS j "notAllowed" }

def decAcct (j : Json) : Except String Acct := do
  pure { key := ← gS j "key", value := ← gI j "value", expiry := ← gN j "expiry", version := ← gN j "version" }

def decTheirRpc (j : Json) : Except String TheirRpc := do
  pure { nonce := ← gS j "nonce", auctionType := ← gN j "auctionType", duration := ← gN j "duration",
         rate := ← gN j "rate", selfChanBalance := ← gN j "selfChanBalance", chanType := ← gI j "chanType",
         nodeKey := ← gS j "nodeKey", multiSigKey := ← gS j "multiSigKey", unitsFilled := ← gN j "unitsFilled",
         version := (j.getObjValAs? Nat "version").toOption.getD 6,
         nodeKeyEnc := (j.getObjValAs? Nat "nodeKeyEnc").toOption.getD 0,
         multiSigKeyEnc := (j.getObjValAs? Nat "multiSigKeyEnc").toOption.getD 0 }

def decMatchedRpc (j : Json) : Except String MatchedRpc := do
  pure { nonce := ← gS j "nonce", asks := ← (← gL j "asks").mapM decTheirRpc,
         bids := ← (← gL j "bids").mapM decTheirRpc }

def decMarketRpc (j : Json) : Except String MarketRpc := do
  pure { duration := ← gN j "duration", price := ← gN j "price", orders := ← (← gL j "orders").mapM decMatchedRpc }

def decDiffRpc (j : Json) : Except String DiffRpc := do
  pure { acctKey := ← gS j "acctKey", endingState := ← gI j "endingState", endingBalance := ← gN j "endingBalance",
         outpointIndex := ← gI j "outpointIndex", newExpiry := ← gN j "newExpiry", newVersion := ← gN j "newVersion" }

def decTxOut (j : Json) : Except String TxOut := do
  pure { value := ← gI j "value", script := ← gS j "script" }

def decMsg (j : Json) : Except String PrepareMsg := do
  pure { id := ← gS j "id", version := ← gN j "version", heightHint := ← gN j "heightHint",
         markets := ← (← gL j "markets").mapM decMarketRpc, diffs := ← (← gL j "diffs").mapM decDiffRpc,
         execBase := ← gN j "execBase", execRate := ← gN j "execRate", feeRate := ← gN j "feeRate",
         txOuts := ← (← gL j "txOuts").mapM decTxOut }

structure Oracle where
  premium : List ((Int × Nat × Nat) × Int)
  acctScripts : List ((String × Nat × Nat) × Option String)
  fundScripts : List ((Bool × String × String) × Option String)

def decOracle (j : Json) : Except String Oracle := do
  let p ← (← gL j "premium").mapM fun e => do
    pure (((← gI e "amt"), (← gN e "rate"), (← gN e "dur")), (← gI e "val"))
  let a ← (← gL j "acctScripts").mapM fun e => do
    pure (((← gS e "acct"), (← gN e "sv"), (← gN e "expiry")), (← gOS e "script"))
  let f ← (← gL j "fundScripts").mapM fun e => do
    pure (((← gB e "taproot"), (← gS e "ours"), (← gS e "theirs")), (← gOS e "script"))
  pure ⟨p, a, f⟩

structure Case where
  orders : List Ours
  accounts : List Acct
  ourNode : Key
  version : Nat
  minNoDust : Int
  best : Nat
  msg : PrepareMsg
  visit : List String
  marketOrder : List Nat
  oracle : Oracle

def decCase (j : Json) : Except String Case := do
  let e ← j.getObjVal? "env"
  pure { orders := ← (← gL e "orders").mapM decOurs, accounts := ← (← gL e "accounts").mapM decAcct,
         ourNode := ← gS e "ourNode", version := ← gN e "version", minNoDust := ← gI e "minNoDust",
         best := ← gN j "best", msg := ← decMsg (← j.getObjVal? "msg"), visit := ← gLS j "visit",
         marketOrder := (j.getObjValAs? (List Nat) "marketOrder").toOption.getD [],
         oracle := ← decOracle (← j.getObjVal? "oracle") }

def Case.env (c : Case) (premiumDefault : Int) : Env :=
  { orders := c.orders, accounts := c.accounts, ourNode := c.ourNode, version := c.version,
    minNoDust := c.minNoDust,
    -- the exact float model inside its domain; the oracle table only outside (negative amounts, results ≥ 2^63)
    premium := floatPremium (fun a r d => (c.oracle.premium.lookup (a, r, d)).getD premiumDefault),
    acctScript := fun k sv e => (c.oracle.acctScripts.lookup (k, sv, e)).getD none,
    fundScript := fun t a b => (c.oracle.fundScripts.lookup (t, a, b)).getD none }

def fmtPending : Option String → String
  | none => "-"
  | some s => s

/-- parse + validate one proposal -/
def runCase (c : Case) (pending : Option String) (premiumDefault : Int) : Option String × String :=
  let env := c.env premiumDefault
  match parseRPCBatch { c.msg with markets := reorderMarkets c.marketOrder c.msg.markets } with
  | .error e => (pending, s!"rej {e.kind} pending={fmtPending pending}")
  | .ok b =>
    let b := { b with matched := reorder c.visit b.matched }
    match orderMatchValidate env Rules.fixed b (UInt32.ofNat c.best) pending with
    | (.error e, p) => (p, s!"rej {e.kind} pending={fmtPending p}")
    | (.ok _, p) => (p, s!"ok pending={fmtPending p}")

def constsLine : String :=
  s!"pad={Pool.Gen.heightHintPadding} unit={Pool.Gen.Batch.baseSupplyUnit} p2wsh={Pool.Gen.Batch.p2wshOutputSize} " ++
  s!"input={Pool.Gen.Batch.inputSize} scale={Pool.Gen.Batch.witnessScaleFactor} tapwit={Pool.Gen.Batch.taprootMultiSigWitnessSize} " ++
  s!"wit={Pool.Gen.Batch.multiSigWitnessSize} latest={Pool.Gen.Batch.latestBatchVersion}"

abbrev DrvSt := Option String
def drvInit : DrvSt := none

def drvStep (s : DrvSt) (args : List String) : DrvSt × String :=
  match args with
  | ["reset"] => (none, "ok")
  | ["consts"] => (s, constsLine)
  | ["validate", js] =>
    match Json.parse js >>= decCase with
    | .error e => (s, "bad-op " ++ (e.replace " " "_").replace "\n" "_")
    | .ok c =>
      let r0 := runCase c s 0
      let r1 := runCase c s 1
      if r0.2 != r1.2 then (s, "oracle-miss") else r0
  | _ => (s, "bad-op")

end Pool.Batch
