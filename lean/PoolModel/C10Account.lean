import PoolModel.C10Tx
import PoolModel.C10Tlv
import PoolModel.Generated.StoreFacts
/-! C10 – `serializeAccount` / `deserializeAccount` (+`…TlvData`) of /repo/clientdb/account.go, and the
by-name field engine shared by the other serialisers.

**Tie (R).** The *order* of the fields is not written down here: `serializeAccount` walks the element list that
`astfacts` extracted from the `codec.WriteElements(…)` call of the Go function, `deserializeAccount` walks the
list of its `ReadElements(…)` call (`Pool.Gen.Store.elemCalls`). What each Go expression means (which field,
which element codec – fixed by the expression's static Go type) is the hand-written table `acctTbl`. TLV type
numbers, the version mask and the set of states without `LatestTx` are regenerated too. -/
namespace Pool.C10
open Pool.Gen

/-- result of a Go serialiser: bytes, returned error, or panic -/
inductive Ser where
  | ok (b : Bytes)
  | err
  | panic
  deriving Repr, DecidableEq

/-- the `i`-th `WriteElement(s)`/`ReadElement(s)` call of Go function `fn`: its ordered argument list -/
def elemList (fn : String) (i : Nat) : List String :=
  match Store.elemCalls.lookup fn with
  | some cs => match cs[i]? with
    | some (_, l) => l
    | none => []
  | none => []

/-- how one Go element expression is written from / read into a record `R` -/
structure FieldCodec (R : Type) where
  enc : R → Bytes
  dec : R → Dec R

/-- `codec.WriteElements(w, e₁, …, eₙ)` over a regenerated expression list; an expression the table does not
know contributes nothing (and the proofs' `all known` obligation fails) -/
def encFields (tbl : String → Option (FieldCodec R)) : List String → R → Bytes
  | [], _ => []
  | n :: ns, r => (match tbl n with
    | some c => c.enc r
    | none => []) ++ encFields tbl ns r

/-- `ReadElements(r, &e₁, …, &eₙ)` -/
def decFields (tbl : String → Option (FieldCodec R)) : List String → R → Dec R
  | [], r => pure r
  | n :: ns, r =>
    match tbl n with
    | some c => do
      let r' ← c.dec r
      decFields tbl ns r'
    | none => Dec.fail

def tlvType (n : String) : Nat := (Store.tlvTypes.lookup n).getD 0

/-- records a serialiser builds: the regenerated `(type constant, variable)` list of `fn` in source (= append)
order, each resolved through its type constant by `vars` (`none` = the Go code does not append this record
for this value) -/
def tlvRecsOf (fn : String) (vars : String → Option (RecKind × TlvVal)) : List TlvRec :=
  ((Store.tlvRecords.lookup fn).getD []).filterMap fun (t, _) =>
    (vars t).map fun (k, x) => ⟨tlvType t, k, x⟩

/-- the record set a deserialiser passes to `tlv.NewStream` -/
def tlvKnownOf (fn : String) (kinds : String → Option RecKind) : List (Nat × RecKind) :=
  ((Store.tlvRecords.lookup fn).getD []).filterMap fun (t, _) => (kinds t).map fun k => (tlvType t, k)

/-! ### account -/

structure Account where
  value : Nat
  expiry : Nat
  traderKey : KeyDesc
  auctioneerKey : Bytes
  batchKey : Bytes
  secret : Bytes
  state : Nat
  heightHint : Nat
  outPoint : OutPoint
  latestTx : Option Tx
  version : Nat
  deriving Repr, DecidableEq

def Account.empty : Account :=
  ⟨0, 0, ⟨⟨0, 0⟩, []⟩, [], [], [], 0, 0, ⟨[], 0⟩, none, 0⟩

def versionMask : Nat := Store.accountStateVersionedMask

/-- `rawState` of serializeAccount: `setVersionBit` when `a.Version > VersionInitialNoVersion` -/
def rawState (a : Account) : Nat := if a.version > 0 then a.state ||| versionMask else a.state

/-- `clearVersionBit` on a uint8 -/
def clearVersionBit (s : Nat) : Nat := s &&& (255 - versionMask)
/-- `isVersioned` -/
def isVersioned (s : Nat) : Bool := s &&& versionMask == versionMask

/-- meaning of the Go expressions in the account element lists. While decoding, `state` holds `rawState`
until `deserializeAccount` clears the version bit. -/
def acctTbl : String → Option (FieldCodec Account)
  | "a.Value" => some ⟨fun a => encU64 a.value, fun a => do let v ← readU64; pure { a with value := v }⟩
  | "a.Expiry" => some ⟨fun a => encU32 a.expiry, fun a => do let v ← readU32; pure { a with expiry := v }⟩
  | "a.TraderKey" => some ⟨fun a => encKeyDesc a.traderKey,
      fun a => do let v ← readKeyDesc; pure { a with traderKey := v }⟩
  | "a.AuctioneerKey" => some ⟨fun a => a.auctioneerKey,
      fun a => do let v ← readPubKey; pure { a with auctioneerKey := v }⟩
  | "a.BatchKey" => some ⟨fun a => a.batchKey, fun a => do let v ← readPubKey; pure { a with batchKey := v }⟩
  | "a.Secret" => some ⟨fun a => a.secret, fun a => do let v ← take 32; pure { a with secret := v }⟩
  | "uint8(rawState)" => some ⟨fun a => encU8 (rawState a), fun a => do let v ← readU8; pure { a with state := v }⟩
  | "rawState" => some ⟨fun a => encU8 (rawState a), fun a => do let v ← readU8; pure { a with state := v }⟩
  | "a.HeightHint" => some ⟨fun a => encU32 a.heightHint,
      fun a => do let v ← readU32; pure { a with heightHint := v }⟩
  | "a.OutPoint" => some ⟨fun a => encOutPoint a.outPoint,
      fun a => do let v ← readOutPoint; pure { a with outPoint := v }⟩
  | "a.LatestTx" => some ⟨fun a => match a.latestTx with
        | some t => encTx t
        | none => [],
      fun a => do let t ← readTx; pure { a with latestTx := some t }⟩
  | _ => none

/-- the `switch a.State` of serializeAccount: `true` = default branch (LatestTx is written) -/
def storesLatestTxSer (state : Nat) : Bool := !(Store.noLatestTx_serializeAccount.map (·.2)).contains state
def storesLatestTxDe (state : Nat) : Bool := !(Store.noLatestTx_deserializeAccount.map (·.2)).contains state

def acctTlvVars (a : Account) : String → Option (RecKind × TlvVal)
  | "accountVersionType" => some (.u8, .num (a.version % 256))     -- `version := uint8(a.Version)`
  | _ => none

def acctTlvKinds : String → Option RecKind
  | "accountVersionType" => some .u8
  | _ => none

/-- `serializeAccountTlvData`: the stream length as uint32, then the stream -/
def serializeAccountTlvData (a : Account) : Bytes :=
  let stream := encStream (tlvRecsOf "serializeAccountTlvData" (acctTlvVars a))
  encU32 stream.length ++ stream

/-- `serializeAccount` -/
def serializeAccount (a : Account) : Ser :=
  -- `lnwire.WriteOutPoint` refuses an index above 65535
  if !outPointWritable a.outPoint then .err
  else
    let base := encFields acctTbl (elemList "serializeAccount" 0) a
    if storesLatestTxSer a.state && a.latestTx.isNone then .panic       -- `(*wire.MsgTx)(nil).Serialize`
    else
      let tx := if storesLatestTxSer a.state then encFields acctTbl (elemList "serializeAccount" 1) a else []
      let tlv := if a.version > 0 then serializeAccountTlvData a else []
      .ok (base ++ tx ++ tlv)

/-- `deserializeAccountTlvData` -/
def deserializeAccountTlvData (a : Account) : Dec Account := do
  let streamLen ← readU32
  let streamBytes ← take streamLen
  fun rest =>
    match decodeStream (tlvKnownOf "deserializeAccountTlvData" acctTlvKinds) streamBytes with
    | .ok m _ =>
      match parsedNum m (tlvType "accountVersionType") with
      | some v => .ok { a with version := v } rest
      | none => .ok a rest
    | .err => .err
    | .panic => .panic

/-- `deserializeAccount` -/
def deserializeAccount : Dec Account := do
  let a ← decFields acctTbl (elemList "deserializeAccount" 0) Account.empty
  let raw := a.state
  let a := { a with state := clearVersionBit raw }
  let a ← (if storesLatestTxDe a.state then decFields acctTbl (elemList "deserializeAccount" 1) a else pure a)
  if isVersioned raw then deserializeAccountTlvData a else pure a

/-- `LatestTx` present (and well-formed) exactly when the state stores it -/
def latestTxWF : Option Tx → Bool → Prop
  | some t, stores => stores = true ∧ t.WF
  | none, stores => stores = false
instance decLatestTxWF : (o : Option Tx) → (b : Bool) → Decidable (latestTxWF o b)
  | some t, b => inferInstanceAs (Decidable (b = true ∧ t.WF))
  | none, b => inferInstanceAs (Decidable (b = false))

/-- Encodable domain of a stored account: field widths, valid keys, state one of the defined states, version a
uint8, the outpoint index within the two bytes the format keeps, and `LatestTx` present (and itself
well-formed) exactly when the state stores it. -/
def Account.WF (a : Account) : Prop :=
  WFu64 a.value ∧ WFu32 a.expiry ∧ a.traderKey.WF ∧
  validPubKey a.auctioneerKey = true ∧ validPubKey a.batchKey = true ∧ a.secret.length = 32 ∧
  a.state ∈ Store.accountStates.map (·.2) ∧ WFu32 a.heightHint ∧ a.outPoint.WF ∧ WFu8 a.version ∧
  latestTxWF a.latestTx (storesLatestTxSer a.state)
instance decAccountWF : Decidable (Account.WF a) := by
  unfold Account.WF
  infer_instance

end Pool.C10
