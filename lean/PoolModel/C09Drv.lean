import PoolModel.C09
import PoolModel.Util
/-! Line-protocol driver for the C09 model: `add <k> <h>` | `block <b>` | `reset`.
Output: the op's notifications as `k:h` sorted, comma separated, or `-` when there are none. -/
namespace Pool.C09
open Pool.Util

instance : Ord (Nat × Nat) := ⟨fun a b => (compare a.1 b.1).then (compare a.2 b.2)⟩

def fmtOut (out : List (Key × Nat)) : String :=
  if out.isEmpty then "-" else
  joinWith "," ((sortList (α := Nat × Nat) out).map fun (p : Nat × Nat) => s!"{p.1}:{p.2}")

abbrev DrvSt := St
def drvInit : DrvSt := init

def drvStep (s : St) (args : List String) : St × String :=
  match args with
  | ["reset"] => (init, "ok")
  | ["add", k, h] =>
    match k.toNat?, h.toNat? with
    | some k, some h => let r := step selUpTo s (.add k h); (r.1, fmtOut r.2)
    | _, _ => (s, "bad-op")
  | ["block", b] =>
    match b.toNat? with
    | some b => let r := step selUpTo s (.block b); (r.1, fmtOut r.2)
    | none => (s, "bad-op")
  | _ => (s, "bad-op")

end Pool.C09
