import PoolModel.Generated.C17Facts
/-!
Model of `/repo/channel_acceptor.go` (`ChannelAcceptor`): `ShimRegistered`, `ShimRemoved`, `acceptChannel`.

Go state                                        model
--------                                        -----
expectedChans map[[32]byte]*order.Bid           `Expected` = association list pid ↦ the fields of the bid the
                                                acceptor reads (nonce, SelfChanBalance, ChannelType,
                                                UnannouncedChannel, ZeroConfChannel); at most one entry per pid
                                                (insertion replaces), lookup = first match.

All three entry points hold `expectedChansMtx` for their whole body, so each call is one atomic step.

Integer conversions of the Go code that are modelled explicitly:
* `lnwire.MilliSatoshi(req.PushAmt).ToSatoshis()`: `req.PushAmt` is a `btcutil.Amount` (int64) that carries
  *milli*-satoshis; it is converted to `uint64` (two's complement wrap, `toU64`), divided by `mSatScale` = 1000
  (truncating) and converted back to `btcutil.Amount` (the quotient is < 2^63, no second wrap).
* `lnwire.FundingFlag(req.ChannelFlags)`: `uint32 → uint8` truncation (`% 256`) before testing bit 0.

Constants of lnd that the acceptor compares against (`lnwallet.CommitmentType*`, `lnwire.FFAnnounceChannel`,
`mSatScale`) are written here and cross-checked against the compiled values on every run (driver op `consts`).
The `order.ChannelType*` values come from the regenerated facts.
-/
namespace Pool.C17

abbrev Bytes := List UInt8

/-- the fields of `*order.Bid` that `ChannelAcceptor` reads -/
structure ExpBid where
  nonce : Bytes
  selfChanBalance : Int      -- btcutil.Amount (sat)
  channelType : Nat          -- order.ChannelType (uint8)
  unannounced : Bool
  zeroConf : Bool
deriving Repr, DecidableEq

abbrev Expected := List (Bytes × ExpBid)

def lookup (m : Expected) (pid : Bytes) : Option ExpBid :=
  match m with
  | [] => none
  | (p, b) :: rest => if p = pid then some b else lookup rest pid

/-- `ShimRegistered`: `s.expectedChans[pid] = bid` -/
def shimRegistered (m : Expected) (pid : Bytes) (bid : ExpBid) : Expected :=
  (pid, bid) :: m.filter (fun e => !(e.1 == pid))

/-- `ShimRemoved`: delete every entry whose bid has the given nonce -/
def shimRemoved (m : Expected) (nonce : Bytes) : Expected :=
  m.filter (fun e => !(e.2.nonce == nonce))

-- lnd constants (cross-checked with the compiled values by the `consts` op)
def lnwCommitScriptEnforcedLease : Nat := 3   -- lnwallet.CommitmentTypeScriptEnforcedLease
def lnwCommitSimpleTaproot : Nat := 4         -- lnwallet.CommitmentTypeSimpleTaproot
def ffAnnounceChannel : Nat := 1              -- lnwire.FFAnnounceChannel
def mSatScale : Nat := 1000                   -- lnwire.mSatScale

/-- int64 → uint64 conversion of Go -/
def toU64 (x : Int) : Nat := (x % (2 ^ 64 : Int)).toNat

/-- `lnwire.MilliSatoshi(amt).ToSatoshis()` -/
def msatToSat (pushAmt : Int) : Int := Int.ofNat (toU64 pushAmt / mSatScale)

structure AccReq where
  pid : Bytes
  pushAmt : Int               -- btcutil.Amount carrying msat
  commitType : Option Nat     -- *lnwallet.CommitmentType, `none` = nil
  channelFlags : Nat          -- uint32
  wantsZeroConf : Bool
deriving Repr, DecidableEq

inductive AccErr where
  | none | push | explicitNeg | leaseType | taprootType | internal | announce | zeroConf
deriving Repr, DecidableEq

structure AccResp where
  accept : Bool
  zeroConf : Bool := false
  minAcceptDepth : Nat := 0
  err : AccErr := .none
deriving Repr, DecidableEq

def reject (e : AccErr) : AccResp := { accept := false, err := e }

/-- `isPrivateChan := fundingFlags&lnwire.FFAnnounceChannel == 0` -/
def isPrivateChan (channelFlags : Nat) : Bool := ((channelFlags % 256) &&& ffAnnounceChannel) == 0

/-- the `switch expectedChanBid.ChannelType` block: `none` = falls through to the flag checks -/
def checkCommitType (channelType : Nat) (ct : Option Nat) : Option AccErr :=
  if channelType = Gen.C17.chanTypePeerDependent then none
  else if channelType = Gen.C17.chanTypeScriptEnforced then
    match ct with
    | Option.none => some .explicitNeg
    | some c => if c ≠ lnwCommitScriptEnforcedLease then some .leaseType else none
  else if channelType = Gen.C17.chanTypeSimpleTaproot then
    match ct with
    | Option.none => some .explicitNeg
    | some c => if c ≠ lnwCommitSimpleTaproot then some .taprootType else none
  else some .internal

/-- `ChannelAcceptor.acceptChannel` -/
def acceptChannel (m : Expected) (req : AccReq) : AccResp :=
  match lookup m req.pid with
  | Option.none => { accept := true }
  | some bid =>
    if bid.selfChanBalance ≠ msatToSat req.pushAmt then reject .push else
    match checkCommitType bid.channelType req.commitType with
    | some e => reject e
    | Option.none =>
      if isPrivateChan req.channelFlags ≠ bid.unannounced then reject .announce else
      if bid.zeroConf then
        if !req.wantsZeroConf then reject .zeroConf
        else { accept := true, minAcceptDepth := 0, zeroConf := true }
      else { accept := true }

/-- What lnd does with the response (lnd `funding/manager.go` `handleFundingOpen`): the flow is failed when the
acceptor rejects, and also when the opener's channel type carries the zero-conf bit (`WantsZeroConf`) but the
acceptor response does not set `ZeroConf` ("channel acceptor blocked zero-conf channel negotiation"). -/
def admitted (req : AccReq) (r : AccResp) : Bool := r.accept && (!req.wantsZeroConf || r.zeroConf)

/-! ### op histories of the registry -/
inductive RegOp where
  | reg (pid : Bytes) (bid : ExpBid)
  | rm (nonce : Bytes)
deriving Repr, DecidableEq

def regStep (m : Expected) : RegOp → Expected
  | .reg pid bid => shimRegistered m pid bid
  | .rm n => shimRemoved m n

def regRun (ops : List RegOp) : Expected := ops.foldl regStep []

end Pool.C17
