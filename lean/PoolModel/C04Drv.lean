import PoolModel.C04
import PoolModel.Util
/-! Line-protocol driver for the C04 model.

  int64 <n>                                   → hex of the script `AddInt64(n)` builds
  mknum <hex> <minimal 0|1> <maxlen>          → decoded number | error name
  wscript <expiry> <tk> <ak>                  → hex of accountWitnessScript | err
  tscript <expiry> <tkx>                      → hex of the taproot expiry leaf script | err
  classify <w>                                → `<isExpiry><isTaprootExpiry><isMultiSig><isTaprootMultiSig><hasAnnex> <path>`
  p2wsh <lockTime> <sequence> <program> <txtag> <w> <sigs>            → ok | error name, then the classification
  taproot <lockTime> <sequence> <program> <txtag> <w> <sigs> <commits> → idem
  wtype <version> <state> <expiry> <best>                     → `<witnessType> <isExpiry> <witnessSize>`
  stage <ext> <upg> <value> <expiry> <version> <endBal> <newExpiry> <newVersion> → staged record `<value> <expiry> <version> <batchKeyIncrements>`
  mgrwt <method> <version> <state> <expiry> <best>            → `<witnessType> <lockTime> <sequence>` | `<witnessType> err`
  mgrlock <version> <state> <expiry> <best> <isClose>         → `<lockTime> <sequence>` of the spend tx | err

`<w>` = witness elements in hex separated by `,` (`-` = empty element, `_` = empty witness).
`<sigs>` = recorded (ideal) signatures `sig:pk:ver:tx:code:ht` separated by `,` (`_` = none): the full witness
element, the key it verifies under, the sighash algorithm (0 = BIP143/v0, 1 = taproot key path, 2 = tapscript),
the tag of the transaction context that was signed (`<txtag>` = the one being verified), sha256 of the script code / leaf script that was
committed to (`-` for the key path) and the hash type that was signed.
`<commits>` = `controlblock:script` pairs known to be committed to by the output key. -/
namespace Pool.C04
open Pool.Util

structure SigRec where
  sig : Bytes
  pk : Bytes
  ver : Nat
  tx : String
  code : Bytes
  ht : Nat

def splitList (s : String) (sep : String) : List String :=
  if s == "_" then [] else s.splitOn sep

def unhexAll : List String → Option (List Bytes)
  | [] => some []
  | x :: xs => match unhex x, unhexAll xs with
    | some b, some bs => some (b :: bs)
    | _, _ => none

def parseWitness (s : String) : Option (List Bytes) := unhexAll (splitList s ",")

def parseSigs (s : String) : Option (List SigRec) :=
  (splitList s ",").foldr (fun e acc =>
    match acc, e.splitOn ":" with
    | some l, [sg, pk, ver, tx, code, ht] =>
      match unhex sg, unhex pk, ver.toNat?, unhex code, ht.toNat? with
      | some sg, some pk, some ver, some code, some ht => some (⟨sg, pk, ver, tx, code, ht⟩ :: l)
      | _, _, _, _, _ => none
    | _, _ => none) (some [])

def parseCommits (s : String) : Option (List (Bytes × Bytes)) :=
  (splitList s ",").foldr (fun e acc =>
    match acc, e.splitOn ":" with
    | some l, [cb, sc] =>
      match unhex cb, unhex sc with
      | some cb, some sc => some ((cb, sc) :: l)
      | _, _ => none
    | _, _ => none) (some [])

def lastByte (b : Bytes) : Nat := match b.getLast? with | some x => x.toNat | none => 0

/-- ideal verification: the signature element was recorded for exactly this key and this message -/
def tableSigOK (tbl : List SigRec) (ver : Nat) (tag : String) (code : Bytes) (pk sig : Bytes) : Bool :=
  let ht := if ver = 0 then lastByte sig else if sig.length = 64 then 0 else lastByte sig
  tbl.any fun r => r.sig == sig && r.pk == pk && r.ver == ver && r.tx == tag && r.code == code && r.ht == ht

def fmtVerdict (r : Except Err Unit) (w : List Bytes) : String :=
  (match r with | .ok _ => "ok" | .error e => e.name) ++ " " ++ (classify w).name

def b2s (b : Bool) : String := if b then "1" else "0"

abbrev DrvSt := Unit
def drvInit : DrvSt := ()

def drvStep (_ : DrvSt) (args : List String) : DrvSt × String :=
  ((), match args with
  | ["int64", n] =>
    match n.toNat? with
    | some n => let b := ({} : Builder).addInt64 n; if b.err then "err" else hex b.script
    | none => "bad-op"
  | ["mknum", h, m, l] =>
    match unhex h, m.toNat?, l.toNat? with
    | some v, some m, some l =>
      match makeScriptNum v (m == 1) l with
      | .ok n => toString n
      | .error e => e.name
    | _, _, _ => "bad-op"
  | ["wscript", e, tk, ak] =>
    match e.toNat?, unhex tk, unhex ak with
    | some e, some tk, some ak => let b := accountWitnessScriptB e tk ak; if b.err then "err" else hex b.script
    | _, _, _ => "bad-op"
  | ["tscript", e, tk] =>
    match e.toNat?, unhex tk with
    | some e, some tk => let b := taprootExpiryScriptB e tk; if b.err then "err" else hex b.script
    | _, _ => "bad-op"
  | ["classify", w] =>
    match parseWitness w with
    | some w => b2s (isExpirySpend w) ++ b2s (isTaprootExpirySpend w) ++ b2s (isMultiSigSpend w) ++
        b2s (isTaprootMultiSigSpend w) ++ b2s (hasAnnex w) ++ " " ++ (classify w).name
    | none => "bad-op"
  | ["p2wsh", lt, sq, prog, tag, w, sigs] =>
    match lt.toNat?, sq.toNat?, unhex prog, parseWitness w, parseSigs sigs with
    | some lt, some sq, some prog, some w, some tbl =>
      let code := match w.getLast? with | some s => Sha256.sha256 s | none => []
      let c : Ctx := { tapscript := false, lockTime := lt, sequence := sq, sigOK := tableSigOK tbl 0 tag code }
      fmtVerdict (verifyP2WSH c prog w) w
    | _, _, _, _, _ => "bad-op"
  | ["taproot", lt, sq, prog, tag, w, sigs, commits] =>
    match lt.toNat?, sq.toNat?, unhex prog, parseWitness w, parseSigs sigs, parseCommits commits with
    | some lt, some sq, some prog, some w, some tbl, some cm =>
      let w' := stripAnnex w
      let code := match w'.reverse with | _ :: s :: _ => Sha256.sha256 s | _ => []
      let c : Ctx := { tapscript := true, lockTime := lt, sequence := sq, sigOK := tableSigOK tbl 2 tag code }
      let env : TapEnv := {
        keySpendOK := fun p sg => tableSigOK tbl 1 tag [] p sg
        commitOK := fun cb _ sc => cm.any fun x => x.1 == cb && x.2 == sc }
      fmtVerdict (verifyTaproot c env prog w) w
    | _, _, _, _, _, _ => "bad-op"
  | ["wtype", v, st, e, best] =>
    match v.toNat?, st.toNat?, e.toNat?, best.toNat? with
    | some v, some st, some e, some best =>
      let wt := determineWitnessType v st e best
      wt.name ++ " " ++ b2s (wtypeIsExpiry wt) ++ " " ++ toString (wtypeWitnessSize wt)
    | _, _, _, _ => "bad-op"
  | ["stage", ext, upg, value, e, v, endBal, ne, nv] =>
    match ext.toNat?, upg.toNat?, value.toNat?, e.toNat?, v.toNat?, endBal.toNat?, ne.toNat?, nv.toNat? with
    | some ext, some upg, some value, some e, some v, some endBal, some ne, some nv =>
      match storedAfterBatch ⟨ext == 1, upg == 1, endBal, ne, nv⟩ ⟨value, e, v, 0⟩ with
      | some a => s!"{a.value} {a.expiry} {a.version} {a.batchInc}"
      | none => "none"
    | _, _, _, _, _, _, _, _ => "bad-op"
  | ["mgrwt", method, v, st, e, best] =>
    match v.toNat?, st.toNat?, e.toNat?, best.toNat? with
    | some v, some st, some e, some best =>
      match managerWitnessType method v st e best with
      | some wt =>
        let isClose := method == "CloseAccount"
        (match spendLockTime wt isClose best, createSpendTxSequence with
          | some l, some sq => wt.name ++ " " ++ toString l ++ " " ++ toString sq
          | _, _ => wt.name ++ " err")
      | none => "unknown-method"
    | _, _, _, _ => "bad-op"
  | ["mgrlock", v, st, e, best, cl] =>
    match v.toNat?, st.toNat?, e.toNat?, best.toNat?, cl.toNat? with
    | some v, some st, some e, some best, some cl =>
      let wt := determineWitnessType v st e best
      match spendLockTime wt (cl == 1) best, createSpendTxSequence with
      | some l, some sq => toString l ++ " " ++ toString sq
      | _, _ => "err"
    | _, _, _, _, _ => "bad-op"
  | _ => "bad-op")

end Pool.C04
