import PoolModel.C10Codec
/-! C10 – lnd `tlv` v1.3.0: BigSize var-ints (`tlv.WriteVarInt` / `tlv.ReadVarInt`, canonical), primitive
records (`MakePrimitiveRecord` for `*uint8`, `*uint64`, `*[]byte`), `Stream.Encode` and
`Stream.DecodeWithParsedTypes` (strictly increasing types, unknown types skipped and remembered).

Panic sites modelled: `DVarBytes` does `make([]byte, l)` and the unknown-type branch does
`make([]byte, 0, length)` with an attacker-chosen `uint64`; the Go runtime panics ("makeslice: len/cap out of
range") when that exceeds `maxAlloc` = 2^48 bytes (linux/amd64). Below that bound Go attempts the allocation
(possibly dying of memory exhaustion, which is not a panic and not modelled). -/
namespace Pool.C10

def encBigSize (v : Nat) : Bytes :=
  if v < 0xfd then [UInt8.ofNat v]
  else if v ≤ 0xffff then 0xfd :: beEnc 2 v
  else if v ≤ 0xffffffff then 0xfe :: beEnc 4 v
  else 0xff :: beEnc 8 v

def readBigSize : Dec Nat := do
  let d ← readBE 1
  if d < 0xfd then pure d
  else if d = 0xfd then
    let v ← readBE 2
    if v < 0xfd then Dec.fail else pure v
  else if d = 0xfe then
    let v ← readBE 4
    if v ≤ 0xffff then Dec.fail else pure v
  else
    let v ← readBE 8
    if v ≤ 0xffffffff then Dec.fail else pure v

/-- kinds of primitive record used by clientdb -/
inductive RecKind where
  | u8 | u64 | bytes
  deriving Repr, DecidableEq

inductive TlvVal where
  | num (n : Nat)
  | bytes (b : Bytes)
  deriving Repr, DecidableEq

/-- a record to encode: type number, kind, value -/
structure TlvRec where
  typ : Nat
  kind : RecKind
  val : TlvVal
  deriving Repr, DecidableEq

/-- the record's encoder output (`EUint8`, `EUint64`, `EVarBytes`) -/
def TlvRec.payload (r : TlvRec) : Bytes :=
  match r.kind, r.val with
  | .u8, .num n => encU8 n
  | .u64, .num n => encU64 n
  | .bytes, .bytes b => b
  | _, _ => []          -- ill-kinded; excluded by `TlvRec.WF`

/-- kind and value agree and the number fits -/
def TlvRec.WF (r : TlvRec) : Prop :=
  WFu64 r.typ ∧
  match r.kind, r.val with
  | .u8, .num n => WFu8 n
  | .u64, .num n => WFu64 n
  | .bytes, .bytes b => b.length < 2 ^ 48
  | _, _ => False
instance decTlvRecWF : (r : TlvRec) → Decidable r.WF
  | ⟨t, .u8, .num n⟩ => inferInstanceAs (Decidable (WFu64 t ∧ WFu8 n))
  | ⟨t, .u64, .num n⟩ => inferInstanceAs (Decidable (WFu64 t ∧ WFu64 n))
  | ⟨t, .bytes, .bytes b⟩ => inferInstanceAs (Decidable (WFu64 t ∧ b.length < 2 ^ 48))
  | ⟨t, .u8, .bytes _⟩ => inferInstanceAs (Decidable (WFu64 t ∧ False))
  | ⟨t, .u64, .bytes _⟩ => inferInstanceAs (Decidable (WFu64 t ∧ False))
  | ⟨t, .bytes, .num _⟩ => inferInstanceAs (Decidable (WFu64 t ∧ False))

/-- `Stream.Encode`: type, length (`rec.Size()`), payload per record -/
def encRecord (r : TlvRec) : Bytes := encBigSize r.typ ++ encBigSize r.payload.length ++ r.payload
def encStream (rs : List TlvRec) : Bytes := (rs.map encRecord).flatten

def maxAlloc : Nat := 2 ^ 48

/-- the record decoder invoked with the declared length (`DUint8`, `DUint64`, `DVarBytes`) -/
def readRecVal (k : RecKind) (len : Nat) : Dec TlvVal :=
  match k with
  | .u8 => if len = 1 then do let v ← readU8; pure (.num v) else Dec.fail
  | .u64 => if len = 8 then do let v ← readU64; pure (.num v) else Dec.fail
  | .bytes => if len > maxAlloc then Dec.panic else do let b ← take len; pure (.bytes b)

/-- `Stream.decode(r, parsedTypes, p2p=false)`. `known` = the stream's records (type ↦ kind); the index scan
of `getRecord` equals a lookup because both the stream's types and `known` are strictly increasing (the latter
is what `tlv.NewStream` enforces, and is checked over the regenerated type numbers). Result: the parsed-type
map as an association list in stream order, `some v` for a known type (Go: `parsedTypes[t] == nil`, value
stored through the record's pointer), `none` for an unknown one. `min` = smallest admissible next type
(`typ+1`, so the uint64 overflow flag is the case `min = 2^64`). -/
def decodeStreamAux (known : List (Nat × RecKind)) : Nat → Nat → Bytes → Res (List (Nat × Option TlvVal))
  | 0, _, _ => .err
  | fuel + 1, min, s =>
    if s.isEmpty then .ok [] []                     -- io.EOF before a type: clean end of stream
    else
      (do
        let typ ← readBigSize
        if typ < min then Dec.fail                    -- ErrStreamNotCanonical
        else
          let len ← readBigSize
          match known.lookup typ with
          | some k =>
            let v ← readRecVal k len
            fun r => match decodeStreamAux known fuel (typ + 1) r with
              | .ok m rest => .ok ((typ, some v) :: m) rest
              | .err => .err
              | .panic => .panic
          | none =>
            if len > maxAlloc then Dec.panic
            else
              let _ ← take len
              fun r => match decodeStreamAux known fuel (typ + 1) r with
                | .ok m rest => .ok ((typ, none) :: m) rest
                | .err => .err
                | .panic => .panic : Dec _) s

def decodeStream (known : List (Nat × RecKind)) (s : Bytes) : Res (List (Nat × Option TlvVal)) :=
  decodeStreamAux known (s.length + 1) 0 s

/-- `t, ok := parsedTypes[T]; ok && t == nil` → the decoded value -/
def parsedNum (m : List (Nat × Option TlvVal)) (t : Nat) : Option Nat :=
  match m.lookup t with
  | some (some (.num n)) => some n
  | _ => none

def parsedBytes (m : List (Nat × Option TlvVal)) (t : Nat) : Option Bytes :=
  match m.lookup t with
  | some (some (.bytes b)) => some b
  | _ => none

end Pool.C10
