import PoolModel.C10Codec
/-! C10 – `wire.MsgTx.Serialize` / `Deserialize` (btcd `wire/msgtx.go`, `wire/common.go`), the form
`codec.WriteElement(*wire.MsgTx)` / `clientdb.ReadElement(**wire.MsgTx)` use (witness encoding, pver 0).

Modelled completely (not as an opaque blob): little-endian fields, canonical Bitcoin var-ints, the segwit
marker/flag, per-input witness stacks, the decoder's limits (`maxTxInPerMessage`, `maxTxOutPerMessage`,
`maxWitnessItemsPerInput`, `maxWitnessItemSize`) and its **panic site**: every script is read into the
remaining part of one 4 MiB `scriptSlab` (`s[:count]`, then `sbuf = sbuf[len:]`), so a transaction whose scripts
total more than 2^22 bytes panics with "slice bounds out of range". -/
namespace Pool.C10

structure TxIn where
  prevHash : Bytes
  prevIndex : Nat
  sigScript : Bytes
  sequence : Nat
  witness : List Bytes
  deriving Repr, DecidableEq

structure TxOut where
  value : Nat          -- uint64(int64 value)
  pkScript : Bytes
  deriving Repr, DecidableEq

structure Tx where
  version : Nat        -- uint32(int32 version)
  ins : List TxIn
  outs : List TxOut
  lockTime : Nat
  deriving Repr, DecidableEq

/-! ### Bitcoin var-int (`wire.WriteVarIntBuf` / `wire.ReadVarIntBuf`) -/

def encVarInt (v : Nat) : Bytes :=
  if v < 0xfd then [UInt8.ofNat v]
  else if v ≤ 0xffff then 0xfd :: leEnc 2 v
  else if v ≤ 0xffffffff then 0xfe :: leEnc 4 v
  else 0xff :: leEnc 8 v

def readVarInt : Dec Nat := do
  let d ← readLE 1
  if d = 0xff then
    let v ← readLE 8
    if v < 0x100000000 then Dec.fail else pure v
  else if d = 0xfe then
    let v ← readLE 4
    if v < 0x10000 then Dec.fail else pure v
  else if d = 0xfd then
    let v ← readLE 2
    if v < 0xfd then Dec.fail else pure v
  else pure d

def scriptSlabSize : Nat := 2 ^ 22
def maxWitnessItemSize : Nat := 4000000
def maxWitnessItemsPerInput : Nat := 4000000
/-- `MaxMessagePayload / minTxInPayload + 1`, `MaxMessagePayload = 32 MiB`, `minTxInPayload = 41` -/
def maxTxInPerMessage : Nat := 32 * 1024 * 1024 / 41 + 1
def maxTxOutPerMessage : Nat := 32 * 1024 * 1024 / 9 + 1

/-- `WriteVarBytesBuf` -/
def encVarBytes (b : Bytes) : Bytes := encVarInt b.length ++ b

/-- `readScriptBuf(r, pver, buf, s, …)` where `slab = len(s)`: returns the script and the remaining slab. -/
def readScript (slab : Nat) : Dec (Bytes × Nat) := do
  let count ← readVarInt
  if count > maxWitnessItemSize then Dec.fail
  else if count > slab then Dec.panic          -- s[:count] beyond cap(s)
  else
    let b ← take count
    pure (b, slab - count)

/-- run `d` `n` times threading a state (the `for i := 0; i < count; i++` loops) -/
def repeatDec (d : σ → Dec (α × σ)) : Nat → σ → Dec (List α × σ)
  | 0, s => pure ([], s)
  | n + 1, s => do
    let (a, s') ← d s
    let (as, s'') ← repeatDec d n s'
    pure (a :: as, s'')

def encTxIn (ti : TxIn) : Bytes :=
  ti.prevHash ++ leEnc 4 ti.prevIndex ++ encVarBytes ti.sigScript ++ leEnc 4 ti.sequence

/-- `readTxInBuf` (witness filled in later) -/
def readTxIn (slab : Nat) : Dec (TxIn × Nat) := do
  let h ← take 32
  let i ← readLE 4
  let (s, slab') ← readScript slab
  let q ← readLE 4
  pure (⟨h, i, s, q, []⟩, slab')

def encTxOut (to : TxOut) : Bytes := leEnc 8 to.value ++ encVarBytes to.pkScript

def readTxOut (slab : Nat) : Dec (TxOut × Nat) := do
  let v ← readLE 8
  let (s, slab') ← readScript slab
  pure (⟨v, s⟩, slab')

/-- `writeTxWitnessBuf` -/
def encWitness (w : List Bytes) : Bytes := encVarInt w.length ++ (w.map encVarBytes).flatten

def readWitness (slab : Nat) : Dec (List Bytes × Nat) := do
  let n ← readVarInt
  if n > maxWitnessItemsPerInput then Dec.fail
  else repeatDec readScript n slab

/-- the `for _, txin := range msg.TxIn` witness loop -/
def readWitnesses : List TxIn → Nat → Dec (List TxIn × Nat)
  | [], slab => pure ([], slab)
  | ti :: tis, slab => do
    let (w, slab') ← readWitness slab
    let (rest, slab'') ← readWitnesses tis slab'
    pure ({ ti with witness := w } :: rest, slab'')

/-- `MsgTx.HasWitness` -/
def Tx.hasWitness (t : Tx) : Bool := t.ins.any fun ti => !ti.witness.isEmpty

/-- `MsgTx.Serialize` = `BtcEncode(w, 0, WitnessEncoding)` -/
def encTx (t : Tx) : Bytes :=
  leEnc 4 t.version ++
  (if t.hasWitness then [0x00, 0x01] else []) ++
  encVarInt t.ins.length ++ (t.ins.map encTxIn).flatten ++
  encVarInt t.outs.length ++ (t.outs.map encTxOut).flatten ++
  (if t.hasWitness then (t.ins.map fun ti => encWitness ti.witness).flatten else []) ++
  leEnc 4 t.lockTime

/-- `MsgTx.Deserialize` = `btcDecode(r, 0, WitnessEncoding, …)` -/
def readTx : Dec Tx := do
  let version ← readLE 4
  let count0 ← readVarInt
  -- `if count == TxFlagMarker && enc == WitnessEncoding`
  let (flag, count) ← (if count0 = 0 then do
      let f ← readLE 1
      if f ≠ 1 then Dec.fail
      else
        let c ← readVarInt
        pure (f, c)
    else pure (0, count0) : Dec (Nat × Nat))
  if count > maxTxInPerMessage then Dec.fail
  else
    let (ins, slab) ← repeatDec readTxIn count scriptSlabSize
    let nOut ← readVarInt
    if nOut > maxTxOutPerMessage then Dec.fail
    else
      let (outs, slab) ← repeatDec readTxOut nOut slab
      let ins ← (if flag ≠ 0 then do
          let (ins', _) ← readWitnesses ins slab
          -- `if !msg.HasWitness() { return errSuperfluousWitnessRecord }`
          if ins'.any (fun ti => !ti.witness.isEmpty) then pure ins' else Dec.fail
        else pure ins : Dec (List TxIn))
      let lockTime ← readLE 4
      pure ⟨version, ins, outs, lockTime⟩

/-! ### well-formedness -/

def TxIn.scriptBytes (ti : TxIn) : Nat := ti.sigScript.length + (ti.witness.map List.length).sum
def Tx.scriptBytes (t : Tx) : Nat :=
  (t.ins.map TxIn.scriptBytes).sum + (t.outs.map fun o => o.pkScript.length).sum

def TxIn.WF (ti : TxIn) : Prop :=
  ti.prevHash.length = 32 ∧ WFu32 ti.prevIndex ∧ WFu32 ti.sequence ∧
  ti.sigScript.length ≤ maxWitnessItemSize ∧ ti.witness.length ≤ maxWitnessItemsPerInput ∧
  ∀ w ∈ ti.witness, w.length ≤ maxWitnessItemSize
instance decTxInWF : Decidable (TxIn.WF ti) := by unfold TxIn.WF; infer_instance

def TxOut.WF (to : TxOut) : Prop := WFu64 to.value ∧ to.pkScript.length ≤ maxWitnessItemSize
instance decTxOutWF : Decidable (TxOut.WF to) := by unfold TxOut.WF; infer_instance

/-- Encodable domain of a stored transaction: field widths, **at least one input** (a transaction without
inputs serialises to `version 00 …`, which the decoder reads as the segwit marker – the well-known ambiguity
of the Bitcoin format), btcd's decoder limits, and scripts totalling at most the 4 MiB slab. -/
def Tx.WF (t : Tx) : Prop :=
  WFu32 t.version ∧ WFu32 t.lockTime ∧ t.ins ≠ [] ∧
  t.ins.length ≤ maxTxInPerMessage ∧ t.outs.length ≤ maxTxOutPerMessage ∧
  (∀ ti ∈ t.ins, ti.WF) ∧ (∀ to ∈ t.outs, to.WF) ∧ t.scriptBytes ≤ scriptSlabSize
instance decTxWF : Decidable (Tx.WF t) := by unfold Tx.WF; infer_instance

end Pool.C10
