/-! C10 – byte-level element codecs of the trader database (core Lean only).

Mirrors `codec.WriteElement` (/repo/codec/codec.go), `clientdb.ReadElement` (/repo/clientdb/codec.go) and the
`lnwire.Write*` / `lnwire.ReadElement` cases they delegate to. Conventions:

* a byte string is `List UInt8`; a reader (`io.Reader` positioned somewhere) is the list of remaining bytes;
* every Go integer is a `Nat` holding the *unsigned bit pattern* of the Go value (`btcutil.Amount`/`int64`
  are stored as `uint64(x)`, exactly the cast the Go writers perform); the range is part of `WF`;
* fixed-size arrays (`[32]byte`, `[33]byte`, nonces, hashes) are byte lists whose length is part of `WF`;
* a `*btcec.PublicKey` is identified with its 33-byte compressed serialisation (a bijection on valid points);
  `lnwire.ReadElement(**btcec.PublicKey)` = read 33 bytes + `btcec.ParsePubKey` = `validPubKey`;
* a decoder returns `Res`: `ok value rest`, `err` (Go returns an error) or `panic` (Go panics). -/
namespace Pool.C10

abbrev Bytes := List UInt8

inductive Res (α : Type) where
  | ok (a : α) (rest : Bytes)
  | err
  | panic
  deriving Repr, DecidableEq

abbrev Dec (α : Type) := Bytes → Res α

@[inline] def Dec.pure (a : α) : Dec α := fun s => .ok a s
@[inline] def Dec.bind (d : Dec α) (f : α → Dec β) : Dec β := fun s =>
  match d s with
  | .ok a r => f a r
  | .err => .err
  | .panic => .panic

instance : Monad Dec where
  pure := Dec.pure
  bind := Dec.bind

def Dec.fail : Dec α := fun _ => .err
def Dec.panic : Dec α := fun _ => .panic

/-- `io.ReadFull(r, buf[:n])` -/
def take (n : Nat) : Dec Bytes := fun s =>
  if n ≤ s.length then .ok (s.take n) (s.drop n) else .err

/-! ### fixed-width integers -/

/-- little-endian bytes of `v`, `n` bytes wide (truncating, like Go's `PutUintN(uintN(v))`) -/
def leEnc : Nat → Nat → Bytes
  | 0, _ => []
  | n + 1, v => UInt8.ofNat (v % 256) :: leEnc n (v / 256)

def leDec : Bytes → Nat
  | [] => 0
  | b :: bs => b.toNat + 256 * leDec bs

/-- big-endian (`binary.BigEndian`, the `byteOrder` of codec.go / lnwire) -/
def beEnc (n v : Nat) : Bytes := (leEnc n v).reverse
def beDec (b : Bytes) : Nat := leDec b.reverse

def readBE (n : Nat) : Dec Nat := do let b ← take n; pure (beDec b)
def readLE (n : Nat) : Dec Nat := do let b ← take n; pure (leDec b)

/-- `lnwire.WriteUint8/16/32/64`, `binary.Write(w, byteOrder, uint32)` -/
def encU8 (v : Nat) : Bytes := beEnc 1 v
def encU16 (v : Nat) : Bytes := beEnc 2 v
def encU32 (v : Nat) : Bytes := beEnc 4 v
def encU64 (v : Nat) : Bytes := beEnc 8 v
def readU8 : Dec Nat := readBE 1
def readU16 : Dec Nat := readBE 2
def readU32 : Dec Nat := readBE 4
def readU64 : Dec Nat := readBE 8

/-- `lnwire.WriteBool` / `lnwire.ReadElement(*bool)`: only the byte 1 sets `true` (target starts `false`). -/
def encBool (b : Bool) : Bytes := [if b then 1 else 0]
def readBool : Dec Bool := do let v ← readU8; pure (v == 1)

/-! ### public keys (`btcec.ParsePubKey` on 33 bytes) -/

def secpP : Nat := 2 ^ 256 - 2 ^ 32 - 977

/-- modular exponentiation by squaring, structurally recursive on a bit budget -/
def powMod (m : Nat) : Nat → Nat → Nat → Nat
  | 0, _, _ => 1 % m
  | fuel + 1, b, e =>
    if e = 0 then 1 % m
    else
      let h := powMod m fuel (b * b % m) (e / 2)
      if e % 2 = 1 then b * h % m else h

/-- compressed secp256k1 key accepted by `btcec.ParsePubKey`: format byte 02/03, x < p, x³+7 a square -/
def validPubKey (b : Bytes) : Bool :=
  match b with
  | f :: xs =>
    b.length == 33 && (f == 2 || f == 3) &&
      (let x := beDec xs
       x < secpP &&
        (let c := (x * x % secpP * x + 7) % secpP
         let y := powMod secpP 256 c ((secpP + 1) / 4)
         y * y % secpP == c))
  | [] => false

/-- `lnwire.ReadElement(**btcec.PublicKey)` -/
def readPubKey : Dec Bytes := do
  let b ← take 33
  if validPubKey b then pure b else Dec.fail

/-! ### key locator / descriptor, outpoint -/

structure KeyLoc where
  family : Nat
  index : Nat
  deriving Repr, DecidableEq

/-- `case keychain.KeyLocator:` two `binary.Write` of uint32 -/
def encKeyLoc (k : KeyLoc) : Bytes := encU32 k.family ++ encU32 k.index
def readKeyLoc : Dec KeyLoc := do
  let f ← readU32
  let i ← readU32
  pure ⟨f, i⟩

/-- `*keychain.KeyDescriptor` = locator then public key -/
structure KeyDesc where
  loc : KeyLoc
  pub : Bytes
  deriving Repr, DecidableEq

def encKeyDesc (k : KeyDesc) : Bytes := encKeyLoc k.loc ++ k.pub
def readKeyDesc : Dec KeyDesc := do
  let l ← readKeyLoc
  let p ← readPubKey
  pure ⟨l, p⟩

structure OutPoint where
  hash : Bytes
  index : Nat
  deriving Repr, DecidableEq

/-- `lnwire.WriteOutPoint`: hash then index as uint16; the *writer fails* when index > 65535 (see
`outPointWritable`) -/
def encOutPoint (o : OutPoint) : Bytes := o.hash ++ encU16 o.index
def outPointWritable (o : OutPoint) : Bool := o.index ≤ 65535
def readOutPoint : Dec OutPoint := do
  let h ← take 32
  let i ← readU16
  pure ⟨h, i⟩

/-! ### well-formedness of the element values -/

def WFu8 (v : Nat) : Prop := v < 2 ^ 8
def WFu16 (v : Nat) : Prop := v < 2 ^ 16
def WFu32 (v : Nat) : Prop := v < 2 ^ 32
def WFu64 (v : Nat) : Prop := v < 2 ^ 64

instance decWFu8 : Decidable (WFu8 v) := by unfold WFu8; infer_instance
instance decWFu16 : Decidable (WFu16 v) := by unfold WFu16; infer_instance
instance decWFu32 : Decidable (WFu32 v) := by unfold WFu32; infer_instance
instance decWFu64 : Decidable (WFu64 v) := by unfold WFu64; infer_instance

def KeyLoc.WF (k : KeyLoc) : Prop := WFu32 k.family ∧ WFu32 k.index
instance decKeyLocWF : Decidable (KeyLoc.WF k) := by unfold KeyLoc.WF; infer_instance

def KeyDesc.WF (k : KeyDesc) : Prop := k.loc.WF ∧ validPubKey k.pub = true
instance decKeyDescWF : Decidable (KeyDesc.WF k) := by unfold KeyDesc.WF; infer_instance

def OutPoint.WF (o : OutPoint) : Prop := o.hash.length = 32 ∧ WFu16 o.index
instance decOutPointWF : Decidable (OutPoint.WF o) := by unfold OutPoint.WF; infer_instance

end Pool.C10
