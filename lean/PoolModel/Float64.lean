import PoolModel.Generated.ReserveFacts
/-! # Exact IEEE-754 binary64 arithmetic on non-negative values (core Lean only, computable)

Shared model of Go's `float64` as far as `order.FixedRatePremium.LumpSumPremium` needs it
(`/repo/order/tradingfees.go`):

    premiumPerBlock := float64(amt) * float64(fixedRate) / FeeRateTotalParts      -- PerBlockPremium
    return btcutil.Amount(premiumPerBlock * float64(durationBlocks))              -- LumpSumPremium

i.e. four correctly rounded operations (int→float conversion, `*`, `/`, `*`; evaluated left to right, Go on
amd64 does not fuse them) followed by a truncating float→int conversion.

A finite non-negative binary64 value is represented as `m · 2^e` (`F`).  `rnd n d` is round-to-nearest,
ties-to-even, of the positive rational `n/d` to 53 significant bits.

**Domain guard (normal range only):** the result of `rnd` is the IEEE value only when it is a *normal* number,
i.e. `F.normal (rnd n d)` (`-1074 ≤ e ≤ 971`); subnormals, overflow to infinity, NaN and negative values are not
modelled.  `premium amt rate dur` equals the Go value for `amt < 2^63` whenever the final float is `< 2^63`
(`premiumInRange`); beyond that Go's float→int conversion is implementation specific and nothing is claimed.
All intermediates of `premium` are ≥ 10⁻⁹ and < 2^128 (or zero), far inside the normal range. -/
namespace Pool.Float64

/-- a finite non-negative binary floating point value `m · 2^e` (`m = 0` for zero). -/
structure F where
  m : Nat
  e : Int
deriving Repr, DecidableEq, Inhabited

/-- numerator of the value as a fraction -/
def F.num (x : F) : Nat := if 0 ≤ x.e then x.m * 2 ^ x.e.toNat else x.m
/-- denominator of the value as a fraction -/
def F.den (x : F) : Nat := if 0 ≤ x.e then 1 else 2 ^ (-x.e).toNat

/-- numerator of `(n/d) / 2^e` -/
def scaleNum (n : Nat) (e : Int) : Nat := if 0 ≤ e then n else n * 2 ^ (-e).toNat
/-- denominator of `(n/d) / 2^e` -/
def scaleDen (d : Nat) (e : Int) : Nat := if 0 ≤ e then d * 2 ^ e.toNat else d

/-- first guess of the exponent: with it `(n/d)/2^e ∈ (2^51, 2^53)` -/
def expGuess (n d : Nat) : Int := (Nat.log2 n : Int) - (Nat.log2 d : Int) - 52

/-- the exponent `e` with `2^52 ≤ (n/d)/2^e < 2^53` -/
def expOf (n d : Nat) : Int :=
  let e0 := expGuess n d
  if scaleNum n e0 < 2 ^ 52 * scaleDen d e0 then e0 - 1 else e0

/-- round `N/D` to the nearest integer, ties to even -/
def roundNE (N D : Nat) : Nat :=
  let q := N / D
  let r := N % D
  if D < 2 * r ∨ (2 * r = D ∧ q % 2 = 1) then q + 1 else q

/-- round-to-nearest-even of the rational `n/d` (`d > 0`) to binary64 precision (53 bits). -/
def rnd (n d : Nat) : F :=
  if n = 0 then ⟨0, 0⟩ else
  let e := expOf n d
  ⟨roundNE (scaleNum n e) (scaleDen d e), e⟩

/-- the value is a normal binary64 number (or zero): the domain guard of the model -/
def F.normal (x : F) : Bool := x.m == 0 || (decide (-1074 ≤ x.e) && decide (x.e ≤ 971))

/-- `float64(a)` for a non-negative integer -/
def ofNat (a : Nat) : F := rnd a 1

/-- IEEE `x * y` -/
def mul (x y : F) : F :=
  let e := x.e + y.e
  let p := x.m * y.m
  if 0 ≤ e then rnd (p * 2 ^ e.toNat) 1 else rnd p (2 ^ (-e).toNat)

/-- IEEE `x / float64(k)` for an integer `k` that is exactly representable -/
def divNat (x : F) (k : Nat) : F := rnd x.num (x.den * k)

/-- truncating conversion to an integer (`int64(x)` inside its range) -/
def floor (x : F) : Nat := x.num / x.den

/-- the float64 value `float64(amt) * float64(rate) / FeeRateTotalParts * float64(dur)` -/
def premiumF (amt rate dur : Nat) : F :=
  let perBlock := divNat (mul (ofNat amt) (ofNat rate)) Pool.Gen.Reserve.feeRateTotalParts
  mul perBlock (ofNat dur)

/-- `FixedRatePremium(rate).LumpSumPremium(amt, dur)` -/
def premium (amt rate dur : Nat) : Nat := floor (premiumF amt rate dur)

/-- the guard under which `premium` is Go's value: arguments in their Go types' non-negative range and the
    float result below 2^63 (so that `int64(·)` is defined). -/
def premiumInRange (amt rate dur : Nat) : Bool :=
  decide (amt < 2 ^ 63) && decide (rate < 2 ^ 32) && decide (dur < 2 ^ 32) &&
    decide (floor (premiumF amt rate dur) < 2 ^ 63)

/-- `LumpSumPremium` for an arbitrary `int64` amount, as an integer, for models that carry amounts as `Int`
    (e.g. the batch model's `Env.premium : Int → Nat → Nat → Int`).
    * negative amounts: IEEE arithmetic is sign-symmetric and Go's conversion truncates toward zero, so the value is
      `-(premium |amt| rate dur)`;
    * results outside `[-2^63, 2^63)`: Go leaves the conversion implementation-defined; on amd64 (`CVTTSD2SQ`) the
      result is the "integer indefinite" value `-2^63`. That choice is modelled here and compared with the Go build
      of the harness (`C11 premi` lines); nothing is *proved* about it. -/
def premiumInt (amt : Int) (rate dur : Nat) : Int :=
  let p : Int := premium amt.natAbs rate dur
  let v : Int := if amt < 0 then -p else p
  if v < -(2 ^ 63) ∨ 2 ^ 63 ≤ v then -(2 ^ 63) else v

/-- the guard under which `premiumInt` is specified by the Go language (not only by the amd64 back end) -/
def premiumIntInRange (amt : Int) (rate dur : Nat) : Bool :=
  decide (-(2 ^ 63) ≤ amt) && decide (amt < 2 ^ 63) && decide (rate < 2 ^ 32) && decide (dur < 2 ^ 32) &&
    decide ((premium amt.natAbs rate dur : Int) < 2 ^ 63)

end Pool.Float64
