import PoolModel.C20
import PoolModel.C08Drv
/-! Driver for C20: `map <srv>` (state mapping), `sweep <answers u|r|f…>`, and
`recover <srv> <version> <knows 0|1> <txInLatest 0|1>`: recovery of one account (value 500000, expiry 5000,
batch key counter 2, funding/latest tx id 1, output index 1) into an empty store. -/
namespace Pool.C20
open Pool.C08 Pool.Util

abbrev DrvSt := Unit
def drvInit : DrvSt := ()

def ans? : Char → Option Ans
  | 'u' => some .unknown | 'r' => some .reservation | 'f' => some .full | _ => none

def drvStep (_ : Unit) (args : List String) : Unit × String :=
  match args with
  | ["map", srv] =>
    match srv.toNat? with
    | some n => ((), toString (recoverState n).toNat)
    | none => ((), "bad-op")
  | ["sweep", l] =>
    match l.toList.mapM ans? with
    | some as =>
      let r := sweep 0 0 as
      ((), s!"{requests 0 as} " ++ (if r.isEmpty then "-" else joinWith "," (r.map fun p => s!"{p.1}{if p.2 then "r" else "f"}")))
    | none => ((), "bad-op")
  | ["advance", c, m] =>
    match c.toNat?, m.toNat? with
    | some c, some m => ((), toString (advance c m))
    | _, _ => ((), "bad-op")
  | "rpc" :: toks =>
    -- rpcServer.RecoverAccounts: RecoverAccount for every account the sweep returned, errors are counted
    let parse (tok : String) : Option (Nat × Op) :=
      match tok.splitOn ":" with
      | [k, kind, srv, ver, knows, tx] =>
        match k.toNat?, srv.toNat?, ver.toNat?, bool? knows, tx.toNat? with
        | some k, some srv, some ver, some knows, some tx =>
          if kind == "f" then
            let a0 := recovered srv ⟨tx, 1⟩ 500000 5000 ver 2 900 none
            let t : Tx := { id := tx, spends := [], outs := [(1, a0.out k)], signed := true, wit := 0 }
            some (k, .recover (recovered srv ⟨tx, 1⟩ 500000 5000 ver 2 900 (some t)) [])
          else if kind == "r" then
            let a : Acct := { state := .initiated, outpoint := ⟨0, 0⟩, value := 500000, expiry := 5000,
                              version := ver, bk := 0, heightHint := 900, latestTx := none }
            let t : Tx := { id := tx, spends := [], outs := [(1, a.out k)], signed := true, wit := 0 }
            some (k, .recover a (if knows then [t] else []))
          else none
        | _, _, _, _, _ => none
      | _ => none
    match toks.mapM parse with
    | none => ((), "bad-op")
    | some l =>
      let r := l.foldl (fun (acc : Drv × Nat) (p : Nat × Op) =>
        let x := acc.1.apply p.1 p.2
        (x.1, if x.2 == Res.ok then acc.2 + 1 else acc.2)) (({} : Drv), 0)
      ((), render {} r.1 s!"ok {r.2}")
  | ["recoverres", key, ver, knows, wf] =>
    -- reservation-only account (incompleteAcctFromErr): initiated, initial batch key, no outpoint / tx
    match key.toNat?, ver.toNat?, bool? knows, bool? wf with
    | some key, some ver, some knows, some wf =>
      let a : Acct := { state := .initiated, outpoint := ⟨0, 0⟩, value := 500000, expiry := 5000, version := ver,
                        bk := 0, heightHint := 900, latestTx := none }
      let t : Tx := { id := 1, spends := [], outs := [(1, a.out key)], signed := true, wit := 0 }
      let r := step { AState.init key with walletFail := wf } (.recover a (if knows then [t] else []))
      ((), render {} { accts := [r.1] } (fmtRes r.2))
    | _, _, _, _ => ((), "bad-op")
  | ["recover", srv, ver, knows, inLatest, wf] =>
    match srv.toNat?, ver.toNat?, bool? knows, bool? inLatest, bool? wf with
    | some srv, some ver, some knows, some inLatest, some wf =>
      let key := 1
      let a0 := recovered srv ⟨1, 1⟩ 500000 5000 ver 2 900 none
      let t : Tx := { id := 1, spends := [], outs := [(1, a0.out key)], signed := true, wit := 0 }
      let other : Tx := { id := 2, spends := [], outs := [], signed := true, wit := 0 }
      let a := recovered srv ⟨1, 1⟩ 500000 5000 ver 2 900 (some (if inLatest then t else other))
      let r := step { AState.init key with walletFail := wf } (.recover a (if knows then [t] else []))
      ((), render {} { accts := [r.1] } (fmtRes r.2))
    | _, _, _, _, _ => ((), "bad-op")
  | _ => ((), "bad-op")

end Pool.C20
