import PoolModel.C10Account
import PoolModel.Dec.Ticket
/-! C10 – orders in the trader database (/repo/clientdb/order.go): `SerializeOrder` / `DeserializeOrder`, the
per-order keys `order`, `order-min-units-match`, `order-tlv`, `order-tier` (`SubmitOrder`'s `store…TX` helpers,
`fetchOrderTX` + the `GetOrder` callback), `serializeOrderTlvData` / `deserializeOrderTlvData`, and the sidecar
bid template (`storeBidTemplate` / `readBidTemplate` of clientdb/sidecar.go, which reuse the same four keys).

Field order of the base encoding, the TLV record order and every TLV type number come from the regenerated
lists (`Pool.Gen.Store`); `kitTbl`, `orderTlvVars`, `orderTlvKinds` give each Go expression its meaning.

A `*sidecar.Ticket` embedded in a bid is identified with the byte string `sidecar.SerializeTicket` produces for
it. Reading runs the **C15 ticket codec model** (`Pool.Dec.deserializeTicket` with the decode variants the current
source uses, then `Pool.Dec.serializeTicket` to get the identifying bytes back), so an embedded blob that
`sidecar.DeserializeTicket` rejects is rejected here too; `Order.WF` asks the blob to be canonical
(`ticketCanonical`, decidable) – that every serialised well-formed ticket is canonical is property C15. -/
namespace Pool.C10
open Pool.Gen

structure Kit where
  nonce : Bytes
  preimage : Bytes
  version : Nat
  state : Nat
  fixedRate : Nat
  amt : Nat
  units : Nat
  unitsUnfulfilled : Nat
  multiSigKeyLocator : KeyLoc
  maxBatchFeeRate : Nat
  acctKey : Bytes
  leaseDuration : Nat
  minUnitsMatch : Nat
  channelType : Nat
  allowedNodeIDs : List Bytes
  notAllowedNodeIDs : List Bytes
  isPublic : Bool
  auctionType : Nat
  deriving Repr, DecidableEq

/-- `order.Ask` / `order.Bid` -/
inductive Order where
  | ask (kit : Kit) (announcement confirmation : Nat)
  | bid (kit : Kit) (minNodeTier selfChanBalance : Nat) (sidecarTicket : Option Bytes)
      (unannounced zeroConf : Bool)
  deriving Repr, DecidableEq

def Order.kit : Order → Kit
  | .ask k _ _ => k
  | .bid k _ _ _ _ _ => k

def Order.setKit (k : Kit) : Order → Order
  | .ask _ a c => .ask k a c
  | .bid _ t s tk u z => .bid k t s tk u z

def Order.isBid : Order → Bool
  | .ask .. => false
  | .bid .. => true

def enumVal (l : List (String × Nat)) (n : String) : Nat := (l.lookup n).getD 0

def typeAsk : Nat := enumVal Store.orderTypes "TypeAsk"
def typeBid : Nat := enumVal Store.orderTypes "TypeBid"

/-- `o.Type()` -/
def Order.typeNum (o : Order) : Nat := if o.isBid then typeBid else typeAsk

/-- `order.NewKit(nonce)`: everything zero (fixed-size arrays are zero-filled) except `Version: VersionLeaseDurationBuckets` -/
def Kit.new (nonce : Bytes) : Kit :=
  { nonce := nonce, preimage := List.replicate 32 0, version := enumVal Store.orderVersions "VersionLeaseDurationBuckets",
    state := 0, fixedRate := 0, amt := 0, units := 0, unitsUnfulfilled := 0, multiSigKeyLocator := ⟨0, 0⟩,
    maxBatchFeeRate := 0, acctKey := List.replicate 33 0, leaseDuration := 0, minUnitsMatch := 0, channelType := 0,
    allowedNodeIDs := [], notAllowedNodeIDs := [], isPublic := false, auctionType := 0 }

/-- the fields `SerializeOrder` keeps (everything else of the kit is stored under the other keys) -/
def Kit.baseProj (k : Kit) : Kit :=
  { k with minUnitsMatch := 0, channelType := 0, allowedNodeIDs := [], notAllowedNodeIDs := [],
           isPublic := false, auctionType := 0 }

/-- **base-field projection** of an order: what `SerializeOrder`/`DeserializeOrder` alone preserve – the
only part of another trader's order that a batch snapshot keeps -/
def Order.baseProj : Order → Order
  | .ask k _ _ => .ask k.baseProj 0 0
  | .bid k _ _ _ _ _ => .bid k.baseProj 0 0 none false false

/-- working record of (De)SerializeOrder: the kit and the order type byte -/
structure KitW where
  kit : Kit
  typ : Nat

def kitTbl : String → Option (FieldCodec KitW)
  | "kit.Preimage" => some ⟨fun w => w.kit.preimage,
      fun w => do let v ← take 32; pure { w with kit := { w.kit with preimage := v } }⟩
  | "uint32(kit.Version)" => some ⟨fun w => encU32 w.kit.version,
      fun w => do let v ← readU32; pure { w with kit := { w.kit with version := v } }⟩
  | "kit.Version" => some ⟨fun w => encU32 w.kit.version,
      fun w => do let v ← readU32; pure { w with kit := { w.kit with version := v } }⟩
  | "uint8(o.Type())" => some ⟨fun w => encU8 w.typ, fun w => do let v ← readU8; pure { w with typ := v }⟩
  | "orderType" => some ⟨fun w => encU8 w.typ, fun w => do let v ← readU8; pure { w with typ := v }⟩
  | "uint8(kit.State)" => some ⟨fun w => encU8 w.kit.state,
      fun w => do let v ← readU8; pure { w with kit := { w.kit with state := v } }⟩
  | "kit.State" => some ⟨fun w => encU8 w.kit.state,
      fun w => do let v ← readU8; pure { w with kit := { w.kit with state := v } }⟩
  | "kit.FixedRate" => some ⟨fun w => encU32 w.kit.fixedRate,
      fun w => do let v ← readU32; pure { w with kit := { w.kit with fixedRate := v } }⟩
  | "kit.Amt" => some ⟨fun w => encU64 w.kit.amt,
      fun w => do let v ← readU64; pure { w with kit := { w.kit with amt := v } }⟩
  | "uint64(kit.Units)" => some ⟨fun w => encU64 w.kit.units,
      fun w => do let v ← readU64; pure { w with kit := { w.kit with units := v } }⟩
  | "kit.Units" => some ⟨fun w => encU64 w.kit.units,
      fun w => do let v ← readU64; pure { w with kit := { w.kit with units := v } }⟩
  | "kit.MultiSigKeyLocator" => some ⟨fun w => encKeyLoc w.kit.multiSigKeyLocator,
      fun w => do let v ← readKeyLoc; pure { w with kit := { w.kit with multiSigKeyLocator := v } }⟩
  | "kit.MaxBatchFeeRate" => some ⟨fun w => encU64 w.kit.maxBatchFeeRate,
      fun w => do let v ← readU64; pure { w with kit := { w.kit with maxBatchFeeRate := v } }⟩
  | "kit.AcctKey" => some ⟨fun w => w.kit.acctKey,
      fun w => do let v ← take 33; pure { w with kit := { w.kit with acctKey := v } }⟩
  | "uint64(kit.UnitsUnfulfilled)" => some ⟨fun w => encU64 w.kit.unitsUnfulfilled,
      fun w => do let v ← readU64; pure { w with kit := { w.kit with unitsUnfulfilled := v } }⟩
  | "kit.UnitsUnfulfilled" => some ⟨fun w => encU64 w.kit.unitsUnfulfilled,
      fun w => do let v ← readU64; pure { w with kit := { w.kit with unitsUnfulfilled := v } }⟩
  | "kit.LeaseDuration" => some ⟨fun w => encU32 w.kit.leaseDuration,
      fun w => do let v ← readU32; pure { w with kit := { w.kit with leaseDuration := v } }⟩
  | _ => none

/-- `SerializeOrder` (never fails: every element type is handled and total) -/
def serializeOrder (o : Order) : Bytes :=
  encFields kitTbl (elemList "SerializeOrder" 0) ⟨o.kit, o.typeNum⟩

/-- `DeserializeOrder(nonce, r)` -/
def deserializeOrder (nonce : Bytes) : Dec Order := do
  let w ← decFields kitTbl (elemList "DeserializeOrder" 0) ⟨Kit.new nonce, 0⟩
  if w.typ = typeAsk then pure (.ask w.kit 0 0)
  else if w.typ = typeBid then pure (.bid w.kit 0 0 none false false)
  else Dec.fail

/-! ### additional data (TLV) -/

/-- `FlattenPubKeySlice` -/
def flattenKeys (ks : List Bytes) : Bytes := ks.flatten

/-- `AssemblePubKeySlice` (`none` = "invalid length") -/
def assembleKeysAux : Nat → Bytes → List Bytes
  | 0, _ => []
  | n + 1, b => b.take 33 :: assembleKeysAux n (b.drop 33)

def assembleKeys (b : Bytes) : Option (List Bytes) :=
  if b.length % 33 ≠ 0 then none else some (assembleKeysAux (b.length / 33) b)

def b2n (b : Bool) : Nat := if b then 1 else 0

/-- which records `serializeOrderTlvData` appends, by type constant -/
def orderTlvVars (o : Order) : String → Option (RecKind × TlvVal)
  | "bidSelfChanBalanceType" =>
    match o with
    | .bid _ _ scb _ _ _ => if scb ≠ 0 then some (.u64, .num scb) else none
    | _ => none
  | "bidSidecarTicketType" =>
    match o with
    | .bid _ _ _ (some t) _ _ => some (.bytes, .bytes t)
    | _ => none
  | "orderChannelType" => some (.u8, .num o.kit.channelType)
  | "allowedNodeIDsType" =>
    if o.kit.allowedNodeIDs.length > 0 then some (.bytes, .bytes (flattenKeys o.kit.allowedNodeIDs)) else none
  | "notAllowedNodeIDsType" =>
    if o.kit.notAllowedNodeIDs.length > 0 then some (.bytes, .bytes (flattenKeys o.kit.notAllowedNodeIDs))
    else none
  | "bidUnannouncedChannelType" =>
    match o with
    | .bid _ _ _ _ u _ => some (.u8, .num (b2n u))
    | _ => some (.u8, .num 0)
  | "askChannelAnnouncementConstraintsType" =>
    match o with
    | .ask _ a _ => some (.u8, .num a)
    | _ => some (.u8, .num 0)
  | "bidZeroConfType" =>
    match o with
    | .bid _ _ _ _ _ z => some (.u8, .num (b2n z))
    | _ => some (.u8, .num 0)
  | "askChannelConfirmationConstraintsType" =>
    match o with
    | .ask _ _ c => some (.u8, .num c)
    | _ => some (.u8, .num 0)
  | "orderAuctionType" => some (.u8, .num (o.kit.auctionType % 256))      -- `uint8(o.Details().AuctionType)`
  | "orderIsPublicType" => if o.kit.isPublic then some (.u8, .num 1) else none
  | _ => none

/-- the kinds of the records `deserializeOrderTlvData` registers, by type constant -/
def orderTlvKinds : String → Option RecKind
  | "bidSelfChanBalanceType" => some .u64
  | "bidSidecarTicketType" => some .bytes
  | "orderChannelType" => some .u8
  | "allowedNodeIDsType" => some .bytes
  | "notAllowedNodeIDsType" => some .bytes
  | "bidUnannouncedChannelType" => some .u8
  | "askChannelAnnouncementConstraintsType" => some .u8
  | "bidZeroConfType" => some .u8
  | "askChannelConfirmationConstraintsType" => some .u8
  | "orderAuctionType" => some .u8
  | "orderIsPublicType" => some .u8
  | _ => none

/-- `serializeOrderTlvData` -/
def serializeOrderTlvData (o : Order) : Bytes := encStream (tlvRecsOf "serializeOrderTlvData" (orderTlvVars o))

abbrev TlvMap := List (Nat × Option TlvVal)

/-- `sidecar.DeserializeTicket(bytes.NewReader(sidecarTicket))`; the resulting ticket is represented by its
serialisation (what `SerializeTicket` would write for it again) -/
def readTicket (b : Bytes) : Res Bytes :=
  match Pool.Dec.deserializeTicket (Pool.Dec.repoCfg maxAlloc) b with
  | .ok t =>
    match Pool.Dec.serializeTicket t with
    | .ok b' => .ok b' []
    | .err _ => .err
    | .panic => .panic
  | .err _ => .err
  | .panic => .panic

/-- the blob is what `SerializeTicket` writes for the ticket it decodes to -/
def ticketCanonical (b : Bytes) : Bool := readTicket b == .ok b []

/-- the type-specific part of `deserializeOrderTlvData` (`switch castOrder := o.(type)`); fails when the embedded
sidecar ticket does not decode -/
def applyTypeTlv (m : TlvMap) : Order → Res Order
  | .ask k a c =>
    let a := (parsedNum m (tlvType "askChannelAnnouncementConstraintsType")).getD a
    let c := (parsedNum m (tlvType "askChannelConfirmationConstraintsType")).getD c
    .ok (.ask k a c) []
  | .bid k t scb tk u z =>
    let scb := (parsedNum m (tlvType "bidSelfChanBalanceType")).getD scb
    let u := if parsedNum m (tlvType "bidUnannouncedChannelType") = some 1 then true else u
    let z := if parsedNum m (tlvType "bidZeroConfType") = some 1 then true else z
    match parsedBytes m (tlvType "bidSidecarTicketType") with
    | some b =>
      match readTicket b with
      | .ok b' _ => .ok (.bid k t scb (some b') u z) []
      | .err => .err
      | .panic => .panic
    | none => .ok (.bid k t scb tk u z) []

/-- the common part: channel type, node id lists, auction type, public flag -/
def applyKitTlv (m : TlvMap) (k : Kit) : Option Kit := do
  let k := match parsedNum m (tlvType "orderChannelType") with
    | some v => { k with channelType := v }
    | none => k
  let k ← match parsedBytes m (tlvType "allowedNodeIDsType") with
    | some b => (assembleKeys b).map fun ids => { k with allowedNodeIDs := ids }
    | none => some k
  let k ← match parsedBytes m (tlvType "notAllowedNodeIDsType") with
    | some b => (assembleKeys b).map fun ids => { k with notAllowedNodeIDs := ids }
    | none => some k
  let k := match parsedNum m (tlvType "orderAuctionType") with
    | some v => { k with auctionType := v }
    | none => k
  let k := if parsedNum m (tlvType "orderIsPublicType") = some 1 then { k with isPublic := true } else k
  pure k

/-- `deserializeOrderTlvData(r, o)`; `tlvData = nil` is the empty reader -/
def deserializeOrderTlvData (tlvData : Bytes) (o : Order) : Res Order :=
  match decodeStream (tlvKnownOf "deserializeOrderTlvData" orderTlvKinds) tlvData with
  | .ok m _ =>
    match applyTypeTlv m o with
    | .ok o _ =>
      match applyKitTlv m o.kit with
      | some k => .ok (o.setKit k) []
      | none => .err
    | .err => .err
    | .panic => .panic
  | .err => .err
  | .panic => .panic

/-! ### the order bucket -/

/-- values under the keys `order`, `order-min-units-match`, `order-tlv`, `order-tier` of one order bucket
(`none` = key absent) -/
structure OrderRec where
  base : Option Bytes
  minUnits : Option Bytes
  tlv : Option Bytes
  tier : Option Bytes
  deriving Repr, DecidableEq

/-- what `SubmitOrder` / `updateOrder` / `storeBidTemplate` put into the order bucket -/
def storeOrder (o : Order) : OrderRec :=
  { base := some (serializeOrder o),
    -- storeOrderMinUnitsMatchTX: `uint64(minUnitsMatch)`
    minUnits := some (encU64 o.kit.minUnitsMatch),
    tlv := some (serializeOrderTlvData o),
    -- storeOrderMinNoderTierTX, bids only: `uint32(minNodeTier)`
    tier := match o with
      | .bid _ t _ _ _ _ => some (encU32 t)
      | _ => none }

def resOfDec (r : Res α) : Res α := r

/-- `fetchOrderTX` + the callback of `GetOrder` / `GetOrders` / `readBidTemplate` -/
def loadOrder (nonce : Bytes) (rec : OrderRec) : Res Order :=
  match rec.base with
  | none => .err                                           -- "order bucket not found"
  | some orderBytes =>
    -- extraData defaults: minUnitsMatch = 1, minNodeTier = 0
    match (match rec.tier with
           | some b => readU32 b
           | none => .ok 0 []) with
    | .ok tier _ =>
      match (match rec.minUnits with
             | some b => readU64 b
             | none => .ok 1 []) with
      | .ok minUnits _ =>
        match deserializeOrder nonce orderBytes with
        | .ok o _ =>
          match deserializeOrderTlvData (rec.tlv.getD []) o with
          | .ok o _ =>
            let o := match o with
              | .bid k _ s tk u z => Order.bid k tier s tk u z
              | o => o
            .ok (o.setKit { o.kit with minUnitsMatch := minUnits }) []
          | .err => .err
          | .panic => .panic
        | .err => .err
        | .panic => .panic
      | .err => .err
      | .panic => .panic
    | .err => .err
    | .panic => .panic

/-! ### well-formedness -/

def Kit.WF (k : Kit) : Prop :=
  k.nonce.length = 32 ∧ k.preimage.length = 32 ∧ WFu32 k.version ∧ WFu8 k.state ∧ WFu32 k.fixedRate ∧
  WFu64 k.amt ∧ WFu64 k.units ∧ WFu64 k.unitsUnfulfilled ∧ k.multiSigKeyLocator.WF ∧
  WFu64 k.maxBatchFeeRate ∧ k.acctKey.length = 33 ∧ WFu32 k.leaseDuration ∧ WFu64 k.minUnitsMatch ∧
  WFu8 k.channelType ∧ (∀ i ∈ k.allowedNodeIDs, i.length = 33) ∧ (∀ i ∈ k.notAllowedNodeIDs, i.length = 33) ∧
  (k.allowedNodeIDs.length * 33 < 2 ^ 48) ∧ (k.notAllowedNodeIDs.length * 33 < 2 ^ 48) ∧
  WFu8 k.auctionType
instance decKitWF : Decidable (Kit.WF k) := by unfold Kit.WF; infer_instance

/-- Encodable domain of a stored order: field widths (the auction type within the single byte the format keeps),
32/33-byte arrays, constraint enums a byte, ticket blob a canonical ticket serialisation below the allocation bound. Every order version, state
value and combination of optional terms is inside. -/
def Order.WF : Order → Prop
  | .ask k a c => k.WF ∧ WFu8 a ∧ WFu8 c
  | .bid k t s tk _ _ => k.WF ∧ WFu32 t ∧ WFu64 s ∧
    (match tk with
     | some b => b.length < 2 ^ 48 ∧ ticketCanonical b = true
     | none => True)
instance decOrderWF : (o : Order) → Decidable o.WF
  | .ask k a c => inferInstanceAs (Decidable (k.WF ∧ WFu8 a ∧ WFu8 c))
  | .bid k t s (some b) _ _ => inferInstanceAs (Decidable (k.WF ∧ WFu32 t ∧ WFu64 s ∧ b.length < 2 ^ 48 ∧ ticketCanonical b = true))
  | .bid k t s none _ _ => inferInstanceAs (Decidable (k.WF ∧ WFu32 t ∧ WFu64 s ∧ True))

end Pool.C10
