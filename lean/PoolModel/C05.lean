import PoolModel.Generated.C05Facts
/-!
# C05 — model of the order manager's verify / sign-and-stage / finalize state machine

Go source mirrored (function by function):

* `order/manager.go`       `OrderMatchValidate`, `BatchSign`, `BatchFinalize`, `IsNodeIDAValidMatch`
* `order/batch_signer.go`  `batchSigner.Sign`, `signInputMuSig2`  (+ the part of
                           `poolscript.TaprootMuSig2Sign` that indexes `previousOutputs`)
* `order/batch_storer.go`  `StorePendingBatch` (lookups, then the database call), `MarkBatchComplete`
* `clientdb/batch.go`      `StorePendingBatch` / `MarkBatchComplete` / `DeletePendingBatch` as an abstract
                           staging area (details are C06's): one atomic `staged : Option Staged`
* `rpcserver.go`           the `Sign` case of `handleServerMessage` as an effect trace

Abstractions (deliberate; see notes/C05.md):

* `batchVerifier.Verify` is the parameter predicate `verifyOk : St → Batch → Bool` – it may depend on the manager /
  database state at the moment of the proposal, as the real verifier reads orders and accounts from the store
  (modelled in detail by `PoolModel/Batch.lean`, C01–C03; `PoolProofs/C05Verify.lean` instantiates it).
* opaque values are tokens: account keys, outpoints, tx outputs `(value, pkScript)`, node ids are `Nat`s.
* signatures are ideal: a signature is the pair (key, message); the message is the *sighash preimage*
  `Preimage` – which parts of the transaction it contains is a function of the sighash type, whose value is
  read from the Go source (`Pool.Gen.C05.p2wshHashType`, `taprootHashType`).
* the statement ORDER inside `manager.BatchSign` and inside the handler's `Sign` case is not restated here:
  both functions are *interpreted* from the programs regenerated out of the Go source
  (`Pool.Gen.C05.batchSignProg`, `handlerSignProg`).

Every Go panic site on these paths is an explicit `panic` outcome: `BatchSign`/`BatchFinalize` without a
pending batch (nil dereference), `previousOutputs[idx]` out of range in `TaprootMuSig2Sign`, and the
handler's `batch.ServerNonces = …` / `sendRejectBatch(batch, …)` with a nil batch (reachable only in a
tree whose Sign case lacks the `if batch == nil` guard; the guard is read from the regenerated program).
-/
namespace Pool.C05

abbrev Key := Nat
abbrev OutPoint := Nat
abbrev Out := Nat
abbrev Node := Nat
abbrev Nonce := Nat

/-- `wire.MsgTx` without witnesses: inputs (outpoints), outputs, locktime -/
structure Tx where
  ins : List OutPoint
  outs : List Out
  lock : Nat
deriving DecidableEq, Repr

/-- the fields of a stored `account.Account` the signer and storer read -/
structure Acct where
  key : Key
  outpoint : OutPoint
  version : Nat
  out : Out
  expiry : Nat := 0
deriving DecidableEq, Repr

/-- a stored order: nonce, and the node filters `OrderMatchValidate` applies -/
structure Ord where
  nonce : Nonce
  acct : Key
  allowed : List Node
  notAllowed : List Node
deriving DecidableEq, Repr

/-- `order.AccountDiff`: `newOutpoint = some _` iff the ending state is OUTPUT_RECREATED; `newOut` is the
(value, script) the stored account describes afterwards -/
structure Diff where
  acct : Key
  newOutpoint : Option OutPoint
  newVersion : Nat
  newOut : Option Out
  newExpiry : Nat := 0           -- 0 = unchanged (`AccountDiff.NewExpiry`)
deriving DecidableEq, Repr

/-- `order.Batch` -/
structure Batch where
  id : Nat
  tid : Nat                      -- display name of `tx` used by the correspondence stream only
  tx : Tx
  diffs : List Diff
  matched : List (Nonce × Node)  -- MatchedOrders: (our order, node key of the matched order)
  vflag : Bool                   -- what the driver uses as `verifyOk`
  snapOk : Bool                  -- fee schedule serialisable by clientdb.NewSnapshot
  nonces : List Key              -- ServerNonces (volatile, set by the Sign message)
  prevOuts : List Out            -- PreviousOutputs (volatile, set by the Sign message)
deriving DecidableEq, Repr

/-! ## Ideal signatures over sighash preimages -/

/-- btcd `txscript.SigHashType` values by the name used in the Go source -/
def sigHashValue : String → Nat
  | "txscript.SigHashDefault" => 0
  | "txscript.SigHashAll" => 1
  | "txscript.SigHashNone" => 2
  | "txscript.SigHashSingle" => 3
  | "txscript.SigHashAll | txscript.SigHashAnyOneCanPay" => 129
  | "txscript.SigHashNone | txscript.SigHashAnyOneCanPay" => 130
  | "txscript.SigHashSingle | txscript.SigHashAnyOneCanPay" => 131
  | _ => 2     -- anything unknown is treated as committing to no output

def htP2wsh : Nat := sigHashValue Pool.Gen.C05.p2wshHashType
def htTaproot : Nat := sigHashValue Pool.Gen.C05.taprootHashType

/-- what a BIP-143 / BIP-341 signature hash commits to -/
structure Preimage where
  taproot : Bool
  ht : Nat
  ins : List OutPoint
  idx : Nat
  outs : List Out
  lock : Nat
  spent : List Out       -- p2wsh: the spent output (amount + script code); taproot: all prevouts
deriving DecidableEq, Repr

/-- outputs covered, as a function of the sighash type (DEFAULT/ALL: all; SINGLE: the one at `idx`;
NONE: none) -/
def outsCommitted (ht : Nat) (tx : Tx) (idx : Nat) : List Out :=
  let base := ht % 128
  if base = 0 ∨ base = 1 then tx.outs
  else if base = 3 then (tx.outs[idx]?).toList
  else []

/-- inputs covered (ANYONECANPAY: only the signed one) -/
def insCommitted (ht : Nat) (tx : Tx) (idx : Nat) : List OutPoint :=
  if ht / 128 % 2 = 1 then (tx.ins[idx]?).toList else tx.ins

def preimage (taproot : Bool) (ht : Nat) (tx : Tx) (idx : Nat) (spent : List Out) : Preimage :=
  { taproot := taproot, ht := ht, ins := insCommitted ht tx idx, idx := idx,
    outs := outsCommitted ht tx idx, lock := tx.lock, spent := spent }

/-- ideal signature: unforgeable triple (signer key, the account output whose script context – p2wsh witness
script with the tweaked keys / MuSig2 aggregate key with the expiry-leaf tweak – the signing key material was
derived for, message) -/
structure Sig where
  key : Key
  forOut : Out
  msg : Preimage
  /-- account version whose signing protocol was used: 0 = ECDSA over the p2wsh witness script, 1 = MuSig2
  v0.4.0 session, 2 = MuSig2 v1.0.0-rc2 session (`account.Version.ScriptVersion()` of the STORED account) -/
  sver : Nat := 0
deriving DecidableEq, Repr

/-- a signature helps to spend output `out` with message `m` iff it was made by `pk` for exactly that output's
script context over exactly `m` -/
def Sig.verify (pk : Key) (out : Out) (m : Preimage) (σ : Sig) : Bool :=
  σ.key == pk && σ.forOut == out && σ.msg == m

/-- … and only if it was made with the signing protocol of the version of the output being spent (a MuSig2
v1.0.0-rc2 partial signature does not combine for an output whose aggregate key is a v0.4.0 one) -/
def Sig.verifyV (pk : Key) (out : Out) (ver : Nat) (m : Preimage) (σ : Sig) : Bool :=
  σ.verify pk out m && σ.sver == ver

/-! ## Database and manager state -/

/-- the staging area of `clientdb/batch.go`: pending batch id (+ snapshot tx) and the staged account rows -/
structure Staged where
  id : Nat
  tid : Nat
  tx : Tx
  rows : List Acct
deriving DecidableEq, Repr

structure DB where
  accts : List Acct
  orders : List Ord
  staged : Option Staged
deriving DecidableEq, Repr

/-- `order.manager`: `pendingBatch` (`hasPendingBatch` is `pending.isSome`) + the store -/
structure St where
  pending : Option Batch
  db : DB
deriving DecidableEq, Repr

def getAccount (db : DB) (k : Key) : Option Acct := db.accts.find? (·.key == k)
def getOrder (db : DB) (n : Nonce) : Option Ord := db.orders.find? (·.nonce == n)

/-- fault injection: index of the signer-client call / account-store call (counted from 0 inside one
`BatchSign`) that fails, and how the database call of the storer fails -/
inductive StoreFault | none | pre | inside
deriving DecidableEq, Repr

structure Faults where
  sf : Option Nat
  af : Option Nat
  st : StoreFault
deriving DecidableEq, Repr

def noFaults : Faults := { sf := none, af := none, st := .none }

/-! ## `IsNodeIDAValidMatch` / `OrderMatchValidate` -/

def isNodeIDAValidMatch (node : Node) (allowed notAllowed : List Node) : Bool :=
  if allowed.length > 0 then allowed.contains node
  else if notAllowed.length > 0 then !notAllowed.contains node
  else true

inductive ValErr | verify | order | «match»
deriving DecidableEq, Repr

/-- the loop over `batch.MatchedOrders` (a Go map; the verdict class is order independent as long as the
verifier – which looks every nonce up itself – has passed) -/
def checkMatches (db : DB) : List (Nonce × Node) → Option ValErr
  | [] => none
  | (n, node) :: rest =>
    match getOrder db n with
    | none => some .order
    | some o =>
      if isNodeIDAValidMatch node o.allowed o.notAllowed then checkMatches db rest else some .match

/-- `manager.OrderMatchValidate`: pendingBatch is assigned only on the success path -/
def validate (verifyOk : St → Batch → Bool) (s : St) (b : Batch) : St × Option ValErr :=
  if !verifyOk s b then (s, some .verify)
  else match checkMatches s.db b.matched with
    | some e => (s, some e)
    | none => ({ s with pending := some b }, none)

/-! ## `batchSigner.Sign` -/

inductive SignErr | acct | input | nonce | signer
deriving DecidableEq, Repr

inductive SignRes
  | ok (sigs : List Sig) (nonces : List Key)
  | err (e : SignErr)
  | panic
deriving DecidableEq, Repr

/-- `for idx, in := range TxIn { if in.PreviousOutPoint == acct.OutPoint { inputIndex = idx } }` –
there is no `break`, so the LAST matching input wins -/
def findInputFrom (op : OutPoint) : List OutPoint → Nat → Option Nat → Option Nat
  | [], _, acc => acc
  | x :: xs, i, acc => findInputFrom op xs (i + 1) (if x = op then some i else acc)

def findInput (ins : List OutPoint) (op : OutPoint) : Option Nat := findInputFrom op ins 0 none

/-- counters threaded through one `BatchSign`: signer-client calls and account-store calls so far -/
structure Ctr where
  calls : Nat
  acalls : Nat
deriving DecidableEq, Repr

/-- the loop body of `batchSigner.Sign` for the remaining diffs -/
def signLoop (db : DB) (b : Batch) (f : Faults) :
    List Diff → Ctr → List Sig → List Key → SignRes × Ctr
  | [], c, sigs, nonces => (.ok sigs.reverse nonces.reverse, c)
  | d :: rest, c, sigs, nonces =>
    -- acct, err := s.getAccount(acctDiff.AccountKey)
    let c1 : Ctr := { c with acalls := c.acalls + 1 }
    if f.af = some c.acalls then (.err .acct, c1) else
    match getAccount db d.acct with
    | none => (.err .acct, c1)
    | some a =>
      -- find the input by the STORED outpoint
      match findInput b.tx.ins a.outpoint with
      | none => (.err .input, c1)
      | some idx =>
        if a.version ≥ Pool.Gen.C05.versionTaprootEnabled then
          -- signInputMuSig2
          if !b.nonces.contains d.acct then (.err .nonce, c1) else
          -- MuSig2CreateSession, with the keys / expiry / secret of the STORED account
          let c2 : Ctr := { c1 with calls := c1.calls + 1 }
          if f.sf = some c1.calls then (.err .signer, c2) else
          -- TaprootMuSig2Sign: previousOutputs[idx] for every input
          if b.prevOuts.length < b.tx.ins.length then (.panic, c2) else
          -- MuSig2Sign
          let c3 : Ctr := { c2 with calls := c2.calls + 1 }
          if f.sf = some c2.calls then (.err .signer, c3) else
          let σ : Sig := ⟨a.key, a.out, preimage true htTaproot b.tx idx (b.prevOuts.take b.tx.ins.length), a.version⟩
          signLoop db b f rest c3 (σ :: sigs) (a.key :: nonces)
        else
          -- SignOutputRaw with HashType from the source, Output = the account's current output
          let c2 : Ctr := { c1 with calls := c1.calls + 1 }
          if f.sf = some c1.calls then (.err .signer, c2) else
          let σ : Sig := ⟨a.key, a.out, preimage false htP2wsh b.tx idx [a.out], a.version⟩
          signLoop db b f rest c2 (σ :: sigs) nonces

def signerSign (db : DB) (b : Batch) (f : Faults) : SignRes × Ctr :=
  signLoop db b f b.diffs ⟨0, 0⟩ [] []

/-! ## `batchStorer.StorePendingBatch` over the abstract staging area -/

def ordersKnown (db : DB) : List (Nonce × Node) → Bool
  | [] => true
  | (n, _) :: rest => (getOrder db n).isSome && ordersKnown db rest

/-- account rows after applying the diff's modifiers (`OutPointModifier`, `VersionModifier` only in the
OUTPUT_RECREATED case) -/
def stagedRow (a : Acct) (d : Diff) : Acct :=
  match d.newOutpoint with
  | some op => { a with outpoint := op, out := d.newOut.getD a.out,
                        version := if d.newVersion > a.version then d.newVersion else a.version,
                        -- ExpiryModifier(diff.NewExpiry) under `SupportsAccountExtension() && NewExpiry != 0`
                        -- (every batch version the manager is configured with here supports it)
                        expiry := if d.newExpiry ≠ 0 then d.newExpiry else a.expiry }
  | none => { a with out := d.newOut.getD a.out }   -- used up: same outpoint and script, value := ending balance

def storerRows (db : DB) (f : Faults) : List Diff → Nat → Option (List Acct)
  | [], _ => some []
  | d :: rest, n =>
    if f.af = some n then none else
    match getAccount db d.acct with
    | none => none
    | some a => (storerRows db f rest (n + 1)).map (stagedRow a d :: ·)

/-- `none` = error ("unable to store batch"); a failed `StorePendingBatch` leaves the staging area as it
was (the bbolt transaction is rolled back) -/
def storePending (db : DB) (b : Batch) (f : Faults) (acalls : Nat) : Option DB :=
  if !ordersKnown db b.matched then none else
  match storerRows db f b.diffs acalls with
  | none => none
  | some rows =>
    match f.st with
    | .pre => none
    | .inside => none
    | .none =>
      if !b.snapOk then none
      else some { db with staged := some { id := b.id, tid := b.tid, tx := b.tx, rows := rows } }

/-! ## `manager.BatchSign`, interpreted from the regenerated program -/

inductive SignOut
  | ok (sigs : List Sig) (nonces : List Key)
  | errSign (e : SignErr)
  | errStore
  | panic
deriving DecidableEq, Repr

/-- interpreter state of one `BatchSign` call -/
structure BS where
  db : DB
  ctr : Ctr
  sigs : List Sig
  nonces : List Key
  err : Option SignOut      -- the Go variable `err` (as the outcome it would produce)
  done : Option SignOut     -- set once the function has returned / panicked
deriving Repr

/-- one statement of `manager.BatchSign` -/
def bsStmt (pending : Option Batch) (f : Faults) (x : BS) (stmt : List String) : BS :=
  if x.done.isSome then x else
  match stmt with
  | ["call", "m.batchSigner.Sign", "m.pendingBatch"] =>
    match pending with
    | none => { x with done := some .panic }        -- len(batch.AccountDiffs) on a nil *Batch
    | some b =>
      match signerSign x.db b f with
      | (.ok sigs nonces, c) => { x with ctr := c, sigs := sigs, nonces := nonces, err := none }
      | (.err e, c) => { x with ctr := c, sigs := [], nonces := [], err := some (.errSign e) }
      | (.panic, c) => { x with ctr := c, done := some .panic }
  | ["call", "m.batchStorer.StorePendingBatch", "m.pendingBatch"] =>
    match pending with
    | none => { x with done := some .panic }
    | some b =>
      match storePending x.db b f x.ctr.acalls with
      | some db' => { x with db := db', err := none }
      | none => { x with err := some .errStore }
  | ["iferr", _, "nil", "nil", _] =>
    -- `if err != nil { return nil, nil, <some error> }`: the signature variables are not handed out
    match x.err with
    | none => x
    | some e => { x with done := some e }
  | "iferr" :: _ =>
    -- an error return that hands out the signature variables would be a release
    match x.err with
    | none => x
    | some _ => { x with done := some (.ok x.sigs x.nonces) }
  | ["return", "m.batchSigner.Sign#0", "m.batchSigner.Sign#1", "nil"] =>
    -- locals are named by the call that defined them: the two results of `m.batchSigner.Sign`
    { x with done := some (.ok x.sigs x.nonces) }
  | "return" :: _ => { x with done := some (.ok [] []) }
  | _ => x

def batchSignWith (prog : List (List String)) (s : St) (f : Faults) : St × SignOut :=
  let x := prog.foldl (bsStmt s.pending f)
    { db := s.db, ctr := ⟨0, 0⟩, sigs := [], nonces := [], err := none, done := none }
  ({ s with db := x.db }, x.done.getD (.ok [] []))

/-- `manager.BatchSign` as the Go source orders it today -/
def batchSign (s : St) (f : Faults) : St × SignOut := batchSignWith Pool.Gen.C05.batchSignProg s f

/-- the hand-written reading of `manager.BatchSign` (sign; on error return; stage; on error return;
release).  `PoolProofs.C05Lemmas.batchSign_eq_spec` proves the interpreted regenerated program equal to it;
that proof is what breaks when the statement order in the Go source changes. -/
def batchSignSpec (s : St) (f : Faults) : St × SignOut :=
  match s.pending with
  | none => (s, .panic)
  | some b =>
    match signerSign s.db b f with
    | (.panic, _) => (s, .panic)
    | (.err e, _) => (s, .errSign e)
    | (.ok sigs nonces, c) =>
      match storePending s.db b f c.acalls with
      | none => (s, .errStore)
      | some db' => ({ s with db := db' }, .ok sigs nonces)

/-! ## `manager.BatchFinalize` -/

inductive FinOut | ok | errId | errStore | panic
deriving DecidableEq, Repr

def applyRow (accts : List Acct) (r : Acct) : List Acct :=
  accts.map fun a => if a.key == r.key then r else a

/-- `clientdb.MarkBatchComplete`: copy the staged rows over the main rows, clear the staging area -/
def markComplete (db : DB) : Option DB :=
  match db.staged with
  | none => none                   -- account.ErrNoPendingBatch
  | some sg => some { db with accts := sg.rows.foldl applyRow db.accts, staged := none }

def finalize (s : St) (id : Nat) (markFault : Bool) : St × FinOut :=
  match s.pending with
  | none => (s, .panic)             -- m.pendingBatch.ID on a nil *Batch
  | some b =>
    if id ≠ b.id then (s, .errId) else
    if markFault then (s, .errStore) else
    match markComplete s.db with
    | none => (s, .errStore)
    | some db' => ({ pending := none, db := db' }, .ok)

/-- `clientdb.DeletePendingBatch` (what the funding manager does when a new proposal arrives) -/
def unstage (s : St) : St := { s with db := { s.db with staged := none } }

/-- `clientdb.UpdateAccount` by an account RPC: the stored account moves to a new outpoint / output -/
def modAcct (s : St) (k : Key) (op : OutPoint) (out : Out) : St :=
  { s with db := { s.db with accts := s.db.accts.map fun a =>
      if a.key == k then { a with outpoint := op, out := out } else a } }

/-! ## Histories -/

inductive Op
  | validate (b : Batch)
  | sign (f : Faults) (nonces : List Key) (prev : List Out)
  | finalize (id : Nat) (markFault : Bool)
  | unstage
  | modAcct (k : Key) (op : OutPoint) (out : Out)   -- an account RPC (deposit/withdraw/renew) between messages
deriving DecidableEq, Repr

inductive Res
  | val (e : Option ValErr)
  | sign (o : SignOut)
  | fin (o : FinOut)
  | unstaged
  | modded
deriving DecidableEq, Repr

/-- the Sign message's auxiliary data is written into the pending batch before `BatchSign` -/
def attachAux (s : St) (nonces : List Key) (prev : List Out) : St :=
  { s with pending := s.pending.map fun b => { b with nonces := nonces, prevOuts := prev } }

def step (verifyOk : St → Batch → Bool) (s : St) : Op → St × Res
  | .validate b => let r := validate verifyOk s b; (r.1, .val r.2)
  | .sign f nonces prev => let r := batchSign (attachAux s nonces prev) f; (r.1, .sign r.2)
  | .finalize id mf => let r := finalize s id mf; (r.1, .fin r.2)
  | .unstage => (unstage s, .unstaged)
  | .modAcct k op out => (modAcct s k op out, .modded)

/-- run a history, returning the state after it and the per-op results -/
def run (verifyOk : St → Batch → Bool) : St → List Op → St × List Res
  | s, [] => (s, [])
  | s, op :: ops =>
    let r := step verifyOk s op
    let rr := run verifyOk r.1 ops
    (rr.1, r.2 :: rr.2)

def initSt (accts : List Acct) (orders : List Ord) : St :=
  { pending := none, db := { accts := accts, orders := orders, staged := none } }

/-! ## The `Sign` case of `rpcServer.handleServerMessage` as an effect trace -/

/-- what the handler hands to the auctioneer / asks of its collaborators, in order -/
inductive Ev
  | parseSign
  | chanSetup
  | batchSign (ok : Bool)
  | sendSign (sigs : List Sig) (nonces : List Key) (stagedAtSend : Option Staged)
  | sendReject
deriving DecidableEq, Repr

/-- outcomes of the collaborators the handler calls that are outside this model -/
structure HEnv where
  parseOk : Bool          -- order.ParseRPCSign
  chanOk : Bool           -- fundingManager.BatchChannelSetup
  sendOk : Bool           -- sendSignBatch (stream write)
  faults : Faults
  nonces : List Key
  prev : List Out
deriving Repr

structure HS where
  st : St
  trace : List Ev          -- newest first
  err : Bool
  sigs : List Sig
  tnonces : List Key
  done : Bool
  panicked : Bool
deriving Repr

/-- the statements of the Sign case that matter, parsed from the regenerated string form -/
inductive HStmt
  | pendingCall                 -- batch := s.orderManager.PendingBatch()
  | ifnilBatch (rejects : Bool) -- if batch == nil { [sendRejectUnparsedBatch]; return }
  | parse                       -- order.ParseRPCSign(msg.Sign)
  | assignNonces                -- batch.ServerNonces = serverNonces
  | assignPrev                  -- batch.PreviousOutputs = prevOutputs
  | chanSetup                   -- s.server.fundingManager.BatchChannelSetup(batch)
  | batchSign                   -- sigs, nonces, err := s.orderManager.BatchSign()
  | sendSign                    -- err = s.sendSignBatch(batch, sigs, nonces, channelKeys)
  | iferrReject                 -- if err != nil { return s.sendRejectBatch(batch, err) }
  | iferrReturn                 -- if err != nil { return … }
  | ret                         -- return
  | skip                        -- anything without an effect the model tracks
deriving DecidableEq, Repr

/- Locals appear under the name of the call that defined them (`s.orderManager.PendingBatch#0` is the `batch`
variable, `s.orderManager.BatchSign#0/#1` the signatures / nonces), helper methods of the same receiver in tail
position are inlined by the extractor, error values are `<err>`. -/
def parseH : List String → HStmt
  | ["call", "s.orderManager.PendingBatch", _] => .pendingCall
  | ["ifnil", "s.orderManager.PendingBatch#0", calls, _] => .ifnilBatch (calls == "s.sendRejectUnparsedBatch")
  | ["call", "order.ParseRPCSign", _] => .parse
  | ["assign", "s.orderManager.PendingBatch#0.ServerNonces", "order.ParseRPCSign#0"] => .assignNonces
  | ["assign", "s.orderManager.PendingBatch#0.PreviousOutputs", "order.ParseRPCSign#1"] => .assignPrev
  | ["call", "s.server.fundingManager.BatchChannelSetup", _] => .chanSetup
  | ["call", "s.orderManager.BatchSign", _] => .batchSign
  | ["call", "s.sendSignBatch", _, "s.orderManager.BatchSign#0", "s.orderManager.BatchSign#1", _] => .sendSign
  | "iferr" :: "s.sendRejectBatch" :: _ => .iferrReject
  | "iferr" :: _ => .iferrReturn
  | "return" :: _ => .ret
  | _ => .skip

def hStep (env : HEnv) (x : HS) (stmt : HStmt) : HS :=
  if x.done then x else
  match stmt with
  | .pendingCall => x
  | .ifnilBatch rejects =>
    -- `if batch == nil { …; return s.sendRejectUnparsedBatch(msg.Sign.BatchId, err) }` (present since the
    -- fix "rpcserver: reject a sign message that arrives without a pending batch")
    if x.st.pending.isSome then x
    else if rejects then { x with trace := .sendReject :: x.trace, done := true }
    else { x with done := true }
  | .parse => { x with trace := .parseSign :: x.trace, err := !env.parseOk }
  | .assignNonces =>
    if x.st.pending.isNone then { x with done := true, panicked := true }
    else { x with st := attachAux x.st env.nonces ((x.st.pending.map (·.prevOuts)).getD []) }
  | .assignPrev =>
    if x.st.pending.isNone then { x with done := true, panicked := true }
    else { x with st := attachAux x.st ((x.st.pending.map (·.nonces)).getD []) env.prev }
  | .chanSetup => { x with trace := .chanSetup :: x.trace, err := !env.chanOk }
  | .batchSign =>
    match batchSign x.st env.faults with
    | (st', .ok sigs nonces) =>
      { x with st := st', trace := .batchSign true :: x.trace, err := false, sigs := sigs, tnonces := nonces }
    | (st', .panic) => { x with st := st', done := true, panicked := true }
    | (st', _) => { x with st := st', trace := .batchSign false :: x.trace, err := true, sigs := [], tnonces := [] }
  | .sendSign =>
    -- the message carries the signature variables; ghost: the staging area at the moment of the send
    { x with trace := .sendSign x.sigs x.tnonces x.st.db.staged :: x.trace, err := !env.sendOk }
  | .iferrReject =>
    if !x.err then x
    else if x.st.pending.isNone then { x with done := true, panicked := true }   -- batch.MatchedOrders on nil
    else { x with trace := .sendReject :: x.trace, done := true }
  | .iferrReturn => if x.err then { x with done := true } else x
  | .ret => { x with done := true }
  | .skip => x

def hsStmt (env : HEnv) (x : HS) (stmt : List String) : HS := hStep env x (parseH stmt)

def hInit (s : St) : HS :=
  { st := s, trace := [], err := false, sigs := [], tnonces := [], done := false, panicked := false }

def handleSignParsed (prog : List HStmt) (s : St) (env : HEnv) : HS := prog.foldl (hStep env) (hInit s)

def handleSignWith (prog : List (List String)) (s : St) (env : HEnv) : HS :=
  handleSignParsed (prog.map parseH) s env

/-- the `Sign` case as the Go source orders it today; `.trace.reverse` is the chronological trace -/
def handleSign (s : St) (env : HEnv) : HS := handleSignWith Pool.Gen.C05.handlerSignProg s env

end Pool.C05
