import PoolModel.C06
import PoolModel.Util
/-! Line-protocol driver for the C06 model.

```
reset
addacct k value expiry state bkey optx opidx hint tx ver
submit n state unfilled units min isBid tier extras
stage id tx feeOk <orders> <omods> <accts> <amods> <matches>
delorder n
updorder n <mods>          updorders <ns> <modss>          updacct k <mods>
complete | discard | reopen | spend
acctspend k <expiry|multisig|unknown|recreate> tx height
reconnect <err0|err1|mal|fin:tx|finw:tx> <removeOk>
reconn <first|err|shut> <err0|err1|mal|fin:tx|finw:tx> <removeOk>
obs
```
`<orders>`/`<accts>`/`<ns>`: `_` (empty) or comma separated numbers.  `<omods>`/`<amods>`/`<modss>`: `_` or
`/`-separated modifier lists; a modifier list is `-` (empty) or `.`-separated modifiers; a modifier is a letter
followed by `:`-separated numbers (orders: `s<state>` `u<unfilled>`; accounts: `s` `v` `e` `b` `o<tx>:<idx>` `h`
`t` `r<version>`).  Output of an op: `ok` or the error name; of `obs`: the canonical dump of all observers. -/
namespace Pool.C06
open Pool.Util

def errName : Err → String
  | .lenOrder => "lenOrder" | .lenAcct => "lenAcct" | .noOrder => "noOrder" | .orderExists => "orderExists"
  | .noAcct => "noAcct" | .feeSched => "feeSched" | .noPending => "noPending" | .bucketMissing => "bucketMissing"
  | .snapMissing => "snapMissing" | .getOrder => "getOrder" | .getAccount => "getAccount"
  | .endingState => "endingState" | .panicNilLatestTx => "panic" | .other => "other"

/-- the outcome class the harness can tell WITHOUT reading error texts: the four sentinel errors, a panic, or
just "an error" -/
def resName : Option Err → String
  | none => "ok"
  | some .noOrder => "noOrder" | some .orderExists => "orderExists" | some .noAcct => "noAcct"
  | some .noPending => "noPending" | some .panicNilLatestTx => "panic"
  | some _ => "err"

def nats? (sep : Char) (s : String) : Option (List Nat) :=
  (s.splitOn (String.singleton sep)).mapM String.toNat?

def keyList? (s : String) : Option (List Nat) := if s == "_" then some [] else nats? ',' s

def omod? (s : String) : Option OMod :=
  match s.toList with
  | 's' :: r => (String.ofList r).toNat?.map OMod.state
  | 'u' :: r => (String.ofList r).toNat?.map OMod.unitsUnfulfilled
  | _ => none

def amod? (s : String) : Option AMod :=
  match s.toList with
  | ['b'] => some .incBatchKey
  | 's' :: r => (String.ofList r).toNat?.map AMod.state
  | 'v' :: r => (String.ofList r).toNat?.map AMod.value
  | 'e' :: r => (String.ofList r).toNat?.map AMod.expiry
  | 'h' :: r => (String.ofList r).toNat?.map AMod.heightHint
  | 't' :: r => (String.ofList r).toNat?.map AMod.latestTx
  | 'r' :: r => (String.ofList r).toNat?.map AMod.version
  | 'o' :: r => match nats? ':' (String.ofList r) with
    | some [t, i] => some (.outPoint t i)
    | _ => none
  | _ => none

def modList? (f : String → Option α) (s : String) : Option (List α) :=
  if s == "-" then some [] else (s.splitOn ".").mapM f

def modLists? (f : String → Option α) (s : String) : Option (List (List α)) :=
  if s == "_" then some [] else (s.splitOn "/").mapM (modList? f)

def insertByKey (x : Key × α) : List (Key × α) → List (Key × α)
  | [] => [x]
  | y :: ys => if x.1 ≤ y.1 then x :: y :: ys else y :: insertByKey x ys

def sortByKey (l : List (Key × α)) : List (Key × α) := l.foldr insertByKey []

def joinOr (sep : String) (l : List String) : String := if l.isEmpty then "-" else joinWith sep l

def acctStr (p : Key × Acct) : String :=
  let a := p.2
  s!"{p.1}:{a.value},{a.expiry},{a.state},{a.bkey},{a.opTx},{a.opIdx},{a.hint},{a.tx},{a.version}"

def ordStr (p : Key × Ord) : String :=
  s!"{p.1}:{p.2.state},{p.2.unfilled},{p.2.units},{p.2.minMatch},{if p.2.isBid then 1 else 0},{p.2.tier},{p.2.extras}"

def snapOrdStr (p : Key × Ord) : String := s!"{p.1}:{p.2.state},{p.2.unfilled},{p.2.units}"

def matchStr (p : Key × List Nat) : String := s!"{p.1}:" ++ joinOr "+" (p.2.map toString)

/-- `<matches>`: `_` or `;`-free list `n:u+u/n:u` -/
def matches? (s : String) : Option (List (Key × List Nat)) :=
  if s == "_" then some [] else
  (s.splitOn "/").mapM fun e =>
    match e.splitOn ":" with
    | [n, us] => match n.toNat?, nats? '+' us with
      | some n, some us => some (n, us)
      | _, _ => none
    | _ => none

def snapStr (s : Snap) : String :=
  s!"{s.id},{s.tx}[{joinOr ";" ((sortByKey s.accts).map acctStr)}][{joinOr ";" ((sortByKey s.orders).map snapOrdStr)}][{joinOr ";" ((sortByKey s.matched).map matchStr)}]"

def evtStr : Evt → String
  | .created => "c"
  | .updated p n f => s!"u{p},{n},{f}"

def obsAcctRange : List Nat := [1, 2, 3, 4, 5]
def obsOrderRange : List Nat := [1, 2, 3, 4, 5, 6, 7]
def obsBatchRange : List Nat := [1, 2, 3, 4, 5, 6]

def obsStr (db : DB) : String :=
  let A := joinOr ";" ((sortByKey db.accounts).map acctStr)
  let a := joinWith ";" (obsAcctRange.map fun k =>
    match lookup k db.accounts with | some v => acctStr (k, v) | none => s!"{k}!")
  let O := joinOr ";" ((sortByKey db.orders).map ordStr)
  let o := joinWith ";" (obsOrderRange.map fun k =>
    match lookup k db.orders with | some v => ordStr (k, v) | none => s!"{k}!")
  let P := match pendingBatchSnapshot db with | .ok s => snapStr s | .error e => "!" ++ errName e
  let S := match getLocalBatchSnapshots db with
    | .ok l => joinOr "|" (l.map snapStr)
    | .error e => "!" ++ errName e
  let G := joinWith "|" (obsBatchRange.map fun i =>
    match getLocalBatchSnapshot db i with
    | .ok s => snapStr s
    | .error .noOrder => s!"{i}!noOrder"
    | .error _ => s!"{i}!")
  let E := joinWith "|" (obsOrderRange.map fun n =>
    match getOrderEvents db n with
    | .ok es => s!"{n}:" ++ joinOr ";" (es.map evtStr)
    | .error .noOrder => s!"{n}!"
    | .error _ => s!"{n}!norefs")
  s!"A={A} a={a} O={O} o={o} P={P} S={S} G={G} E={E}"

def callStr : Call → String
  | .removeArtifacts t => s!"remove:{t}"
  | .deletePendingBatch => "delete"

def checkErrStr : Option CheckErr → String
  | none => "ok" | some .load => "load" | some .query => "query" | some .remove => "remove" | some .delete => "delete"

def rpc? (s : String) : Option Rpc :=
  if s == "err0" then some (.rpcErr false) else if s == "err1" then some (.rpcErr true)
  else if s == "mal" then some .malformed
  else match s.splitOn ":" with
    | ["fin", t] => t.toNat?.map Rpc.finalized
    | ["finw", t] => t.toNat?.map Rpc.finalized   -- same txid, other witness data
    | _ => none

def bool? (s : String) : Option Bool := if s == "1" then some true else if s == "0" then some false else none

abbrev DrvSt := DB
def drvInit : DrvSt := DB.init

def doOp (db : DB) (op : Op) : DB × String := let r := step db op; (r.1, resName r.2)

def drvStep (db : DB) (args : List String) : DB × String :=
  match args with
  | ["reset"] => (DB.init, "ok")
  | ["obs"] => (db, obsStr db)
  -- a crash / abort inside a transaction: the file holds the pre-transaction state (bbolt, trusted); the token is
  -- the outcome the harness observed (`crash`, or the error/panic that came first)
  | ["crash"] => (db, "crash")
  | ["complete"] => doOp db .complete
  | ["discard"] => doOp db .discard
  | ["reopen"] => doOp db .reopen
  | ["spend"] => doOp db .spend
  | "addacct" :: rest =>
    match rest.mapM String.toNat? with
    | some [k, v, e, s, b, ot, oi, h, t, r] =>
      doOp db (.addAccount k { value := v, expiry := e, state := s, bkey := b, opTx := ot, opIdx := oi,
                               hint := h, tx := t, version := r })
    | _ => (db, "bad-op")
  | "submit" :: rest =>
    match rest.mapM String.toNat? with
    | some [n, s, u, un, m, b, t, x] =>
      if b > 1 then (db, "bad-op") else
      doOp db (.submitOrder n { state := s, unfilled := u, units := un, minMatch := m, isBid := b == 1, tier := t,
                                extras := x })
    | _ => (db, "bad-op")
  | ["stage", id, tx, fee, os, oms, as, ams, mt] =>
    match id.toNat?, tx.toNat?, bool? fee, keyList? os, modLists? omod? oms, keyList? as, modLists? amod? ams,
          matches? mt with
    | some id, some tx, some fee, some os, some oms, some as, some ams, some mt =>
      doOp db (.stage { batchId := id, batchTx := tx, feeOk := fee, orders := os, orderMods := oms,
                        accounts := as, acctMods := ams, matched := mt })
    | _, _, _, _, _, _, _, _ => (db, "bad-op")
  -- a caller reads an account and keeps the struct (DB.Account): no state change
  | ["hold", k] =>
    match k.toNat? with
    | some k => (db, match lookup k db.accounts with | some _ => "ok" | none => "noAcct")
    | none => (db, "bad-op")
  | ["delorder", n] =>
    match n.toNat? with
    | some n => doOp db (.deleteOrder n)
    | none => (db, "bad-op")
  | ["updorder", n, ms] =>
    match n.toNat?, modList? omod? ms with
    | some n, some ms => doOp db (.updateOrder n ms)
    | _, _ => (db, "bad-op")
  | ["updorders", ns, mss] =>
    match keyList? ns, modLists? omod? mss with
    | some ns, some mss => doOp db (.updateOrders ns mss)
    | _, _ => (db, "bad-op")
  | ["updacct", k, ms] =>
    match k.toNat?, modList? amod? ms with
    | some k, some ms => doOp db (.updateAccount k ms)
    | _, _ => (db, "bad-op")
  | ["acctspend", k, w, tx, h] =>
    let w? : Option Witness := if w == "expiry" then some .expiry else if w == "multisig" then some .multiSig
      else if w == "unknown" then some .unknown else if w == "recreate" then some .multiSigRecreate else none
    match k.toNat?, w?, tx.toNat?, h.toNat? with
    | some k, some w, some tx, some h => doOp db (.accountSpend k w tx h)
    | _, _, _, _ => (db, "bad-op")
  | ["reconn", pth, r, rm] =>
    -- a whole (re-)connection of the real client; output: cleaner calls and error of the LAST check, number of
    -- BatchSnapshot queries the auctioneer received
    let p? : Option Path := if pth == "first" then some .firstConnect else if pth == "err" then some .streamError
      else if pth == "shut" then some .shutdownNotice else none
    match p?, rpc? r, bool? rm with
    | some p, some r, some rm =>
      let loadable := match pendingBatchSnapshot db with | .ok _ => true | .error _ => false
      let noPending := match pendingBatchSnapshot db with | .error .noPending => true | _ => false
      if p != .firstConnect && !loadable && !noPending then (db, "sub-failed") else
      let x := reconnectVia p r rm db
      let last := x.2.getLast?.getD ([], none)
      -- a failing check is retried by the daemon's stream error handler (the harness allows 3 attempts in all)
      let q := if !loadable then 0 else if p != .firstConnect && last.2.isSome then 4 else x.2.length
      (x.1, joinOr "," (last.1.map callStr) ++ ";" ++ checkErrStr last.2 ++ s!";q={q}")
    | _, _, _ => (db, "bad-op")
  | ["reconnect", r, rm] =>
    match rpc? r, bool? rm with
    | some r, some rm =>
      let x := reconnect r rm db
      (x.1, joinOr "," (x.2.1.map callStr) ++ ";" ++ checkErrStr x.2.2)
    | _, _ => (db, "bad-op")
  | _ => (db, "bad-op")

end Pool.C06
