import PoolModel.Generated.C18Facts
import PoolModel.Generated.C18Sem
/-! # C18 — auctioneer subscriptions: handshake algebra, reconnect backoff, error-channel switch

Executable model (core Lean only) of
* `account/auth.go`: `concatAndHash`, `CommitAccount`, `AuthChallenge`, `AuthHash`;
* `auctioneer/account_subscription.go`: the two messages `acctSubscription.authenticate` sends;
* `auctioneer/client.go`: the retry loop of `Client.connectServerStream` (int64 `time.Duration` arithmetic);
* `auctioneer/err_chan_switch.go`: `ErrChanSwitch` (`Divert`, `Restore`, `run`) as a small-step transition system
  whose atomic steps are the channel operations / mutex acquisitions of the Go code.
The hash is a parameter `H`; the driver instantiates it with SHA-256 to compare bytes with Go. -/
namespace Pool.C18

abbrev Bytes := List UInt8

/-! ## account/auth.go -/

/-- `concatAndHash(a, b)`: `h.Write(a); h.Write(b); h.Sum(nil)` -/
def concatAndHash (H : Bytes → Bytes) (a b : Bytes) : Bytes := H (a ++ b)

/-- `CommitAccount(acctPubKey [33]byte, nonce [32]byte)` -/
def commitAccount (H : Bytes → Bytes) (acctPubKey nonce : Bytes) : Bytes := concatAndHash H acctPubKey nonce

/-- `AuthChallenge(commitHash, nonce [32]byte)` (server side, step 2) -/
def authChallenge (H : Bytes → Bytes) (commitHash nonce : Bytes) : Bytes := concatAndHash H commitHash nonce

/-- `AuthHash(commitHash, challenge [32]byte)` -/
def authHash (H : Bytes → Bytes) (commitHash challenge : Bytes) : Bytes := concatAndHash H commitHash challenge

/-! ## auctioneer/account_subscription.go -/

/-- Go `var dst [n]byte; copy(dst[:], src)`: truncate or zero-pad to exactly `n` bytes. -/
def copyN (n : Nat) (src : Bytes) : Bytes := src.take n ++ List.replicate (n - src.length) 0

/-- Ideal signature: the pair (signer key, signed message) – `signer.SignMessage(ctx, msg, keyLocator)`. -/
structure Sig where
  signer : Bytes
  msg : Bytes
deriving DecidableEq, Repr

/-- `auctioneerrpc.ClientAuctionMessage` variants sent during the handshake. -/
inductive ClientMsg
  | commit (commitHash : Bytes) (batchVersion : Nat)
  | subscribe (traderKey commitNonce : Bytes) (authSig : Sig)
deriving DecidableEq, Repr

/-- step 1 of `authenticate`: `s.commitHash = CommitAccount(acctPubKey, nonce)`; send `Commit`. -/
def authCommit (H : Bytes → Bytes) (acctPubKey nonce : Bytes) (batchVersion : Nat) : ClientMsg :=
  .commit (commitAccount H acctPubKey nonce) batchVersion

/-- step 3 of `authenticate` on receipt of a `ServerChallenge` whose `Challenge` field is `challengeField`:
`copy(serverChallenge[:], msg.Challenge.Challenge); authHash := AuthHash(s.commitHash, serverChallenge);
sig := SignMessage(authHash, acctKey.KeyLocator)`; send `Subscribe{TraderKey, CommitNonce, AuthSig}`. -/
def authSubscribe (H : Bytes → Bytes) (acctPubKey nonce challengeField : Bytes) : ClientMsg :=
  let commitHash := commitAccount H acctPubKey nonce
  let serverChallenge := copyN 32 challengeField
  .subscribe acctPubKey nonce ⟨acctPubKey, authHash H commitHash serverChallenge⟩

/-- The auctioneer's verification of step 3, written from the property text: the commitment received in step 1
opens to (key, nonce) and the signature is by that key over `H(commit ‖ challenge)`. -/
def serverVerify (H : Bytes → Bytes) (commit challenge : Bytes) : ClientMsg → Bool
  | .subscribe k n sig => H (k ++ n) == commit && sig == ⟨k, H (commit ++ challenge)⟩
  | .commit _ _ => false

/-! ## auctioneer/client.go — connectServerStream retry loop -/

/-- Go int64 wrap-around (`time.Duration` is `int64`). -/
def wrap64 (x : Int) : Int := (x + 9223372036854775808) % 18446744073709551616 - 9223372036854775808

/-- the update after a failed attempt:
`backoff *= 2; if backoff == 0 { backoff = MinBackoff }; if backoff > MaxBackoff { backoff = MaxBackoff }` -/
def nextBackoff (minB maxB b : Int) : Int :=
  let b1 := wrap64 (b * 2)
  let b2 := if b1 = 0 then minB else b1
  if b2 > maxB then maxB else b2

/-- Outcome of the loop `for i := 0; i < numRetries; i++` when the first `fails` connection attempts fail:
`waits` = arguments of `c.wait(backoff)` in call order, `backoffs` = value of `backoff` after each failed attempt
(what the code logs), `ok` = the loop ended with `err == nil`. -/
structure ConnRes where
  waits : List Int
  backoffs : List Int
  ok : Bool
deriving DecidableEq, Repr

def connLoop (minB maxB : Int) : (remaining : Nat) → (fails : Nat) → (backoff : Int) → ConnRes
  | 0, _, _ => ⟨[], [], false⟩
  | r + 1, fails, b =>
    let w := if b ≠ 0 then [b] else []
    match fails with
    | 0 => ⟨w, [], true⟩
    | f + 1 =>
      let b' := nextBackoff minB maxB b
      let rest := connLoop minB maxB r f b'
      ⟨w ++ rest.waits, b' :: rest.backoffs, rest.ok⟩

/-- `connectServerStream(initialBackoff, numRetries)` up to the point where the stream is opened.  With
`numRetries ≤ 0` the loop body never runs, `err` stays nil and the code goes on to open the stream. -/
def connect (initB minB maxB : Int) (numRetries fails : Nat) : ConnRes :=
  if numRetries = 0 then ⟨[], [], true⟩ else connLoop minB maxB numRetries fails initB

/-- the value the first argument of a `connectServerStream(initialBackoff, numRetries)` call denotes, as the fact
extractor prints it (`Pool.Gen.C18Sem.firstConnectInit`, `reconnectInit`: `"MIN"` = `c.cfg.MinBackoff`) -/
def initOf (sym : String) (minB : Int) : Option Int :=
  if sym = "MIN" then some minB else if sym = "0" then some 0 else none

/-- the reconnect of `HandleServerShutdown` as the source calls it now -/
def reconnect (minB maxB : Int) (fails : Nat) : Option ConnRes :=
  (initOf Pool.Gen.C18Sem.reconnectInit minB).map fun i =>
    connect i minB maxB Pool.Gen.C18Sem.reconnectRetriesArg fails

/-- the first connect of `connectAndAuthenticate` as the source calls it now -/
def firstConnect (minB maxB : Int) (fails : Nat) : Option ConnRes :=
  (initOf Pool.Gen.C18Sem.firstConnectInit minB).map fun i =>
    connect i minB maxB Pool.Gen.C18Sem.firstConnectRetries fails

/-! ## auctioneer/err_chan_switch.go

Atomic steps (one per channel operation / mutex acquisition of the Go code):
* `send e`     – a goroutine starts `ErrChan() <- e` (it blocks until `run` receives);
* `recv i`     – `run`'s `case msg := <-s.incomingChan` takes the `i`-th blocked sender's value;
* `lock`       – `run` acquires the mutex and reads `s.diverted` / `s.tempChan`: the target is fixed here;
* `deliver`    – the chosen target channel's reader receives the value; `run` unlocks;
* `divert c`   – `Divert(c)`  (needs the mutex: disabled while `run` holds it);
* `restore`    – `Restore()`  (needs the mutex). -/

inductive Target
  | main
  | temp (chan : Nat)
deriving DecidableEq, Repr

structure Switch where
  diverted : Bool := false
  tempChan : Option Nat := none
  /-- values of goroutines blocked in `ErrChan() <- e` -/
  pending : List Nat := []
  /-- received by `run`, mutex not yet taken -/
  held : Option Nat := none
  /-- mutex held by `run`, blocked in `target <- msg`; the `Bool` is a ghost: `s.diverted` as read under the mutex -/
  inflight : Option (Nat × Target × Bool) := none
  /-- ghost: (error, target it was handed to, value of `diverted` when the mutex was taken) in delivery order -/
  delivered : List (Nat × Target × Bool) := []
deriving DecidableEq, Repr

inductive Act
  | send (e : Nat)
  | recv (i : Nat)
  | lock
  | deliver
  | divert (c : Nat)
  | restore
deriving DecidableEq, Repr

/-- `s.tempChan <- msg` with `diverted` set; a nil `tempChan` can only be observed with `diverted = false`. -/
def Switch.target (s : Switch) : Target :=
  if s.diverted then (match s.tempChan with | some c => .temp c | none => .main) else .main

/-- one atomic step; `none` = the action is not enabled in this state (the goroutine stays blocked). -/
def Switch.step (s : Switch) : Act → Option Switch
  | .send e => some { s with pending := s.pending ++ [e] }
  | .recv i =>
    match s.held, s.inflight, s.pending[i]? with
    | none, none, some e => some { s with held := some e, pending := s.pending.eraseIdx i }
    | _, _, _ => none
  | .lock =>
    match s.held, s.inflight with
    | some e, none => some { s with held := none, inflight := some (e, s.target, s.diverted) }
    | _, _ => none
  | .deliver =>
    match s.inflight with
    | some x => some { s with inflight := none, delivered := s.delivered ++ [x] }
    | none => none
  | .divert c =>
    match s.inflight with
    | none => some { s with diverted := true, tempChan := some c }
    | some _ => none
  | .restore =>
    match s.inflight with
    | none => some { s with diverted := false, tempChan := none }
    | some _ => none

/-- run a schedule; disabled actions are skipped (the acting goroutine simply did not get to run). -/
def Switch.run (s : Switch) : List Act → Switch
  | [] => s
  | a :: as => (match s.step a with | some s' => s' | none => s).run as

/-- errors currently inside the switch (blocked senders, `run`'s local variable, in-flight) -/
def Switch.inside (s : Switch) : List Nat :=
  s.pending ++ s.held.toList ++ (s.inflight.toList.map (·.1))

/-- all `send` actions of a schedule, in order -/
def sentOf : List Act → List Nat
  | [] => []
  | .send e :: as => e :: sentOf as
  | _ :: as => sentOf as

end Pool.C18
