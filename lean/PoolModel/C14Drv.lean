import PoolModel.C14
import PoolModel.Sha256
import PoolModel.Util
/-!
Line-protocol driver of the C14 model.

Ticket token (space free), 13 comma separated fields, or `nil`:
`id,version,state,capacity,pushAmt,lease,signPubKey,sigOffer,auto,unannounced,zeroConf,recipient,order`
* keys: decimal id or `-` (nil); signatures: `-` or `<signer key>.<hex msg>` (the ideal view of a real
  signature: who signed which message; a signature nobody made is `0.-`)
* recipient: `-` or `<nodeKey>/<multiSigKey>/<idx>`; order: `-` or `<hex nonce>/<sig>`

Ops → output
* `offerdigest T` / `orderdigest T`          → `ok:<hex sha256>` | `err/pre`
* `verifyoffer T` / `verifyorder T`          → `ok` | `err:<kind>`
* `signoffer T k`                            → `ok T'` | `err:<kind>`
* `signorder T nonce k`                      → `ok T'` | `err:<kind> T'`
* `provider T auctionType bidAmt minUnits nonce acctKey k bidLease bidSelfChanBal bidUnann bidZeroConf`
                                             → `ok T'` | `err:<kind> T'`
* `checkoffer auctionType capacity pushAmt`  → `ok` | `err:<kind>`
* `validateordered T known`                  → `ok` | `err:<kind>`
* `register T known nodeKey msKey idx`       → `ok T'` | `err:<kind>`
-/
namespace Pool.C14
open Pool.Util

def sha (b : Bytes) : Bytes := Pool.Sha256.sha256 b

def errName : Err → String
  | .state => "state" | .offerState => "offer-state" | .unsigned => "unsigned"
  | .orderUnsigned => "order-unsigned" | .nonceEmpty => "nonce-empty"
  | .digestVersion => "digest-version" | .digestState => "digest-state" | .badSig => "badsig"
  | .panic => "panic" | .facts => "facts" | .ticketState => "ticket-state" | .recipient => "recipient"
  | .notOurs => "not-ours" | .market => "market" | .capacity => "capacity" | .pushAmt => "push"
  | .pushOut => "push-out" | .bidAmt => "bid-amt" | .minUnits => "min-units" | .exists => "exists"
  | .unknown => "unknown" | .bidLease => "bid-lease" | .bidPush => "bid-push"
  | .bidUnannounced => "bid-unannounced" | .bidZeroConf => "bid-zeroconf"

/-- outcome class compared with the real code: which call failed, not which message it printed -/
def errOut : Err → String
  | .badSig => "err/sig" | .panic => "err:panic" | .facts => "err:facts" | _ => "err/pre"

def pOptKey (s : String) : Option (Option Key) :=
  if s == "-" then some none else s.toNat?.map some

def pBool (s : String) : Option Bool :=
  if s == "1" then some true else if s == "0" then some false else none

def pSig (s : String) : Option (Option Sig) :=
  if s == "-" then some none else
  match s.splitOn "." with
  | [k, m] => do let k ← k.toNat?; let m ← unhex m; pure (some ⟨k, m⟩)
  | _ => none

def pRecip (s : String) : Option (Option Recipient) :=
  if s == "-" then some none else
  match s.splitOn "/" with
  | [a, b, i] => do
    let a ← pOptKey a; let b ← pOptKey b; let i ← i.toNat?
    pure (some { nodeKey := a, multiSigKey := b, idx := i })
  | _ => none

def pOrder (s : String) : Option (Option Order) :=
  if s == "-" then some none else
  match s.splitOn "/" with
  | [n, g] => do let n ← unhex n; let g ← pSig g; pure (some { bidNonce := n, sig := g })
  | _ => none

def pTicket (s : String) : Option (Option Ticket) :=
  if s == "nil" then some none else
  match s.splitOn "," with
  | [id, ver, st, cap, push, lease, pk, so, au, un, zc, rc, od] => do
    let id ← unhex id; let ver ← ver.toNat?; let st ← st.toNat?
    let cap ← cap.toInt?; let push ← push.toInt?; let lease ← lease.toNat?
    let pk ← pOptKey pk; let so ← pSig so
    let au ← pBool au; let un ← pBool un; let zc ← pBool zc
    let rc ← pRecip rc; let od ← pOrder od
    pure (some { id := id, version := ver, state := st, capacity := cap, pushAmt := push,
                 leaseDuration := lease, signPubKey := pk, sigOffer := so, auto := au,
                 unannounced := un, zeroConf := zc, recipient := rc, order := od })
  | _ => none

/-- a ticket that must not be nil (the Go caller dereferences it unconditionally) -/
def pTicket1 (s : String) : Option Ticket := (pTicket s).bind id

def fOptKey : Option Key → String
  | none => "-" | some k => toString k
def fBool (b : Bool) : String := if b then "1" else "0"
def fSig : Option Sig → String
  | none => "-" | some σ => s!"{σ.signer}.{hex σ.msg}"
def fRecip : Option Recipient → String
  | none => "-" | some r => s!"{fOptKey r.nodeKey}/{fOptKey r.multiSigKey}/{r.idx}"
def fOrder : Option Order → String
  | none => "-" | some o => s!"{hex o.bidNonce}/{fSig o.sig}"
def fTicket (t : Ticket) : String :=
  joinWith "," [hex t.id, toString t.version, toString t.state, toString t.capacity, toString t.pushAmt,
    toString t.leaseDuration, fOptKey t.signPubKey, fSig t.sigOffer, fBool t.auto, fBool t.unannounced,
    fBool t.zeroConf, fRecip t.recipient, fOrder t.order]
def fOptTicket : Option Ticket → String
  | none => "nil" | some t => fTicket t

def fUnit : Except Err Unit → String
  | .ok () => "ok" | .error e => errOut e
def fDigest : Except Err Bytes → String
  | .ok d => "ok:" ++ hex d | .error e => errOut e

abbrev DrvSt := Unit
def drvInit : DrvSt := ()

def run (args : List String) : Option String :=
  match args with
  | ["offerdigest", t] => do let t ← pTicket1 t; pure (fDigest (offerDigest sha t))
  | ["orderdigest", t] => do let t ← pTicket1 t; pure (fDigest (orderDigest sha t))
  | ["verifyoffer", t] => do let t ← pTicket t; pure (fUnit (verifyOffer sha t))
  | ["verifyorder", t] => do let t ← pTicket t; pure (fUnit (verifyOrder sha t))
  | ["signoffer", t, k] => do
    let t ← pTicket t; let k ← k.toNat?
    pure (match signOffer sha t k with
      | .ok t' => "ok " ++ fTicket t'
      | .error e => errOut e)
  | ["signorder", t, n, k] => do
    let t ← pTicket t; let n ← unhex n; let k ← k.toNat?
    pure (match signOrder sha t n k with
      | (t', none) => "ok " ++ fOptTicket t'
      | (t', some e) => errOut e ++ " " ++ fOptTicket t')
  | ["provider", t, at_, amt, mu, n, ak, k, bl, bs, bu, bz] => do
    let bl ← bl.toNat?; let bs ← bs.toInt?; let bu ← pBool bu; let bz ← pBool bz
    let t ← pTicket1 t
    let at_ ← at_.toNat?; let amt ← amt.toInt?; let mu ← mu.toNat?; let n ← unhex n
    let ak ← ak.toNat?; let k ← k.toNat?
    let bid : BidTerms := ⟨at_, amt, mu, n, bl, bs, bu, bz⟩
    pure (match validateAndSign sha t bid ak k with
      | (t', none) => "ok " ++ fTicket t'
      | (t', some e) => errOut e ++ " " ++ fTicket t')
  | ["checkoffer", at_, cap, push] => do
    let at_ ← at_.toNat?; let cap ← cap.toInt?; let push ← push.toInt?
    pure (match checkOfferParams at_ cap push baseUnit with
      | none => "ok" | some e => errOut e)
  | ["validateordered", t, known] => do
    let t ← pTicket1 t
    let known ← pBool known
    pure (match validateOrderedTicket sha t known with
      | none => "ok" | some e => errOut e)
  | ["register", t, known, nk, mk, idx] => do
    let t ← pTicket1 t
    let known ← pBool known; let nk ← nk.toNat?; let mk ← mk.toNat?; let idx ← idx.toNat?
    pure (match registerSidecar sha t known nk mk idx with
      | .ok t' => "ok " ++ fTicket t'
      | .error e => errOut e)
  | _ => none

def drvStep (s : DrvSt) (args : List String) : DrvSt × String :=
  (s, (run args).getD "bad-op")

end Pool.C14
