import PoolModel.Dec.Mut
import PoolModel.Dec.RpcFmt
import PoolModel.Sha256
/-! Line-protocol driver of the C19 model (decoding untrusted input never panics).
  `tkt <hex>`  → outcome of `DeserializeTicket` on arbitrary bytes
  `str <hex>`  → outcome of `DecodeString` on an arbitrary string (hex of its bytes)
  `prep <msg>` → `ParseRPCBatch` outcome, then what the rpcServer and the SidecarAcceptor handlers do
  `mo <entry>` → outcome class of `ParseRPCMatchedOrders` on one (nonce, MatchedOrder) map entry
  `pcls <msg>` → outcome class of `ParseRPCBatch` only (messages of the concurrent scenarios)
  `sign <msg>` → `ParseRPCSign` outcome, the rpcServer handler without / with a pending batch, the
                 acceptor handler without a pending batch -/
namespace Pool.C19
open Pool.Dec Pool.Util

abbrev DrvSt := Unit
def drvInit : DrvSt := ()

def cfg : Cfg := repoCfg goMaxAlloc
def H : Bytes → Bytes := Pool.Sha256.sha256

def drvStep (s : DrvSt) (args : List String) : DrvSt × String :=
  match args with
  | ["tkt", h] =>
    match unhex h with
    | some b => (s, fmtOutcome fmtTicket (deserializeTicket cfg b))
    | none => (s, "bad-op")
  | ["str", h] =>
    match unhex h with
    | some b => (s, fmtOutcome fmtTicket (decodeString H cfg b))
    | none => (s, "bad-op")
  | ["prep", m] =>
    match (parseSx m).bind sxPrepare with
    | some m =>
      (s, joinWith " " [(parseRPCBatch repoRpcCfg m).cls, fmtHandled (handlePrepare repoRpcCfg m),
                        fmtHandled (acceptorHandlePrepare repoRpcCfg m)])
    | none => (s, "bad-op")
  | ["prepc", m] =>
    match (parseSx m).bind sxPrepare with
    | some m =>
      (s, joinWith " " [(parseRPCBatch repoRpcCfg m).cls, fmtHandled (handlePrepare repoRpcCfg m),
                        fmtHandled (acceptorHandlePrepare repoRpcCfg m)])
    | none => (s, "bad-op")
  | ["mo", m] =>
    match (parseSx m).bind sxOrders with
    | some e => (s, (parseRPCMatchedOrders repoRpcCfg e.2).cls)
    | none => (s, "bad-op")
  | ["pcls", m] =>
    match (parseSx m).bind sxPrepare with
    | some m => (s, (parseRPCBatch repoRpcCfg m).cls)
    | none => (s, "bad-op")
  | ["sign", m] =>
    match (parseSx m).bind sxSign with
    | some m =>
      (s, joinWith " " [(parseRPCSign m).cls, fmtHandled (handleSign repoRpcCfg none m),
                        fmtHandled (handleSign repoRpcCfg (some (List.replicate 33 0)) m),
                        fmtHandled (acceptorHandleSign repoRpcCfg none m)])
    | none => (s, "bad-op")
  | _ => (s, "bad-op")

end Pool.C19
