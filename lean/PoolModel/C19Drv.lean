import PoolModel.Dec.Mut
import PoolModel.Sha256
/-! Line-protocol driver of the C19 model (decoding untrusted input never panics).
  `tkt <hex>`  → outcome of `DeserializeTicket` on arbitrary bytes
  `str <hex>`  → outcome of `DecodeString` on an arbitrary string (hex of its bytes) -/
namespace Pool.C19
open Pool.Dec Pool.Util

abbrev DrvSt := Unit
def drvInit : DrvSt := ()

def cfg : Cfg := repoCfg goMaxAlloc
def H : Bytes → Bytes := Pool.Sha256.sha256

def drvStep (s : DrvSt) (args : List String) : DrvSt × String :=
  match args with
  | ["tkt", h] =>
    match unhex h with
    | some b => (s, fmtOutcome fmtTicket (deserializeTicket cfg b))
    | none => (s, "bad-op")
  | ["str", h] =>
    match unhex h with
    | some b => (s, fmtOutcome fmtTicket (decodeString H cfg b))
    | none => (s, "bad-op")
  | _ => (s, "bad-op")

end Pool.C19
