import PoolModel.C11
import PoolModel.Util
/-! Line-protocol driver of the C11 model.

An order token is `isBid,auctionType,version,state,fixedRate,amt,units,unitsUnfulfilled,minUnitsMatch,maxBatchFeeRate,
leaseDuration,selfChanBalance,acctKey` (decimal, comma separated).

* `consts`                                            → the regenerated constants the model uses
* `prem <amt> <rate> <dur>`                           → `LumpSumPremium` | `ood`
* `premi <amt> <rate> <dur>`                          → `Float64.premiumInt` (any int64 amount, amd64 out-of-range value)
* `vu (<order> <unitsFilled>)*`                       → `ok` iff every pair passes `verifyUnitsOk` (unit checks of `Verify`)
* `arch <state>`                                      → `State.Archived`
* `tf <numChans> <feeRate> <ver>`                     → `EstimateTraderFee`
* `rv <order> <baseFee> <feeRate> <ver>`              → `ReservedValue` | `panic` | `ood`
* `md <order> <baseFee> <feeRate> <units> <price> <otherSelf>` → `-balanceDelta` of Calc{Taker,Maker}Delta | `ood`
* `bd <order> <baseFee> <feeRate> <batchFeeRate> <ver> <price> <otherSelf> <u1,u2,…>` → debit of one batch | `ood`
* `val <key,value,ver> <baseFee,feeRate,d1/d2/…> <order> <stored order>*` → `validateOrder` outcome
* `avail <baseFee> <feeRate> <key:value:ver;…> <order>*` → available balances `v1,v2,…` | `panic` | `ood` -/
namespace Pool.C11
open Pool.Util Pool.Gen.Reserve

def splitNats (sep : Char) (s : String) : Option (List Nat) :=
  if s == "-" then some [] else (s.split (· == sep)).toList.mapM (fun t => t.toString.toNat?)

def parseOrder (s : String) : Option Order :=
  match splitNats ',' s with
  | some [b, at_, v, st, fr, amt, u, uu, mu, mf, ld, self, ak] =>
    if b ≤ 1 then some ⟨b == 1, at_, v, st, fr, amt, u, uu, mu, mf, ld, self, ak⟩ else none
  | _ => none

def fmtOutcome : Outcome → String
  | .panic => "panic"
  | .ok v => toString v

def fmtV : VResult → String
  | .ok => "ok" | .errDuration => "err-duration" | .errFeeFloor => "err-fee-floor"
  | .errSelfChan => "err-self-chan" | .errInsufficient => "err-insufficient" | .panic => "panic"

def natList (l : List Nat) : String := joinWith "/" (l.map toString)

def constsLine : String :=
  s!"bsu={baseSupplyUnit} frtp={feeRateTotalParts} arch={natList archivedStates} out={btcOutboundLiquidity} " ++
  s!"in={btcInboundLiquidity} vscb={versionSelfChanBalance} p2wsh={p2wshOutputSize} inp={inputSize} " ++
  s!"wsf={witnessScaleFactor} floor={feePerKwFloor} msw={multiSigWitnessSize} tmsw={taprootMultiSigWitnessSize} " ++
  s!"tapv={natList taprootVersions} efd={execFeeRateDivisor}"

/-- premium of one match is inside the range where Go's float→int conversion is defined -/
def fillInRange (o : Order) (f : Fill) : Bool :=
  let base := toSatoshis f.units + (if o.isBid then o.selfChanBalance else f.otherSelf)
  Pool.Float64.premiumInRange base f.price o.leaseDuration && decide (f.units ≤ 10 ^ 7) &&
    decide (o.selfChanBalance ≤ 10 ^ 11) && decide (f.otherSelf ≤ 10 ^ 11)

abbrev DrvSt := Unit
def drvInit : DrvSt := ()

def run (args : List String) : String :=
  match args with
  | ["consts"] => constsLine
  | ["prem", a, r, d] =>
    match a.toNat?, r.toNat?, d.toNat? with
    | some a, some r, some d =>
      if Pool.Float64.premiumInRange a r d then toString (Pool.Float64.premium a r d) else "ood"
    | _, _, _ => "bad-op"
  | ["premi", a, r, d] =>
    match a.toInt?, r.toNat?, d.toNat? with
    | some a, some r, some d => toString (Pool.Float64.premiumInt a r d)
    | _, _, _ => "bad-op"
  | "vu" :: rest =>
    -- pairs <order> <unitsFilled>: the verifier's unit checks for every matched order of a proposal
    let rec go : List String → Option Bool
      | [] => some true
      | o :: u :: more =>
        match parseOrder o, u.toNat?, go more with
        | some o, some u, some b => some (verifyUnitsOk o u && b)
        | _, _, _ => none
      | _ => none
    match go rest with
    | some true => "ok"
    | some false => "rej"
    | none => "bad-op"
  | ["arch", s] => match s.toNat? with
    | some s => toString (archived s)
    | none => "bad-op"
  | ["tf", k, f, v] =>
    match k.toNat?, f.toNat?, v.toNat? with
    | some k, some f, some v => toString (estimateTraderFee k f v)
    | _, _, _ => "bad-op"
  | ["rv", o, b, fr, v] =>
    match parseOrder o, b.toNat?, fr.toNat?, v.toNat? with
    | some o, some b, some fr, some v =>
      let fs : FeeSchedule := ⟨b, fr⟩
      if archived o.state then "0" else
      if o.minUnitsMatch = 0 then "panic" else
      if !inDomain fs o then "ood" else fmtOutcome (orderReservedValue fs o v)
    | _, _, _, _ => "bad-op"
  | ["md", o, b, fr, u, p, os] =>
    match parseOrder o, b.toNat?, fr.toNat?, u.toNat?, p.toNat?, os.toNat? with
    | some o, some b, some fr, some u, some p, some os =>
      let f : Fill := ⟨u, p, os⟩
      if !fillInRange o f || decide (b > 10 ^ 9) || decide (fr > 10 ^ 6) then "ood"
      else toString (matchDebit ⟨b, fr⟩ o f)
    | _, _, _, _, _, _ => "bad-op"
  | ["bd", o, b, fr, bf, v, p, os, us] =>
    match parseOrder o, b.toNat?, fr.toNat?, bf.toNat?, v.toNat?, p.toNat?, os.toNat?, splitNats ',' us with
    | some o, some b, some fr, some bf, some v, some p, some os, some us =>
      let fills : List Fill := us.map fun u => ⟨u, p, os⟩
      if fills.any (fun f => !fillInRange o f) || decide (b > 10 ^ 9) || decide (fr > 10 ^ 6) ||
          decide (bf > 10 ^ 8) || decide (us.length > 10 ^ 6) then "ood"
      else toString (batchDebit ⟨b, fr⟩ o ⟨bf, v, fills⟩)
    | _, _, _, _, _, _, _, _ => "bad-op"
  | "val" :: a :: t :: o :: stored =>
    match splitNats ',' a, (t.split (· == ',')).toList.map (·.toString), parseOrder o, stored.mapM parseOrder with
    | some [k, value, ver], [tb, tr, bk], some o, some db =>
      match tb.toNat?, tr.toNat?, splitNats '/' bk with
      | some tb, some tr, some bk =>
        let acct : Account := ⟨k, value, ver⟩
        let t : Terms := ⟨tb, tr, bk⟩
        let fs : FeeSchedule := ⟨tb, tr⟩
        let res := validateOrder db o acct t
        -- the three formal checks come before any arithmetic
        if res == .errDuration || res == .errFeeFloor || res == .errSelfChan then fmtV res else
        let relevant := (o :: db.filter (fun x => x.acctKey == k)).filter
          (fun x => !archived x.state && x.minUnitsMatch != 0)
        if relevant.any (fun x => !inDomain fs x) then "ood" else
        -- no int64 overflow of the running sum
        let total : Int := (relevant.map fun x => match orderReservedValue fs x ver with | .ok v => v | .panic => 0).sum
        if decide (value ≥ 2 ^ 62) || decide (total ≥ 2 ^ 62) then "ood" else fmtV res
      | _, _, _ => "bad-op"
    | _, _, _, _ => "bad-op"
  | "avail" :: b :: fr :: accts :: orders =>
    match b.toNat?, fr.toNat?, (accts.split (· == ';')).toList.mapM (fun s => splitNats ':' s.toString),
          orders.mapM parseOrder with
    | some b, some fr, some al, some os =>
      let fs : FeeSchedule := ⟨b, fr⟩
      match al.mapM (fun a => match a with | [k, v, ver] => some (Account.mk k v ver) | _ => none) with
      | none => "bad-op"
      | some al =>
        if os.any (fun x => !archived x.state && x.minUnitsMatch != 0 && !inDomain fs x) ||
           al.any (fun a => decide (a.value ≥ 2 ^ 62)) then "ood" else
        match al.mapM (availableBalance fs os) with
        | none => "panic"
        | some vs => joinWith "," (vs.map toString)
    | _, _, _, _ => "bad-op"
  | _ => "bad-op"

def drvStep (s : DrvSt) (args : List String) : DrvSt × String := (s, run args)

end Pool.C11
