import PoolModel.Sha256
import PoolModel.Generated.C04Facts

/-!
# C04 model — account output scripts, their witnesses and a script interpreter for exactly these scripts

Go / btcd source                                         model
----------------                                         -----
txscript.scriptNum.Bytes (n ≥ 0)                         `scriptNumBytes`
txscript.MakeScriptNum / checkMinimalDataEncoding        `makeScriptNum` / `checkMinimal`
txscript.ScriptBuilder.AddOp/AddData/AddInt64            `Builder.addOp/addData/addInt64`
poolscript.accountWitnessScript, TaprootExpiryScript     `accountWitnessScript`, `taprootExpiryScript`: the
                                                         *regenerated* builder-call lists run through `Builder`
txscript script parsing (only the opcodes used)          `parseScript`
txscript.Engine (opcodes DATA, CHECKSIG(VERIFY), IFDUP,  `step`, `runScript`, `finalCheck`
  NOTIF, ENDIF, CLTV, DROP; StandardVerifyFlags)
Engine.verifyWitnessProgram (p2wsh, taproot)             `verifyP2WSH`, `verifyTaproot`
poolscript.Spend* / Is*Spend / hasAnnex                  `spend*`, `is*Spend`, `hasAnnex`
manager.HandleAccountSpend's `switch`                    `classify` (folds the regenerated case list)
account.determineWitnessType, spendAccount lock time     `determineWitnessType`, `spendLockTime` (regenerated tables)

Cryptography is *ideal*: signature verification is a parameter `sigOK : pubkey → signature → Bool` of the
interpreter (the driver instantiates it by a table of recorded signatures `⟨pk, msg⟩`, the theorems either
quantify over it or instantiate it by an injective `sign`); SHA-256 of the witness script is the executable
`Pool.Sha256.sha256`; the taproot commitment check is an uninterpreted predicate `commitOK`.
Bit tests of the Go code (`b & 0x80 != 0`, `b & 0x7f == 0`) are written as `b.toNat ≥ 128`, `b.toNat % 128 = 0`.
Not modelled: the 201-opcode / 1000-stack-element / sigops-budget limits (the scripts have ≤ 9 opcodes).
-/
namespace Pool.C04

abbrev Bytes := List UInt8

/-! ## opcodes (btcd txscript/opcode.go) -/
def OP_0 : UInt8 := 0x00
def OP_PUSHDATA1 : UInt8 := 0x4c
def OP_PUSHDATA2 : UInt8 := 0x4d
def OP_PUSHDATA4 : UInt8 := 0x4e
def OP_1NEGATE : UInt8 := 0x4f
def OP_NOTIF : UInt8 := 0x64
def OP_ENDIF : UInt8 := 0x68
def OP_IFDUP : UInt8 := 0x73
def OP_DROP : UInt8 := 0x75
def OP_CHECKSIG : UInt8 := 0xac
def OP_CHECKSIGVERIFY : UInt8 := 0xad
def OP_CHECKLOCKTIMEVERIFY : UInt8 := 0xb1

def opcodeByName (s : String) : Option UInt8 :=
  if s == "txscript.OP_CHECKSIGVERIFY" then some OP_CHECKSIGVERIFY
  else if s == "txscript.OP_CHECKSIG" then some OP_CHECKSIG
  else if s == "txscript.OP_IFDUP" then some OP_IFDUP
  else if s == "txscript.OP_NOTIF" then some OP_NOTIF
  else if s == "txscript.OP_ENDIF" then some OP_ENDIF
  else if s == "txscript.OP_DROP" then some OP_DROP
  else if s == "txscript.OP_CHECKLOCKTIMEVERIFY" then some OP_CHECKLOCKTIMEVERIFY
  else none

def MaxScriptSize : Nat := 10000
def MaxScriptElementSize : Nat := 520
def LockTimeThreshold : Nat := 500000000
def MaxTxInSequenceNum : Nat := 0xffffffff
def cltvMaxScriptNumLen : Nat := 5

/-! ## script numbers -/

/-- the `for n > 0 { result = append(result, byte(n&0xff)); n >>= 8 }` loop of `scriptNum.Bytes`
(fuel 9 = capacity of the Go buffer; an int64 needs at most 8 rounds). -/
def leBytesAux : Nat → Nat → Bytes
  | 0, _ => []
  | f + 1, n => if n = 0 then [] else UInt8.ofNat (n % 256) :: leBytesAux f (n / 256)

/-- `scriptNum(n).Bytes()` for `n ≥ 0`. -/
def scriptNumBytes (n : Nat) : Bytes :=
  if n = 0 then [] else
  let result := leBytesAux 9 n
  match result.getLast? with
  | some b => if b.toNat ≥ 128 then result ++ [0] else result
  | none => result

def decodeLE : Bytes → Nat
  | [] => 0
  | b :: bs => b.toNat + 256 * decodeLE bs

inductive Err where
  | numberTooBig | minimalData | negativeLockTime | unsatisfiedLockTime
  | invalidStackOperation | checkSigVerify | nullFail | minimalIf | unbalancedConditional
  | evalFalse | cleanStack | emptyStack | elementTooBig
  | witnessProgramEmpty | witnessProgramMismatch | scriptTooBig | unsupportedScript
  | taprootSigInvalid | controlBlock | taprootMerkleProof | discourageLeafVersion
  | taprootPubkeyIsEmpty | discouragePubKeyType | taprootSigLen
deriving Repr, DecidableEq

def Err.name : Err → String
  | .numberTooBig => "ErrNumberTooBig" | .minimalData => "ErrMinimalData"
  | .negativeLockTime => "ErrNegativeLockTime" | .unsatisfiedLockTime => "ErrUnsatisfiedLockTime"
  | .invalidStackOperation => "ErrInvalidStackOperation" | .checkSigVerify => "ErrCheckSigVerify"
  | .nullFail => "ErrNullFail" | .minimalIf => "ErrMinimalIf"
  | .unbalancedConditional => "ErrUnbalancedConditional" | .evalFalse => "ErrEvalFalse"
  | .cleanStack => "ErrCleanStack" | .emptyStack => "ErrEmptyStack" | .elementTooBig => "ErrElementTooBig"
  | .witnessProgramEmpty => "ErrWitnessProgramEmpty" | .witnessProgramMismatch => "ErrWitnessProgramMismatch"
  | .scriptTooBig => "ErrScriptTooBig" | .unsupportedScript => "unsupported-script"
  | .taprootSigInvalid => "ErrTaprootSigInvalid" | .controlBlock => "ErrControlBlock"
  | .taprootMerkleProof => "ErrTaprootMerkleProofInvalid"
  | .discourageLeafVersion => "ErrDiscourageUpgradeableTaprootVersion"
  | .taprootPubkeyIsEmpty => "ErrTaprootPubkeyIsEmpty" | .discouragePubKeyType => "ErrDiscourageUpgradeablePubKeyType"
  | .taprootSigLen => "ErrInvalidTaprootSigLen"

/-- `checkMinimalDataEncoding` (true = minimally encoded) -/
def checkMinimal (v : Bytes) : Bool :=
  match v.reverse with
  | [] => true
  | last :: rest =>
    if last.toNat % 128 = 0 then
      match rest with
      | [] => false
      | prev :: _ => decide (prev.toNat ≥ 128)
    else true

/-- `MakeScriptNum(v, requireMinimal, scriptNumLen)` -/
def makeScriptNum (v : Bytes) (requireMinimal : Bool) (scriptNumLen : Nat) : Except Err Int :=
  if v.length > scriptNumLen then .error .numberTooBig
  else if requireMinimal && !checkMinimal v then .error .minimalData
  else match v.reverse with
    | [] => .ok 0
    | last :: _ =>
      let result := decodeLE v
      if last.toNat ≥ 128 then .ok (-((result - 128 * 256 ^ (v.length - 1) : Nat) : Int))
      else .ok (result : Int)

/-- `asBool` of txscript/stack.go -/
def asBool : Bytes → Bool
  | [] => false
  | [b] => b.toNat != 0 && b.toNat != 0x80
  | b :: rest => b.toNat != 0 || asBool rest

def fromBool (v : Bool) : Bytes := if v then [1] else []

/-! ## ScriptBuilder -/

structure Builder where
  script : Bytes := []
  err : Bool := false
deriving Repr

def leN (n k : Nat) : Bytes := (List.range k).map fun i => UInt8.ofNat ((n / 256 ^ i) % 256)

/-- bytes appended by `ScriptBuilder.addData` -/
def addDataBytes (data : Bytes) : Bytes :=
  match data with
  | [] => [OP_0]
  | [b] =>
    if b.toNat = 0 then [OP_0]
    else if b.toNat ≤ 16 then [UInt8.ofNat (0x50 + b.toNat)]
    else if b.toNat = 0x81 then [OP_1NEGATE]
    else [UInt8.ofNat 1, b]
  | _ =>
    let n := data.length
    if n < 0x4c then UInt8.ofNat n :: data
    else if n ≤ 0xff then OP_PUSHDATA1 :: UInt8.ofNat n :: data
    else if n ≤ 0xffff then OP_PUSHDATA2 :: (leN n 2 ++ data)
    else OP_PUSHDATA4 :: (leN n 4 ++ data)

/-- `canonicalDataSize` -/
def canonicalDataSize (data : Bytes) : Nat :=
  match data with
  | [] => 1
  | [b] => if b.toNat ≤ 16 then 1 else if b.toNat = 0x81 then 1 else 2
  | _ =>
    let n := data.length
    if n < 0x4c then 1 + n else if n ≤ 0xff then 2 + n else if n ≤ 0xffff then 3 + n else 5 + n

def Builder.addOp (b : Builder) (op : UInt8) : Builder :=
  if b.err then b
  else if b.script.length + 1 > MaxScriptSize then { b with err := true }
  else { b with script := b.script ++ [op] }

def Builder.addData (b : Builder) (data : Bytes) : Builder :=
  if b.err then b
  else if b.script.length + canonicalDataSize data > MaxScriptSize then { b with err := true }
  else if data.length > MaxScriptElementSize then { b with err := true }
  else { b with script := b.script ++ addDataBytes data }

/-- `AddInt64(val)` for `val ≥ 0` (the callers pass `int64(expiry)`, `expiry : uint32`) -/
def Builder.addInt64 (b : Builder) (val : Nat) : Builder :=
  if b.err then b
  else if b.script.length + 1 > MaxScriptSize then { b with err := true }
  else if val = 0 then { b with script := b.script ++ [OP_0] }
  else if val ≤ 16 then { b with script := b.script ++ [UInt8.ofNat (0x50 + val)] }
  else b.addData (scriptNumBytes val)

/-- run a regenerated list of `builder.<Method>(<arg>)` calls; argument expressions are resolved through
`dataEnv` / `intEnv`; anything not understood sets the error flag (so a changed source breaks the proofs,
not the build). -/
def runCalls (dataEnv : String → Option Bytes) (intEnv : String → Option Nat) :
    List (String × String) → Builder → Builder
  | [], b => b
  | (m, a) :: rest, b =>
    let b' :=
      if m == "AddOp" then
        match opcodeByName a with
        | some op => b.addOp op
        | none => { b with err := true }
      else if m == "AddData" then
        match dataEnv a with
        | some d => b.addData d
        | none => { b with err := true }
      else if m == "AddInt64" then
        match intEnv a with
        | some v => b.addInt64 v
        | none => { b with err := true }
      else { b with err := true }
    runCalls dataEnv intEnv rest b'

/-- poolscript.accountWitnessScript(expiry, tweakedTraderKey, tweakedAuctioneerKey) -/
def accountWitnessScriptB (expiry : Nat) (tk ak : Bytes) : Builder :=
  runCalls
    -- parameters of accountWitnessScript(expiry, tweakedTraderKey, tweakedAuctioneerKey) by position
    (fun a => if a == "$p1" then some tk else if a == "$p2" then some ak else none)
    (fun a => if a == "$p0" then some expiry else none)
    Gen.C04.accountWitnessScriptCalls {}

def accountWitnessScript (expiry : Nat) (tk ak : Bytes) : Bytes := (accountWitnessScriptB expiry tk ak).script

/-- the script of poolscript.TaprootExpiryScript; `tkx` = schnorr.SerializePubKey(tweakedTraderKey) -/
def taprootExpiryScriptB (expiry : Nat) (tkx : Bytes) : Builder :=
  runCalls
    -- the x-only serialisation of the local tweaked trader key; expiry = parameter 0
    (fun a => if a == "schnorr.SerializePubKey($v)" then some tkx else none)
    (fun a => if a == "$p0" then some expiry else none)
    Gen.C04.taprootExpiryScriptCalls {}

def taprootExpiryScript (expiry : Nat) (tkx : Bytes) : Bytes := (taprootExpiryScriptB expiry tkx).script

/-! ## parsed instructions (only what the account scripts use) -/

inductive Instr where
  | push (data : Bytes)            -- canonical data push (OP_0, OP_1..16, OP_1NEGATE, OP_DATA_n, PUSHDATA1)
  | pushNonMinimal (data : Bytes)  -- a push that violates `checkMinimalDataPush`
  | checksig | checksigverify | ifdup | notif | endif | cltv | drop
deriving Repr, DecidableEq

/-- `checkMinimalDataPush` for a one-byte OP_DATA_1 push: 1..16 and 0x81 have dedicated opcodes -/
def isSmallIntPush (d : Bytes) : Bool :=
  match d with
  | [b] => (1 ≤ b.toNat && b.toNat ≤ 16) || b.toNat = 0x81
  | _ => false

/-- parse a script; `none` = contains an opcode outside the modelled set or a truncated push.
Fuel = script length (every round consumes ≥ 1 byte). -/
def parseAux : Nat → Bytes → Option (List Instr)
  | _, [] => some []
  | 0, _ :: _ => none
  | f + 1, op :: rest =>
    let o := op.toNat
    if o = 0 then (parseAux f rest).map (Instr.push [] :: ·)
    else if o < 0x4c then
      if rest.length < o then none else
      let d := rest.take o
      let i := if isSmallIntPush d then Instr.pushNonMinimal d else Instr.push d
      (parseAux f (rest.drop o)).map (i :: ·)
    else if o = 0x4c then
      match rest with
      | [] => none
      | l :: rest' =>
        if rest'.length < l.toNat then none else
        let d := rest'.take l.toNat
        let i := if l.toNat < 0x4c then Instr.pushNonMinimal d else Instr.push d
        (parseAux f (rest'.drop l.toNat)).map (i :: ·)
    else if o = 0x4f then (parseAux f rest).map (Instr.push [0x81] :: ·)
    else if 0x51 ≤ o ∧ o ≤ 0x60 then (parseAux f rest).map (Instr.push [UInt8.ofNat (o - 0x50)] :: ·)
    else if o = 0x64 then (parseAux f rest).map (Instr.notif :: ·)
    else if o = 0x68 then (parseAux f rest).map (Instr.endif :: ·)
    else if o = 0x73 then (parseAux f rest).map (Instr.ifdup :: ·)
    else if o = 0x75 then (parseAux f rest).map (Instr.drop :: ·)
    else if o = 0xac then (parseAux f rest).map (Instr.checksig :: ·)
    else if o = 0xad then (parseAux f rest).map (Instr.checksigverify :: ·)
    else if o = 0xb1 then (parseAux f rest).map (Instr.cltv :: ·)
    else none

def parseScript (s : Bytes) : Option (List Instr) := parseAux s.length s

/-! ## the interpreter -/

/-- what the engine knows about the transaction and the flags (txscript.StandardVerifyFlags) -/
structure Ctx where
  tapscript : Bool               -- false: segwit v0 (p2wsh); true: tapscript leaf
  lockTime : Nat                 -- tx.LockTime
  sequence : Nat                 -- tx.TxIn[idx].Sequence
  sigOK : Bytes → Bytes → Bool   -- (pubkey bytes, non-empty full signature bytes) verifies for this input
  nullFail : Bool := true        -- ScriptVerifyNullFail (v0; always on in tapscript)
  minimalIf : Bool := true       -- ScriptVerifyMinimalIf (v0; always on in tapscript)
  minimalData : Bool := true     -- ScriptVerifyMinimalData

inductive Cond where | t | f | skip
deriving Repr, DecidableEq

structure VM where
  stack : List Bytes   -- head = top of the data stack
  cond : List Cond     -- head = innermost conditional
deriving Repr

/-- `isBranchExecuting` -/
def executing : List Cond → Bool
  | [] => true
  | c :: _ => c == Cond.t

/-- `verifyLockTime(txLockTime, LockTimeThreshold, lockTime)` followed by the sequence test of CLTV -/
def cltvSatisfied (txLockTime sequence : Nat) (n : Nat) : Bool :=
  (decide (txLockTime < LockTimeThreshold) == decide (n < LockTimeThreshold)) &&
  decide (n ≤ txLockTime) && decide (sequence ≠ MaxTxInSequenceNum)

/-- `parseTaprootSigAndPubKey`: 64 bytes, or 65 bytes with a non-zero sighash byte -/
def schnorrSigLenOK (sig : Bytes) : Bool :=
  sig.length = 64 || (sig.length = 65 && (match sig.getLast? with | some b => b.toNat ≠ 0 | none => false))

/-- `opcodeCheckSig` (segwit v0 and tapscript variants); result = new stack -/
def opCheckSig (c : Ctx) (stack : List Bytes) : Except Err (List Bytes) :=
  match stack with
  | pk :: sig :: rest =>
    if !c.tapscript then
      if sig.length < 1 then .ok (fromBool false :: rest)
      else
        let valid := c.sigOK pk sig
        if !valid && c.nullFail then .error .nullFail
        else .ok (fromBool valid :: rest)
    else
      if pk.length = 0 then .error .taprootPubkeyIsEmpty
      else if sig.length = 0 then .ok ([] :: rest)
      else if pk.length ≠ 32 then .error .discouragePubKeyType
      else if !schnorrSigLenOK sig then .error .taprootSigLen
      else
        let valid := c.sigOK pk sig
        if !valid then .error .nullFail
        else .ok (fromBool valid :: rest)
  | _ => .error .invalidStackOperation

/-- `popIfBool` -/
def popIfBool (c : Ctx) (stack : List Bytes) : Except Err (Bool × List Bytes) :=
  match stack with
  | [] => .error .invalidStackOperation
  | so :: rest =>
    if c.tapscript || c.minimalIf then
      if so.length > 1 then .error .minimalIf
      else match so with
        | [b] => if b.toNat ≠ 1 then .error .minimalIf else .ok (asBool so, rest)
        | _ => .ok (asBool so, rest)
    else .ok (asBool so, rest)

def opCLTV (c : Ctx) (stack : List Bytes) : Except Err (List Bytes) :=
  match stack with
  | [] => .error .invalidStackOperation
  | so :: _ =>
    match makeScriptNum so c.minimalData cltvMaxScriptNumLen with
    | .error e => .error e
    | .ok n =>
      if n < 0 then .error .negativeLockTime
      else if cltvSatisfied c.lockTime c.sequence n.toNat then .ok stack
      else .error .unsatisfiedLockTime

/-- `Engine.executeOpcode` for one parsed instruction -/
def step (c : Ctx) (vm : VM) (i : Instr) : Except Err VM :=
  match i with
  | .push d =>
    if d.length > MaxScriptElementSize then .error .elementTooBig
    else if executing vm.cond then .ok { vm with stack := d :: vm.stack } else .ok vm
  | .pushNonMinimal d =>
    if d.length > MaxScriptElementSize then .error .elementTooBig
    else if executing vm.cond then
      if c.minimalData then .error .minimalData else .ok { vm with stack := d :: vm.stack }
    else .ok vm
  | .notif =>
    if executing vm.cond then
      match popIfBool c vm.stack with
      | .error e => .error e
      | .ok (b, rest) => .ok { stack := rest, cond := (if !b then Cond.t else Cond.f) :: vm.cond }
    else .ok { vm with cond := Cond.skip :: vm.cond }
  | .endif =>
    match vm.cond with
    | [] => .error .unbalancedConditional
    | _ :: r => .ok { vm with cond := r }
  | .checksig =>
    if !executing vm.cond then .ok vm else
    match opCheckSig c vm.stack with
    | .error e => .error e
    | .ok s => .ok { vm with stack := s }
  | .checksigverify =>
    if !executing vm.cond then .ok vm else
    match opCheckSig c vm.stack with
    | .error e => .error e
    | .ok [] => .error .invalidStackOperation
    | .ok (top :: rest) => if asBool top then .ok { vm with stack := rest } else .error .checkSigVerify
  | .ifdup =>
    if !executing vm.cond then .ok vm else
    match vm.stack with
    | [] => .error .invalidStackOperation
    | so :: _ => if asBool so then .ok { vm with stack := so :: vm.stack } else .ok vm
  | .cltv =>
    if !executing vm.cond then .ok vm else
    match opCLTV c vm.stack with
    | .error e => .error e
    | .ok s => .ok { vm with stack := s }
  | .drop =>
    if !executing vm.cond then .ok vm else
    match vm.stack with
    | [] => .error .invalidStackOperation
    | _ :: r => .ok { vm with stack := r }

def runInstrs (c : Ctx) : VM → List Instr → Except Err VM
  | vm, [] => .ok vm
  | vm, i :: is =>
    match step c vm i with
    | .error e => .error e
    | .ok vm' => runInstrs c vm' is

/-- `CheckErrorCondition(true)` for a witness program -/
def finalCheck (c : Ctx) (vm : VM) : Except Err Unit :=
  if !c.tapscript && vm.stack.length ≠ 1 then .error .evalFalse
  else if vm.stack.length ≠ 1 then .error .cleanStack
  else match vm.stack with
    | [top] => if asBool top then .ok () else .error .evalFalse
    | _ => .error .emptyStack

/-- run a parsed script on an initial stack (head = top) and apply the end-of-script checks -/
def runScript (c : Ctx) (is : List Instr) (stack : List Bytes) : Except Err Unit :=
  match runInstrs c { stack := stack, cond := [] } is with
  | .error e => .error e
  | .ok vm =>
    if vm.cond ≠ [] then .error .unbalancedConditional
    else finalCheck c vm

/-- `verifyWitnessProgram`, P2WSH branch; `program` = the 32 bytes of the pkScript `OP_0 <32>` -/
def verifyP2WSH (c : Ctx) (program : Bytes) (witness : List Bytes) : Except Err Unit :=
  match witness.reverse with
  | [] => .error .witnessProgramEmpty
  | script :: revStack =>
    if script.length > MaxScriptSize then .error .scriptTooBig
    else if Sha256.sha256 script ≠ program then .error .witnessProgramMismatch
    else match parseScript script with
      | none => .error .unsupportedScript
      | some is =>
        if revStack.any (fun e => decide (e.length > MaxScriptElementSize)) then .error .elementTooBig
        else runScript { c with tapscript := false } is revStack

/-- `hasAnnex` (poolscript) = `isAnnexedWitness` (txscript) -/
def hasAnnex (witness : List Bytes) : Bool :=
  if witness.length < 2 then false
  else match witness.getLast? with
    | some (b :: _) => b.toNat = 0x50
    | _ => false

/-- the elliptic-curve parts of taproot validation, uninterpreted -/
structure TapEnv where
  keySpendOK : Bytes → Bytes → Bool          -- (output key = witness program, signature)
  commitOK : Bytes → Bytes → Bytes → Bool    -- (control block, witness program, leaf script)

/-- `verifyWitnessProgram`, taproot branch after the annex has been snipped off: key path for a single
element, otherwise control block = last element, leaf script = second to last -/
def verifyTaprootCore (c : Ctx) (env : TapEnv) (program : Bytes) (w : List Bytes) : Except Err Unit :=
  match w.reverse with
  | [] => .error .witnessProgramEmpty
  | [sig] =>
    if !schnorrSigLenOK sig then .error .taprootSigLen
    else if env.keySpendOK program sig then .ok () else .error .taprootSigInvalid
  | cb :: script :: revStack =>
    if cb.length < 33 || (cb.length - 33) % 32 ≠ 0 || cb.length > 33 + 32 * 128 then .error .controlBlock
    else if !env.commitOK cb program script then .error .taprootMerkleProof
    else match cb with
      | [] => .error .controlBlock
      | v :: _ =>
        match parseScript script with
        | none => .error .unsupportedScript
        | some is =>
          if v.toNat / 2 * 2 ≠ 0xc0 then .error .discourageLeafVersion
          else if revStack.any (fun e => decide (e.length > MaxScriptElementSize)) then .error .elementTooBig
          else runScript { c with tapscript := true } is revStack

/-- the witness without its annex (`isAnnexedWitness` / `extractAnnex`) -/
def stripAnnex (witness : List Bytes) : List Bytes :=
  if hasAnnex witness then witness.dropLast else witness

/-- `verifyWitnessProgram`, taproot branch -/
def verifyTaproot (c : Ctx) (env : TapEnv) (program : Bytes) (witness : List Bytes) : Except Err Unit :=
  if witness.length = 0 then .error .witnessProgramEmpty
  else verifyTaprootCore c env program (stripAnnex witness)

/-! ## Pool's witness builders and classifiers (poolscript/script.go) -/

/-- build a witness from a regenerated layout (`witness[i] = <expr>`); `none` = unknown expression -/
def witnessFromLayout (env : String → Option Bytes) : List String → Option (List Bytes)
  | [] => some []
  | e :: rest =>
    match (if e == "nil" then some [] else env e), witnessFromLayout env rest with
    | some x, some xs => some (x :: xs)
    | _, _ => none

def spendMultiSig (witnessScript traderSig auctioneerSig : Bytes) : Option (List Bytes) :=
  -- parameters by position: SpendMultiSig(witnessScript, traderSig, auctioneerSig)
  witnessFromLayout (fun e => if e == "$p2" then some auctioneerSig else if e == "$p1" then some traderSig
    else if e == "$p0" then some witnessScript else none) Gen.C04.spendMultiSigLayout

def spendExpiry (witnessScript traderSig : Bytes) : Option (List Bytes) :=
  witnessFromLayout (fun e => if e == "$p1" then some traderSig
    else if e == "$p0" then some witnessScript else none) Gen.C04.spendExpiryLayout

def spendMuSig2Taproot (combinedSig : Bytes) : Option (List Bytes) :=
  witnessFromLayout (fun e => if e == "$p0" then some combinedSig else none) Gen.C04.spendMuSig2TaprootLayout

def spendExpiryTaproot (witnessScript traderSig controlBlock : Bytes) : Option (List Bytes) :=
  witnessFromLayout (fun e => if e == "$p1" then some traderSig
    else if e == "$p0" then some witnessScript
    else if e == "$p2" then some controlBlock else none) Gen.C04.spendExpiryTaprootLayout

def isExpirySpend (w : List Bytes) : Bool :=
  match w with
  | [w0, _, _] => w0.length = 0
  | _ => false

def isMultiSigSpend (w : List Bytes) : Bool :=
  match w with
  | [w0, _, _] => w0.length ≠ 0
  | _ => false

def isTaprootMultiSigSpend (w : List Bytes) : Bool :=
  match w with
  | [w0] => w0.length = 64
  | _ => false

def isTaprootExpirySpend (witness : List Bytes) : Bool :=
  let w := if hasAnnex witness then witness.dropLast else witness
  match w with
  | [_, script, ctrlBlock] =>
    if ctrlBlock.length < 33 then false
    else if script.length < Gen.C04.taprootExpiryMinScriptLen || script.length > Gen.C04.TaprootExpiryScriptSize then false
    else match ctrlBlock.head?, script.head?, script.getLast? with
      | some c0, some s0, some sl =>
        if c0.toNat ≠ 0xc0 && c0.toNat ≠ 0xc1 then false
        else if s0.toNat ≠ 0x20 || sl.toNat ≠ 0xb1 then false
        else true
      | _, _, _ => false   -- Go: index out of range is unreachable here (lengths checked above)
  | _ => false

inductive Path where | expiry | multisig | unknown
deriving Repr, DecidableEq

def Path.name : Path → String
  | .expiry => "expiry" | .multisig => "multisig" | .unknown => "unknown"

def classifierByName (n : String) : Option (List Bytes → Bool) :=
  if n == "IsExpirySpend" then some isExpirySpend
  else if n == "IsTaprootExpirySpend" then some isTaprootExpirySpend
  else if n == "IsMultiSigSpend" then some isMultiSigSpend
  else if n == "IsTaprootMultiSigSpend" then some isTaprootMultiSigSpend
  else none

/-- which path a case of the handler's switch stands for (by the classifiers it calls) -/
def casePath (names : List String) : Path :=
  if names.isEmpty then .unknown
  else if names.all (fun n => n == "IsExpirySpend" || n == "IsTaprootExpirySpend") then .expiry
  else if names.all (fun n => n == "IsMultiSigSpend" || n == "IsTaprootMultiSigSpend") then .multisig
  else .unknown

/-- the `switch { case A(w) || B(w): … }` of manager.HandleAccountSpend, first matching case wins -/
def classifyWith : List (List String) → List Bytes → Path
  | [], _ => .unknown
  | names :: rest, w =>
    if names.isEmpty then .unknown   -- default
    else if names.any (fun n => match classifierByName n with | some f => f w | none => false)
    then casePath names
    else classifyWith rest w

def classify (w : List Bytes) : Path := classifyWith Gen.C04.handleAccountSpendCases w

/-! ## determineWitnessType and the lock time of spendAccount (account/manager.go) -/

inductive WType where | expiryWitness | multiSigWitness | expiryTaproot | muSig2Taproot | bad
deriving Repr, DecidableEq

def wtypeByName (s : String) : WType :=
  if s == "expiryWitness" then .expiryWitness else if s == "multiSigWitness" then .multiSigWitness
  else if s == "expiryTaproot" then .expiryTaproot else if s == "muSig2Taproot" then .muSig2Taproot else .bad

def WType.name : WType → String
  | .expiryWitness => "expiryWitness" | .multiSigWitness => "multiSigWitness"
  | .expiryTaproot => "expiryTaproot" | .muSig2Taproot => "muSig2Taproot" | .bad => "bad"

def lookupNat (tbl : List (String × Nat)) (k : String) : Option Nat := (tbl.find? (·.1 == k)).map (·.2)
def lookupStr (tbl : List (String × String)) (k : String) : Option String := (tbl.find? (·.1 == k)).map (·.2)

/-- `determineWitnessType`, from the regenerated decision table: the function was evaluated on one
representative per class (account versions / states that behave differently from all others are listed, every
other value behaves like the `Other` representative; best height vs expiry only matters through `<`, `=`, `>`). -/
def determineWitnessType (version state expiry bestHeight : Nat) : WType :=
  let vk := if Gen.C04.dwtVersionSpecial.contains version then version else Gen.C04.dwtVersionOther
  let sk := if Gen.C04.dwtStateSpecial.contains state then state else Gen.C04.dwtStateOther
  let rel := if bestHeight < expiry then 0 else if bestHeight = expiry then 1 else 2
  match Gen.C04.dwtTable.find? (fun r => r.1 == vk && r.2.1 == sk && r.2.2.1 == rel) with
  | some r => wtypeByName r.2.2.2
  | none => .bad

/-- spendAccount: lock time for a witness type (`none` = the function returns an error);
`isClose` = `action == CLOSE` -/
def spendLockTime (wt : WType) (isClose : Bool) (bestHeight : Nat) : Option Nat :=
  match Gen.C04.spendAccountLockTimeTable.find? (fun r => r.1 == wt.name && r.2.1 == isClose) with
  | some r => if r.2.2 == "best" then some bestHeight else if r.2.2 == "0" then some 0 else none
  | none => none

/-- RenewAccount's own choice (regenerated table over account versions 0, 1, 2 and 3 = anything above) -/
def renewWitnessType (version : Nat) : WType :=
  match Gen.C04.renewWitnessTypeTable.find? (fun r => r.1 == min version 3) with
  | some r => wtypeByName r.2
  | none => .bad

/-- the witness type a manager method uses for the account input (`none` = method not known / rule not
understood) -/
def managerWitnessType (method : String) (version state expiry bestHeight : Nat) : Option WType :=
  match lookupStr Gen.C04.spendWitnessTypeSource method with
  | some kind =>
    if kind == "determineWitnessType" then some (determineWitnessType version state expiry bestHeight)
    else if method == "RenewAccount" && kind == "own-rule" then some (renewWitnessType version)
    else none
  | none => none

/-- Sequence of the account input created by createSpendTx: the literal sets only the listed fields -/
def createSpendTxSequence : Option Nat :=
  if Gen.C04.createSpendTxInFields.contains "Sequence" then none else some 0

/-- witnessType.IsExpirySpend via the regenerated table -/
def wtypeIsExpiry (wt : WType) : Bool :=
  match Gen.C04.witnessTypeIsExpiryTable.find? (fun r => r.1 == wt.name) with
  | some r => r.2 == "true"
  | none => false

/-! ## what a batch leaves in the database for a re-created account (order/batch_storer.go, account modifiers)
versus what the verifier checked (order/batch_verifier.go) -/

/-- the fields of an account record that determine its output script (+ value); `batchInc` counts
`IncrementKey` applications to the batch key -/
structure AcctRec where
  value : Nat
  expiry : Nat
  version : Nat
  batchInc : Nat
deriving Repr, DecidableEq

/-- the auctioneer's diff for the account and what the batch version supports -/
structure DiffIn where
  supportsExt : Bool
  supportsUpg : Bool
  endingBalance : Nat
  newExpiry : Nat
  newVersion : Nat

/-- one statement of the closure an `account.Modifier` constructor returns (regenerated text); `none` = a
statement the model does not understand (e.g. a guard) -/
def applyModifierStmt (stmt : String) (arg : Nat) (a : AcctRec) : Option AcctRec :=
  if stmt == "$acct.Value = $arg" then some { a with value := arg }
  else if stmt == "$acct.Expiry = $arg" then some { a with expiry := arg }
  else if stmt == "$acct.Version = $arg" then some { a with version := arg }
  else if stmt == "$acct.BatchKey = poolscript.IncrementKey($acct.BatchKey)" then
    some { a with batchInc := a.batchInc + 1 }
  else if stmt == "$acct.State = $arg" || stmt == "$acct.OutPoint = $arg" ||
      stmt == "$acct.HeightHint = $arg" || stmt == "$acct.LatestTx = $arg" then some a
  else none

def applyStmts : List String → Nat → AcctRec → Option AcctRec
  | [], _, a => some a
  | st :: rest, arg, a =>
    match applyModifierStmt st arg a with
    | some a' => applyStmts rest arg a'
    | none => none

def applyModifier (name : String) (arg : Nat) (a : AcctRec) : Option AcctRec :=
  match Gen.C04.modifierBodies.find? (·.1 == name) with
  | some row => applyStmts row.2 arg a
  | none => none

/-- conditions of batch storer / verifier the model understands, evaluated on the account as loaded -/
def diffCondHolds (cond : String) (d : DiffIn) (a : AcctRec) : Option Bool :=
  if cond == "" then some true
  else if cond == "$batch.Version.SupportsAccountExtension() && $diff.NewExpiry != 0" then
    some (d.supportsExt && d.newExpiry != 0)
  else if cond == "$acct.Version < $diff.NewVersion && $batch.Version.SupportsAccountTaprootUpgrade()" then
    some (d.supportsUpg && decide (d.newVersion > a.version))
  else none

def diffArg (arg : String) (d : DiffIn) : Nat :=
  if arg == "$diff.NewExpiry" then d.newExpiry
  else if arg == "$diff.NewVersion" then d.newVersion
  else if arg == "$diff.EndingBalance" then d.endingBalance
  else 0

def storedAfterBatchWith : List (String × String × String) → DiffIn → AcctRec → AcctRec → Option AcctRec
  | [], _, _, acc => some acc
  | (cond, name, arg) :: rest, d, orig, acc =>
    match diffCondHolds cond d orig with
    | none => none
    | some false => storedAfterBatchWith rest d orig acc
    | some true =>
      match applyModifier name (diffArg arg d) acc with
      | none => none
      | some acc' => storedAfterBatchWith rest d orig acc'

/-- the record `batchStorer.StorePendingBatch` stages for an account whose output is re-created -/
def storedAfterBatch (d : DiffIn) (a : AcctRec) : Option AcctRec :=
  storedAfterBatchWith Gen.C04.storerModifiers d a a

def verifiedWith : List (String × String × String) → DiffIn → AcctRec → AcctRec → Option AcctRec
  | [], _, _, acc => some acc
  | (cond, field, val) :: rest, d, orig, acc =>
    match diffCondHolds cond d orig with
    | none => none
    | some false => verifiedWith rest d orig acc
    | some true =>
      if field == "$acct.Expiry" then verifiedWith rest d orig { acc with expiry := diffArg val d }
      else if field == "$acct.Version" then verifiedWith rest d orig { acc with version := diffArg val d }
      else none

/-- the parameters of the re-created output `batchVerifier.Verify` checks: the loaded account with its
in-place updates, `NextOutputScript` (next batch key), value = ending balance -/
def verifiedOutputParams (d : DiffIn) (a : AcctRec) : Option AcctRec :=
  (verifiedWith Gen.C04.verifierAccountUpdates d a a).map fun x =>
    { x with batchInc := x.batchInc + 1, value := d.endingBalance }

/-- witnessType.witnessSize via the regenerated table and constants (0 = the error return) -/
def sizeConstByName (s : String) : Nat :=
  if s == "poolscript.ExpiryWitnessSize" then Gen.C04.ExpiryWitnessSize
  else if s == "poolscript.MultiSigWitnessSize" then Gen.C04.MultiSigWitnessSize
  else if s == "poolscript.TaprootExpiryWitnessSize" then Gen.C04.TaprootExpiryWitnessSize
  else if s == "poolscript.TaprootMultiSigWitnessSize" then Gen.C04.TaprootMultiSigWitnessSize
  else 0

def wtypeWitnessSize (wt : WType) : Nat :=
  match Gen.C04.witnessSizeTable.find? (fun r => r.1 == wt.name) with
  | some r => sizeConstByName r.2
  | none => 0

end Pool.C04
