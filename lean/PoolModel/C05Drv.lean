import PoolModel.C05
import PoolModel.Util
/-!
Line-protocol driver for the C05 model.

```
init accts=<key:outpoint:version:out:expiry,...> orders=<nonce:acct:allowed:notAllowed,...>     (a+b lists, - = empty)
validate id= tid= v= snap= ins= outs= lock= diffs=<key:newOutpoint|-:newVersion:newOut|-:newExpiry,...> m=<nonce:node,...>
sign sf=<k|-> af=<k|-> st=<none|pre|inside> nonces=<a+b|-> prev=<csv|->
finalize id= mf=<0|1>
hsign parse=<0|1> chan=<0|1> send=<0|1> sf= af= st= nonces= prev=      (the handler's Sign case; output: the
                                                                       messages/calls `ev=sign:ok|sign:fail|send:<n>|reject`)
unstage
```
Output: result class, for a successful sign the messages signed (`tx=<tid> sigs=key:idx:w:ht:out | key:idx:t:ht:forOut`),
for a successful finalize the account rows, then ` pend=<id.tid|-> db=<id.tid|->`.
-/
namespace Pool.C05
open Pool.Util

def kvGet (args : List String) (k : String) : Option String :=
  args.findSome? fun a =>
    match a.splitOn "=" with
    | [k', v] => if k' == k then some v else none
    | _ => none

def natList (sep : String) (s : String) : Option (List Nat) :=
  if s == "-" || s.isEmpty then some [] else
  (s.splitOn sep).mapM (·.toNat?)

def optNat (s : String) : Option (Option Nat) :=
  if s == "-" then some none else s.toNat?.map some

def parseRecords (s : String) : Option (List (List String)) :=
  if s == "-" || s.isEmpty then some [] else some ((s.splitOn ",").map (·.splitOn ":"))

def parseAcct : List String → Option Acct
  | [k, op, v, o, e] => do
    let k ← k.toNat?; let op ← op.toNat?; let v ← v.toNat?; let o ← o.toNat?; let e ← e.toNat?
    pure { key := k, outpoint := op, version := v, out := o, expiry := e }
  | _ => none

def parseOrd : List String → Option Ord
  | [n, a, al, nal] => do
    let n ← n.toNat?; let a ← a.toNat?; let al ← natList "+" al; let nal ← natList "+" nal
    pure { nonce := n, acct := a, allowed := al, notAllowed := nal }
  | _ => none

def parseDiff : List String → Option Diff
  | [k, op, v, o, e] => do
    let k ← k.toNat?; let op ← optNat op; let v ← v.toNat?; let o ← optNat o; let e ← e.toNat?
    pure { acct := k, newOutpoint := op, newVersion := v, newOut := o, newExpiry := e }
  | _ => none

def parseMatch : List String → Option (Nonce × Node)
  | [n, d] => do let n ← n.toNat?; let d ← d.toNat?; pure (n, d)
  | _ => none

def parseBatch (args : List String) : Option Batch := do
  let id ← (← kvGet args "id").toNat?
  let tid ← (← kvGet args "tid").toNat?
  let v ← (← kvGet args "v").toNat?
  let snap ← (← kvGet args "snap").toNat?
  let ins ← natList "," (← kvGet args "ins")
  let outs ← natList "," (← kvGet args "outs")
  let lock ← (← kvGet args "lock").toNat?
  let diffs ← (← parseRecords (← kvGet args "diffs")).mapM parseDiff
  let ms ← (← parseRecords (← kvGet args "m")).mapM parseMatch
  pure { id := id, tid := tid, tx := { ins := ins, outs := outs, lock := lock }, diffs := diffs,
         matched := ms, vflag := v == 1, snapOk := snap == 1, nonces := [], prevOuts := [] }

def parseFaults (args : List String) : Option Faults := do
  let sf ← optNat (← kvGet args "sf")
  let af ← optNat (← kvGet args "af")
  let st ← match (← kvGet args "st") with
    | "none" => some StoreFault.none
    | "pre" => some StoreFault.pre
    | "inside" => some StoreFault.inside
    | _ => none
  pure { sf := sf, af := af, st := st }

def fmtPend (s : St) : String :=
  match s.pending with
  | none => "-"
  | some b => s!"{b.id}.{b.tid}"

def fmtDb (s : St) : String :=
  match s.db.staged with
  | none => "-"
  | some g => s!"{g.id}.{g.tid}"

def tail (s : St) : String := s!" pend={fmtPend s} db={fmtDb s}"

def insertByKey (x : Nat × String) : List (Nat × String) → List (Nat × String)
  | [] => [x]
  | y :: ys => if x.1 < y.1 then x :: y :: ys else y :: insertByKey x ys

def fmtSig (σ : Sig) : Nat × String :=
  if σ.msg.taproot then (σ.key, s!"{σ.key}:{σ.msg.idx}:t:{σ.msg.ht}:{σ.forOut}:v{σ.sver}")
  else (σ.key, s!"{σ.key}:{σ.msg.idx}:w:{σ.msg.ht}:{σ.msg.spent.headD 0}")

def fmtSigs (sigs : List Sig) : String :=
  if sigs.isEmpty then "-" else
  joinWith "," (((sigs.map fmtSig).foldr insertByKey []).map (·.2))

def fmtSignErr : SignErr → String
  -- classes by which collaborator call failed: account lookup / none (a precondition) / signer client
  | .acct => "err:acct" | .input => "err:pre" | .nonce => "err:pre" | .signer => "err:signer"

def fmtAccts (as : List Acct) : String :=
  joinWith "," (as.map fun a => s!"{a.key}:{a.outpoint}:{a.version}")

/-- staged rows in diff order: key:outpoint:version:out (out only for re-created accounts) -/
def fmtRows (s : St) : String :=
  match s.pending, s.db.staged with
  | some b, some g =>
    let rows := (b.diffs.zip g.rows).map fun (d, a) =>
      let o := match d.newOutpoint with
        | some _ => toString a.out
        | none => "-"
      s!"{a.key}:{a.outpoint}:{a.version}:{o}:{a.expiry}"
    if rows.isEmpty then "-" else joinWith "," rows
  | _, _ => "?"

abbrev DrvSt := St
def drvInit : DrvSt := initSt [] []

def drvStep (s : St) (args : List String) : St × String :=
  match args with
  | "init" :: rest =>
    match (do
      let as ← (← parseRecords (← kvGet rest "accts")).mapM parseAcct
      let os ← (← parseRecords (← kvGet rest "orders")).mapM parseOrd
      pure (initSt as os)) with
    | some s' => (s', "ok")
    | none => (s, "bad-op")
  | "validate" :: rest =>
    match parseBatch rest with
    | none => (s, "bad-op")
    | some b =>
      let r := validate (fun _ b => b.vflag) s b
      let out := match r.2 with
        | none => "ok"
        | some _ => "err"     -- the harness does not look at error texts: accepted or not
      (r.1, out ++ tail r.1)
  | "sign" :: rest =>
    match (do
      let f ← parseFaults rest
      let ns ← natList "+" (← kvGet rest "nonces")
      let pv ← natList "," (← kvGet rest "prev")
      pure (f, ns, pv)) with
    | none => (s, "bad-op")
    | some (f, ns, pv) =>
      let r := step (fun _ b => b.vflag) s (.sign f ns pv)
      let out := match r.2 with
        | .sign (.ok sigs _) =>
          s!"ok tx={(r.1.pending.map (·.tid)).getD 0} sigs={fmtSigs sigs} rows={fmtRows r.1}"
        | .sign (.errSign e) => fmtSignErr e
        | .sign .errStore => "err:store"
        | .sign .panic => "panic"
        | _ => "?"
      (r.1, out ++ tail r.1)
  | "hsign" :: rest =>
    match (do
      let f ← parseFaults rest
      let ns ← natList "+" (← kvGet rest "nonces")
      let pv ← natList "," (← kvGet rest "prev")
      let p ← (← kvGet rest "parse").toNat?
      let c ← (← kvGet rest "chan").toNat?
      let sd ← (← kvGet rest "send").toNat?
      pure ({ parseOk := p == 1, chanOk := c == 1, sendOk := sd == 1, faults := f, nonces := ns, prev := pv } : HEnv)) with
    | none => (s, "bad-op")
    | some env =>
      let h := handleSign s env
      let evs := h.trace.reverse.filterMap fun e => match e with
        | .batchSign true => some "sign:ok"
        | .batchSign false => some "sign:fail"
        | .sendSign S _ g => some s!"send:{S.length}@{match g with | some g => s!"{g.id}.{g.tid}" | none => "-"}"
        | .sendReject => some "reject"
        | _ => none
      let sent := h.trace.findSome? fun e => match e with
        | .sendSign S _ _ => some S
        | _ => none
      let sigPart := match sent with
        | some S => s!" tx={(h.st.pending.map Batch.tid).getD 0} sigs={fmtSigs S}"
        | none => ""
      let evStr := if evs.isEmpty then "-" else joinWith "," evs
      (h.st, s!"ev={evStr}{sigPart} panicked={if h.panicked then 1 else 0}" ++ tail h.st)
  | "finalize" :: rest =>
    match (do
      let id ← (← kvGet rest "id").toNat?
      let mf ← (← kvGet rest "mf").toNat?
      pure (id, mf)) with
    | none => (s, "bad-op")
    | some (id, mf) =>
      let r := finalize s id (mf == 1)
      let out := match r.2 with
        | .ok => s!"ok accts={fmtAccts r.1.db.accts}"
        | .errId => "err:id"
        | .errStore => "err:store"
        | .panic => "panic"
      (r.1, out ++ tail r.1)
  | ["unstage"] => let s' := unstage s; (s', "ok" ++ tail s')
  | "modacct" :: rest =>
    match (do
      let k ← (← kvGet rest "k").toNat?
      let op ← (← kvGet rest "op").toNat?
      let o ← (← kvGet rest "out").toNat?
      pure (k, op, o)) with
    | none => (s, "bad-op")
    | some (k, op, o) => let s' := modAcct s k op o; (s', s!"ok accts={fmtAccts s'.db.accts}" ++ tail s')
  | _ => (s, "bad-op")

end Pool.C05
