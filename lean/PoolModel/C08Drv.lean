import PoolModel.C08
import PoolModel.Util
/-!
Line-protocol driver of the C08 model: a map account-id → per-account machine plus the fan-out of the
global ops (`block`, `complete`, `finalize`, `restart`, and the `MarkBatchComplete` a multi-sig spend of one
account triggers for every account of the staged batch).  One output line per op:

  `<res> | <account dump>… | <effects of this op>`
-/
namespace Pool.C08
open Pool.Util

structure Drv where
  accts : List AState := []
  batch : List Nat := []      -- accounts of the staged batch, in diff order
  subFail : Bool := false     -- fault injection: the auctioneer subscription fails
deriving Repr

abbrev DrvSt := Drv
def drvInit : DrvSt := {}

def Drv.get (d : Drv) (k : Nat) : AState := (d.accts.find? (·.key == k)).getD (AState.init k)

def Drv.set (d : Drv) (s : AState) : Drv :=
  if d.accts.any (·.key == s.key) then { d with accts := d.accts.map fun x => if x.key == s.key then s else x }
  else { d with accts := (d.accts ++ [s]) }

def fmtScript (sc : Script) : String := s!"{sc.sver}.{sc.expiry}.{sc.bk}"

def fmtAcct (a : Acct) : String :=
  let ltx := match a.latestTx with | some t => toString t.id | none => "-"
  s!"{a.state.toNat}/{a.outpoint.txid}:{a.outpoint.idx}/{a.value}/{a.expiry}/{a.version}/{a.bk}/{a.heightHint}/{ltx}"

def fmtState (s : AState) : String :=
  let a := match s.acct with | some a => fmtAcct a | none => "-"
  let g := match s.staged with | some a => fmtAcct a | none => "-"
  let c := joinWith "," (s.w.confRegs.map fun r => s!"{r.txid}@{fmtScript r.script}")
  let sp := joinWith "," (s.w.spendRegs.map fun r => s!"{r.op.txid}:{r.op.idx}@{fmtScript r.script}")
  let e := match s.w.expiry with | some e => toString e | none => "-"
  s!"{s.key}={a} c[{c}] s[{sp}] e{e} g={g}"

def fmtEffect (k : Nat) : Effect → String
  | .write a => s!"W{k}={a.state.toNat}/" ++ (match a.latestTx with | some t => toString t.id | none => "-")
  | .publish t => s!"P{k}={t.id}"
  | .fund o => s!"F{k}={o.value}"

def fmtRes : Res → String
  | .ok => "ok" | .err => "err" | .panic => "panic"

/-- output: result, dump of every account, effects appended by this op (per account, in key order) -/
def render (before after : Drv) (res : String) : String :=
  let sorted := (after.accts.filter (·.acct.isSome)).toArray.qsort (fun a b => a.key < b.key) |>.toList
  let dump := joinWith " ; " (sorted.map fmtState)
  let eff := sorted.flatMap fun s =>
    let old := (before.get s.key).trace.length
    (s.trace.drop old).map (fmtEffect s.key)
  s!"{res} | {dump} | " ++ (if eff.isEmpty then "-" else joinWith " " eff)

def nat? (s : String) : Option Nat := s.toNat?
def bool? (s : String) : Option Bool := if s == "1" then some true else if s == "0" then some false else none

def fund? (tx idx : String) : Option (Option (Nat × Nat)) :=
  if tx == "-" then some none else
  match tx.toNat?, idx.toNat? with
  | some t, some i => some (some (t, i))
  | _, _ => none

def kind? : String → Option Kind
  | "deposit" => some .deposit | "withdraw" => some .withdraw | "renew" => some .renew | _ => none

def spendKind? (k id : String) : Option SpendKind :=
  match k, id.toNat? with
  | "latest", some _ => some .latest
  | "staged", some _ => some .staged
  | "sweep", some i => some (.sweep i)
  | "foreign", some i => some (.foreign i)
  | "garbage", some i => some (.garbage i)
  | _, _ => none

/-- apply one per-account op -/
def Drv.apply (d : Drv) (k : Nat) (op : Op) : Drv × Res :=
  let r := step { d.get k with subFail := d.subFail } op
  (d.set r.1, r.2)

/-- a transaction account `k` has seen (written into its record or staged for it), by id.  Transactions are
per-account views (only that account's input / output), so the view of `k` itself is used. -/
def Drv.findTx (d : Drv) (k : Nat) (id : Nat) : Option Tx :=
  let s := d.get k
  let txs := (s.trace.filterMap fun e => match e with | .write a => a.latestTx | _ => none) ++
    (match s.staged.bind (·.latestTx) with | some t => [t] | none => [])
  txs.find? (·.id == id)

/-- `MarkBatchComplete`: every account of the staged batch -/
def Drv.completeAll (d : Drv) : Drv :=
  let d := d.batch.foldl (fun d k => (d.apply k .completeOnly).1) d
  { d with batch := [] }

/-- does `HandleAccountSpend` re-arm the other accounts of a batch it commits (regenerated call list)? -/
def rewatchOthers : Bool :=
  Pool.Gen.Lifecycle.handleSpendCases.any (fun c => (c.splitOn "WatchMatchedAccounts").length > 1)

/-- a multi-sig spend handled for account `k` completes the pending batch for everybody first -/
def Drv.spendFanout (d : Drv) (k : Nat) (t : Option Tx) : Drv :=
  match t, (d.get k).acct with
  | some t, some _ =>
    if t.wit == 2 && !d.batch.isEmpty then
      let others := d.batch.filter (· != k)
      let d1 := others.foldl (fun d j => (d.apply j .completeOnly).1) d
      let d1 := { d1 with batch := d1.batch.filter (· == k) }
      if rewatchOthers then
        -- updatedAccounts + WatchMatchedAccounts: store order, stops at the first error
        let upd := (others.filter fun j =>
          let a := (d.get j).acct; let b := (d1.get j).acct
          (a.map fun x => (x.state, x.outpoint, x.value)) != (b.map fun x => (x.state, x.outpoint, x.value)))
        let upd := upd.toArray.qsort (· < ·) |>.toList
        (upd.foldl (fun (acc : Drv × Res) j =>
          match acc.2 with
          | .ok => acc.1.apply j .watchMatched
          | e => (acc.1, e)) (d1, Res.ok)).1
      else d1
    else d
  | _, _ => d

def parseStageAcct (height ext upg txid : Nat) (extB upgB : Bool) (tok : String) : Option (Nat × StageArgs) :=
  match (tok.splitOn ":").map String.toNat? with
  | [some k, some ending, some idx, some endBal, some newExpiry, some newVersion] =>
    let _ := ext; let _ := upg
    some (k, { ending := ending, txid := txid, idx := idx, endBal := endBal, newExpiry := newExpiry,
               newVersion := newVersion, supportsExt := extB, supportsUpgrade := upgB, height := height })
  | _ => none

def parseRestartFund (tok : String) : Option (Nat × Nat × Nat) :=
  match (tok.splitOn ":").map String.toNat? with
  | [some k, some t, some i] => some (k, t, i)
  | _ => none

def drvStep0 (d : Drv) (args : List String) : Drv × String :=
  let bad := (d, "bad-op")
  let fin (r : Drv × Res) : Drv × String := (r.1, render d r.1 (fmtRes r.2))
  match args with
  | ["reset"] => ({}, "ok")
  | ["subfail", b] =>
    match bool? b with
    | some b => ({ d with subFail := b }, "ok")
    | none => bad
  | ["spendc", k, pos, id, h] =>
    -- the chain reports the transaction that actually spent the outpoint of live registration #pos
    match nat? k, nat? pos, nat? id, nat? h with
    | some k, some pos, some id, some h =>
      match d.findTx k id, (d.get k).w.spendRegs[pos]? with
      | some t, some _ =>
        let d0 := (d.apply k (.consumeSpend pos)).1
        let d1 := d0.spendFanout k (some t)
        let r := d1.apply k (.spendH t h)
        (r.1, render d r.1 (fmtRes r.2))
      | _, _ => (d, render d d "err")
    | _, _, _, _ => bad
  | ["init", k, v, e, ver, h, tx, idx] =>
    match nat? k, nat? v, nat? e, nat? ver, nat? h, fund? tx idx with
    | some k, some v, some e, some ver, some h, some f => fin (d.apply k (.init v e ver h f))
    | _, _, _, _, _, _ => bad
  | ["mod", k, kind, nv, vok, ne, nver, h, tx, idx, sg] =>
    match nat? k, kind? kind, nat? nv, bool? vok, nat? ne, nat? nver, nat? h, nat? tx, nat? idx, bool? sg with
    | some k, some kind, some nv, some vok, some ne, some nver, some h, some tx, some idx, some sg =>
      fin (d.apply k (.modify kind { newValue := nv, valueOk := vok, newExpiry := ne, newVersion := nver,
                                     height := h, txid := tx, idx := idx, signed := sg }))
    | _, _, _, _, _, _, _, _, _, _ => bad
  | ["close", k, h, tx, ok, sg] =>
    match nat? k, nat? h, nat? tx, bool? ok, bool? sg with
    | some k, some h, some tx, some ok, some sg => fin (d.apply k (.close h tx ok sg))
    | _, _, _, _, _ => bad
  | ["bump", k] =>
    match nat? k with
    | some k => fin (d.apply k .bump)
    | none => bad
  | ["conf", k, pos, h] =>
    match nat? k, nat? pos, nat? h with
    | some k, some pos, some h => fin (d.apply k (.conf pos h))
    | _, _, _ => bad
  | ["confd", k, h] =>
    match nat? k, nat? h with
    | some k, some h => fin (d.apply k (.confDirect h))
    | _, _ => bad
  | ["spend", k, pos, kind, id, h] =>
    match nat? k, nat? pos, spendKind? kind id, nat? h with
    | some k, some pos, some sk, some h =>
      let s := d.get k
      match s.w.spendRegs[pos]? with
      | none => fin (d.apply k (.spend pos sk h))
      | some r =>
        let d' := d.spendFanout k (spendTx s sk r.op)
        let r := d'.apply k (.spend pos sk h)
        (r.1, render d r.1 (fmtRes r.2))
    | _, _, _, _ => bad
  | ["spend2", ka, posa, kinda, ida, kb, posb, kindb, idb, h] =>
    -- two spend notifications handled concurrently: the pending-batch mutex serialises the handlers,
    -- A first; B's transaction is the one the chain reported (taken from the state before A ran)
    match nat? ka, nat? posa, spendKind? kinda ida, nat? kb, nat? posb, spendKind? kindb idb, nat? h with
    | some ka, some posa, some ska, some kb, some posb, some skb, some h =>
      let sa := d.get ka
      let sb := d.get kb
      match sa.w.spendRegs[posa]?, sb.w.spendRegs[posb]? with
      | some ra, some rb =>
        match spendTx sa ska ra.op, spendTx sb skb rb.op with
        | some ta, some tb =>
          -- both registrations have fired before either handler is past the pending-batch section
          let d0 := (d.apply ka (.consumeSpend posa)).1
          let d0 := (d0.apply kb (.consumeSpend posb)).1
          let d1 := d0.spendFanout ka (some ta)
          let r1 := d1.apply ka (.spendH ta h)
          let d2 := r1.1.spendFanout kb (some tb)
          let r2 := d2.apply kb (.spendH tb h)
          (r2.1, render d r2.1 (fmtRes r1.2 ++ "+" ++ fmtRes r2.2))
        | _, _ => bad
      | _, _ => bad
    | _, _, _, _, _, _, _ => bad
  | ["spendd", k, kind, id, h] =>
    match nat? k, spendKind? kind id, nat? h with
    | some k, some sk, some h =>
      let s := d.get k
      let d' := d.spendFanout k (spendTx s sk (s.acct.map (·.outpoint) |>.getD ⟨0, 0⟩))
      let r := d'.apply k (.spendDirect sk h)
      (r.1, render d r.1 (fmtRes r.2))
    | _, _, _ => bad
  | ["block", h] =>
    match nat? h with
    | some h =>
      let d' := d.accts.foldl (fun d s => (d.apply s.key (.block h)).1) d
      (d', render d d' "ok")
    | none => bad
  | ["expd", k] =>
    match nat? k with
    | some k => fin (d.apply k .expiryDirect)
    | none => bad
  | "stage" :: h :: ext :: upg :: tx :: accts =>
    match nat? h, bool? ext, bool? upg, nat? tx with
    | some h, some ext, some upg, some tx =>
      match accts.mapM (parseStageAcct h 0 0 tx ext upg) with
      | none => bad
      | some l =>
        -- StorePendingBatch: the previous staging area is replaced; any error aborts the whole update
        let d0 : Drv := { d with accts := d.accts.map (fun s => { s with staged := none }), batch := [] }
        let r := l.foldl (fun (acc : Drv × Res) (p : Nat × StageArgs) =>
          match acc.2 with
          | .ok => let r := acc.1.apply p.1 (.stage p.2); (r.1, r.2)
          | e => (acc.1, e)) (d0, Res.ok)
        match r.2 with
        | .ok => let d' := { r.1 with batch := l.map (·.1) }; (d', render d d' "ok")
        | e => (d, render d d (fmtRes e))
    | _, _, _, _ => bad
  | ["complete"] =>
    if d.batch.isEmpty then (d, render d d "err") else
    let d' := d.completeAll
    (d', render d d' "ok")
  | ["finalize"] =>
    if d.batch.isEmpty then (d, render d d "err") else
    let ks := d.batch
    let d' := d.completeAll
    -- WatchMatchedAccounts: stops at the first error
    let r := ks.foldl (fun (acc : Drv × Res) k =>
      match acc.2 with
      | .ok => acc.1.apply k .watchMatched
      | e => (acc.1, e)) (d', Res.ok)
    (r.1, render d r.1 (fmtRes r.2))
  | ["drop"] =>
    let d' : Drv := { d with accts := d.accts.map (fun s => { s with staged := none }), batch := [] }
    (d', render d d' "ok")
  | ["wm", k] =>
    match nat? k with
    | some k => fin (d.apply k .watchMatched)
    | none => bad
  | "restart" :: feeOk :: funds =>
    match bool? feeOk, funds.mapM parseRestartFund with
    | some feeOk, some fl =>
      let sorted := d.accts.toArray.qsort (fun a b => a.key < b.key) |>.toList
      -- start(): accounts in store order; the first failing resume aborts the start-up
      let r := sorted.foldl (fun (acc : Drv × Res) s =>
        let f := (fl.find? (·.1 == s.key)).map (·.2)
        match acc.2 with
        | .ok => acc.1.apply s.key (.restart feeOk f)
        | e =>
          -- not resumed: the account only loses its watchers
          let s' := acc.1.get s.key
          (acc.1.set { s' with w := {}, best := 0 }, e)) (d, Res.ok)
      (r.1, render d r.1 (fmtRes r.2))
    | _, _ => bad
  | _ => bad

/-- after every op the goroutines of the registrations it cancelled wind down (`flush`) -/
def drvStep (d : Drv) (args : List String) : Drv × String :=
  let r := drvStep0 d args
  let accts := r.1.accts.map fun s => (step s .flush).1
  -- the pending batch is gone once no account has a staged copy any more (a spend handler committed it)
  ({ r.1 with accts := accts,
              batch := r.1.batch.filter fun j => ((accts.find? (·.key == j)).bind (·.staged)).isSome }, r.2)

end Pool.C08
