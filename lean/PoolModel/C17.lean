import PoolModel.C17Acceptor
/-!
Model of the funding-parameter derivation of `/repo/funding/manager.go` and of what each side sees of the other.

Go                                                          model
--                                                          -----
`order.Kit` (fields read here)                              `Kit`
`order.Ask` / `order.Bid` / `order.Order`                   `Order.ask` / `Order.bid`
`order.MatchedOrder`                                        `MatchedOrder`
`sidecar.Ticket` (`Offer`, `Recipient`, `Order`)            `Ticket`
`wire.MsgTx` of the batch                                   `BatchTx` = txid (as computed by btcd, an input) + pkScripts
`Manager.deriveFundingShim`                                 `deriveFundingShim`
`Manager.PrepChannelFunding` (per matched order)            `prepRegisters`
`Manager.BatchChannelSetup` (per matched order)             `batchChannelSetup`
`order.PendingChanKey`                                      `pendingChanKey` = `H (askNonce ++ bidNonce)`
`order.DetermineCommitmentType`                             `determineCommitmentType` (+ interpreter of the regenerated
                                                            case table `Gen.C17.detCases`, tied by `C17_det_table`)
`auctioneer.Client.SubmitOrder` ∘ `order.ParseRPCServerAsk/Bid`   `projAsk` / `projBid` (what the other side sees)
`order.manager.PrepareOrder` (server params of a bid)       `bidServerParams`
`SidecarAcceptor.getSidecarAsOrder`                         `getSidecarAsOrder`
`order.CheckOfferParamsForOrder` (+ `fix:` checks)           `offerMatchesBid`

External functions are parameters (`Env`): the wallet's `DeriveKey`, lnd's funding-script builders behind
`poolscript.FundingOutput` (P2WSH 2-of-2 / MuSig2 taproot), SHA-256, btcec key validity.  Concrete values are
supplied per case by the harness (oracle table), computed with direct calls to lnd/btcd.

Every Go panic site is an explicit `Res.panic`: the unchecked type assertion `matchedOrder.Order.(*order.Bid)`,
a nil `Recipient.MultiSigPubKey`, a nil `ticket.Order`.

Integer conversions: `SupplyUnit.ToSatoshis` (uint64 multiplication, then `btcutil.Amount`), the int64 additions
`chanSize + selfChanBalance`, the uint32 addition `thawHeight += batchHeightHint`, `int32(KeyFamily/Index)`.
-/
namespace Pool.C17

inductive Res (α : Type) where
  | ok (a : α)
  | err            -- the Go function returned an error
  | panic          -- the Go function would panic
deriving Repr, DecidableEq

def Res.bind {α β : Type} (r : Res α) (f : α → Res β) : Res β :=
  match r with
  | .ok a => f a
  | .err => .err
  | .panic => .panic

/-! ### integer conversions -/
def wrapI64 (x : Int) : Int := (x + 2 ^ 63) % (2 ^ 64 : Int) - 2 ^ 63
def wrapU32 (x : Nat) : Nat := x % 2 ^ 32
/-- `int32(x)` for a uint32 `x` -/
def toI32 (x : Nat) : Int := (Int.ofNat (x % 2 ^ 32) + 2 ^ 31) % (2 ^ 32 : Int) - 2 ^ 31

/-- `SupplyUnit.ToSatoshis`: `btcutil.Amount(uint64(s) * uint64(BaseSupplyUnit))` -/
def toSatoshis (units : Nat) : Int := wrapI64 (Int.ofNat ((units * Gen.C17.baseSupplyUnit) % 2 ^ 64))

/-! ### lnd / lnrpc constants (cross-checked with the compiled values by the `consts` op) -/
def rpcCommitUnknown : Nat := 0              -- lnrpc.CommitmentType_UNKNOWN_COMMITMENT_TYPE
def rpcCommitScriptEnforcedLease : Nat := 4  -- lnrpc.CommitmentType_SCRIPT_ENFORCED_LEASE
def rpcCommitSimpleTaproot : Nat := 5        -- lnrpc.CommitmentType_SIMPLE_TAPROOT
def keyFamilyMultiSig : Nat := 0             -- keychain.KeyFamilyMultiSig
def nonceLen : Nat := 32
def zeroNonce : Bytes := List.replicate nonceLen 0

/-! ### orders -/
structure Kit where
  nonce : Bytes
  leaseDuration : Nat        -- uint32
  channelType : Nat          -- order.ChannelType (uint8)
  keyFamily : Nat := 0       -- MultiSigKeyLocator
  keyIndex : Nat := 0
deriving Repr, DecidableEq

structure Recipient where
  nodeKey : Bytes
  multiSigKey : Option Bytes   -- `MultiSigPubKey` (nil = `none`)
  multiSigKeyIndex : Nat
deriving Repr, DecidableEq

structure Offer where
  capacity : Int
  pushAmt : Int
  leaseDurationBlocks : Nat
  unannounced : Bool
  zeroConf : Bool
deriving Repr, DecidableEq

structure Ticket where
  offer : Offer
  recipient : Option Recipient
  orderBidNonce : Option Bytes   -- `ticket.Order.BidNonce`; `none` = `ticket.Order == nil`
deriving Repr, DecidableEq

structure Bid where
  kit : Kit
  selfChanBalance : Int
  unannounced : Bool
  zeroConf : Bool
  sidecar : Option Ticket := none
deriving Repr, DecidableEq

inductive Order where
  | ask (k : Kit)
  | bid (b : Bid)
deriving Repr, DecidableEq

def Order.kit : Order → Kit
  | .ask k => k
  | .bid b => b.kit

structure MatchedOrder where
  order : Order
  multiSigKey : Bytes
  nodeKey : Bytes
  unitsFilled : Nat
deriving Repr, DecidableEq

structure BatchTx where
  txid : Bytes
  outs : List Bytes          -- pkScripts of the outputs, in order
deriving Repr, DecidableEq

structure Env where
  /-- `WalletKit.DeriveKey(family, index)`; `none` = error -/
  deriveKey : Nat → Nat → Option Bytes
  /-- pkScript of `poolscript.FundingOutput`: `taproot?`, our key, their key; `none` = error -/
  fundScript : Bool → Bytes → Bytes → Option Bytes
  /-- SHA-256 -/
  H : Bytes → Bytes
  /-- `btcec.ParsePubKey` succeeds on a 33-byte key -/
  validKey : Bytes → Bool

/-! ### `order.DetermineCommitmentType` -/
def determineCommitmentType (ours theirs : Nat) : Nat × Bool :=
  if ours = Gen.C17.chanTypeScriptEnforced ∨ theirs = Gen.C17.chanTypeScriptEnforced then
    (rpcCommitScriptEnforcedLease, false)
  else if ours = Gen.C17.chanTypeSimpleTaproot ∧ theirs = Gen.C17.chanTypeSimpleTaproot then
    (rpcCommitSimpleTaproot, true)
  else (rpcCommitUnknown, false)

/-- interpreter of the regenerated switch of `DetermineCommitmentType` -/
def evalCond (ours theirs : Nat) : Gen.C17.Cond → Bool
  | .eq .ours c => ours == c
  | .eq .theirs c => theirs == c
  | .ne .ours c => ours != c
  | .ne .theirs c => theirs != c
  | .and a b => evalCond ours theirs a && evalCond ours theirs b
  | .or a b => evalCond ours theirs a || evalCond ours theirs b
  | .not a => !evalCond ours theirs a
  | .unknown _ => false

/-- first case of the table whose condition holds (`none` condition = `default:`) -/
def evalDetCases (ours theirs : Nat) : List Gen.C17.DetCase → Option (Nat × Bool)
  | [] => none
  | c :: rest =>
    let hit := match c.cond with
      | none => true
      | some cond => evalCond ours theirs cond
    if hit then
      match c.commit, c.musig2 with
      | some ct, some m => some (ct, m)
      | _, _ => none
    else evalDetCases ours theirs rest

/-! ### `order.PendingChanKey` and `input.FindScriptOutputIndex` -/
def pendingChanKey (H : Bytes → Bytes) (askNonce bidNonce : Bytes) : Bytes := H (askNonce ++ bidNonce)

/-- index of the first output carrying `script` -/
def firstIdx (script : Bytes) : List Bytes → Option Nat
  | [] => none
  | s :: rest => if s = script then some 0 else (firstIdx script rest).map (· + 1)

/-- `input.FindScriptOutputIndex` with the `found` result ignored: 0 when no output carries the script -/
def findScriptOutputIndex (outs : List Bytes) (script : Bytes) : Nat :=
  match firstIdx script outs with
  | some i => i
  | none => 0

/-! ### `Manager.deriveFundingShim` -/
structure Shim where
  amt : Int
  txid : Bytes
  outputIndex : Nat
  localKey : Bytes
  localKeyFamily : Int
  localKeyIndex : Int
  remoteKey : Bytes
  pendingChanId : Bytes
  thawHeight : Nat
  musig2 : Bool
deriving Repr, DecidableEq

/-- our multisig key descriptor: (family, index, pubkey) -/
def ourMultiSigKey (env : Env) (ourOrder : Order) : Res (Nat × Nat × Bytes) :=
  let viaWallet : Res (Nat × Nat × Bytes) :=
    match env.deriveKey ourOrder.kit.keyFamily ourOrder.kit.keyIndex with
    | some k => .ok (ourOrder.kit.keyFamily, ourOrder.kit.keyIndex, k)
    | none => .err
  match ourOrder with
  | .bid b =>
    match b.sidecar with
    | some t =>
      match t.recipient with
      | some r =>
        match r.multiSigKey with
        | some k => .ok (keyFamilyMultiSig, r.multiSigKeyIndex, k)
        | none => .panic      -- nil PubKey dereferenced by SerializeCompressed
      | none => viaWallet
    | none => viaWallet
  | .ask _ => viaWallet

def deriveFundingShim (env : Env) (ourOrder : Order) (m : MatchedOrder) (tx : BatchTx) (heightHint : Nat) :
    Res (Shim × Bytes) :=
  -- nonce order, thaw height and self balance by role
  let role : Res (Bytes × Bytes × Nat × Int) :=
    match ourOrder with
    | .bid b => .ok (m.order.kit.nonce, b.kit.nonce, b.kit.leaseDuration, b.selfChanBalance)
    | .ask k =>
      match m.order with
      | .bid mb => .ok (k.nonce, mb.kit.nonce, mb.kit.leaseDuration, mb.selfChanBalance)
      | .ask _ => .panic      -- matchedOrder.Order.(*order.Bid)
  role.bind fun (askNonce, bidNonce, lease, selfBal) =>
  let thaw :=
    if ourOrder.kit.channelType = Gen.C17.chanTypeScriptEnforced ∨
       m.order.kit.channelType = Gen.C17.chanTypeScriptEnforced
    then wrapU32 (lease + heightHint) else lease
  let pid := pendingChanKey env.H askNonce bidNonce
  let chanSize := toSatoshis m.unitsFilled
  (ourMultiSigKey env ourOrder).bind fun (fam, idx, ourKey) =>
  let (commitType, musig2) := determineCommitmentType ourOrder.kit.channelType m.order.kit.channelType
  match env.fundScript (commitType == rpcCommitSimpleTaproot) ourKey m.multiSigKey with
  | none => .err
  | some script =>
    .ok ({ amt := wrapI64 (chanSize + selfBal)
           txid := tx.txid
           outputIndex := findScriptOutputIndex tx.outs script
           localKey := ourKey
           localKeyFamily := toI32 fam
           localKeyIndex := toI32 idx
           remoteKey := m.multiSigKey
           pendingChanId := pid
           thawHeight := thaw
           musig2 := musig2 }, pid)

/-! ### `Manager.PrepChannelFunding`, one matched order of one of our orders -/

/-- what the bidder registers: the shim sent to lnd (`FundingTransitionMsg_ShimRegister`) and the acceptor
notification `NotifyShimCreated(ourBid, pendingChanID)`; `none` = nothing is registered for this match. -/
def prepRegisters (env : Env) (nodePubKey : Bytes) (ourOrder : Order) (m : MatchedOrder) (tx : BatchTx)
    (heightHint : Nat) : Res (Option (Shim × Bytes × ExpBid)) :=
  match ourOrder with
  | .ask _ => .ok none              -- askers connect at most; only bid orders register a shim
  | .bid b =>
    let providerOnly : Bool :=
      match b.sidecar with
      | some t =>
        match t.recipient with
        | some r => !(r.nodeKey == nodePubKey)
        | none => false
      | none => false
    if providerOnly then .ok none    -- sidecar provider: the recipient's node registers
    else
      (deriveFundingShim env ourOrder m tx heightHint).bind fun (shim, pid) =>
        .ok (some (shim, pid,
          { nonce := b.kit.nonce, selfChanBalance := b.selfChanBalance, channelType := b.kit.channelType,
            unannounced := b.unannounced, zeroConf := b.zeroConf }))

/-! ### `Manager.BatchChannelSetup`, one matched order of one of our orders -/
structure OpenReq where
  nodePubkey : Bytes
  localFundingAmount : Int
  shim : Shim
  pushSat : Int
  commitmentType : Nat
  isPrivate : Bool
  zeroConf : Bool
deriving Repr, DecidableEq

/-- the `lnrpc.OpenChannelRequest` the asker sends; `none` = no request for this match (our order is a bid) -/
def batchChannelSetup (env : Env) (ourOrder : Order) (m : MatchedOrder) (tx : BatchTx) (heightHint : Nat) :
    Res (Option OpenReq) :=
  match ourOrder with
  | .bid b =>
    match b.sidecar with
    | some _ => .ok none       -- `continue` before any derivation
    | none => (deriveFundingShim env ourOrder m tx heightHint).bind fun _ => .ok none
  | .ask k =>
    (deriveFundingShim env ourOrder m tx heightHint).bind fun (shim, _) =>
    match m.order with
    | .ask _ => .panic
    | .bid mb =>
      let chanAmt := wrapI64 (toSatoshis m.unitsFilled + mb.selfChanBalance)
      let (commitType, _) := determineCommitmentType k.channelType mb.kit.channelType
      .ok (some { nodePubkey := m.nodeKey
                  localFundingAmount := chanAmt
                  shim := shim
                  pushSat := mb.selfChanBalance
                  commitmentType := commitType
                  isPrivate := mb.unannounced
                  zeroConf := mb.zeroConf })

/-! ### whole batches: the loops of `PrepChannelFunding` and `BatchChannelSetup`

`batch.MatchedOrders` is a Go map from our order's nonce to its matched orders; the model takes it as a list of
(our order as returned by `getOrder` / `DB.GetOrder`, matched orders).  Go map iteration order is unspecified; the
registrations / requests of one call are compared as sets (sorted) and theorem `C17_prep_batch_regs` shows the
result is the per-pair results whatever the order.  `traderBehindTor` is `false` (the harness node has a clearnet
URI).  An error of one pair aborts the call (Go returns at once; what was registered before stays registered –
the model returns `err` for the whole call and the harness compares only that). -/

structure PrepOut where
  /-- nodes a connection attempt was started to (`connsInitiated`, insertion order) -/
  conns : List Bytes := []
  /-- (shim sent to lnd, pending id, bid handed to the acceptor) per registered pair -/
  regs : List (Shim × Bytes × ExpBid) := []
deriving Repr, DecidableEq

/-- body of the inner loop of `PrepChannelFunding` for one matched order -/
def prepMatch (env : Env) (nodePubKey : Bytes) (ourOrder : Order) (tx : BatchTx) (heightHint : Nat)
    (st : PrepOut) (m : MatchedOrder) : Res PrepOut :=
  (prepRegisters env nodePubKey ourOrder m tx heightHint).bind fun r =>
    match r with
    | none => .ok st                       -- asker / sidecar provider: `continue` before connecting
    | some x =>
      -- the connection attempt is de-duplicated per node, the registration is not
      let conns := if st.conns.contains m.nodeKey then st.conns else st.conns ++ [m.nodeKey]
      .ok { conns := conns, regs := st.regs ++ [x] }

def resFoldl {σ α : Type} (f : σ → α → Res σ) : σ → List α → Res σ
  | s, [] => .ok s
  | s, a :: rest => (f s a).bind fun s' => resFoldl f s' rest

def prepOrder (env : Env) (nodePubKey : Bytes) (tx : BatchTx) (heightHint : Nat) (st : PrepOut)
    (e : Order × List MatchedOrder) : Res PrepOut :=
  resFoldl (prepMatch env nodePubKey e.1 tx heightHint) st e.2

/-- `Manager.PrepChannelFunding` (the registration part) -/
def prepBatch (env : Env) (nodePubKey : Bytes) (batch : List (Order × List MatchedOrder)) (tx : BatchTx)
    (heightHint : Nat) : Res PrepOut :=
  resFoldl (prepOrder env nodePubKey tx heightHint) {} batch

def setupMatch (env : Env) (ourOrder : Order) (tx : BatchTx) (heightHint : Nat)
    (st : List OpenReq) (m : MatchedOrder) : Res (List OpenReq) :=
  (batchChannelSetup env ourOrder m tx heightHint).bind fun r =>
    match r with
    | none => .ok st
    | some q => .ok (st ++ [q])

/-- `Manager.BatchChannelSetup`: the `OpenChannelRequest`s sent for a whole batch -/
def setupBatch (env : Env) (batch : List (Order × List MatchedOrder)) (tx : BatchTx) (heightHint : Nat) :
    Res (List OpenReq) :=
  resFoldl (fun st (e : Order × List MatchedOrder) => resFoldl (setupMatch env e.1 tx heightHint) st e.2) [] batch

/-! ### lnd's registry of funding shims, re-proposed batches

lnd (`lnwallet.RegisterFundingIntent`) refuses a second shim for a pending channel id it already holds
(`ErrDuplicatePendingChanID`) and keeps the first one; `ShimCancel` removes it.  `registerFundingShim` returns the
error of the register call (the acceptor is then *not* notified and `PrepChannelFunding` fails, i.e. the bidder
rejects the batch); `CancelPendingFundingShims` only logs a failing cancel. -/

abbrev LndShims := List (Bytes × Shim)

def lndLookup (l : LndShims) (pid : Bytes) : Option Shim :=
  match l with
  | [] => none
  | (p, s) :: rest => if p = pid then some s else lndLookup rest pid

def lndRegister (l : LndShims) (pid : Bytes) (s : Shim) : Option LndShims :=
  match lndLookup l pid with
  | some _ => none
  | none => some (l ++ [(pid, s)])

def lndCancel (l : LndShims) (pid : Bytes) : LndShims := l.filter fun e => !(e.1 == pid)

structure PrepSt where
  out : PrepOut := {}
  lnd : LndShims := []
deriving Repr, DecidableEq

/-- loop body of `PrepChannelFunding` against an lnd that already holds `st.lnd` -/
def prepMatchLnd (env : Env) (nodePubKey : Bytes) (ourOrder : Order) (tx : BatchTx) (heightHint : Nat)
    (st : PrepSt) (m : MatchedOrder) : Res PrepSt :=
  (prepRegisters env nodePubKey ourOrder m tx heightHint).bind fun r =>
    match r with
    | none => .ok st
    | some x =>
      match lndRegister st.lnd x.2.1 x.1 with
      | none => .err          -- "unable to register funding shim: duplicate pending channel ID"
      | some l =>
        let conns := if st.out.conns.contains m.nodeKey then st.out.conns else st.out.conns ++ [m.nodeKey]
        .ok { out := { conns := conns, regs := st.out.regs ++ [x] }, lnd := l }

def prepBatchLnd (env : Env) (nodePubKey : Bytes) (batch : List (Order × List MatchedOrder)) (tx : BatchTx)
    (heightHint : Nat) (lnd : LndShims) : Res PrepSt :=
  resFoldl (fun st (e : Order × List MatchedOrder) =>
    resFoldl (prepMatchLnd env nodePubKey e.1 tx heightHint) st e.2) { lnd := lnd } batch

/-- `funding.CancelPendingFundingShims`: one `ShimCancel` per match of each of our bids; the cancels of the pending
ids in `failing` fail (RPC error – logged only). -/
def cancelPendingFundingShims (H : Bytes → Bytes) (batch : List (Order × List MatchedOrder)) (failing : List Bytes)
    (lnd : LndShims) : LndShims :=
  batch.foldl (fun l e =>
    match e.1 with
    | .ask _ => l
    | .bid b => e.2.foldl (fun l m =>
        let pid := pendingChanKey H m.order.kit.nonce b.kit.nonce
        if failing.contains pid then l else lndCancel l pid) l) lnd

/-- all (our order, matched order) pairs of a batch -/
def flatPairs (batch : List (Order × List MatchedOrder)) : List (Order × MatchedOrder) :=
  batch.flatMap fun e => e.2.map fun m => (e.1, m)

/-! ### what each side sees of the other: `Client.SubmitOrder` followed by `ParseRPCServerAsk/Bid` -/

/-- channel type through `SubmitOrder`'s switch and back through `ParseRPCServerOrder`'s: identity on the three
known types, an error ("unhandled channel type") otherwise -/
def projChannelType (ct : Nat) : Option Nat :=
  if ct = Gen.C17.chanTypePeerDependent ∨ ct = Gen.C17.chanTypeScriptEnforced ∨ ct = Gen.C17.chanTypeSimpleTaproot
  then some ct else none

inductive Proj where
  | ok (m : MatchedOrder)
  | err
  | randomNonce       -- a zero nonce is replaced by a random one by `ParseRPCServerOrder`
deriving Repr, DecidableEq

def projKit (env : Env) (k : Kit) (multiSigKey nodeKey : Bytes) : Option Kit :=
  match projChannelType k.channelType with
  | none => none
  | some ct =>
    if env.validKey nodeKey && env.validKey multiSigKey then
      some { nonce := k.nonce, leaseDuration := k.leaseDuration, channelType := ct, keyFamily := 0, keyIndex := 0 }
    else none

/-- the asker's ask as the bidder receives it (the multisig key locator is not transmitted) -/
def projAsk (env : Env) (k : Kit) (multiSigKey nodeKey : Bytes) (units : Nat) : Proj :=
  match projKit env k multiSigKey nodeKey with
  | none => .err
  | some pk =>
    if k.nonce = zeroNonce then .randomNonce
    else .ok { order := .ask pk, multiSigKey := multiSigKey, nodeKey := nodeKey, unitsFilled := units }

/-- the bidder's bid as the asker receives it (no ticket, no key locator) -/
def projBid (env : Env) (b : Bid) (multiSigKey nodeKey : Bytes) (units : Nat) : Proj :=
  match projKit env b.kit multiSigKey nodeKey with
  | none => .err
  | some pk =>
    if b.kit.nonce = zeroNonce then
      -- the freshly made kit loses the lease duration (only `ParseRPCServerAsk` sets it again), so
      -- `ParseRPCBatch` refuses the matched bid unless its bucket is 0
      if b.kit.leaseDuration = 0 then .randomNonce else .err
    else .ok { order := .bid { kit := pk, selfChanBalance := b.selfChanBalance, unannounced := b.unannounced,
                               zeroConf := b.zeroConf, sidecar := none },
               multiSigKey := multiSigKey, nodeKey := nodeKey, unitsFilled := units }

/-- `order.manager.PrepareOrder`: the (multisig key, node key) a sidecar bid is submitted with are the
recipient's; `none` = the ticket lacks recipient information (order refused) -/
def sidecarServerParams (t : Ticket) : Option (Bytes × Bytes) :=
  match t.recipient with
  | some r =>
    match r.multiSigKey with
    | some k => some (k, r.nodeKey)
    | none => none
  | none => none

/-! ### `SidecarAcceptor.getSidecarAsOrder` -/

/-- the dummy bid the recipient derives from its pending ticket whose `Order.BidNonce` is `o` -/
def getSidecarAsOrder (pending : List Ticket) (o : Bytes) : Res Order :=
  match pending with
  | [] => .err                 -- clientdb.ErrNoOrder
  | t :: rest =>
    match t.orderBidNonce with
    | none => .panic           -- ticket.Order == nil
    | some n =>
      if n = o then
        .ok (.bid { kit := { nonce := n, leaseDuration := t.offer.leaseDurationBlocks,
                             channelType := 0, keyFamily := 0, keyIndex := 0 },
                    selfChanBalance := t.offer.pushAmt,
                    unannounced := t.offer.unannounced,
                    zeroConf := t.offer.zeroConf,
                    sidecar := some t })
      else getSidecarAsOrder rest o

/-! ### the gate a sidecar bid passes before it is signed into the ticket and submitted -/

/-- `order.CheckOfferParamsForOrder` (inbound market) as called by `validateAndSignTicketForOrder`, pinned tree:
`CheckOfferParams` (capacity a non-zero multiple of the base unit – Go's `%` truncates, so a negative multiple
passes too –, push amount ≤ capacity), then only capacity and min units are compared with the bid (amounts in
sat; `minUnits` in supply units). -/
def offerGatePinned (offer : Offer) (bidAmt : Int) (minUnits : Nat) : Bool :=
  offer.capacity != 0 && Int.tmod offer.capacity (Int.ofNat Gen.C17.baseSupplyUnit) == 0 &&
  decide (offer.pushAmt ≤ offer.capacity) &&
  offer.capacity == bidAmt && offer.capacity == wrapI64 (Int.ofNat minUnits * Int.ofNat Gen.C17.baseSupplyUnit)

/-- `funding.Manager.OfferSidecar` (inbound market), the only place where an offer is created and signed: the
`CheckOfferParams` sanity checks and – after the second `fix:` commit – a non-zero lease duration.  An offer that
passes `validateAndSignTicketForOrder` carries a valid signature of the provider's own account key, i.e. was made
here. -/
def offerSidecarOK (offer : Offer) : Bool :=
  offer.leaseDurationBlocks != 0 &&
  offer.capacity != 0 && Int.tmod offer.capacity (Int.ofNat Gen.C17.baseSupplyUnit) == 0 &&
  decide (offer.pushAmt ≤ offer.capacity)

/-- the gate after the `fix:` commit (`order.CheckOfferMatchesBid`): additionally the parameters the recipient
takes from the offer must be the bid's; an offer lease duration of zero is treated as "unspecified" (kept so
that the package's existing tests pass unedited; such offers are refused where they are made, `offerSidecarOK`). -/
def offerGate (offer : Offer) (b : Bid) (bidAmt : Int) (minUnits : Nat) : Bool :=
  offerGatePinned offer bidAmt minUnits &&
  (offer.leaseDurationBlocks == 0 || offer.leaseDurationBlocks == b.kit.leaseDuration) &&
  offer.pushAmt == b.selfChanBalance &&
  offer.unannounced == b.unannounced && offer.zeroConf == b.zeroConf

end Pool.C17
