import PoolModel.Generated.C16Facts
/-!
Model of the sidecar auto-negotiation (`/repo/auto_sidecar.go`, `/repo/sidecar_acceptor.go`,
`/repo/clientdb/sidecar.go`).

Go                                                    model
--                                                    -----
`sidecar.State` (uint8)                               `Nat` (names below; tied to the regenerated enum by
                                                      `PoolProofs.C16.states_match`)
`*sidecar.Ticket`                                     `Option Ticket` (`none` = nil pointer)
signatures (`Offer.SigOfferDigest`, `Order.Sig…`)     IDEAL: a flag `Sig` = missing / valid for the provider
                                                      key over this ticket's digest / invalid
tagless `switch` of `stateStepProvider/Recipient`     `selectCase` = interpreter over the REGENERATED case table
                                                      (`Gen.C16.providerCases/recipientCases`): conditions in
                                                      source order, `&&` short-circuit, `fallthrough`; evaluating
                                                      `.State` of a nil ticket = `panic`
clause bodies                                         hand-written (`provBody`/`recpBody`), tied to the table by
                                                      `provider_clauses_match` + `prov_select` (signature-keyed)
`SidecarDriver` / `MailBox` results                   `Env` = the answers the environment gives during ONE step
run loops `autoSidecarProvider/Receiver`              `apply : Sys → Act → Option Sys`, one transition per
                                                      handler invocation of the main `select` loop / per iteration
                                                      of the provider's `stateUpdateLoop`
-/
namespace Pool.C16
open Pool.Gen.C16 (StepCase)

/-! ## states -/
abbrev sCreated : Nat := 0
abbrev sOffered : Nat := 1
abbrev sRegistered : Nat := 2
abbrev sOrdered : Nat := 3
abbrev sExpecting : Nat := 4
abbrev sCompleted : Nat := 5
abbrev sCanceled : Nat := 6

/-- `State.IsTerminal`, over the regenerated set. -/
def isTerminal (s : Nat) : Bool := Pool.Gen.C16.terminalStates.contains s

/-! ## tickets -/
inductive Sig | none | valid | bad
deriving DecidableEq, Repr

structure Order where
  /-- 0 = the all-zero nonce, 1 = the nonce of the provider's bid template, ≥ 2 = any other nonce -/
  nonce : Nat
  sig : Sig
deriving DecidableEq, Repr

structure Ticket where
  /-- 0 = the ticket under negotiation (the key `(ID, Offer.SignPubKey)` both stores know) -/
  id : Nat
  state : Nat
  offerSig : Sig
  recipient : Bool
  order : Option Order
deriving DecidableEq, Repr

/-! ## one step: environment answers and effects -/

inductive SubmitRes
  | ok        -- bid stored and sent; the driver returns the (mutated) ticket
  | errExists -- the driver returns `(nil, err)` with `errors.Is(err, clientdb.ErrOrderExists)`
  | errOther  -- the driver returns `(nil, err)`, any other error
deriving DecidableEq, Repr

/-- What the `SidecarDriver` and `MailBox` answer during one step. `submit`/`expect` also return the ticket as
it is after their in-place mutation (`SignOrder` sets state/order/signature, `ExpectChannel` sets the state). -/
structure Env where
  sendOk : Bool
  updateOk : Ticket → Bool
  submit : Ticket → Ticket × SubmitRes
  validate : Ticket → Bool
  expect : Ticket → Ticket × Bool

inductive Eff
  | send (toProvider : Bool) (t : Ticket) (ok : Bool)
  | update (t : Ticket) (ok : Bool)
  | submit (t : Ticket) (res : SubmitRes)       -- t = ticket after the call
  | validate (t : Ticket) (ok : Bool)
  | expect (t : Ticket) (ok : Bool)             -- t = ticket after the call
  | spawnFin                                    -- `go a.TicketExecuted(StateCanceled, true)`
  | delMailbox
  | initMailbox
deriving DecidableEq, Repr

inductive Res
  | ok (cur : Nat) (recv prov : Option Ticket)  -- the returned `*SidecarPacket`
  | err (code : Nat)
  | panic
deriving DecidableEq, Repr

-- error codes (classes of the wrapped errors)
abbrev eSend : Nat := 1
abbrev eUpdate : Nat := 2
abbrev eSubmit : Nat := 3
abbrev eValidate : Nat := 4
abbrev eExpect : Nat := 5
abbrev eUnhandled : Nat := 6

structure Out where
  res : Res
  /-- the object `pkt.ProviderTicket` points to, after the call (in-place mutations are visible to the caller) -/
  provAfter : Option Ticket
  effs : List Eff
deriving DecidableEq, Repr

/-! ## case selection: interpreter over the regenerated `switch` table -/

/-- value of `pkt.CurrentState` / `pkt.ReceiverTicket.State` / `pkt.ProviderTicket.State`;
`none` = nil pointer dereference. -/
def fieldVal (cur : Nat) (recv prov : Option Ticket) : Nat → Option Nat
  | 0 => some cur
  | 1 => recv.map (·.state)
  | _ => prov.map (·.state)

/-- `a == S && b == T && …` left to right with short-circuit; `none` = panic. -/
def evalAtoms (cur : Nat) (recv prov : Option Ticket) : List (Nat × Nat) → Option Bool
  | [] => some true
  | (f, v) :: rest =>
    match fieldVal cur recv prov f with
    | none => none
    | some x => if x = v then evalAtoms cur recv prov rest else some false

/-- follow `fallthrough`s from clause `i` to the clause whose body returns -/
def fallTo : List StepCase → Nat → Nat
  | [], i => i
  | c :: rest, i => if c.fall then fallTo rest (i + 1) else i

/-- index of the clause body that runs; `none` = panic while evaluating a condition. The `default`
clause is the last one in both functions (checked by the table theorems). -/
def selectFrom (cur : Nat) (recv prov : Option Ticket) : List StepCase → Nat → Option Nat
  | [], i => some i
  | c :: rest, i =>
    if c.isDefault then some i else
    match evalAtoms cur recv prov c.atoms with
    | none => none
    | some true => some (fallTo (c :: rest) i)
    | some false => selectFrom cur recv prov rest (i + 1)

def selectCase (tbl : List StepCase) (cur : Nat) (recv prov : Option Ticket) : Option Nat :=
  selectFrom cur recv prov tbl 0

/-! The clause that runs is identified by WHAT IT DOES (its regenerated signature: result state + driver/mailbox
calls), not by its position in the `switch`: reordering mutually exclusive clauses changes nothing. A clause with an
unknown signature maps to body 9 (treated like `default`), which makes the closed-form selection theorems
(`prov_select`/`recp_select`) fail. -/

def sigP (c : StepCase) : Nat :=
  if c.isDefault then 6 else
  match c.result, c.calls with
  | some 1, ["MailBox.SendSidecarPkt"] => 0
  | some 2, ["Driver.UpdateSidecar"] => 1
  | some 6, ["go a.TicketExecuted"] => 2
  | some 3, ["Driver.SubmitSidecarOrder"] => 3
  | some 4, ["MailBox.SendSidecarPkt", "Driver.UpdateSidecar"] => 5
  | _, _ => 9

def sigR (c : StepCase) : Nat :=
  if c.isDefault then 5 else
  match c.result, c.calls with
  | some 2, ["MailBox.SendSidecarPkt"] => 1
  | some 4, ["Driver.ValidateOrderedTicket", "Driver.ExpectChannel"] => 2
  | some 6, ["go a.TicketExecuted"] => 3
  | some 4, ["Driver.ExpectChannel"] => 4
  | _, _ => 9

def bodyOf (sig : StepCase → Nat) (tbl : List StepCase) (i : Nat) : Nat :=
  match tbl[i]? with
  | some c => sig c
  | none => 9

def selectBodyP (cur : Nat) (recv prov : Option Ticket) : Option Nat :=
  (selectCase Pool.Gen.C16.providerCases cur recv prov).map (bodyOf sigP Pool.Gen.C16.providerCases)

def selectBodyR (cur : Nat) (recv prov : Option Ticket) : Option Nat :=
  (selectCase Pool.Gen.C16.recipientCases cur recv prov).map (bodyOf sigR Pool.Gen.C16.recipientCases)

/-! ## `stateStepProvider` -/

/-- clause bodies of `stateStepProvider`, by clause signature (`sigP`). -/
def provBody (env : Env) (recv prov : Option Ticket) : Nat → Out
  -- case CurrentState == Created && ProviderTicket.State == Offered: re-send the offered ticket
  | 0 =>
    match prov with
    | none => ⟨.panic, prov, []⟩
    | some p =>
      if env.sendOk then ⟨.ok sOffered prov recv, prov, [.send false p true]⟩
      else ⟨.err eSend, prov, [.send false p false]⟩
  -- case CurrentState == Offered && ReceiverTicket.State == Registered: persist the registered ticket
  | 1 =>
    match recv with
    | none => ⟨.panic, prov, []⟩
    | some r =>
      if env.updateOk r then ⟨.ok sRegistered recv recv, prov, [.update r true]⟩
      else ⟨.err eUpdate, prov, [.update r false]⟩
  -- case ReceiverTicket.State == Canceled
  | 2 => ⟨.ok sCanceled recv prov, prov, [.spawnFin]⟩
  -- case CurrentState == Registered: submit the bid (log line dereferences pkt.ProviderTicket)
  | 3 =>
    match prov with
    | none => ⟨.panic, prov, []⟩
    | some p =>
      match env.submit p with
      | (p', .ok) => ⟨.ok sOrdered (some p') (some p'), some p', [.submit p' .ok]⟩
      | (p', .errExists) => ⟨.ok sOrdered none none, some p', [.submit p' .errExists]⟩
      | (p', .errOther) => ⟨.err eSubmit, some p', [.submit p' .errOther]⟩
  -- case CurrentState == Expecting && ReceiverTicket.State == Registered: fallthrough
  -- case CurrentState == Ordered: send the ordered ticket, persist expecting
  | 4 | 5 =>
    match prov with
    | none => ⟨.panic, prov, []⟩
    | some p =>
      let p1 := { p with state := sOrdered }            -- pkt.ProviderTicket.State = StateOrdered (in place)
      if env.sendOk then
        let upd := { p1 with state := sExpecting }      -- updatedTicket := *pkt.ProviderTicket
        if env.updateOk upd then
          ⟨.ok sExpecting (some upd) (some upd), some p1, [.send false p1 true, .update upd true]⟩
        else ⟨.err eUpdate, some p1, [.send false p1 true, .update upd false]⟩
      else ⟨.err eSend, some p1, [.send false p1 false]⟩
  -- default: the error message dereferences pkt.ReceiverTicket
  | _ =>
    match recv with
    | none => ⟨.panic, prov, []⟩
    | some _ => ⟨.err eUnhandled, prov, []⟩

def stepProvider (env : Env) (cur : Nat) (recv prov : Option Ticket) : Out :=
  match selectBodyP cur recv prov with
  | none => ⟨.panic, prov, []⟩
  | some i => provBody env recv prov i

/-! ## `stateStepRecipient` -/

def recpBody (env : Env) (recv prov : Option Ticket) : Nat → Out
  -- case ProviderTicket.State == Offered: fallthrough
  -- case all three Registered: (re-)send our registered ticket. `SerializeTicket(nil)` is an error.
  | 0 | 1 =>
    match recv with
    | none => ⟨.err eSend, prov, []⟩
    | some r =>
      if env.sendOk then ⟨.ok sRegistered recv recv, prov, [.send true r true]⟩
      else ⟨.err eSend, prov, [.send true r false]⟩
  -- case CurrentState == Registered && ProviderTicket.State == Ordered: validate, expect
  | 2 =>
    match prov with
    | none => ⟨.panic, prov, []⟩
    | some p =>
      if env.validate p then
        match env.expect p with
        | (p', true) => ⟨.ok sExpecting (some p') (some p'), some p', [.validate p true, .expect p' true]⟩
        | (p', false) => ⟨.err eExpect, some p', [.validate p true, .expect p' false]⟩
      else ⟨.err eValidate, prov, [.validate p false]⟩
  -- case ProviderTicket.State == Canceled
  | 3 => ⟨.ok sCanceled recv prov, prov, [.spawnFin]⟩
  -- case CurrentState == Expecting: expect again
  | 4 =>
    match prov with
    | none => ⟨.panic, prov, []⟩
    | some p =>
      match env.expect p with
      | (p', true) => ⟨.ok sExpecting recv (some p'), some p', [.expect p' true]⟩
      | (p', false) => ⟨.err eExpect, some p', [.expect p' false]⟩
  | _ =>
    match prov with
    | none => ⟨.panic, prov, []⟩
    | some _ => ⟨.err eUnhandled, prov, []⟩

def stepRecipient (env : Env) (cur : Nat) (recv prov : Option Ticket) : Out :=
  match selectBodyR cur recv prov with
  | none => ⟨.panic, prov, []⟩
  | some i => recpBody env recv prov i

/-! ## the driver (`SidecarAcceptor` as `SidecarDriver`) over the two stores -/

/-- `sidecar.VerifyOffer` on a non-nil ticket (pubkey always present in this model). -/
def verifyOffer (t : Ticket) : Bool := decide (sOffered ≤ t.state) && t.offerSig == .valid

/-- `sidecar.VerifyOrder`. -/
def verifyOrder (t : Ticket) : Bool :=
  decide (sOrdered ≤ t.state) && t.offerSig != .none &&
  match t.order with
  | none => false
  | some o => o.sig != .none && o.nonce != 0 && o.sig == .valid

/-- `validateOrderedTicket`: state, offer signature, order signature, store lookup by `(ID, SignPubKey)`. -/
def validateOrdered (t : Ticket) : Bool :=
  t.state == sOrdered && verifyOffer t && verifyOrder t && t.id == 0

/-- the property's phrase "carries the provider's valid order signature over the offer it registered" -/
def ValidSigned (t : Ticket) : Prop :=
  t.id = 0 ∧ t.offerSig = .valid ∧ ∃ o, t.order = some o ∧ o.sig = .valid ∧ o.nonce ≠ 0

/-- `order.manager.validateAndSignTicketForOrder` + `sidecar.SignOrder`: the ticket after the in-place mutation,
or `none` when a check fails before anything is written. -/
def signForOrder (t : Ticket) : Option Ticket :=
  if t.state == sRegistered && t.recipient && verifyOffer t then
    some { t with state := sOrdered, order := some ⟨1, .valid⟩ }
  else none

/-- `SidecarAcceptor.SubmitSidecarOrder` → `PrepareOrder` → `Store.SubmitOrder` (nonce uniqueness) → auctioneer.
`PrepareOrder` wraps `clientdb.ErrOrderExists` with `%v`, so a duplicate is an *other* error: the real driver
never answers `errExists`. The ticket is signed (mutated) before the store rejects the duplicate. -/
def driverSubmit (bidStored : Bool) (t : Ticket) : Ticket × SubmitRes :=
  match signForOrder t with
  | none => (t, .errOther)
  | some t' => if bidStored then (t', .errOther) else (t', .ok)

/-- `SidecarAcceptor.ExpectChannel`: order present, nonce not yet pending, state := expecting, store update. -/
def driverExpect (pending : Option Nat) (t : Ticket) : Ticket × Bool :=
  match t.order with
  | none => (t, false)
  | some o =>
    if pending == some o.nonce then (t, false) else
    let t' := { t with state := sExpecting }
    (t', t.id == 0)

/-! ## the two run loops as a transition system -/

structure Party where
  alive : Bool                 -- the main loop goroutine runs
  cur : Nat                    -- a.currentState
  loc : Option Ticket          -- localTicket
  inbox : Option Ticket        -- packetChan (capacity 1)
  loopPkt : Option Ticket      -- provider: inside stateUpdateLoop with this newTicket
  finPend : Bool               -- a `go TicketExecuted(StateCanceled, true)` waits for the hand-off
  quit : Bool                  -- Stop() was called (quit closed)
  store : Ticket               -- the persisted ticket
deriving DecidableEq, Repr

structure Sys where
  p : Party
  r : Party
  bidStored : Bool             -- the provider's order store holds the template nonce
  bids : Nat                   -- bids handed to the auctioneer
  pending : Option Nat         -- recipient's pendingSidecarOrders (in memory)
  toR : List Ticket            -- every ticket the provider sent
  toP : List Ticket            -- every ticket the recipient sent
  log : List (Bool × Eff)      -- (by provider?, effect), newest first
  panicked : Bool
deriving DecidableEq, Repr

def tOffered : Ticket := ⟨0, sOffered, .valid, false, some ⟨1, .none⟩⟩
def tRegistered : Ticket := ⟨0, sRegistered, .valid, true, some ⟨1, .none⟩⟩

/-- `CoordinateSidecar` on the provider, `RegisterSidecar` + `AutoAcceptSidecar` on the recipient. -/
def init : Sys :=
  { p := ⟨true, sOffered, some tOffered, none, none, false, false, tOffered⟩,
    r := ⟨true, sRegistered, some tRegistered, some tRegistered, none, false, false, tRegistered⟩,
    bidStored := false, bids := 0, pending := none, toR := [], toP := [], log := [], panicked := false }

def envP (s : Sys) : Env :=
  { sendOk := true, updateOk := fun t => t.id == 0, submit := driverSubmit s.bidStored,
    validate := validateOrdered, expect := driverExpect none }

def envR (s : Sys) : Env :=
  { sendOk := true, updateOk := fun t => t.id == 0, submit := fun t => (t, .errOther),
    validate := validateOrdered, expect := driverExpect s.pending }

def setParty (s : Sys) (prov : Bool) (x : Party) : Sys := if prov then { s with p := x } else { s with r := x }
def getParty (s : Sys) (prov : Bool) : Party := if prov then s.p else s.r

/-- effect of one driver / mailbox call of party `prov` on the shared state -/
def applyEff (prov : Bool) (s : Sys) (e : Eff) : Sys :=
  let s := { s with log := (prov, e) :: s.log }
  match e with
  | .send true t true => { s with toP := s.toP ++ [t] }
  | .send false t true => { s with toR := s.toR ++ [t] }
  | .update t true => setParty s prov { getParty s prov with store := t }
  | .submit _ .ok => { s with bidStored := true, bids := s.bids + 1 }
  | .expect t true =>
    { s with r := { s.r with store := t }, pending := t.order.map (·.nonce) }
  | .spawnFin => setParty s prov { getParty s prov with finPend := true }
  | _ => s

def applyEffs (prov : Bool) (s : Sys) (es : List Eff) : Sys := es.foldl (applyEff prov) s

/-- `SidecarAcceptor.Start` resume rules: terminal tickets get no negotiator; an offered ticket resumes as
"created" (the provider then re-sends the offer); both tickets of the starting packet are the stored one. -/
def resumeState (st : Nat) : Nat :=
  match Pool.Gen.C16.resumeRemap.find? (fun p => p.1 == st) with
  | some p => p.2
  | none => st

def restartParty (prov : Bool) (x : Party) : Party :=
  if isTerminal x.store.state then
    { x with alive := false, inbox := none, loopPkt := none, finPend := false, quit := false }
  else
    let cur := if prov then resumeState x.store.state else x.store.state
    { alive := true, cur := cur, loc := some x.store,
      inbox := if prov then (if cur == sCreated then some x.store else none) else some x.store,
      loopPkt := none, finPend := false, quit := false, store := x.store }

def restart (prov : Bool) (s : Sys) : Sys :=
  let s := setParty s prov (restartParty prov (getParty s prov))
  if prov then s else { s with pending := none }

/-- one call of the step function by the main loop of party `prov` on packet `pkt`:
returns the new party state and the effects. -/
def procStep (s : Sys) (prov : Bool) (x : Party) (pkt : Ticket) : Option Party × List Eff :=
  if prov then
    let out := stepProvider (envP s) x.cur (some pkt) x.loc
    match out.res with
    | .panic => (none, out.effs)
    | .err _ => (some { x with loc := out.provAfter, loopPkt := none }, out.effs)
    | .ok c _ pv =>
      let again := !(x.cur == c || c == sExpecting || c == sCanceled)
      (some { x with cur := c, loc := pv, loopPkt := if again then some pkt else none }, out.effs)
  else
    let out := stepRecipient (envR s) x.cur x.loc (some pkt)
    match out.res with
    | .panic => (none, out.effs)
    | .err _ => (some x, out.effs)
    | .ok c rv _ => (some { x with cur := c, loc := rv }, out.effs)

/-- the finalization branch of the main loop: `localTicket.State = st`, `UpdateSidecar`, then either notify the
other side (own cancel; the provider only once a recipient registered) or delete the mailbox. The branch
returns from the loop iff the regenerated `…FinReturns` says so; `TicketExecuted` then calls `Stop()`. -/
def finStep (returns : Bool) (prov : Bool) (x : Party) (st : Nat) (otherSide : Bool) :
    Option Party × List Eff :=
  match x.loc with
  | none => (none, [])
  | some l =>
    let l' := { l with state := st }
    let notify := !otherSide && st == sCanceled && (!prov || decide (sRegistered ≤ x.cur))
    (some { x with loc := some l', finPend := false, quit := true, alive := !returns },
     [.update l' true, if notify then .send (!prov) l' true else .delMailbox])

inductive Act
  | deliver (toProv : Bool) (i : Nat)   -- the reader of that side receives the i-th sent ticket (again)
  | proc (prov : Bool)                  -- main loop: next packet / next stateUpdateLoop iteration
  | procCrash (prov : Bool) (k : Nat)   -- the same handler, but the process dies after k effects and restarts
  | fin (prov : Bool)                   -- main loop takes the hand-off of the spawned TicketExecuted(Canceled,true)
  | finalize (prov : Bool) (st : Nat)   -- external TicketExecuted(st,false): st = completed / canceled
  | stop (prov : Bool)                  -- Stop(): quit is closed
  | quit (prov : Bool)                  -- main loop observes quit and returns
  | restart (prov : Bool)               -- process (re)start from the persisted ticket
  | recvErr (prov : Bool)               -- RecvSidecarPkt fails; back-off, re-init mailbox
  | cancelRPC (prov : Bool)             -- the user's `CancelSidecar` RPC on that node (atomic)
  | completeRPC (prov : Bool)           -- the batch with the sidecar channel was finalized on that node (atomic)
deriving DecidableEq, Repr

/-- next packet of a party's main loop: an unfinished stateUpdateLoop continues first -/
def nextPkt (x : Party) : Option Ticket := if x.loopPkt.isSome then x.loopPkt else x.inbox

def takePkt (x : Party) : Party := if x.loopPkt.isSome then x else { x with inbox := none }

/-- does the finalization branch of the run loops `return`? (regenerated from the source) -/
def finReturns : Bool := Pool.Gen.C16.providerFinReturns && Pool.Gen.C16.receiverFinReturns

/-- one transition; `ret` = the finalization branch returns from the loop (the repaired code: `true`). -/
def applyG (ret : Bool) (s : Sys) : Act → Option Sys
  | .deliver toProv i =>
    let x := getParty s toProv
    match (if toProv then s.toP else s.toR)[i]? with
    | none => none
    | some m => if x.alive && x.inbox.isNone then some (setParty s toProv { x with inbox := some m }) else none
  | .proc prov =>
    let x := getParty s prov
    if !x.alive || s.panicked then none else
    match nextPkt x with
    | none => none
    | some pkt =>
      match procStep s prov (takePkt x) pkt with
      | (none, es) => some { applyEffs prov s es with panicked := true }
      | (some x', es) => some (applyEffs prov (setParty s prov x') es)
  | .procCrash prov k =>
    let x := getParty s prov
    if !x.alive || s.panicked then none else
    match nextPkt x with
    | none => none
    | some pkt =>
      let (_, es) := procStep s prov (takePkt x) pkt
      if k < es.length then some (restart prov (applyEffs prov s (es.take k))) else none
  | .fin prov =>
    let x := getParty s prov
    if !x.alive || s.panicked || !x.finPend || x.loopPkt.isSome then none else
    match finStep ret prov x sCanceled true with
    | (none, _) => some { s with panicked := true }
    | (some x', es) => some (applyEffs prov (setParty s prov x') es)
  | .finalize prov st =>
    let x := getParty s prov
    if !x.alive || s.panicked || x.quit || x.loopPkt.isSome || !(st == sCompleted || st == sCanceled) then none else
    match finStep ret prov x st false with
    | (none, _) => some { s with panicked := true }
    | (some x', es) => some (applyEffs prov (setParty s prov x') es)
  | .stop prov =>
    let x := getParty s prov
    some (setParty s prov { x with quit := true })
  | .quit prov =>
    let x := getParty s prov
    if x.alive && x.quit && x.loopPkt.isNone then
      some (setParty s prov { x with alive := false, inbox := none, finPend := false }) else none
  | .restart prov => some (restart prov s)
  | .recvErr prov =>
    let x := getParty s prov
    if x.alive then some { s with log := (prov, .initMailbox) :: s.log } else none
  -- `rpcServer.CancelSidecar`: picks the stored non-terminal ticket; for an ordered-or-later ticket it first
  -- cancels the bid (`CancelOrder`: the order must be in the local order store - on the recipient's node it is not,
  -- so the RPC fails there), which persists "canceled" and notifies the negotiator (`setTicketStateForOrder` →
  -- `FinalizeTicket` → `TicketExecuted(canceled,false)`); otherwise it notifies the negotiator directly; finally it
  -- writes its own copy of the ticket as canceled.
  | .cancelRPC prov =>
    let x := getParty s prov
    let t := x.store
    if s.panicked || isTerminal t.state || x.loopPkt.isSome then none else
    if decide (sOrdered ≤ t.state) && t.order.isSome && !(prov && s.bidStored) then none else
    let t6 := { t with state := sCanceled }
    if x.alive && x.quit then none else      -- the daemon is shutting down: no RPC is served
    if x.alive then
      match finStep ret prov x sCanceled false with
      | (none, _) => some { s with panicked := true }
      | (some x', es) =>
        let s1 := applyEffs prov (setParty s prov x') es
        some (setParty s1 prov { getParty s1 prov with store := t6 })
    else some (setParty s prov { x with store := t6 })
  -- batch finalization: the provider's `setTicketStateForOrder(completed)` / the recipient's `matchFinalize`
  -- persist "completed" and then notify the negotiator, whose finalization branch persists its local ticket
  | .completeRPC prov =>
    let x := getParty s prov
    let t := x.store
    if s.panicked || isTerminal t.state || x.loopPkt.isSome then none else
    if !((prov && s.bidStored) || (!prov && s.pending.isSome)) then none else
    let t5 := { t with state := sCompleted }
    if x.alive && x.quit then none else
    if x.alive then
      match finStep ret prov x sCompleted false with
      | (none, _) => some { s with panicked := true }
      | (some x', es) => some (applyEffs prov (setParty s prov x') es)
    else some (setParty s prov { x with store := t5 })

/-- the transition function of the code as it is now -/
def apply (s : Sys) (a : Act) : Option Sys := applyG finReturns s a

def runG (ret : Bool) : Sys → List Act → Option Sys
  | s, [] => some s
  | s, a :: as => match applyG ret s a with
    | none => none
    | some s' => runG ret s' as

def run (s : Sys) (as : List Act) : Option Sys := runG finReturns s as

/-- reachable = result of some action list from `init` -/
def Reachable (s : Sys) : Prop := ∃ as, run init as = some s


/-! ## `clientdb/sidecar.go`: `UpdateSidecar` and the bid template

The transition system above assumes that updating a ticket the store knows succeeds (`updateOk t = (t.id == 0)`).
This is the store-level model that justifies it (theorem `C16_update_of_known_ticket_succeeds`). -/

structure TicketDB where
  known : Bool      -- a ticket with this (ID, SignPubKey) key is stored
  bucket : Bool     -- the "sidecar-bids" sub-bucket exists (a ticket was added with a bid template)
  template : Bool   -- the template of this ticket's nonce is still there
deriving DecidableEq, Repr

/-- `removeBidTemplate`: no bucket → nil; zero nonce → nil; `DeleteBucket`, where `ErrBucketNotFound` is ignored. -/
def removeBidTemplate (db : TicketDB) (nonceZero : Bool) : TicketDB × Bool :=
  if !db.bucket then (db, true) else
  if nonceZero then (db, true) else
  if db.template then ({ db with template := false }, true) else (db, true)

/-- `DB.UpdateSidecar`: `ErrNoSidecar` for an unknown key; a terminal state with an order part removes the template -/
def updateSidecarDB (db : TicketDB) (state : Nat) (hasOrder nonceZero : Bool) : TicketDB × Bool :=
  if !db.known then (db, false) else
  if isTerminal state && hasOrder then
    match removeBidTemplate db nonceZero with
    | (db', true) => (db', true)
    | (db', false) => (db', false)
  else (db, true)

end Pool.C16
