import PoolModel.C06
/-!
Model of `order/batch_storer.go` (`batchStorer.StorePendingBatch` / `MarkBatchComplete`) in front of the C06
database model.

`StorePendingBatch(batch)` reads every matched order (`orderStore.GetOrder`) and every diffed account
(`getAccount`) in separate read transactions, computes the modifier lists and then calls
`orderStore.StorePendingBatch` (one write transaction, C06).  The order manager processes one batch message at a
time, so the read-then-write sequence is modelled as one step on the database state.

`batch.MatchedOrders` is a Go map: the model takes it as an association list with unique keys (`keys … .Nodup`
is a hypothesis of the theorems).  The iteration order only influences the order in which the per-order events
are appended; every order gets at most one event per call, and the correspondence run compares events per
order.
-/
namespace Pool.C13
open Pool.C06 Pool.Gen.C06

/-- `order.AccountDiff` -/
structure Diff where
  acct : Key
  endingState : Nat      -- auctioneerrpc.AccountDiff_AccountState
  endingBalance : Nat
  outpointIndex : Nat
  newExpiry : Nat
  newVersion : Nat
deriving DecidableEq, Repr

/-- the parts of `order.Batch` that `batchStorer` reads -/
structure Batch where
  id : Nat
  tx : Nat
  feeOk : Bool
  supportsExt : Bool       -- batch.Version.SupportsAccountExtension()
  supportsTaproot : Bool   -- batch.Version.SupportsAccountTaprootUpgrade()
  heightHint : Nat
  matched : List (Key × List Nat)   -- MatchedOrders: our nonce → UnitsFilled of every counterparty order
  diffs : List Diff
deriving DecidableEq, Repr

/-- `unitsUnfulfilled -= theirOrder.UnitsFilled` over all matches (uint64, wraps) -/
def remaining (unfilled : Nat) (us : List Nat) : Nat := us.foldl sub64 unfilled

/-- the `switch` on the remaining units -/
def fillMods (o : Ord) (us : List Nat) : List OMod :=
  let rem := remaining o.unfilled us
  if rem = 0 then [.state orderStateExecuted, .unitsUnfulfilled 0]
  else if rem < o.minMatch then [.state orderStateExecuted, .unitsUnfulfilled rem]
  else [.state orderStatePartiallyFilled, .unitsUnfulfilled rem]

/-- order half: `(nonce, modifiers)` per matched order, or "error getting order" -/
def prepOrders (main : List (Key × Ord)) : List (Key × List Nat) → Except Err (List (Key × List OMod))
  | [] => .ok []
  | (n, us) :: r =>
    match lookup n main with
    | none => .error .getOrder
    | some o =>
      match prepOrders main r with
      | .error e => .error e
      | .ok l => .ok ((n, fillMods o us) :: l)

/-- modifiers of one account diff -/
def diffMods (b : Batch) (a : Acct) (d : Diff) : Except Err (List AMod) :=
  let tail : List AMod := [.value d.endingBalance, .heightHint b.heightHint, .latestTx b.tx]
  if d.endingState = diff_OUTPUT_RECREATED then
    .ok ([.state acctStatePendingBatch, .outPoint b.tx d.outpointIndex, .incBatchKey]
      ++ (if b.supportsExt && d.newExpiry != 0 then [.expiry d.newExpiry] else [])
      ++ (if b.supportsTaproot && decide (d.newVersion > a.version) then [.version d.newVersion] else [])
      ++ tail)
  else if d.endingState = diff_OUTPUT_FULLY_SPENT ∨ d.endingState = diff_OUTPUT_DUST_ADDED_TO_FEES ∨
      d.endingState = diff_OUTPUT_DUST_EXTENDED_OFFCHAIN then
    .ok ([.state acctStatePendingClosed] ++ tail)
  else .error .endingState

/-- account half: "error getting account" / "invalid ending account state" -/
def prepAccts (b : Batch) (main : List (Key × Acct)) : List Diff → Except Err (List (Key × List AMod))
  | [] => .ok []
  | d :: r =>
    match lookup d.acct main with
    | none => .error .getAccount
    | some a =>
      match diffMods b a d with
      | .error e => .error e
      | .ok ms =>
        match prepAccts b main r with
        | .error e => .error e
        | .ok l => .ok ((d.acct, ms) :: l)

/-- the arguments `batchStorer.StorePendingBatch` hands to `Store.StorePendingBatch` -/
def stageArgs (b : Batch) (db : DB) : Except Err StageArgs :=
  match prepOrders db.orders b.matched with
  | .error e => .error e
  | .ok lo =>
    match prepAccts b db.accounts b.diffs with
    | .error e => .error e
    | .ok la =>
      .ok { batchId := b.id, batchTx := b.tx, feeOk := b.feeOk, orders := lo.map (·.1), orderMods := lo.map (·.2),
            accounts := la.map (·.1), acctMods := la.map (·.2), matched := b.matched }

/-- `batchStorer.StorePendingBatch` -/
def bsStore (b : Batch) (db : DB) : Except Err DB :=
  match stageArgs b db with
  | .error e => .error e
  | .ok a => storePendingBatch a db

inductive Op where
  | stage (b : Batch)
  | complete          -- batchStorer.MarkBatchComplete = Store.MarkBatchComplete
  | discard
  | reopen
  /-- a reconnect to the auctioneer between signing (staging) and finalisation: `Client.checkPendingBatch` on the
  real database (C06's `reconnect`) – keeps the staged batch unless the auctioneer finalised ANOTHER txid -/
  | reconnect (rpc : Rpc) (removeOk : Bool)
deriving DecidableEq, Repr

def step (db : DB) : Op → DB × Option Err
  | .stage b => commit db (bsStore b db)
  | .complete => C06.step db .complete
  | .discard => C06.step db .discard
  | .reopen => C06.step db .reopen
  | .reconnect rpc rm => C06.step db (.reconnect rpc rm)

def run (db : DB) : List Op → DB
  | [] => db
  | op :: ops => run (step db op).1 ops

end Pool.C13
