import PoolModel.C12
import PoolModel.Sha256
import PoolModel.Util
/-!
Line-protocol driver of the C12 model.

Order token (space free), 22 comma separated fields:
`side(a|b),nonce,version,state,rate,amt,units,unfulfilled,maxBatchFeeRate,acctKey,lease,minUnitsMatch,`
`channelType,auctionType,isPublic,minNodeTier,selfChanBalance,sidecar,unannounced,zeroConf,announcement,confirmation`

Ops → output
* `digest O`                → `ok:<hex sha256>` | `err:<kind>`
* `parse version lease R sel`  → `ok O` | `err:<kind>`   (R = `traderKey,rate,amt,fee,nonce,minUnits,chanType,auctionType,public,allowed,notAllowed`, id lists `len:valid/…` or `-`)
* `reset`                   → `ok`   (new client database)
* `prepare O k`             → `ok:<k>.<hex digest>` (signer key and message of `PrepareOrder`) | `err:exists`
* `submit O sig msKey node` → `ok <transmitted fields> <digest re-derived from them>` | `err:<kind>`
-/
namespace Pool.C12
open Pool.Util

def sha (b : Bytes) : Bytes := Pool.Sha256.sha256 b

def errName : Err → String
  | .digestVersion => "digest-version" | .facts => "facts" | .channelType => "channel-type"
  | .nodeTier => "node-tier" | .wire => "wire" | .exists => "exists"

def pBool (s : String) : Option Bool :=
  if s == "1" then some true else if s == "0" then some false else none
def fBool (b : Bool) : String := if b then "1" else "0"

def pOrder (s : String) : Option Order :=
  match s.splitOn "," with
  | [side, nonce, ver, st, rate, amt, units, unf, fee, acct, lease, mu, ct, at_, pub, tier, scb, sc, un, zc, an, cf] => do
    let isBid ← if side == "b" then some true else if side == "a" then some false else none
    let nonce ← unhex nonce; let ver ← ver.toNat?; let st ← st.toNat?; let rate ← rate.toNat?
    let amt ← amt.toInt?; let units ← units.toNat?; let unf ← unf.toNat?; let fee ← fee.toInt?
    let acct ← unhex acct; let lease ← lease.toNat?; let mu ← mu.toNat?; let ct ← ct.toNat?
    let at_ ← at_.toNat?; let pub ← pBool pub; let tier ← tier.toNat?; let scb ← scb.toInt?
    let sc ← pBool sc; let un ← pBool un; let zc ← pBool zc; let an ← an.toNat?; let cf ← cf.toNat?
    pure { isBid := isBid, nonce := nonce, version := ver, state := st, fixedRate := rate, amt := amt,
           units := units, unitsUnfulfilled := unf, maxBatchFeeRate := fee, acctKey := acct,
           leaseDuration := lease, minUnitsMatch := mu, channelType := ct, auctionType := at_,
           isPublic := pub, minNodeTier := tier, selfChanBalance := scb, sidecar := sc, unannounced := un,
           zeroConf := zc, announcement := an, confirmation := cf }
  | _ => none

def fDigest : Except Err Bytes → String
  | .ok d => "ok:" ++ hex d | .error _ => "err/digest"

def fWV : WV → String
  | .num n => toString n | .bytes b => hex b | .bool b => fBool b | .other => "?"

/-- transmitted fields in a fixed order (independent of the order in the Go literal) -/
def fWire (w : Wire) (fs : List (WField × String)) : String :=
  joinWith "," (fs.filterMap fun (f, name) => (wget w f).map fun v => name ++ ":" ++ fWV v)

def detailFields : List (WField × String) :=
  [(.traderKey, "TraderKey"), (.auctionType, "AuctionType"), (.rateFixed, "RateFixed"), (.amt, "Amt"),
   (.minChanAmt, "MinChanAmt"), (.orderNonce, "OrderNonce"), (.orderSig, "OrderSig"),
   (.multiSigKey, "MultiSigKey"), (.nodePub, "NodePub"), (.channelType, "ChannelType"),
   (.maxBatchFeeRate, "MaxBatchFeeRateSatPerKw"), (.isPublic, "IsPublic")]
def sideFields : List (WField × String) :=
  [(.leaseDurationBlocks, "LeaseDurationBlocks"), (.version, "Version"),
   (.announcement, "AnnouncementConstraints"), (.confirmation, "ConfirmationConstraints"),
   (.minNodeTier, "MinNodeTier"), (.selfChanBalance, "SelfChanBalance"),
   (.isSidecarChannel, "IsSidecarChannel"), (.unannounced, "UnannouncedChannel"),
   (.zeroConf, "ZeroConfChannel")]

def fOrder (o : Order) : String :=
  joinWith "," [(if o.isBid then "b" else "a"), hex o.nonce, toString o.version, toString o.state,
    toString o.fixedRate, toString o.amt, toString o.units, toString o.unitsUnfulfilled,
    toString o.maxBatchFeeRate, hex o.acctKey, toString o.leaseDuration, toString o.minUnitsMatch,
    toString o.channelType, toString o.auctionType, fBool o.isPublic, toString o.minNodeTier,
    toString o.selfChanBalance, fBool o.sidecar, fBool o.unannounced, fBool o.zeroConf,
    toString o.announcement, toString o.confirmation]

def pIds (s : String) : Option (List (Nat × Bool)) :=
  if s == "-" then some [] else
  (s.splitOn "/").mapM fun e =>
    match e.splitOn ":" with
    | [l, v] => do let l ← l.toNat?; let v ← pBool v; pure (l, v)
    | _ => none

def pRpc (s : String) : Option RpcOrder :=
  match s.splitOn "," with
  | [tk, rate, amt, fee, nonce, mu, ct, at_, pub, al, nal] => do
    let tk ← unhex tk; let rate ← rate.toNat?; let amt ← amt.toNat?; let fee ← fee.toNat?
    let nonce ← unhex nonce; let mu ← mu.toNat?; let ct ← ct.toNat?; let at_ ← at_.toNat?
    let pub ← pBool pub; let al ← pIds al; let nal ← pIds nal
    pure { traderKey := tk, rateFixed := rate, amt := amt, maxBatchFeeRate := fee, orderNonce := nonce,
           minUnitsMatch := mu, channelType := ct, auctionType := at_, isPublic := pub, allowed := al,
           notAllowed := nal }
  | _ => none

def parseErrName : ParseErr → String
  | .randomNonce => "random-nonce" | .minUnitsZero => "min-units-zero" | .minUnitsExceed => "min-units-exceed"
  | .channelType => "channel-type" | .bothLists => "both-lists" | .allowedId => "allowed-id"
  | .notAllowedId => "not-allowed-id"

/-- nonces on record in the client database of the current session -/
abbrev DrvSt := List Bytes
def drvInit : DrvSt := []

def run (args : List String) : Option String :=
  match args with
  | ["digest", o] => do let o ← pOrder o; pure (fDigest (digest sha o))
  | ["parse", v, l, d, sel] => do
    let v ← v.toNat?; let l ← l.toNat?; let d ← pRpc d
    let sel ← if sel == "-" then some none else sel.toNat?.map some
    pure (match parseRPCOrder v l d sel with
      | .ok o => "ok " ++ fOrder o
      | .error .randomNonce => "err:random-nonce"
      | .error _ => "err")
  | ["submit", o, sg, ms, np] => do
    let o ← pOrder o; let sg ← unhex sg; let ms ← unhex ms; let np ← unhex np
    pure (match toWire o { rawSig := sg, multiSigKey := ms, nodePubkey := np } with
      | .error _ => "err/unsent"
      | .ok (d, s) =>
        let re := match orderOfWire o.isBid d s with
          | none => "rederive-failed"
          | some o' => fDigest (digest sha o')
        "ok " ++ fWire d detailFields ++ "|" ++ fWire s sideFields ++ " " ++ re)
  | _ => none

def drvStep (s : DrvSt) (args : List String) : DrvSt × String :=
  match args with
  | ["reset"] => ([], "ok")
  | ["prepare", o, k] =>
    match pOrder o, k.toNat? with
    | some o, some k =>
      match prepareOrder sha s o k with
      | (.ok σ, s') => (s', s!"ok:{σ.signer}.{hex σ.msg}")
      | (.error e, s') => (s', "err:" ++ errName e)
    | _, _ => (s, "bad-op")
  | _ => (s, (run args).getD "bad-op")

end Pool.C12
