import PoolModel.Digest
import PoolModel.Generated.DigestFacts
import PoolModel.Generated.CodecFacts
/-!
# C12 model — order digests and the order sent to the auctioneer

Mirrors
* `/repo/order/interfaces.go`   `Ask.Digest`, `Bid.Digest` (preimage from the REGENERATED argument lists)
* `/repo/order/manager.go`      `manager.PrepareOrder`: the message handed to the signer is the digest of the
                                order, the key is the account's trader key
* `/repo/auctioneer/client.go`  `Client.SubmitOrder`: field mapping of the `ServerOrder` / `ServerAsk` /
                                `ServerBid` literals (REGENERATED), `MarshallNodeTier`, the enum switches
* `/repo/order/rpc_parse.go`    the inverse channel-type switch of `ParseRPCServerOrder`, `NewSupplyFromSats`
and the reconstruction of the order from the transmitted fields the way the auctioneer has to do it
(`orderOfWire`: `MinUnitsMatch = MinChanAmt / BaseSupplyUnit`, enum inverses, sidecar flag).
-/
namespace Pool.C12
open Pool.Digest

abbrev Bytes := List UInt8

/-- `order.Kit` + the `order.Ask` / `order.Bid` fields, one record for both sides -/
structure Order where
  isBid : Bool
  nonce : Bytes               -- Kit.nonce [32]byte
  version : Nat               -- Kit.Version uint32
  state : Nat                 -- Kit.State uint8            (bookkeeping)
  fixedRate : Nat             -- uint32
  amt : Int                   -- btcutil.Amount
  units : Nat                 -- SupplyUnit                 (bookkeeping)
  unitsUnfulfilled : Nat      -- SupplyUnit                 (bookkeeping)
  maxBatchFeeRate : Int       -- chainfee.SatPerKWeight (int64)
  acctKey : Bytes             -- [33]byte
  leaseDuration : Nat         -- uint32
  minUnitsMatch : Nat         -- SupplyUnit = uint64
  channelType : Nat           -- uint8
  auctionType : Nat           -- uint32
  isPublic : Bool
  minNodeTier : Nat           -- Bid: uint32
  selfChanBalance : Int       -- Bid: btcutil.Amount
  sidecar : Bool              -- Bid: SidecarTicket != nil
  unannounced : Bool          -- Bid
  zeroConf : Bool             -- Bid
  announcement : Nat          -- Ask: uint8
  confirmation : Nat          -- Ask: uint8
deriving DecidableEq, Repr

/-! ## digests -/

inductive Term
  | nonce | version | fixedRate | amt | leaseDuration | maxBatchFeeRate | minUnitsMatch32 | channelType
  | minNodeTier | selfChanBalance | isSidecar
  -- expressions that would make the digest depend on bookkeeping / other fields
  | state | units | unitsUnfulfilled | minUnitsMatch64 | auctionType
deriving DecidableEq, Repr

def parseAskExpr : String → Option Term
  | "a.nonce[:]" => some .nonce
  | "uint32(a.Version)" => some .version
  | "a.FixedRate" => some .fixedRate
  | "a.Amt" => some .amt
  | "a.LeaseDuration" => some .leaseDuration
  | "uint64(a.MaxBatchFeeRate)" => some .maxBatchFeeRate
  | "uint32(a.MinUnitsMatch)" => some .minUnitsMatch32
  | "uint8(a.ChannelType)" => some .channelType
  | "uint8(a.State)" => some .state
  | "uint64(a.Units)" => some .units
  | "uint64(a.UnitsUnfulfilled)" => some .unitsUnfulfilled
  | "uint64(a.MinUnitsMatch)" => some .minUnitsMatch64
  | "uint32(a.AuctionType)" => some .auctionType
  | _ => none

def parseBidExpr : String → Option Term
  | "b.nonce[:]" => some .nonce
  | "uint32(b.Version)" => some .version
  | "b.FixedRate" => some .fixedRate
  | "b.Amt" => some .amt
  | "b.LeaseDuration" => some .leaseDuration
  | "uint64(b.MaxBatchFeeRate)" => some .maxBatchFeeRate
  | "uint32(b.MinUnitsMatch)" => some .minUnitsMatch32
  | "uint8(b.ChannelType)" => some .channelType
  | "uint32(b.MinNodeTier)" => some .minNodeTier
  | "uint64(b.SelfChanBalance)" => some .selfChanBalance
  | "b.SelfChanBalance" => some .selfChanBalance
  | "isSidecar" => some .isSidecar
  | "uint8(b.State)" => some .state
  | "uint64(b.Units)" => some .units
  | "uint64(b.UnitsUnfulfilled)" => some .unitsUnfulfilled
  | "uint64(b.MinUnitsMatch)" => some .minUnitsMatch64
  | "uint32(b.AuctionType)" => some .auctionType
  | _ => none

/-- value written for a term (Go conversions: `uint32(x)` truncates — `beBytes` keeps the low bytes) -/
def encTerm (o : Order) : Term → FV
  | .nonce => .raw o.nonce
  | .version => .num 4 o.version
  | .fixedRate => .num 4 o.fixedRate
  | .amt => .num 8 (u64OfInt o.amt)
  | .leaseDuration => .num 4 o.leaseDuration
  | .maxBatchFeeRate => .num 8 (u64OfInt o.maxBatchFeeRate)
  | .minUnitsMatch32 => .num 4 o.minUnitsMatch
  | .channelType => .num 1 o.channelType
  | .minNodeTier => .num 4 o.minNodeTier
  | .selfChanBalance => .num 8 (u64OfInt o.selfChanBalance)
  | .isSidecar => .num 1 (boolNat o.sidecar)
  | .state => .num 1 o.state
  | .units => .num 8 o.units
  | .unitsUnfulfilled => .num 8 o.unitsUnfulfilled
  | .minUnitsMatch64 => .num 8 o.minUnitsMatch
  | .auctionType => .num 4 o.auctionType

abbrev Table := List (List Nat × List Term)

def compileFn (parse : String → Option Term) (f : Gen.DigestFn) : Option Table :=
  f.cases.mapM fun c => do
    let ts ← c.args.mapM fun a => parse a.expr
    pure (c.versions, ts)

def askTable : Option Table := compileFn parseAskExpr Gen.C12.askDigest
def bidTable : Option Table := compileFn parseBidExpr Gen.C12.bidDigest

def lookupCase (tbl : Table) (v : Nat) : Option (List Term) :=
  (tbl.find? fun c => c.1.contains v).map (·.2)

inductive Err
  | digestVersion | facts | channelType | nodeTier | wire | exists
deriving DecidableEq, Repr

def preimageOf (tbl : Option Table) (o : Order) : Except Err Bytes :=
  match tbl with
  | none => .error .facts
  | some tbl =>
    match lookupCase tbl o.version with
    | none => .error .digestVersion
    | some ts => .ok (encAll (ts.map (encTerm o)))

/-- bytes hashed by `Ask.Digest` / `Bid.Digest` -/
def digestPreimage (o : Order) : Except Err Bytes :=
  if o.isBid then preimageOf bidTable o else preimageOf askTable o

def digest (H : Bytes → Bytes) (o : Order) : Except Err Bytes := (digestPreimage o).map H

/-! ## PrepareOrder: what is signed, with which key (ideal signature = (key, message)) -/

structure Sig where
  signer : Nat
  msg : Bytes
deriving DecidableEq, Repr

/-- `manager.PrepareOrder` after validation: `digest, err := order.Digest()`, then
`Signer.SignMessage(ctx, digest[:], acct.TraderKey.KeyLocator)`; `k` = the key at that locator. -/
def prepareOrderSig (H : Bytes → Bytes) (o : Order) (k : Nat) : Except Err Sig :=
  (digest H o).map fun d => ⟨k, d⟩

/-- `manager.PrepareOrder` from the digest on, with the order store: the digest of the order GIVEN BY THE
CALLER (the same object the caller then hands to `Client.SubmitOrder`) is signed, then
`Store.SubmitOrder(order)` refuses a nonce that is already on record (`ErrOrderExists`, whatever the state of
the stored order), otherwise the nonce is recorded.  `stored` = nonces in the client database. -/
def prepareOrder (H : Bytes → Bytes) (stored : List Bytes) (o : Order) (k : Nat) :
    Except Err Sig × List Bytes :=
  match prepareOrderSig H o k with
  | .error e => (.error e, stored)
  | .ok σ => if stored.contains o.nonce then (.error .exists, stored) else (.ok σ, o.nonce :: stored)

/-! ## SubmitOrder: the transmitted fields, from the regenerated literals -/

inductive WField
  | traderKey | auctionType | rateFixed | amt | minChanAmt | orderNonce | orderSig | multiSigKey | nodePub
  | nodeAddr | channelType | maxBatchFeeRate | isPublic | allowedIds | notAllowedIds
  | details | leaseDurationBlocks | version | announcement | confirmation
  | minNodeTier | selfChanBalance | isSidecarChannel | unannounced | zeroConf
deriving DecidableEq, Repr

inductive WExpr
  | acctKey | auctionTypeEnum | fixedRate | amtU64 | minChanAmt | nonce | rawSig | paramMultiSig
  | paramNodePub | channelTypeEnum | feeU64 | isPublic
  | leaseDuration | versionU32 | announcement | confirmations
  | nodeTierEnum | scbU64 | sidecarNonNil | unannounced | zeroConf
deriving DecidableEq, Repr

def parseWField : String → Option WField
  | "TraderKey" => some .traderKey | "AuctionType" => some .auctionType | "RateFixed" => some .rateFixed
  | "Amt" => some .amt | "MinChanAmt" => some .minChanAmt | "OrderNonce" => some .orderNonce
  | "OrderSig" => some .orderSig | "MultiSigKey" => some .multiSigKey | "NodePub" => some .nodePub
  | "NodeAddr" => some .nodeAddr | "ChannelType" => some .channelType
  | "MaxBatchFeeRateSatPerKw" => some .maxBatchFeeRate | "IsPublic" => some .isPublic
  | "AllowedNodeIds" => some .allowedIds | "NotAllowedNodeIds" => some .notAllowedIds
  | "Details" => some .details | "LeaseDurationBlocks" => some .leaseDurationBlocks
  | "Version" => some .version | "AnnouncementConstraints" => some .announcement
  | "ConfirmationConstraints" => some .confirmation | "MinNodeTier" => some .minNodeTier
  | "SelfChanBalance" => some .selfChanBalance | "IsSidecarChannel" => some .isSidecarChannel
  | "UnannouncedChannel" => some .unannounced | "ZeroConfChannel" => some .zeroConf
  | _ => none

/-- canonical value expressions of the literals: single-definition locals are replaced by their definition,
the type-switch variable is `castOrder`, an enum conversion (switch in place or helper) is `enum(<value>)` -/
def parseWExpr : String → Option WExpr
  | "o.Details().AcctKey[:]" => some .acctKey
  | "enum(o.Details().AuctionType)" => some .auctionTypeEnum
  | "o.Details().FixedRate" => some .fixedRate
  | "uint64(o.Details().Amt)" => some .amtU64
  | "uint64(o.Details().MinUnitsMatch.ToSatoshis())" => some .minChanAmt
  | "o.Nonce()[:]" => some .nonce
  | "serverParams.RawSig" => some .rawSig
  | "serverParams.MultiSigKey[:]" => some .paramMultiSig
  | "serverParams.NodePubkey[:]" => some .paramNodePub
  | "enum(o.Details().ChannelType)" => some .channelTypeEnum
  | "uint64(o.Details().MaxBatchFeeRate)" => some .feeU64
  | "o.Details().IsPublic" => some .isPublic
  | "castOrder.LeaseDuration" => some .leaseDuration
  | "uint32(castOrder.Version)" => some .versionU32
  | "auctioneerrpc.ChannelAnnouncementConstraints(castOrder.AnnouncementConstraints)" => some .announcement
  | "auctioneerrpc.ChannelConfirmationConstraints(castOrder.ConfirmationConstraints)" => some .confirmations
  | "enum(castOrder.MinNodeTier)" => some .nodeTierEnum
  | "uint64(castOrder.SelfChanBalance)" => some .scbU64
  | "castOrder.SidecarTicket != nil" => some .sidecarNonNil
  | "castOrder.UnannouncedChannel" => some .unannounced
  | "castOrder.ZeroConfChannel" => some .zeroConf
  | _ => none

/-- fields that carry no order term and whose value expression is not pinned (addresses, node id lists, the
nested details message) -/
def opaqueField : WField → Bool
  | .nodeAddr | .allowedIds | .notAllowedIds | .details => true
  | _ => false

def WField.rank : WField → Nat
  | .traderKey => 0 | .auctionType => 1 | .rateFixed => 2 | .amt => 3 | .minChanAmt => 4 | .orderNonce => 5
  | .orderSig => 6 | .multiSigKey => 7 | .nodePub => 8 | .nodeAddr => 9 | .channelType => 10
  | .maxBatchFeeRate => 11 | .isPublic => 12 | .allowedIds => 13 | .notAllowedIds => 14 | .details => 15
  | .leaseDurationBlocks => 16 | .version => 17 | .announcement => 18 | .confirmation => 19
  | .minNodeTier => 20 | .selfChanBalance => 21 | .isSidecarChannel => 22 | .unannounced => 23 | .zeroConf => 24

abbrev Mapping := List (WField × WExpr)

def insertByRank (x : WField × WExpr) : Mapping → Mapping
  | [] => [x]
  | y :: ys => if x.1.rank ≤ y.1.rank then x :: y :: ys else y :: insertByRank x ys

/-- the literal as a mapping field ↦ value: opaque fields dropped, sorted by field (the order of the fields
in the Go literal is irrelevant); `none` if a field or a value expression is unknown -/
def compileLit (l : List (String × String)) : Option Mapping := do
  let m ← l.mapM fun (f, e) => do
    let f ← parseWField f
    if opaqueField f then pure none else do
      let e ← parseWExpr e
      pure (some (f, e))
  pure ((m.filterMap id).foldr insertByRank [])

def serverOrderMap : Option Mapping := compileLit Gen.C12.submitServerOrder
def serverAskMap : Option Mapping := compileLit Gen.C12.submitServerAsk
def serverBidMap : Option Mapping := compileLit Gen.C12.submitServerBid

/-- a transmitted protobuf field value -/
inductive WV
  | num (n : Nat) | bytes (b : Bytes) | bool (b : Bool) | other
deriving DecidableEq, Repr

abbrev Wire := List (WField × WV)

/-- `order.ServerOrderParams` as far as it is transmitted -/
structure Params where
  rawSig : Bytes
  multiSigKey : Bytes
  nodePubkey : Bytes
deriving DecidableEq, Repr

def base : Nat := Gen.C12.digestBaseSupplyUnit
def two64 : Nat := 18446744073709551616

/-- value of a right-hand side of the literals; `none` = SubmitOrder returns an error before sending
(default clause of the channel type switch, `MarshallNodeTier` error) -/
def evalW (o : Order) (p : Params) : WExpr → Option WV
  | .acctKey => some (.bytes o.acctKey)
  | .auctionTypeEnum => some (.num ((Gen.C12.submitAuctionType.lookup o.auctionType).getD 0))
  | .fixedRate => some (.num o.fixedRate)
  | .amtU64 => some (.num (u64OfInt o.amt))
  | .minChanAmt => some (.num (o.minUnitsMatch * base % two64))   -- uint64(MinUnitsMatch.ToSatoshis())
  | .nonce => some (.bytes o.nonce)
  | .rawSig => some (.bytes p.rawSig)
  | .paramMultiSig => some (.bytes p.multiSigKey)
  | .paramNodePub => some (.bytes p.nodePubkey)
  | .channelTypeEnum => (Gen.C12.submitChannelType.lookup o.channelType).map .num
  | .feeU64 => some (.num (u64OfInt o.maxBatchFeeRate))
  | .isPublic => some (.bool o.isPublic)
  | .leaseDuration => some (.num o.leaseDuration)
  | .versionU32 => some (.num o.version)
  | .announcement => some (.num o.announcement)
  | .confirmations => some (.num o.confirmation)
  | .nodeTierEnum => (Gen.C12.marshallNodeTier.lookup o.minNodeTier).map .num
  | .scbU64 => some (.num (u64OfInt o.selfChanBalance))
  | .sidecarNonNil => some (.bool o.sidecar)
  | .unannounced => some (.bool o.unannounced)
  | .zeroConf => some (.bool o.zeroConf)

def evalMap (o : Order) (p : Params) : Mapping → Option Wire
  | [] => some []
  | (f, e) :: m =>
    match evalW o p e, evalMap o p m with
    | some v, some w => some ((f, v) :: w)
    | _, _ => none

/-- the request `Client.SubmitOrder` sends: (ServerOrder fields, ServerAsk/ServerBid fields) -/
def toWire (o : Order) (p : Params) : Except Err (Wire × Wire) :=
  match serverOrderMap, (if o.isBid then serverBidMap else serverAskMap) with
  | some dm, some sm =>
    -- the channel type switch runs first, MarshallNodeTier inside the bid clause
    if (Gen.C12.submitChannelType.lookup o.channelType).isNone then .error .channelType
    else match evalMap o p dm, evalMap o p sm with
      | some d, some s => .ok (d, s)
      | _, _ => .error .nodeTier
  | _, _ => .error .facts

def wget : Wire → WField → Option WV
  | [], _ => none
  | (g, v) :: r, f => if g = f then some v else wget r f

def wnum (w : Wire) (f : WField) : Option Nat :=
  match wget w f with | some (.num n) => some n | _ => none
def wbytes (w : Wire) (f : WField) : Option Bytes :=
  match wget w f with | some (.bytes b) => some b | _ => none
def wbool (w : Wire) (f : WField) : Option Bool :=
  match wget w f with | some (.bool b) => some b | _ => none

/-- inverse of `MarshallNodeTier`: the order-side value whose image is the transmitted enum -/
def unmarshallNodeTier (n : Nat) : Option Nat :=
  (Gen.C12.marshallNodeTier.find? fun p => p.2 == n).map (·.1)

/-- The order as rebuilt from the transmitted fields (what the auctioneer has to do to check the
signature): `ParseRPCServerOrder`'s assignments and channel-type switch, `MinUnitsMatch =
NewSupplyFromSats(MinChanAmt)`, node tier through the inverse of `MarshallNodeTier`, sidecar flag.
Bookkeeping (`state`, units) is filled like `ParseRPCServerOrder` does (fresh order). -/
def orderOfWire (isBid : Bool) (d s : Wire) : Option Order := do
  let nonce ← wbytes d .orderNonce
  let acct ← wbytes d .traderKey
  let at_ ← wnum d .auctionType
  let rate ← wnum d .rateFixed
  let amt ← wnum d .amt
  let minChan ← wnum d .minChanAmt
  let ct ← wnum d .channelType
  let ct' ← Gen.C12.parseChannelType.lookup ct
  let fee ← wnum d .maxBatchFeeRate
  let pub ← wbool d .isPublic
  let lease ← wnum s .leaseDurationBlocks
  let ver ← wnum s .version
  let amtI := wrapI64 amt
  let units := (u64OfInt amtI) / base
  let o : Order :=
    { isBid := isBid, nonce := nonce, version := ver, state := 0, fixedRate := rate, amt := amtI,
      units := units, unitsUnfulfilled := units, maxBatchFeeRate := wrapI64 fee, acctKey := acct,
      leaseDuration := lease, minUnitsMatch := minChan / base, channelType := ct', auctionType := at_,
      isPublic := pub, minNodeTier := 0, selfChanBalance := 0, sidecar := false, unannounced := false,
      zeroConf := false, announcement := 0, confirmation := 0 }
  if isBid then
    let tier ← wnum s .minNodeTier
    let tier' ← unmarshallNodeTier tier
    let scb ← wnum s .selfChanBalance
    let sc ← wbool s .isSidecarChannel
    let un ← wbool s .unannounced
    let zc ← wbool s .zeroConf
    pure { o with minNodeTier := tier', selfChanBalance := wrapI64 scb, sidecar := sc, unannounced := un,
                  zeroConf := zc }
  else
    let an ← wnum s .announcement
    let cf ← wnum s .confirmation
    pure { o with announcement := an, confirmation := cf }


/-! ## order/rpc_parse.go `ParseRPCOrder`: the trader's order as built from the RPC request -/

/-- the fields of `poolrpc.Order` that `ParseRPCOrder` reads; a node id is (length, parses as a public key) -/
structure RpcOrder where
  traderKey : Bytes
  rateFixed : Nat              -- uint32
  amt : Nat                    -- uint64
  maxBatchFeeRate : Nat        -- uint64
  orderNonce : Bytes
  minUnitsMatch : Nat          -- uint32
  channelType : Nat            -- enum
  auctionType : Nat            -- enum
  isPublic : Bool
  allowed : List (Nat × Bool)
  notAllowed : List (Nat × Bool)
deriving DecidableEq, Repr

inductive ParseErr
  | randomNonce | minUnitsZero | minUnitsExceed | channelType | bothLists | allowedId | notAllowedId
deriving DecidableEq, Repr

/-- Go `copy(dst[:n], src)` into a zeroed array -/
def copyInto (n : Nat) (src : Bytes) : Bytes := src.take n ++ List.replicate (n - src.length) 0

def outboundMarket : Nat := Gen.C12.digestBTCOutboundLiquidity

/-- `ParseRPCOrder(version, leaseDuration, details, opts…)`; `selector` = the optional default channel type
selector.  A zero nonce makes the real code draw a random preimage; the (otherwise successful) result is
then not reproducible and reported as `randomNonce`. -/
def parseRPCOrder (version lease : Nat) (d : RpcOrder) (selector : Option Nat) : Except ParseErr Order :=
  let nonce := copyInto 32 d.orderNonce
  let amt := wrapI64 d.amt
  let units := u64OfInt amt / base
  if d.minUnitsMatch == 0 then .error .minUnitsZero
  else if d.auctionType != outboundMarket && d.minUnitsMatch > units % 4294967296 then .error .minUnitsExceed
  else
    let ct : Option Nat :=
      if d.channelType == 0 then some (selector.getD 0) else Gen.C12.parseOrderChannelType.lookup d.channelType
    match ct with
    | none => .error .channelType
    | some ct =>
      if !d.allowed.isEmpty && !d.notAllowed.isEmpty then .error .bothLists
      else if d.allowed.any (fun i => i.1 != 33 || !i.2) then .error .allowedId
      else if d.notAllowed.any (fun i => i.1 != 33 || !i.2) then .error .notAllowedId
      -- every check passed; with a zero nonce the order carries a freshly drawn random nonce
      else if nonce == List.replicate 32 0 then .error .randomNonce
      else .ok
        { isBid := false, nonce := nonce, version := version, state := 0, fixedRate := d.rateFixed, amt := amt,
          units := units, unitsUnfulfilled := units, maxBatchFeeRate := wrapI64 d.maxBatchFeeRate,
          acctKey := copyInto 33 d.traderKey, leaseDuration := lease, minUnitsMatch := d.minUnitsMatch,
          channelType := ct, auctionType := d.auctionType, isPublic := d.isPublic, minNodeTier := 0,
          selfChanBalance := 0, sidecar := false, unannounced := false, zeroConf := false, announcement := 0,
          confirmation := 0 }

end Pool.C12
