import PoolModel.C18
/-! # C18 — bookkeeping of `auctioneer.Client` over fault events

State machine over the *quiescent* states of the client (no call in progress, all goroutines parked), mirroring
`connectAndAuthenticate`, `closeStream`, `connectServerStream`, `HandleServerShutdown`, the reaction of
`readIncomingStream` to a transport error / a `SERVER_SHUTDOWN` notice, and the reaction of
`rpcServer.serverHandler` to `StreamErrChan`.  One op = one externally triggered event run to quiescence.

The scripted auctioneer answers every incoming commitment with the next behaviour of a queue (`Beh`).  Go map
iteration order of `subscribedAccts` in `HandleServerShutdown` is an input (`orders`), supplied from observation.

What is *not* modelled (the op returns `chaos = true`): a shutdown notice that arrives while `HandleServerShutdown`
is itself re-subscribing – the new stream's reader then runs a second `HandleServerShutdown` concurrently with the
first one, and the outcome depends on the goroutine schedule. -/
namespace Pool.C18

/-- behaviour of the auctioneer for one incoming commitment -/
inductive Beh
  | ok      -- challenge, subscribe verified, success
  | errBC   -- transport error before the challenge
  | shutBC  -- shutdown notice before the challenge
  | errAC   -- challenge, subscribe received, then transport error instead of success
  | shutAC  -- challenge, subscribe received, then shutdown notice instead of success
deriving DecidableEq, Repr

/-- the auctioneer's view of one stream -/
structure Stream where
  /-- accounts of the `Subscribe` messages received, in arrival order -/
  subs : List Nat := []
  /-- accounts answered with `Success` -/
  success : List Nat := []
  /-- neither side has ended the stream -/
  alive : Bool := true
deriving DecidableEq, Repr

/-- errors as the main handler classifies them -/
inductive ErrClass
  | none_ | serverErrored | other
deriving DecidableEq, Repr

structure Client where
  /-- keys of `Client.subscribedAccts` -/
  accts : List Nat := []
  /-- `Client.serverStream != nil` -/
  isOpen : Bool := false
  /-- all streams opened so far, newest first -/
  streams : List Stream := []
  /-- number of `Terms` calls (connection attempts) so far -/
  attempts : Nat := 0
  /-- errors received on `StreamErrChan` -/
  mainErrs : List ErrClass := []
  /-- results of `HandleServerShutdown(err)` calls made by the main handler -/
  handlerRes : List ErrClass := []
  /-- scripted auctioneer: refusals of the next `Terms` calls, behaviours of the next commitments -/
  refuse : Nat := 0
  beh : List Beh := []
  /-- observed iteration orders of the coming re-subscription loops -/
  orders : List (List Nat) := []
  /-- an order that is not a permutation of `accts` was supplied / none was left -/
  badOrder : Bool := false
  /-- left the modelled fragment (see header) -/
  chaos : Bool := false
deriving DecidableEq, Repr

def Client.cur (c : Client) : Stream := c.streams.headD { alive := false }

def Client.setCur (c : Client) (f : Stream → Stream) : Client :=
  match c.streams with
  | [] => c
  | s :: ss => { c with streams := f s :: ss }

/-- `connectServerStream(initialBackoff, reconnectRetries)`: every pending refusal costs one failed `Terms` call (the
loop has 32767 retries), then the stream is opened and a reader goroutine started.  The waits requested in between
are `(connect init min max 32767 refuse).waits` (see `C18_backoff_shape`). -/
def Client.connectStream (c : Client) : Client :=
  { c with attempts := c.attempts + c.refuse + 1, refuse := 0, streams := {} :: c.streams, isOpen := true }

/-- `closeStream()`: no-op without a stream; else `CloseSend`, cancel, `serverStream = nil`, close every
subscription's `quit`/`msgChan`. -/
def Client.closeStream (c : Client) : Client :=
  if c.isOpen then { c.setCur (fun s => { s with alive := false }) with isOpen := false } else c

/-- the server side of the newest stream ends with a transport error -/
def Client.failStream (c : Client) : Client := c.setCur fun s => { s with alive := false }

/-- how a handshake ended for the caller of `connectAndAuthenticate` -/
inductive HsRes
  | ok
  | errTransport   -- an error was returned; nothing else happens (the reader goroutine has exited)
  | errShutdown    -- an error was returned *and* the reader goroutine runs `HandleServerShutdown(nil)`
deriving DecidableEq, Repr

def addAcct (l : List Nat) (a : Nat) : List Nat := if a ∈ l then l else l ++ [a]

/-- `connectAndAuthenticate(acctKey, recovery=false)` -/
def Client.connectAndAuth (c : Client) (a : Nat) : Client × HsRes :=
  -- "Don't subscribe more than once."
  if a ∈ c.accts then (c, .ok) else
  -- needToConnect := c.serverStream == nil
  let c := if c.isOpen then c else c.connectStream
  -- c.subscribedAccts[acctPubKey] = sub   (before authenticate, never removed on failure)
  let c := { c with accts := addAcct c.accts a }
  if !c.cur.alive then
    -- the stream is dead but still referenced: sending the commitment fails, tempErrChan is empty
    (c, .errTransport)
  else
    let b := c.beh.headD .ok
    let c := { c with beh := c.beh.tail }
    match b with
    | .ok => (c.setCur fun s => { s with subs := s.subs ++ [a], success := s.success ++ [a] }, .ok)
    | .errBC => (c.setCur fun s => { s with alive := false }, .errTransport)
    | .errAC => (c.setCur fun s => { s with subs := s.subs ++ [a], alive := false }, .errTransport)
    | .shutBC => (c, .errShutdown)
    | .shutAC => (c.setCur fun s => { s with subs := s.subs ++ [a] }, .errShutdown)

/-- the loop `for _, acctKey := range acctKeys { StartAccountSubscription(...) ; if err != nil { return err } }` -/
def Client.resubLoop (c : Client) : List Nat → Client × HsRes
  | [] => (c, .ok)
  | a :: rest =>
    match c.connectAndAuth a with
    | (c', .ok) => c'.resubLoop rest
    | r => r          -- the remaining accounts have already been deleted from the map

def isPerm (a b : List Nat) : Bool := a.length == b.length && a.all (fun x => a.count x == b.count x)

/-- `HandleServerShutdown(err)` up to its return value -/
def Client.handleShutdown (c : Client) : Client × HsRes :=
  let c := c.closeStream
  -- connectServerStream(c.cfg.MinBackoff, reconnectRetries)
  let c := c.connectStream
  -- collect the keys in map order and delete them all
  match c.orders with
  | [] => ({ c with badOrder := true }, .ok)
  | ord :: more =>
    if !isPerm ord c.accts then ({ c with badOrder := true, orders := more }, .ok) else
    { c with accts := [], orders := more }.resubLoop ord

/-- reaction of `rpcServer.serverHandler` to an error `e ≠ nil, ≠ ErrServerShutdown` on `StreamErrChan`:
`HandleServerShutdown(e)`, result only logged -/
def Client.mainHandler (c : Client) (e : ErrClass) : Client :=
  let c := { c with mainErrs := c.mainErrs ++ [e] }
  match c.handleShutdown with
  | (c', .ok) => { c' with handlerRes := c'.handlerRes ++ [.none_] }
  | (c', .errTransport) => { c' with handlerRes := c'.handlerRes ++ [.other] }
  | (c', .errShutdown) => { c' with chaos := true }

/-- `readIncomingStream` on a `SERVER_SHUTDOWN` notice: `HandleServerShutdown(nil)`; a non-nil result is sent to the
error switch (not diverted any more) and reaches the main handler -/
def Client.readerShutdown (c : Client) : Client :=
  match c.handleShutdown with
  | (c', .ok) => c'
  | (c', .errTransport) => c'.mainHandler .other
  | (c', .errShutdown) => { c' with chaos := true }

/-- externally triggered events -/
inductive Op
  | sub (a : Nat)   -- `StartAccountSubscription`
  | errIdle         -- the stream fails with a transport error while no handshake is in progress
  | shutIdle        -- shutdown notice while no handshake is in progress
deriving DecidableEq, Repr

/-- result of `StartAccountSubscription` -/
inductive Ret
  | none_ | ok | err
deriving DecidableEq, Repr

def Client.step (c : Client) : Op → Client × Ret
  | .sub a =>
    match c.connectAndAuth a with
    | (c', .ok) => (c', .ok)
    | (c', .errTransport) => (c', .err)
    | (c', .errShutdown) => (c'.readerShutdown, .err)
  | .errIdle =>
    if c.isOpen && c.cur.alive then
      -- reader: ErrServerErrored → switch (not diverted) → main handler
      (c.failStream.mainHandler .serverErrored, .none_)
    else (c, .none_)
  | .shutIdle =>
    if c.isOpen && c.cur.alive then (c.readerShutdown, .none_) else (c, .none_)

/-- install the auctioneer's script for the next op -/
def Client.script (c : Client) (refuse : Nat) (beh : List Beh) (orders : List (List Nat)) : Client :=
  { c with refuse := refuse, beh := beh, orders := orders, mainErrs := [], handlerRes := [] }

end Pool.C18
