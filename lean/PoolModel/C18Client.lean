import PoolModel.C18
/-! # C18 — bookkeeping of `auctioneer.Client` over fault events

State machine over the *quiescent* states of the client (no call in progress, all goroutines parked), mirroring
`connectAndAuthenticate`, `closeStream`, `connectServerStream`, `HandleServerShutdown` (+ `keepSubscriptions`), the
reaction of `readIncomingStream` to a transport error / a `SERVER_SHUTDOWN` notice, and the reaction of
`rpcServer.serverHandler` to `StreamErrChan`.  One op = one externally triggered event run to quiescence.

The scripted auctioneer answers every incoming commitment with the next behaviour of a queue (`Beh`).  Go map
iteration order of `subscribedAccts` in `HandleServerShutdown` is a parameter `pick` (any function returning a
permutation); the theorems hold for every such function, the driver uses the identity.

`Variant` selects the code before / after the three repairs (`fix:` commits on branch fix-auct):
* `keepOnAbort`     – `HandleServerShutdown` re-inserts the accounts it did not get to when a re-subscription fails;
* `inlineOnError`   – `connectAndAuthenticate` re-connects itself when the diverted stream error hit its handshake
                      while waiting for the challenge or for the final answer (before: only when a send failed);
* `handlerRetries`  – `serverHandler` calls `HandleServerShutdown` again until it succeeds;
* `serializeReconnects` – a shutdown notice read while a `HandleServerShutdown` is in progress no longer starts a
                      second one: the reader only closes the stream and marks the running re-connect dirty, which
                      then starts over.

`connectAndAuthenticate` → `HandleServerShutdown` → `StartAccountSubscription` → `connectAndAuthenticate` is a real
recursion in the Go code (one level per stream failure that hits a handshake); the model unrolls it by levels
(`hsLevel`), each level consuming at least one behaviour of the script.

Without `serializeReconnects` a shutdown notice that arrives while `HandleServerShutdown` is itself re-subscribing is
*not* modelled (`chaos = true`): the new stream's reader then runs a second `HandleServerShutdown` concurrently with
the first one and the outcome depends on the goroutine schedule (finding `C18/client/concurrent-reconnects`). -/
namespace Pool.C18

/-- behaviour of the auctioneer for one incoming commitment -/
inductive Beh
  | ok      -- challenge, subscribe verified, success
  | errBC   -- transport error before the challenge
  | shutBC  -- shutdown notice before the challenge
  | errAC   -- challenge, subscribe received, then transport error instead of success
  | shutAC  -- challenge, subscribe received, then shutdown notice instead of success
  | errMid  -- challenge, then transport error before the subscribe message could be sent (the send fails)
  | reject  -- challenge, subscribe received, then an error answer for this account (stream stays up)
  | okShut  -- like `ok`, with a shutdown notice right behind the success message (it is read before the subscribing
            -- goroutine gets any further)
deriving DecidableEq, Repr

structure Variant where
  keepOnAbort : Bool
  inlineOnError : Bool
  handlerRetries : Bool
  serializeReconnects : Bool
deriving DecidableEq, Repr

/-- the code as repaired -/
def Variant.fixed : Variant := ⟨true, true, true, true⟩
/-- the code before the repairs -/
def Variant.orig : Variant := ⟨false, false, false, false⟩

/-- which variant the source is, read off the regenerated semantic facts (`Pool.Gen.C18Sem`): every error return of
the reconnect body that can follow the emptying of the map keeps the accounts; `connectAndAuthenticate` re-connects
inline at all three places where the diverted `ErrServerErrored` can surface; `serverHandler` feeds
`HandleServerShutdown`'s result back into a retry loop; `HandleServerShutdown` starts over while dirty and the reader
only marks a running re-connect dirty -/
def variantOfSource : Variant :=
  { keepOnAbort := Pool.Gen.C18Sem.reconnectKeepsOnFailure && Pool.Gen.C18Sem.batchFailureKeeps
    inlineOnError := Pool.Gen.C18Sem.inlineReconnects == 3
    handlerRetries := Pool.Gen.C18Sem.handlerRetryFeedsBack &&
      Pool.Gen.C18Sem.handlerRetryWhile == ["auctioneer.ErrClientShutdown != e", "e != nil"]
    serializeReconnects := Pool.Gen.C18Sem.shutdownStartsOverWhileDirty &&
      Pool.Gen.C18Sem.noticeOnlyMarksWhileReconnecting && Pool.Gen.C18Sem.noticeElseHandles }

/-- the auctioneer's view of one stream -/
structure Stream where
  /-- accounts of the `Subscribe` messages received, in arrival order -/
  subs : List Nat := []
  /-- accounts answered with `Success` -/
  success : List Nat := []
  /-- neither side has ended the stream -/
  alive : Bool := true
deriving DecidableEq, Repr

/-- errors as the main handler classifies them -/
inductive ErrClass
  | none_ | serverErrored | other
deriving DecidableEq, Repr

structure Client where
  /-- keys of `Client.subscribedAccts` -/
  accts : List Nat := []
  /-- `Client.serverStream != nil` -/
  isOpen : Bool := false
  /-- all streams opened so far, newest first -/
  streams : List Stream := []
  /-- number of `Terms` calls (connection attempts) so far -/
  attempts : Nat := 0
  /-- errors received on `StreamErrChan` -/
  mainErrs : List ErrClass := []
  /-- results of the `HandleServerShutdown(err)` calls made by the main handler -/
  handlerRes : List ErrClass := []
  /-- scripted auctioneer: refusals of the next `Terms` calls, behaviours of the next commitments -/
  refuse : Nat := 0
  beh : List Beh := []
  /-- that many of the next stream opens fail although the `Terms` probe before them succeeded -/
  failOpen : Nat := 0
  /-- that many of the next pending-batch checks (`checkPendingBatch` after a stream was opened) fail -/
  failBatch : Nat := 0
  /-- left the modelled fragment (see header) -/
  chaos : Bool := false
deriving DecidableEq, Repr

def Client.cur (c : Client) : Stream := c.streams.headD { alive := false }

def Client.setCur (c : Client) (f : Stream → Stream) : Client :=
  match c.streams with
  | [] => c
  | s :: ss => { c with streams := f s :: ss }

/-- `connectServerStream(initialBackoff, reconnectRetries)`: every pending refusal costs one failed `Terms` call (the
loop has 32767 retries), then the stream is opened and a reader goroutine started.  The waits requested in between
are `(connect init min max 32767 refuse).waits` (see `C18_backoff_shape`). -/
def Client.connectStream (c : Client) : Client :=
  if c.failOpen = 0 then
    { c with attempts := c.attempts + c.refuse + 1, refuse := 0, streams := {} :: c.streams, isOpen := true }
  else
    -- `c.serverStream, err = c.client.SubscribeBatchAuction(ctx)` fails: `serverStream` is nil, the error is returned
    { c with attempts := c.attempts + c.refuse + 1, refuse := 0, failOpen := c.failOpen - 1, isOpen := false }

/-- `closeStream()`: no-op without a stream; else `CloseSend`, cancel, `serverStream = nil`, close every
subscription's `quit`/`msgChan`. -/
def Client.closeStream (c : Client) : Client :=
  if c.isOpen then { c.setCur (fun s => { s with alive := false }) with isOpen := false } else c

/-- the server side of the newest stream ends with a transport error -/
def Client.failStream (c : Client) : Client := c.setCur fun s => { s with alive := false }

/-- how a handshake ended for the caller of `connectAndAuthenticate` -/
inductive HsRes
  | ok
  | errTransport   -- an error was returned; nothing else happens (the reader goroutine has exited)
  | errShutdown    -- an error was returned *and* the reader goroutine runs `HandleServerShutdown(nil)`
  | errRejected    -- an error was returned; the stream is still up
  | errConnect     -- `connectServerStream` returned an error (there is no stream)
  | errBatch       -- `checkPendingBatch` failed on the freshly opened (live) stream
  | okDirty        -- nil was returned, but a shutdown notice read right behind the success message made the reader
                   -- close the stream and mark the re-connect in progress dirty
deriving DecidableEq, Repr

def addAcct (l : List Nat) (a : Nat) : List Nat := if a ∈ l then l else l ++ [a]

/-- `connectAndAuthenticate(acctKey, recovery=false)`; `inline` is `c.HandleServerShutdown(nil)` as called from
inside this function (`return sub, false, c.HandleServerShutdown(nil)`) -/
def Client.connectAndAuth (v : Variant) (inline : Client → Client × HsRes) (c : Client) (a : Nat) :
    Client × HsRes :=
  -- "Don't subscribe more than once."
  if a ∈ c.accts then (c, .ok) else
  let c0 := c
  -- needToConnect := c.serverStream == nil
  let c := if c.isOpen then c else c.connectStream
  -- "connecting server stream failed": returned before the map insertion
  if !c.isOpen then (c, .errConnect) else
  -- "checking pending batch failed" (only after a first connect): the new stream stays, the account is not inserted
  if !c0.isOpen && c.failBatch != 0 then ({ c with failBatch := c.failBatch - 1 }, .errBatch) else
  -- c.subscribedAccts[acctPubKey] = sub   (before authenticate, never removed on failure)
  let c := { c with accts := addAcct c.accts a }
  if !c.cur.alive then
    -- the stream is dead but still referenced: sending the commitment fails, tempErrChan is empty
    (c, .errTransport)
  else
    let b := c.beh.headD .ok
    let c := { c with beh := c.beh.tail }
    match b with
    | .ok => (c.setCur fun s => { s with subs := s.subs ++ [a], success := s.success ++ [a] }, .ok)
    | .errBC =>
      -- authenticate() consumes the diverted ErrServerErrored while waiting for the challenge
      let c := c.failStream
      if v.inlineOnError then inline c else (c, .errTransport)
    | .errAC =>
      -- the diverted ErrServerErrored arrives while waiting for the final answer
      let c := c.setCur fun s => { s with subs := s.subs ++ [a], alive := false }
      if v.inlineOnError then inline c else (c, .errTransport)
    | .errMid =>
      -- sending Subscribe fails and ErrServerErrored waits on tempErrChan: "let's re-try our connection"
      inline c.failStream
    | .reject => (c.setCur fun s => { s with subs := s.subs ++ [a] }, .errRejected)
    | .okShut =>
      -- the reader: `reconnecting > 0` → `reconnectDirty = true; closeStream(); return` (a notice behind the success of
      -- a subscription made outside a re-connect is handled by `step`)
      ((c.setCur fun s => { s with subs := s.subs ++ [a], success := s.success ++ [a] }).closeStream, .okDirty)
    | .shutBC => (c, .errShutdown)
    | .shutAC => (c.setCur fun s => { s with subs := s.subs ++ [a] }, .errShutdown)

/-- `keepSubscriptions(acctKeys[idx+1:])` -/
def keepAccts (accts rest : List Nat) : List Nat := accts ++ rest.filter (fun a => !accts.contains a)

/-- the loop `for idx, acctKey := range acctKeys { err := StartAccountSubscription(...); if err != nil { … return err } }` -/
def Client.resubLoop (v : Variant) (hs : Client → Nat → Client × HsRes) (c : Client) : List Nat → Client × HsRes
  | [] => (c, .ok)
  | a :: rest =>
    match hs c a with
    | (c', .ok) => c'.resubLoop v hs rest
    | (c', .okDirty) =>
      -- the loop goes on (the next subscription finds no stream and connects), the dirty flag stays set
      match c'.resubLoop v hs rest with
      | (c'', .ok) => (c'', .okDirty)
      | r => r
    | (c', r) =>
      -- all keys were deleted from the map before the loop
      (if v.keepOnAbort then { c' with accts := keepAccts c'.accts rest } else c', r)

/-- `reconnect(err)` (the body of `HandleServerShutdown`) up to its return value; `pick` = map iteration order -/
def Client.reconnectOnce (v : Variant) (pick : List Nat → List Nat) (hs : Client → Nat → Client × HsRes)
    (c : Client) : Client × HsRes :=
  let c := c.closeStream
  -- connectServerStream(c.cfg.MinBackoff, reconnectRetries)
  let c := c.connectStream
  -- `if err != nil { return err }`: the map is untouched
  if !c.isOpen then (c, .errConnect) else
  -- `checkPendingBatch` fails: the (closed) subscriptions are replaced by inactive ones for the same accounts, the
  -- error is returned; the new stream stays open until the next attempt closes it
  if c.failBatch != 0 then ({ c with failBatch := c.failBatch - 1 }, .errBatch) else
  -- collect the keys in map order and delete them all
  { c with accts := [] }.resubLoop v hs (pick c.accts)

/-- `HandleServerShutdown(err)`: `reconnect`, started over while a shutdown notice arrived during the attempt (the
reader of the new stream closed it and set `reconnectDirty`); `fuel` bounds the unrolling – every such round consumes
a shutdown behaviour of the script.  Before the repair the reader started a concurrent `HandleServerShutdown`. -/
def Client.handleShutdown (v : Variant) (pick : List Nat → List Nat) (hs : Client → Nat → Client × HsRes) :
    Nat → Client → Client × HsRes
  | 0, c =>
    match c.reconnectOnce v pick hs with
    | (c', .errShutdown) => ({ c' with chaos := true }, .errShutdown)
    | (c', .okDirty) => ({ c' with chaos := true }, .okDirty)
    | r => r
  | f + 1, c =>
    match c.reconnectOnce v pick hs with
    | (c', .errShutdown) =>
      if v.serializeReconnects then Client.handleShutdown v pick hs f c'.closeStream
      else ({ c' with chaos := true }, .errShutdown)
    | (c', .okDirty) =>
      -- `if c.reconnectDirty { c.reconnectDirty = false; …; continue }` – also after a successful attempt
      if v.serializeReconnects then Client.handleShutdown v pick hs f c'.closeStream
      else ({ c' with chaos := true }, .okDirty)
    | r => r

/-- the handshake function at recursion depth `n` (number of further stream failures it can absorb inline) -/
def hsLevel (v : Variant) (pick : List Nat → List Nat) : Nat → Client → Nat → Client × HsRes
  | 0 => Client.connectAndAuth v (fun c => ({ c with chaos := true }, .ok))
  | n + 1 => Client.connectAndAuth v (fun c => c.handleShutdown v pick (hsLevel v pick n) (n + 1))

/-- reaction of `rpcServer.serverHandler` to an error `e ≠ nil, ≠ ErrServerShutdown` on `StreamErrChan`:
`HandleServerShutdown(e)`; before the repair the result was only logged, now it is retried until nil
(`fuel` bounds the unrolling; every failed round consumes a behaviour of the script) -/
def Client.handlerRound (hsd : Client → Client × HsRes) (c : Client) : Client × Bool :=
  match hsd c with
  | (c', .ok) => ({ c' with handlerRes := c'.handlerRes ++ [.none_] }, false)
  | (c', .errShutdown) => ({ c' with chaos := true }, false)
  | (c', _) => ({ c' with handlerRes := c'.handlerRes ++ [.other] }, true)

def Client.handlerLoop (v : Variant) (hsd : Client → Client × HsRes) : Nat → Client → Client
  | 0, c =>
    let r := Client.handlerRound hsd c
    if r.2 && v.handlerRetries then { r.1 with chaos := true } else r.1
  | f + 1, c =>
    let r := Client.handlerRound hsd c
    if r.2 && v.handlerRetries then Client.handlerLoop v hsd f r.1 else r.1

def Client.mainHandler (v : Variant) (hsd : Client → Client × HsRes) (fuel : Nat) (c : Client) (e : ErrClass) :
    Client :=
  Client.handlerLoop v hsd fuel { c with mainErrs := c.mainErrs ++ [e] }

/-- `readIncomingStream` on a `SERVER_SHUTDOWN` notice: `HandleServerShutdown(nil)`; a non-nil result is sent to the
error switch (not diverted any more) and reaches the main handler -/
def Client.readerShutdown (v : Variant) (hsd : Client → Client × HsRes) (fuel : Nat) (c : Client) : Client :=
  match hsd c with
  | (c', .ok) => c'
  | (c', .errShutdown) => { c' with chaos := true }
  | (c', _) => c'.mainHandler v hsd fuel .other

/-- externally triggered events -/
inductive Op
  | sub (a : Nat)   -- `StartAccountSubscription`
  | errIdle         -- the stream fails with a transport error while no handshake is in progress
  | shutIdle        -- shutdown notice while no handshake is in progress
deriving DecidableEq, Repr

/-- result of `StartAccountSubscription` -/
inductive Ret
  | none_ | ok | err
deriving DecidableEq, Repr

def Client.step (v : Variant) (pick : List Nat → List Nat) (c : Client) (op : Op) : Client × Ret :=
  -- every nested reconnect / handler retry consumes a behaviour of the script, a failing open or a failing batch check
  let depth := c.beh.length + c.failOpen + c.failBatch
  let hs := hsLevel v pick depth
  let hsd := fun c : Client => c.handleShutdown v pick hs depth
  match op with
  | .sub a =>
    match hs c a with
    | (c', .ok) => (c', .ok)
    | (c', .okDirty) => (c'.readerShutdown v hsd depth, .ok)
    | (c', .errShutdown) => (c'.readerShutdown v hsd depth, .err)
    | (c', _) => (c', .err)
  | .errIdle =>
    if c.isOpen && c.cur.alive then
      -- reader: ErrServerErrored → switch (not diverted) → main handler
      (c.failStream.mainHandler v hsd depth .serverErrored, .none_)
    else (c, .none_)
  | .shutIdle =>
    if c.isOpen && c.cur.alive then (c.readerShutdown v hsd depth, .none_) else (c, .none_)

/-- install the auctioneer's script for the next op -/
def Client.script (c : Client) (refuse : Nat) (beh : List Beh) (failOpen : Nat := 0) (failBatch : Nat := 0) :
    Client :=
  { c with refuse := refuse, beh := beh, failOpen := failOpen, failBatch := failBatch, mainErrs := [],
           handlerRes := [] }

end Pool.C18
