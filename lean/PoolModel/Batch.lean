import PoolModel.Generated.Consts
import PoolModel.Generated.BatchFacts
import PoolModel.Float64
/-!
# Executable model of the trader-side batch verification (shared by C01, C02, C03)

Mirrors, function by function,

* `order/rpc_parse.go`      `ParseRPCBatch`, `ParseRPCMatchedOrders`, `ParseRPCServerAsk/Bid/Order` (the parts that
                             decide: both-sides test, channel-type switch, lease-duration bucket check, integer casts),
* `order/batch_verifier.go` `batchVerifier.Verify`, `validateMatchedOrder`, `DetermineCommitmentType`,
* `order/batch.go`          `ChannelOutput`, `AccountDiff.validateEndingState`, `BatchVersion.Supports*`,
* `order/tradingfees.go`    `makerDelta/CalcMakerDelta`, `takerDelta/CalcTakerDelta`, `executionFee`,
                             `EstimateTraderFee`, `AccountTally.ChainFees`,
* `terms/fees.go`           `LinearFeeSchedule.ExecutionFee`,
* `order/supplyunit.go`     `SupplyUnit.ToSatoshis`,
* `order/manager.go`        `manager.OrderMatchValidate`, `IsNodeIDAValidMatch`,
* `account/interfaces.go`   `Version.ScriptVersion`, `Account.NextOutputScript` (script bytes = oracle `acctScript`),
* `poolscript/script.go`    `FundingOutput` (script bytes = oracle `fundScript`; lnd's `amt <= 0` test of
                             `GenFundingPkScript` is mirrored).

Integers: Go `int64` (`btcutil.Amount`) values are `Int` with an explicit two's-complement wrap `w64` at every Go
arithmetic operation, `uint64`/`uint32`/`uint8` values are `Nat` with `u64`/`u32`/`u8`.  The height window uses
Lean's `UInt32`.  Go maps are association lists; the iteration order of `Batch.MatchedOrders` is the list order
(theorems prove acceptance independent of it).  Keys, scripts and nonces are opaque strings (hex).

External functions are parameters of `Env`: `premium` (`FixedRatePremium.LumpSumPremium`, float64 arithmetic –
modelled exactly elsewhere), `acctScript` (`poolscript.AccountScript` of the account's keys/secret with the batch
key advanced by one), `fundScript` (`input.GenFundingPkScript` / `GenTaprootFundingScript` script bytes), and per
order `derivedKey` (`wallet.DeriveKey` of the order's multisig key locator).
-/
namespace Pool.Batch

abbrev Key := String
abbrev Script := String
abbrev Nonce := String

/-! ## Go integer conversions -/

/-- two's-complement wrap to `int64` -/
def w64 (x : Int) : Int := Int.bmod x (2 ^ 64)
/-- wrap to `uint64` -/
def u64 (x : Int) : Nat := (x % (2 ^ 64 : Int)).toNat
/-- wrap to `uint32` -/
def u32 (x : Nat) : Nat := x % 2 ^ 32
/-- wrap to `uint8` -/
def u8 (x : Nat) : Nat := x % 2 ^ 8
/-- wrap to `int32` -/
def i32 (x : Int) : Int := Int.bmod x (2 ^ 32)

/-! ## Data -/

/-- one of the trader's own stored orders (`order.Ask` / `order.Bid`), plus what the wallet derives for it -/
structure Ours where
  nonce : Nonce
  isAsk : Bool
  acctKey : Key
  /-- `btcec.ParsePubKey(AcctKey)` succeeds -/
  acctKeyParses : Bool
  auctionType : Nat
  duration : Nat
  rate : Nat
  unitsUnfulfilled : Nat
  minUnitsMatch : Nat
  chanType : Nat
  /-- `Bid.SelfChanBalance` (0 for asks) -/
  selfChanBalance : Int
  /-- `Bid.SidecarTicket`: `none` = no ticket, `some none` = ticket without recipient / recipient multisig key,
  `some (some k)` = recipient's funding key -/
  sidecar : Option (Option Key)
  /-- `wallet.DeriveKey(MultiSigKeyLocator)`; `none` = the wallet returned an error -/
  derivedKey : Option Key
  allowed : List Key
  notAllowed : List Key
deriving Repr, DecidableEq

/-- `order.MatchedOrder` as produced by `ParseRPCServerAsk/Bid` -/
structure Their where
  isAsk : Bool
  nonce : Nonce
  auctionType : Nat
  duration : Nat
  rate : Nat
  /-- `Bid.SelfChanBalance` after the `btcutil.Amount(uint64)` cast (0 for asks) -/
  selfChanBalance : Int
  chanType : Nat
  nodeKey : Key
  multiSigKey : Key
  unitsFilled : Nat
deriving Repr, DecidableEq

structure Acct where
  key : Key
  value : Int
  expiry : Nat
  version : Nat
deriving Repr, DecidableEq

structure Diff where
  acctKey : Key
  endingState : Int
  endingBalance : Int
  outpointIndex : Int
  newExpiry : Nat
  newVersion : Nat
deriving Repr, DecidableEq

structure TxOut where
  value : Int
  script : Script
deriving Repr, DecidableEq

/-- `order.Batch` (the fields `Verify` reads) -/
structure Batch where
  id : String
  version : Nat
  heightHint : UInt32
  /-- `MatchedOrders map[Nonce][]*MatchedOrder`; list order = Go's iteration order of this run -/
  matched : List (Nonce × List Their)
  /-- `ClearingPrices map[uint32]FixedRatePremium` -/
  clearing : List (Nat × Nat)
  diffs : List Diff
  execBase : Int
  execRate : Int
  feeRate : Int
  txOuts : List TxOut
deriving Repr, DecidableEq

/-- what the trader knows / can compute locally -/
structure Env where
  /-- `orderStore.GetOrder` -/
  orders : List Ours
  /-- `getAccount` -/
  accounts : List Acct
  ourNode : Key
  /-- `ManagerConfig.BatchVersion` -/
  version : Nat
  /-- `order.MinNoDustAccountSize` (a package variable computed at start-up) -/
  minNoDust : Int
  /-- `FixedRatePremium(rate).LumpSumPremium(amt, duration)` -/
  premium : Int → Nat → Nat → Int
  /-- `poolscript.AccountScript(scriptVersion, expiry, trader, auctioneer, IncrementKey(batchKey), secret)` of the
  account with this trader key; `none` = error -/
  acctScript : Key → Nat → Nat → Option Script
  /-- funding pkScript for (taproot?, ourKey, theirKey); `none` = error -/
  fundScript : Bool → Key → Key → Option Script

inductive Err
  | parse
  | version | height
  | orderNotFound | acctKeyParse | acctNotFound
  | matchSameType | matchAuction | matchOwnNode | matchDuration | matchPrice
  | chanSidecar | chanDerive | chanScript | chanNotFound
  | clearingBid | clearingAsk | overfill | underfill
  | diffUninvolved | diffBalance | diffState | diffIndexDust | diffIndexNeg | diffIndexOob | diffValue
  | diffScriptDerive | diffScript
  | diffDuplicate | diffNewExpiry | diffNewVersion
  | nodeFilter
  /-- a Go run-time panic (slice index out of range) -/
  | panic
deriving Repr, DecidableEq

def Err.name : Err → String
  | .parse => "parse" | .version => "version" | .height => "height"
  | .orderNotFound => "order-not-found" | .acctKeyParse => "acctkey-parse" | .acctNotFound => "acct-not-found"
  | .matchSameType => "match-same-type" | .matchAuction => "match-auction" | .matchOwnNode => "match-own-node"
  | .matchDuration => "match-duration" | .matchPrice => "match-price"
  | .chanSidecar => "chan-sidecar" | .chanDerive => "chan-derive" | .chanScript => "chan-script"
  | .chanNotFound => "chan-not-found"
  | .clearingBid => "clearing-bid" | .clearingAsk => "clearing-ask" | .overfill => "overfill"
  | .underfill => "underfill"
  | .diffUninvolved => "diff-uninvolved" | .diffBalance => "diff-balance" | .diffState => "diff-state"
  | .diffIndexDust => "diff-index-dust" | .diffIndexNeg => "diff-index-neg" | .diffIndexOob => "diff-index-oob"
  | .diffValue => "diff-value" | .diffScriptDerive => "diff-script-derive" | .diffScript => "diff-script"
  | .diffDuplicate => "diff-duplicate" | .diffNewExpiry => "diff-new-expiry" | .diffNewVersion => "diff-new-version"
  | .nodeFilter => "node-filter" | .panic => "panic"

/-- The outcome kind observable without reading error texts: sentinel error / error type (`ErrInvalidBatchHeightHint`,
`*ErrVersionMismatch`, `ErrMismatchErr`), or which collaborator failed (order store, account store, wallet); every other
plain error is `other`. -/
def Err.kind : Err → String
  | .parse => "parse" | .version => "version" | .height => "height"
  | .orderNotFound => "order-not-found" | .acctNotFound => "acct-not-found" | .chanDerive => "chan-derive"
  | .acctKeyParse => "other" | .nodeFilter => "other" | .panic => "panic"
  | _ => "mismatch"

/-! ## `order/batch.go`: batch version predicates -/

/-- `bv & LinearVersionEnd` -/
def linearPart (bv : Nat) : Nat := bv &&& Pool.Gen.Batch.linearVersionEnd

/-- `BatchVersion.SupportsAccountExtension` -/
def supportsAccountExtension (bv : Nat) : Bool := linearPart bv ≥ Pool.Gen.Batch.extendAccountBatchVersion

/-- `BatchVersion.SupportsAccountTaprootUpgrade` -/
def supportsAccountTaprootUpgrade (bv : Nat) : Bool := linearPart bv ≥ Pool.Gen.Batch.upgradeAccountTaprootBatchVersion

/-! ## `order/supplyunit.go`, `terms/fees.go`, `order/tradingfees.go` -/

/-- `SupplyUnit.ToSatoshis`: `btcutil.Amount(uint64(s) * uint64(BaseSupplyUnit))` -/
def toSatoshis (units : Nat) : Int := w64 (u64 (units * Pool.Gen.Batch.baseSupplyUnit))

/-- `LinearFeeSchedule.ExecutionFee`: `amt * s.feeRate / 1_000_000` (int64, truncated division) -/
def scheduleExecutionFee (execRate amt : Int) : Int := Int.tdiv (w64 (amt * execRate)) Pool.Gen.Batch.feeRatePartsPerMillion

/-- `executionFee`: `schedule.BaseFee() + schedule.ExecutionFee(amount)` -/
def executionFee (execBase execRate amt : Int) : Int := w64 (execBase + scheduleExecutionFee execRate amt)

/-- `makerDelta`, first result (balance delta) -/
def makerDelta (env : Env) (execBase execRate : Int) (price : Nat) (makerAmt baseAmt : Int) (duration : Nat) : Int :=
  let balanceDelta := w64 (-makerAmt)
  let satsPremium := env.premium baseAmt price duration
  let balanceDelta := w64 (balanceDelta + satsPremium)
  w64 (balanceDelta - executionFee execBase execRate makerAmt)

/-- `takerDelta`, first result (balance delta) -/
def takerDelta (env : Env) (execBase execRate : Int) (price : Nat) (baseAmt takerAmt : Int) (duration : Nat) : Int :=
  let satsPremium := env.premium baseAmt price duration
  let balanceDelta := w64 (-satsPremium)
  let balanceDelta := w64 (balanceDelta - takerAmt)
  w64 (balanceDelta - executionFee execBase execRate baseAmt)

/-- `EstimateTraderFee` -/
def estimateTraderFee (numTraderChans : Nat) (feeRate : Int) (accountVersion : Nat) : Int :=
  let weightEstimate : Int := ((Pool.Gen.Batch.p2wshOutputSize + Pool.Gen.Batch.inputSize : Nat) : Int)
  let chanOutputSize : Nat := u32 Pool.Gen.Batch.p2wshOutputSize
  let weightEstimate := w64 (weightEstimate + Int.tdiv ((u32 (chanOutputSize * numTraderChans + 1) : Nat) : Int) 2)
  let weightEstimate := w64 (weightEstimate * (Pool.Gen.Batch.witnessScaleFactor : Nat))
  let weightEstimate :=
    if Pool.Gen.Batch.taprootWitnessVersions.contains accountVersion then
      w64 (weightEstimate + (Pool.Gen.Batch.taprootMultiSigWitnessSize : Nat))
    else w64 (weightEstimate + (Pool.Gen.Batch.multiSigWitnessSize : Nat))
  -- chainfee.SatPerKWeight.FeeForWeight: btcutil.Amount(s) * btcutil.Amount(wu) / 1000
  Int.tdiv (w64 (feeRate * weightEstimate)) 1000

/-! ## `account/interfaces.go` -/

/-- `account.Version.ScriptVersion` -/
def scriptVersion (v : Nat) : Nat :=
  match Pool.Gen.Batch.scriptVersionTable.lookup v with
  | some sv => sv
  | none => Pool.Gen.Batch.scriptVersionDefault

/-! ## `order/batch_verifier.go`: `DetermineCommitmentType`, then `poolscript.FundingOutput`'s switch:
is the funding output a MuSig2 taproot output? -/

/-- the commitment type name chosen by `DetermineCommitmentType` (first matching case of the regenerated table) -/
def determineCommitmentType (oursCt theirsCt : Nat) : String :=
  let rec go : List (String × Nat × String) → String
    | [] => Pool.Gen.Batch.commitDefault
    | (op, ct, res) :: rest =>
      if (op == "or" && (oursCt == ct || theirsCt == ct)) || (op == "and" && (oursCt == ct && theirsCt == ct))
      then res else go rest
  go Pool.Gen.Batch.commitCases

/-- `FundingOutput`: `case lnrpc.CommitmentType_SIMPLE_TAPROOT` → taproot, `default` → p2wsh -/
def fundingIsTaproot (commit : String) : Bool := Pool.Gen.Batch.taprootFundingCommitTypes.contains commit

/-! ## `order/batch.go`: `ChannelOutput` -/

/-- the trader-side funding key `ChannelOutput` uses -/
def ourFundingKey (o : Ours) : Except Err Key :=
  match o.isAsk, o.sidecar with
  | false, some none => .error .chanSidecar
  | false, some (some k) => .ok k
  | _, _ => match o.derivedKey with
    | none => .error .chanDerive
    | some k => .ok k

/-- `expectedOutputSize := selfChanBalance + otherOrder.UnitsFilled.ToSatoshis()` -/
def expectedOutputSize (o : Ours) (t : Their) : Int :=
  let selfChanBalance := if o.isAsk then t.selfChanBalance else o.selfChanBalance
  w64 (selfChanBalance + toSatoshis t.unitsFilled)

/-- `poolscript.FundingOutput` → expected (value, script) -/
def fundingOutput (env : Env) (taproot : Bool) (ourKey theirKey : Key) (size : Int) : Except Err TxOut :=
  if !taproot && size ≤ 0 then .error .chanScript   -- lnd GenFundingPkScript: amt <= 0
  else match env.fundScript taproot ourKey theirKey with
    | none => .error .chanScript
    | some s => .ok ⟨size, s⟩

def channelOutput (env : Env) (txOuts : List TxOut) (o : Ours) (t : Their) : Except Err Unit :=
  match ourFundingKey o with
  | .error e => .error e
  | .ok ourKey =>
    let commit := determineCommitmentType o.chanType t.chanType
    match fundingOutput env (fundingIsTaproot commit) ourKey t.multiSigKey (expectedOutputSize o t) with
    | .error e => .error e
    | .ok expected =>
      if txOuts.any (fun out => out.value == expected.value && out.script == expected.script) then .ok ()
      else .error .chanNotFound

/-! ## `order/batch_verifier.go`: `validateMatchedOrder` -/

/-- returns the balance delta to add to the account's tally -/
def validateMatchedOrder (env : Env) (b : Batch) (o : Ours) (t : Their) (clearingPrice : Nat) : Except Err Int :=
  if t.isAsk == o.isAsk then .error .matchSameType
  else if o.auctionType != t.auctionType then .error .matchAuction
  else if t.nodeKey == env.ourNode then .error .matchOwnNode
  else if o.isAsk then
    -- ours : *Ask, other : *Bid
    if t.duration != o.duration then .error .matchDuration
    else if o.rate > t.rate then .error .matchPrice
    else
      let makerAmt := toSatoshis t.unitsFilled
      let premiumAmt := if o.auctionType == Pool.Gen.Batch.btcOutboundLiquidity then w64 (makerAmt + t.selfChanBalance) else makerAmt
      .ok (makerDelta env b.execBase b.execRate clearingPrice makerAmt premiumAmt t.duration)
  else
    -- ours : *Bid, other : *Ask
    if t.duration != o.duration then .error .matchDuration
    else if t.rate > o.rate then .error .matchPrice
    else
      let takerAmt := o.selfChanBalance
      let premiumAmt := toSatoshis t.unitsFilled
      let premiumAmt := if o.auctionType == Pool.Gen.Batch.btcOutboundLiquidity then w64 (premiumAmt + takerAmt) else premiumAmt
      .ok (takerDelta env b.execBase b.execRate clearingPrice premiumAmt takerAmt o.duration)

/-! ## `order/batch.go`: `AccountDiff.validateEndingState` -/

def validateEndingState (env : Env) (txOuts : List TxOut) (acct : Acct) (d : Diff) : Except Err Unit :=
  if d.endingBalance < env.minNoDust then
    if !Pool.Gen.Batch.dustEndingStates.contains d.endingState then .error .diffState
    else if d.outpointIndex ≥ 0 then .error .diffIndexDust
    else .ok ()
  else
    if d.endingState != Pool.Gen.Batch.recreatedEndingState then .error .diffState
    else if d.outpointIndex < 0 then .error .diffIndexNeg
    else if d.outpointIndex ≥ i32 txOuts.length then .error .diffIndexOob
    else match txOuts[d.outpointIndex.toNat]? with
      | none => .error .panic
      | some out =>
        if out.value != d.endingBalance then .error .diffValue
        else match env.acctScript acct.key (scriptVersion acct.version) acct.expiry with
          | none => .error .diffScriptDerive
          | some s => if out.script != s then .error .diffScript else .ok ()

/-! ## `order/batch_verifier.go`: `batchVerifier.Verify` -/

/-- `tallies[acctKey]` and `accounts[acctKey]` of `Verify` -/
structure Entry where
  key : Key
  /-- `AccountTally.EndingBalance` -/
  bal : Int
  /-- `AccountTally.NumChansCreated` (uint32) -/
  chans : Nat
  /-- the `*account.Account` returned by `getAccount` (mutated by the diff loop) -/
  acct : Acct
deriving Repr, DecidableEq

abbrev Tallies := List Entry

def findEntry (k : Key) : Tallies → Option Entry
  | [] => none
  | e :: es => if e.key == k then some e else findEntry k es

def setEntry (e : Entry) : Tallies → Tallies
  | [] => []
  | x :: xs => if x.key == e.key then e :: xs else x :: setEntry e xs

def findOrder (n : Nonce) : List Ours → Option Ours
  | [] => none
  | o :: os => if o.nonce == n then some o else findOrder n os

def findAcct (k : Key) : List Acct → Option Acct
  | [] => none
  | a :: as => if a.key == k then some a else findAcct k as

/-- `batch.ClearingPrices[duration]` (missing key = 0) -/
def clearingPrice (b : Batch) (duration : Nat) : Nat := (b.clearing.lookup duration).getD 0

/-- the inner loop `for _, theirOrder := range theirOrders`: returns the new (balance, chans, unitsFilled) -/
def matchLoop (env : Env) (b : Batch) (o : Ours) (cp : Nat) :
    List Their → (Int × Nat × Nat) → Except Err (Int × Nat × Nat)
  | [], acc => .ok acc
  | t :: ts, (bal, chans, units) =>
    match validateMatchedOrder env b o t cp with
    | .error e => .error e
    | .ok delta =>
      match channelOutput env b.txOuts o t with
      | .error e => .error e
      | .ok () => matchLoop env b o cp ts (w64 (bal + delta), u32 (chans + 1), u64 (units + t.unitsFilled))

/-- the clearing-price and units checks after the inner loop -/
def orderChecks (o : Ours) (cp : Nat) (unitsFilled : Nat) : Except Err Unit :=
  if !o.isAsk && o.rate < cp then .error .clearingBid
  else if o.isAsk && o.rate > cp then .error .clearingAsk
  else if unitsFilled > o.unitsUnfulfilled then .error .overfill
  else if o.auctionType != Pool.Gen.Batch.btcOutboundLiquidity && unitsFilled < o.minUnitsMatch then .error .underfill
  else .ok ()

/-- one iteration of `for nonce, theirOrders := range batch.MatchedOrders` -/
def verifyOrder (env : Env) (b : Batch) (st : Tallies) (nm : Nonce × List Their) : Except Err Tallies :=
  match findOrder nm.1 env.orders with
  | none => .error .orderNotFound
  | some o =>
    if !o.acctKeyParses then .error .acctKeyParse else
    let stE : Except Err (Tallies × Entry) :=
      match findEntry o.acctKey st with
      | some e => .ok (st, e)
      | none => match findAcct o.acctKey env.accounts with
        | none => .error .acctNotFound
        | some a => let e : Entry := ⟨o.acctKey, a.value, 0, a⟩; .ok (st ++ [e], e)
    match stE with
    | .error e => .error e
    | .ok (st, e) =>
      let cp := clearingPrice b o.duration
      match matchLoop env b o cp nm.2 (e.bal, e.chans, 0) with
      | .error err => .error err
      | .ok (bal, chans, units) =>
        match orderChecks o cp units with
        | .error err => .error err
        | .ok () => .ok (setEntry { e with bal := bal, chans := chans } st)

def verifyOrders (env : Env) (b : Batch) : Tallies → List (Nonce × List Their) → Except Err Tallies
  | st, [] => .ok st
  | st, nm :: rest =>
    match verifyOrder env b st nm with
    | .error e => .error e
    | .ok st' => verifyOrders env b st' rest

/-- Which of the three checks added by the repair (`fix: order: reject duplicate account diffs, unknown new account
versions and over-long new expiries in batch verification`) are present.  `Rules.fixed` is the repaired code (what
the driver runs), `Rules.pinned` the code as found. -/
structure Rules where
  rejectDuplicateDiffs : Bool
  boundNewExpiry : Bool
  validateNewVersion : Bool
deriving Repr, DecidableEq

def Rules.fixed : Rules := ⟨true, true, true⟩
def Rules.pinned : Rules := ⟨false, false, false⟩

/-- `account.ValidateVersion` -/
def validateVersion (v : Nat) : Bool := Pool.Gen.Batch.validAccountVersions.contains v

/-- "Update account expiry if needed": `batch.Version.SupportsAccountExtension() && diff.NewExpiry != 0` -/
def extendsExpiry (b : Batch) (d : Diff) : Bool := supportsAccountExtension b.version && d.newExpiry != 0

/-- "Update account version if needed": `batch.Version.SupportsAccountTaprootUpgrade() && diff.NewVersion > acct.Version` -/
def upgradesVersion (b : Batch) (a : Acct) (d : Diff) : Bool :=
  supportsAccountTaprootUpgrade b.version && decide (d.newVersion > a.version)

def newExpiryOf (b : Batch) (a : Acct) (d : Diff) : Nat := if extendsExpiry b d then d.newExpiry else a.expiry
def newVersionOf (b : Batch) (a : Acct) (d : Diff) : Nat := if upgradesVersion b a d then d.newVersion else a.version

/-- the `*account.Account` after both updates, as handed to `validateEndingState` -/
def acctAfter (b : Batch) (a : Acct) (d : Diff) : Acct :=
  { a with expiry := newExpiryOf b a d, version := newVersionOf b a d }

/-- one iteration of `for _, diff := range batch.AccountDiffs`; `seen` = keys of the diffs processed so far -/
def verifyDiff (env : Env) (rules : Rules) (b : Batch) (best : UInt32) (st : Tallies) (seen : List Key) (d : Diff) :
    Except Err Tallies :=
  match findEntry d.acctKey st with
  | none => .error .diffUninvolved
  | some e =>
    if rules.rejectDuplicateDiffs && seen.contains d.acctKey then .error .diffDuplicate
    -- tally.ChainFees(batch.BatchTxFeeRate, acct.Version); compare with the server's number
    else if d.endingBalance != w64 (e.bal - estimateTraderFee e.chans b.feeRate e.acct.version) then .error .diffBalance
    -- uint64(diff.NewExpiry) > uint64(bestHeight) + uint64(account.MaxAccountExpiry)
    else if rules.boundNewExpiry && extendsExpiry b d &&
        decide (d.newExpiry > best.toNat + Pool.Gen.Batch.maxAccountExpiry) then .error .diffNewExpiry
    else if rules.validateNewVersion && upgradesVersion b e.acct d && !validateVersion d.newVersion then
      .error .diffNewVersion
    else match validateEndingState env b.txOuts (acctAfter b e.acct d) d with
      | .error err => .error err
      | .ok () => .ok (setEntry { e with
          bal := w64 (e.bal - estimateTraderFee e.chans b.feeRate e.acct.version),
          acct := acctAfter b e.acct d } st)

def verifyDiffs (env : Env) (rules : Rules) (b : Batch) (best : UInt32) :
    Tallies → List Key → List Diff → Except Err Tallies
  | st, _, [] => .ok st
  | st, seen, d :: rest =>
    match verifyDiff env rules b best st seen d with
    | .error e => .error e
    | .ok st' => verifyDiffs env rules b best st' (d.acctKey :: seen) rest

/-- the uint32 window test of `Verify` -/
def heightOk (best hint : UInt32) : Bool :=
  let pad : UInt32 := UInt32.ofNat Pool.Gen.heightHintPadding
  !(best < hint - pad || best > hint + pad)

/-- `batchVerifier.Verify` -/
def verify (env : Env) (rules : Rules) (b : Batch) (best : UInt32) : Except Err Tallies :=
  if b.version != env.version then .error .version
  else if !heightOk best b.heightHint then .error .height
  else match verifyOrders env b [] b.matched with
    | .error e => .error e
    | .ok st => verifyDiffs env rules b best st [] b.diffs

/-! ## `order/manager.go` -/

/-- `IsNodeIDAValidMatch` -/
def isNodeIDAValidMatch (nodeID : Key) (allowed notAllowed : List Key) : Bool :=
  if allowed.length > 0 then allowed.contains nodeID
  else if notAllowed.length > 0 then !notAllowed.contains nodeID
  else true

/-- the node-filter loop of `OrderMatchValidate` -/
def nodeFilter (env : Env) : List (Nonce × List Their) → Except Err Unit
  | [] => .ok ()
  | nm :: rest =>
    match findOrder nm.1 env.orders with
    | none => .error .orderNotFound
    | some o =>
      if nm.2.all (fun t => isNodeIDAValidMatch t.nodeKey o.allowed o.notAllowed) then nodeFilter env rest
      else .error .nodeFilter

/-- `manager.OrderMatchValidate`: result and the new `pendingBatch` (id), given the old one -/
def orderMatchValidate (env : Env) (rules : Rules) (b : Batch) (best : UInt32) (pending : Option String) :
    Except Err Tallies × Option String :=
  match verify env rules b best with
  | .error e => (.error e, pending)
  | .ok st =>
    match nodeFilter env b.matched with
    | .error e => (.error e, pending)
    | .ok () => (.ok st, some b.id)

/-- A sequence of proposals handled by ONE long-lived manager / verifier (the auctioneer re-sends the prepare message
of a batch, possibly for the same batch ID, while the trader's database may change in between): the verdict of each
and the pending batch at the end.  The only state carried from one proposal to the next is `pendingBatch` – the
`batchVerifier` itself has none (its fields are fixed at start-up; accounts and orders are read afresh each time). -/
def validateSeq (rules : Rules) : List (Env × Batch × UInt32) → Option String →
    List (Except Err Tallies) × Option String
  | [], p => ([], p)
  | (env, b, best) :: rest, p =>
    let r := orderMatchValidate env rules b best p
    let rs := validateSeq rules rest r.2
    (r.1 :: rs.1, rs.2)

/-! ## `order/rpc_parse.go`: `ParseRPCBatch` (decision-relevant part) -/

/-- `auctioneerrpc.ServerAsk` / `ServerBid` with its `MatchedAsk/MatchedBid.UnitsFilled` -/
structure TheirRpc where
  nonce : Nonce
  auctionType : Nat
  duration : Nat
  rate : Nat
  /-- `ServerBid.SelfChanBalance` (uint64) -/
  selfChanBalance : Nat
  /-- `OrderChannelType` enum value -/
  chanType : Int
  nodeKey : Key
  multiSigKey : Key
  /-- uint32 -/
  unitsFilled : Nat
  /-- `ServerAsk/ServerBid.Version` (order version of the counterparty's software).  `ParseRPCServerOrder` copies it
  into `kit.Version`; neither the bucket check nor `Verify` reads it – in particular the lease duration and the channel
  type of an old-version order are taken from the message as they are. -/
  version : Nat := 6
  /-- SEC encoding of `NodePub` / `MultiSigKey` on the wire (0 compressed, 1 uncompressed, 2 hybrid).
  `ParseRPCServerOrder` parses either key and stores `SerializeCompressed()` of the parsed point, so whatever the
  encoding the batch carries the canonical compressed keys – `nodeKey` / `multiSigKey` above. -/
  nodeKeyEnc : Nat := 0
  multiSigKeyEnc : Nat := 0
deriving Repr, DecidableEq

structure MatchedRpc where
  nonce : Nonce
  asks : List TheirRpc
  bids : List TheirRpc
deriving Repr, DecidableEq

structure MarketRpc where
  duration : Nat
  price : Nat
  orders : List MatchedRpc
deriving Repr, DecidableEq

structure DiffRpc where
  acctKey : Key
  endingState : Int
  endingBalance : Nat
  outpointIndex : Int
  newExpiry : Nat
  newVersion : Nat
deriving Repr, DecidableEq

/-- `auctioneerrpc.OrderMatchPrepare` (byte-level well-formedness – keys, nonces, the transaction – is assumed) -/
structure PrepareMsg where
  id : String
  version : Nat
  heightHint : Nat
  markets : List MarketRpc
  diffs : List DiffRpc
  execBase : Nat
  execRate : Nat
  feeRate : Nat
  txOuts : List TxOut
deriving Repr, DecidableEq

/-- the channel-type switch of `ParseRPCServerOrder` -/
def parseChanType (ct : Int) : Option Nat := Pool.Gen.Batch.rpcChanTypeTable.lookup ct

def parseTheir (isAsk : Bool) (r : TheirRpc) : Except Err Their :=
  match parseChanType r.chanType with
  | none => .error .parse
  | some ct => .ok {
      isAsk := isAsk, nonce := r.nonce, auctionType := r.auctionType, duration := r.duration, rate := r.rate,
      selfChanBalance := if isAsk then 0 else w64 r.selfChanBalance,
      chanType := ct, nodeKey := r.nodeKey, multiSigKey := r.multiSigKey, unitsFilled := r.unitsFilled }

def parseTheirs (isAsk : Bool) : List TheirRpc → Except Err (List Their)
  | [] => .ok []
  | r :: rs => match parseTheir isAsk r with
    | .error e => .error e
    | .ok t => match parseTheirs isAsk rs with
      | .error e => .error e
      | .ok ts => .ok (t :: ts)

/-- `ParseRPCMatchedOrders` -/
def parseMatchedOrders (m : MatchedRpc) : Except Err (List Their) :=
  if m.asks.length > 0 && m.bids.length > 0 then .error .parse
  else if m.asks.length > 0 then parseTheirs true m.asks
  else if m.bids.length > 0 then parseTheirs false m.bids
  else .ok []

/-- map insert (`b.MatchedOrders[ourOrder] = matchedOrders`) -/
def mapInsert (k : Nonce) (v : List Their) : List (Nonce × List Their) → List (Nonce × List Their)
  | [] => [(k, v)]
  | (k', v') :: rest => if k' == k then (k, v) :: rest else (k', v') :: mapInsert k v rest

/-- one market of `ParseRPCBatch`: parse every entry, check the lease-duration bucket, insert -/
def parseMarketOrders (duration : Nat) :
    List MatchedRpc → List (Nonce × List Their) → Except Err (List (Nonce × List Their))
  | [], acc => .ok acc
  | m :: ms, acc =>
    match parseMatchedOrders m with
    | .error e => .error e
    | .ok ts =>
      if ts.all (fun t => t.duration == duration) then parseMarketOrders duration ms (mapInsert m.nonce ts acc)
      else .error .parse

def parseMarkets : List MarketRpc → List (Nonce × List Their) → List (Nat × Nat) →
    Except Err (List (Nonce × List Their) × List (Nat × Nat))
  | [], acc, cp => .ok (acc, cp)
  | mk :: mks, acc, cp =>
    match parseMarketOrders mk.duration mk.orders acc with
    | .error e => .error e
    | .ok acc' => parseMarkets mks acc' (cp ++ [(mk.duration, mk.price)])

def parseDiff (d : DiffRpc) : Diff :=
  { acctKey := d.acctKey, endingState := d.endingState, endingBalance := w64 d.endingBalance,
    outpointIndex := d.outpointIndex, newExpiry := d.newExpiry, newVersion := u8 d.newVersion }

/-- `ParseRPCBatch` -/
def parseRPCBatch (m : PrepareMsg) : Except Err Batch :=
  match parseMarkets m.markets [] [] with
  | .error e => .error e
  | .ok (matched, clearing) => .ok {
      id := m.id, version := m.version, heightHint := UInt32.ofNat m.heightHint, matched := matched,
      clearing := clearing, diffs := m.diffs.map parseDiff,
      execBase := w64 m.execBase, execRate := w64 m.execRate, feeRate := w64 m.feeRate, txOuts := m.txOuts }

/-- Go iterates `prepareMsg.MatchedMarkets` (a map) in an unspecified order; when an order nonce occurs in two
markets the later write to `b.MatchedOrders[nonce]` wins.  `ord` (market durations, as far as known) is the order of
this run; markets not listed keep their position after the listed ones. -/
def reorderMarkets (ord : List Nat) (ms : List MarketRpc) : List MarketRpc :=
  (ord.filterMap fun d => ms.find? fun m => m.duration == d) ++ ms.filter fun m => !ord.contains m.duration

/-- `FixedRatePremium(rate).LumpSumPremium(amt, dur)` by the exact binary64 model (`PoolModel/Float64.lean`) inside
its domain (non-negative amount, uint32 rate/duration, result below 2^63); `fallback` elsewhere (Go's float→int
conversion of such values is implementation specific). -/
def floatPremium (fallback : Int → Nat → Nat → Int) (amt : Int) (rate dur : Nat) : Int :=
  if decide (0 ≤ amt) && Pool.Float64.premiumInRange amt.toNat rate dur then
    (Pool.Float64.premium amt.toNat rate dur : Int)
  else fallback amt rate dur

/-- Put the entries Go visited first (in that order) in front; the rest keeps its order. -/
def reorder (visit : List Nonce) (matched : List (Nonce × List Their)) : List (Nonce × List Their) :=
  (visit.filterMap fun n => (matched.find? fun p => p.1 == n)) ++
    matched.filter fun p => !visit.contains p.1

end Pool.Batch
