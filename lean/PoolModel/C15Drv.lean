import PoolModel.Dec.Mut
import PoolModel.Sha256
/-! Line-protocol driver of the C15 model (sidecar ticket encodings).
  `ser <ticket>`     → hex of `SerializeTicket`
  `enc <ticket>`     → hex of the bytes of `EncodeToString`
  `de <hex>`         → outcome of `DeserializeTicket`
  `dstr <hex>`       → outcome of `DecodeString` (hex of the string's bytes)
  `mutbin <mode> <hex>` / `mutstr <mode> <hex>` → one outcome character per enumerated variant -/
namespace Pool.C15
open Pool.Dec Pool.Util

abbrev DrvSt := Unit
def drvInit : DrvSt := ()

def cfg : Cfg := repoCfg goMaxAlloc
def H : Bytes → Bytes := Pool.Sha256.sha256

def drvStep (s : DrvSt) (args : List String) : DrvSt × String :=
  match args with
  | ["ser", t] =>
    match parseTicket t with
    | some t => (s, fmtOutcome hex (serializeTicket t))
    | none => (s, "bad-op")
  | ["enc", t] =>
    match parseTicket t with
    | some t => (s, fmtOutcome hex (encodeToString H t))
    | none => (s, "bad-op")
  | ["de", h] =>
    match unhex h with
    | some b => (s, fmtOutcome fmtTicket (deserializeTicket cfg b))
    | none => (s, "bad-op")
  | ["dstr", h] =>
    match unhex h with
    | some b => (s, fmtOutcome fmtTicket (decodeString H cfg b))
    | none => (s, "bad-op")
  | ["mutbin", mode, h] =>
    match mode.toNat?, unhex h with
    | some mode, some b =>
      let orig := deserializeTicket cfg b
      (s, String.ofList ((binVariants mode b).map fun v => classify orig (deserializeTicket cfg v)))
    | _, _ => (s, "bad-op")
  | ["mutstr", mode, h] =>
    match mode.toNat?, unhex h with
    | some mode, some b =>
      let orig := decodeString H cfg b
      (s, String.ofList ((strVariants mode b).map fun v => classify orig (decodeString H cfg v)))
    | _, _ => (s, "bad-op")
  | _ => (s, "bad-op")

end Pool.C15
