import PoolModel.Dec.Mut
import PoolModel.Dec.Store
import PoolModel.Sha256
/-! Line-protocol driver of the C15 model (sidecar ticket encodings).
  `ser <ticket>`     → hex of `SerializeTicket`
  `enc <ticket>`     → hex of the bytes of `EncodeToString`
  `de <hex>`         → outcome of `DeserializeTicket`
  `dstr <hex>`       → outcome of `DecodeString` (hex of the string's bytes)
  `mutbin <mode> <hex>` / `mutstr <mode> <hex>` → one outcome character per enumerated variant
  `sdb reset | add <ticket> | addbid <ticket> <nonce> | upd <ticket> | get <id> <key|~> | byid <id> | all` → the ticket store of
  clientdb/sidecar.go (state = the bucket) -/
namespace Pool.C15
open Pool.Dec Pool.Util

abbrev DrvSt := SBucket
def drvInit : DrvSt := []

def cfg : Cfg := repoCfg goMaxAlloc
def H : Bytes → Bytes := Pool.Sha256.sha256

def fmtSRes {α : Type} (f : α → String) : SRes α → String
  | .ok a => "ok " ++ f a
  | .noKey => "err refused"
  | .exists_ => "err refused"
  | .noSidecar => "err nosidecar"
  | .codec _ => "err refused"
  | .panic => "panic"

def fmtTickets (ts : List Ticket) : String :=
  if ts.isEmpty then "-" else joinWith "|" (ts.map fmtTicket)

def drvStep (s : DrvSt) (args : List String) : DrvSt × String :=
  match args with
  | ["sdb", "reset"] => ([], "ok")
  | ["sdb", "add", t] =>
    match parseTicket t with
    | some t =>
      match addSidecar s t with
      | .ok s' => (s', "ok -")
      | r => (s, fmtSRes (fun _ => "-") r)
    | none => (s, "bad-op")
  | ["sdb", "addbid", t, n] =>
    match parseTicket t, unhexN 32 n with
    | some t, some n =>
      match addSidecarWithBid s t n with
      | .ok s' => (s', "ok -")
      | r => (s, fmtSRes (fun _ => "-") r)
    | _, _ => (s, "bad-op")
  | ["sdb", "upd", t] =>
    match parseTicket t with
    | some t =>
      match updateSidecar s t with
      | .ok s' => (s', "ok -")
      | r => (s, fmtSRes (fun _ => "-") r)
    | none => (s, "bad-op")
  | ["sdb", "get", id, k] =>
    match unhexN 8 id, unhexOptN 33 k with
    | some id, some k => (s, fmtSRes fmtTicket (sidecarGet cfg s id k))
    | _, _ => (s, "bad-op")
  | ["sdb", "byid", id] =>
    match unhexN 8 id with
    | some id => (s, fmtSRes fmtTickets (sidecarsByID cfg s id))
    | none => (s, "bad-op")
  | ["sdb", "all"] => (s, fmtSRes fmtTickets (sidecars cfg s))
  | ["ser", t] =>
    match parseTicket t with
    | some t => (s, fmtOutcome hex (serializeTicket t))
    | none => (s, "bad-op")
  | ["enc", t] =>
    match parseTicket t with
    | some t => (s, fmtOutcome hex (encodeToString H t))
    | none => (s, "bad-op")
  | ["de", h] =>
    match unhex h with
    | some b => (s, fmtOutcome fmtTicket (deserializeTicket cfg b))
    | none => (s, "bad-op")
  | ["dstr", h] =>
    match unhex h with
    | some b => (s, fmtOutcome fmtTicket (decodeString H cfg b))
    | none => (s, "bad-op")
  | ["mutbin", mode, h] =>
    match mode.toNat?, unhex h with
    | some mode, some b =>
      let orig := deserializeTicket cfg b
      (s, String.ofList ((binVariants mode b).map fun v => classify orig (deserializeTicket cfg v)))
    | _, _ => (s, "bad-op")
  | ["mutstr", mode, h] =>
    match mode.toNat?, unhex h with
    | some mode, some b =>
      let orig := decodeString H cfg b
      (s, String.ofList ((strVariants mode b).map fun v => classify orig (decodeString H cfg v)))
    | _, _ => (s, "bad-op")
  | _ => (s, "bad-op")

end Pool.C15
