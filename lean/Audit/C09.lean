import PoolProofs.C09
#print axioms Pool.C09.coupled_init
#print axioms Pool.C09.coupled_step
#print axioms Pool.C09.coupled_grun
#print axioms Pool.C09.C09_exactly_once
#print axioms Pool.C09.C09_never_early
#print axioms Pool.C09.C09_unregistered_silent
#print axioms Pool.C09.C09_exact_rule_false
