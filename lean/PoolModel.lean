import PoolModel.Util
import PoolModel.Generated.Consts
import PoolModel.C09
import PoolModel.C09Drv
