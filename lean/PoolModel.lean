import PoolModel.C09
import PoolModel.C09Drv
import PoolModel.Generated.Consts
import PoolModel.Sha256
import PoolModel.Util
