import PoolProofs.C09
import PoolProofs.C09Lemmas
