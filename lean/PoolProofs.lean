import PoolProofs.C09
