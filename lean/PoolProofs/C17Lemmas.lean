import PoolProofs.C17Spec
/-! Helper lemmas for C17 (acceptor part). -/
set_option linter.unusedSimpArgs false
namespace Pool.C17

/-! ### registry: association list with unique keys -/

def Keys (m : Expected) : List Bytes := m.map Prod.fst

def NoDupKeys (m : Expected) : Prop := (Keys m).Nodup

theorem lookup_none_of_not_mem (m : Expected) (pid : Bytes) (h : pid ∉ Keys m) : lookup m pid = none := by
  induction m with
  | nil => rfl
  | cons e rest ih =>
    obtain ⟨p, b⟩ := e
    simp only [Keys, List.map_cons, List.mem_cons, not_or] at h
    have hne : ¬ p = pid := fun hh => h.1 hh.symm
    simp only [lookup, hne, if_false]
    exact ih h.2

theorem lookup_filter (m : Expected) (f : Bytes × ExpBid → Bool) (pid : Bytes) (hnd : NoDupKeys m) :
    lookup (m.filter f) pid = (lookup m pid).bind (fun b => if f (pid, b) then some b else none) := by
  induction m with
  | nil => rfl
  | cons e rest ih =>
    obtain ⟨p, b⟩ := e
    have hnd' : pid ∉ Keys rest ∨ p ≠ pid := by
      by_cases hp : p = pid
      · left
        have := (List.nodup_cons.mp hnd).1
        simpa [Keys, hp] using this
      · right; exact hp
    have hrest : NoDupKeys rest := (List.nodup_cons.mp hnd).2
    by_cases hp : p = pid
    · subst hp
      have hnm : p ∉ Keys rest := by
        cases hnd' with
        | inl h => exact h
        | inr h => exact absurd rfl h
      by_cases hf : f (p, b) = true
      · simp [List.filter, hf, lookup]
      · have hf' : f (p, b) = false := by simpa using hf
        simp only [List.filter, hf', lookup, if_true, Option.bind]
        rw [ih hrest, lookup_none_of_not_mem rest p hnm]
        simp [hf']
    · by_cases hf : f (p, b) = true
      · simp only [List.filter, hf, lookup, hp, if_false]
        exact ih hrest
      · have hf' : f (p, b) = false := by simpa using hf
        simp only [List.filter, hf', lookup, hp, if_false]
        exact ih hrest

theorem keys_filter_sub (m : Expected) (f : Bytes × ExpBid → Bool) (p : Bytes)
    (h : p ∈ Keys (m.filter f)) : p ∈ Keys m := by
  simp only [Keys, List.mem_map, List.mem_filter] at h ⊢
  obtain ⟨e, ⟨he, _⟩, hp⟩ := h
  exact ⟨e, he, hp⟩

theorem nodup_filter (m : Expected) (f : Bytes × ExpBid → Bool) (h : NoDupKeys m) : NoDupKeys (m.filter f) := by
  induction m with
  | nil => exact h
  | cons e rest ih =>
    have h1 := (List.nodup_cons.mp h).1
    have h2 : NoDupKeys rest := (List.nodup_cons.mp h).2
    by_cases hf : f e = true
    · simp only [List.filter, hf]
      refine List.nodup_cons.mpr ⟨?_, ih h2⟩
      intro hmem
      exact h1 (keys_filter_sub rest f e.1 hmem)
    · have hf' : f e = false := by simpa using hf
      simp only [List.filter, hf']
      exact ih h2

theorem nodup_registered (m : Expected) (pid : Bytes) (bid : ExpBid) (h : NoDupKeys m) :
    NoDupKeys (shimRegistered m pid bid) := by
  unfold shimRegistered
  refine List.nodup_cons.mpr ⟨?_, nodup_filter m _ h⟩
  intro hmem
  simp only [List.mem_map, List.mem_filter] at hmem
  obtain ⟨e, ⟨_, hne⟩, hp⟩ := hmem
  simp [hp] at hne

theorem nodup_removed (m : Expected) (n : Bytes) (h : NoDupKeys m) : NoDupKeys (shimRemoved m n) :=
  nodup_filter m _ h

theorem nodup_step (m : Expected) (op : RegOp) (h : NoDupKeys m) : NoDupKeys (regStep m op) := by
  cases op with
  | reg pid bid => exact nodup_registered m pid bid h
  | rm n => exact nodup_removed m n h

theorem nodup_foldl (ops : List RegOp) (m : Expected) (h : NoDupKeys m) : NoDupKeys (ops.foldl regStep m) := by
  induction ops generalizing m with
  | nil => exact h
  | cons op rest ih => exact ih _ (nodup_step m op h)

theorem nodup_run (ops : List RegOp) : NoDupKeys (regRun ops) :=
  nodup_foldl ops [] List.nodup_nil

theorem lookup_registered (m : Expected) (pid : Bytes) (bid : ExpBid) (q : Bytes) (h : NoDupKeys m) :
    lookup (shimRegistered m pid bid) q = if pid = q then some bid else lookup m q := by
  unfold shimRegistered
  by_cases hq : pid = q
  · simp [lookup, hq]
  · simp only [lookup, hq, if_false]
    rw [lookup_filter m _ q h]
    cases hl : lookup m q with
    | none => rfl
    | some b =>
      have : (q == pid) = false := by
        simp only [beq_eq_false_iff_ne, ne_eq]
        exact fun hh => hq hh.symm
      simp [this]

theorem lookup_removed (m : Expected) (n : Bytes) (q : Bytes) (h : NoDupKeys m) :
    lookup (shimRemoved m n) q = (lookup m q).bind (fun b => if b.nonce = n then none else some b) := by
  unfold shimRemoved
  rw [lookup_filter m _ q h]
  cases hl : lookup m q with
  | none => rfl
  | some b =>
    by_cases hb : b.nonce = n
    · simp [hb]
    · simp [hb]

/-! ### bit 0 of the funding flags -/

theorem isPrivate_iff (flags : Nat) : isPrivateChan flags = true ↔ flags % 2 = 0 := by
  unfold isPrivateChan ffAnnounceChannel
  rw [Nat.and_one_is_mod]
  have : flags % 256 % 2 = flags % 2 := Nat.mod_mod_of_dvd flags (by decide : 2 ∣ 256)
  simp [this]

theorem odd_iff_not_private (flags : Nat) : flags % 2 = 1 ↔ isPrivateChan flags = false := by
  have h := isPrivate_iff flags
  have hmod : flags % 2 = 0 ∨ flags % 2 = 1 := Nat.mod_two_eq_zero_or_one _
  cases hp : isPrivateChan flags with
  | true => have := h.mp hp; simp; omega
  | false =>
    have h0 : ¬ flags % 2 = 0 := fun hh => by
      have := h.mpr hh; rw [hp] at this; exact Bool.noConfusion this
    simp; omega

theorem checkCommitType_none_iff (ct : Nat) (c : Option Nat) :
    checkCommitType ct c = none ↔ CommitTypeOK ct c := by
  unfold checkCommitType CommitTypeOK
  have hpd : Gen.C17.chanTypePeerDependent = 0 := rfl
  have hse : Gen.C17.chanTypeScriptEnforced = 1 := rfl
  have hst : Gen.C17.chanTypeSimpleTaproot = 2 := rfl
  rw [hpd, hse, hst]
  by_cases h0 : ct = 0
  · simp [h0]
  · by_cases h1 : ct = 1
    · subst h1
      cases c with
      | none => simp
      | some v => by_cases hv : v = lnwCommitScriptEnforcedLease <;> simp [hv]
    · by_cases h2 : ct = 2
      · subst h2
        cases c with
        | none => simp
        | some v => by_cases hv : v = lnwCommitSimpleTaproot <;> simp [hv]
      · simp [h0, h1, h2]


theorem lookup_step (m : Expected) (hist : List RegOp) (op : RegOp) (hnd : NoDupKeys m)
    (hm : ∀ pid, lookup m pid = lastReg hist pid) (pid : Bytes) :
    lookup (regStep m op) pid = lastReg (op :: hist) pid := by
  cases op with
  | reg p b =>
    simp only [regStep, lastReg]
    rw [lookup_registered _ _ _ _ hnd, hm]
  | rm n =>
    simp only [regStep, lastReg]
    rw [lookup_removed _ _ _ hnd, hm]

theorem lookup_foldl (ops : List RegOp) (m : Expected) (hist : List RegOp) (hnd : NoDupKeys m)
    (hm : ∀ pid, lookup m pid = lastReg hist pid) (pid : Bytes) :
    lookup (ops.foldl regStep m) pid = lastReg (ops.reverse ++ hist) pid := by
  induction ops generalizing m hist with
  | nil => simpa using hm pid
  | cons op rest ih =>
    simp only [List.foldl_cons, List.reverse_cons, List.append_assoc, List.singleton_append]
    exact ih (regStep m op) (op :: hist) (nodup_step m op hnd) (lookup_step m hist op hnd hm)


end Pool.C17
