import PoolModel.C18
import Mathlib.Tactic.Linarith
import Mathlib.Tactic.Ring
import Mathlib.Tactic.Positivity
/-! Helper lemmas for C18 (backoff arithmetic, switch conservation). -/
namespace Pool.C18

/-! ### backoff -/

theorem wrap64_id {x : Int} (h1 : -9223372036854775808 ≤ x) (h2 : x < 9223372036854775808) : wrap64 x = x := by
  unfold wrap64; omega

/-- inside the guard the int64 doubling cannot wrap and the update is `min (2b) max` -/
theorem nextBackoff_eq {minB maxB b : Int} (hb : 0 < b) (hbm : b ≤ maxB) (hmax : maxB < 2 ^ 62) :
    nextBackoff minB maxB b = min (b * 2) maxB := by
  have h62 : (2 : Int) ^ 62 = 4611686018427387904 := by norm_num
  have hw : wrap64 (b * 2) = b * 2 := wrap64_id (by omega) (by omega)
  unfold nextBackoff
  simp only [hw]
  have : b * 2 ≠ 0 := by omega
  simp only [this, if_false]
  split <;> omega

theorem nextBackoff_zero {minB maxB : Int} (_h0 : 0 < minB) (h1 : minB ≤ maxB) :
    nextBackoff minB maxB 0 = minB := by
  unfold nextBackoff wrap64
  simp
  omega

theorem min_dbl_step {b maxB : Int} (hb : 0 < b) (hbm : b ≤ maxB) (i : Nat) :
    min (min (b * 2) maxB * 2 ^ i) maxB = min (b * 2 ^ (i + 1)) maxB := by
  have hp : (1 : Int) ≤ 2 ^ i := by exact_mod_cast Nat.one_le_two_pow
  have e1 : b * 2 ^ (i + 1) = b * 2 * 2 ^ i := by ring
  by_cases h : b * 2 ≤ maxB
  · rw [min_eq_left h, e1]
  · have h' : maxB < b * 2 := by omega
    rw [min_eq_right (by omega : maxB ≤ b * 2)]
    have h1 : maxB ≤ maxB * 2 ^ i := by nlinarith
    have h2 : maxB ≤ b * 2 ^ (i + 1) := by rw [e1]; nlinarith
    rw [min_eq_right h1, min_eq_right h2]

theorem map_range_succ (g : Nat → Int) (n : Nat) :
    (List.range (n + 1)).map g = g 0 :: (List.range n).map (fun i => g (i + 1)) := by
  rw [List.range_succ_eq_map]; simp [Function.comp_def]

/-- closed form of the retry loop inside the guard, started with a positive backoff -/
theorem connLoop_shape {minB maxB : Int} (hmax : maxB < 2 ^ 62) :
    ∀ (f r : Nat) (b : Int), 0 < b → b ≤ maxB → f < r →
      connLoop minB maxB r f b =
        ⟨(List.range (f + 1)).map (fun i => min (b * 2 ^ i) maxB),
         (List.range f).map (fun i => min (b * 2 ^ (i + 1)) maxB), true⟩ := by
  intro f
  induction f with
  | zero =>
    intro r b hb hbm hr
    obtain ⟨r, rfl⟩ : ∃ r', r = r' + 1 := ⟨r - 1, by omega⟩
    have : b ≠ 0 := by omega
    simp [connLoop, this, min_eq_left hbm]
  | succ f ih =>
    intro r b hb hbm hr
    obtain ⟨r, rfl⟩ : ∃ r', r = r' + 1 := ⟨r - 1, by omega⟩
    have hne : b ≠ 0 := by omega
    have hn := nextBackoff_eq (minB := minB) hb hbm hmax
    have hb' : 0 < min (b * 2) maxB := by apply lt_min <;> omega
    have hbm' : min (b * 2) maxB ≤ maxB := min_le_right _ _
    have := ih r (min (b * 2) maxB) hb' hbm' (by omega)
    simp only [connLoop, hn, this, hne, ne_eq, not_false_eq_true, if_true]
    rw [map_range_succ (fun i => min (b * 2 ^ (i + 1)) maxB) f,
      map_range_succ (fun i => min (b * 2 ^ i) maxB) (f + 1)]
    simp only [pow_zero, mul_one, min_eq_left hbm, List.cons_append, List.nil_append, zero_add, pow_one,
      ConnRes.mk.injEq, List.cons.injEq, and_true, true_and]
    refine ⟨?_, ?_⟩
    · apply List.map_congr_left; intro i _; exact min_dbl_step hb hbm i
    · apply List.map_congr_left; intro i _; exact min_dbl_step hb hbm (i + 1)

/-! ### ErrChanSwitch -/

/-- errors already handed to a target channel -/
def dl (s : Switch) : List Nat := s.delivered.map (·.1)

theorem perm_eraseIdx : ∀ (l : List Nat) (i : Nat) (e : Nat), l[i]? = some e → List.Perm l (e :: l.eraseIdx i)
  | [], _, _, h => by simp at h
  | a :: l, 0, e, h => by
    simp only [List.getElem?_cons_zero, Option.some.injEq] at h; subst h; simp
  | a :: l, i + 1, e, h => by
    simp only [List.getElem?_cons_succ] at h
    have := perm_eraseIdx l i e h
    simp only [List.eraseIdx_cons_succ]
    exact (List.Perm.cons a this).trans (List.Perm.swap e a _)

def sentBy : Act → List Nat
  | .send e => [e]
  | _ => []

theorem step_count {s s' : Switch} {a : Act} (h : s.step a = some s') (x : Nat) :
    (s'.inside ++ dl s').count x = (s.inside ++ dl s).count x + (sentBy a).count x := by
  cases a with
  | send e =>
    simp only [Switch.step, Option.some.injEq] at h; subst h
    simp only [Switch.inside, dl, sentBy, List.count_append]; omega
  | recv i =>
    simp only [Switch.step] at h
    split at h
    · rename_i e hh hi hp
      simp only [Option.some.injEq] at h; subst h
      have := (perm_eraseIdx _ _ _ hp).count_eq x
      simp only [Switch.inside, dl, sentBy, List.count_append, hh, hi, Option.toList, List.count_cons,
        List.count_nil, List.map_nil] at this ⊢
      omega
    · simp at h
  | lock =>
    simp only [Switch.step] at h
    split at h
    · rename_i e hh hi
      simp only [Option.some.injEq] at h; subst h
      simp [Switch.inside, dl, sentBy, List.count_append, hh, hi, Option.toList]
    · simp at h
  | deliver =>
    simp only [Switch.step] at h
    split at h
    · rename_i y hi
      simp only [Option.some.injEq] at h; subst h
      simp only [Switch.inside, dl, sentBy, List.count_append, hi, Option.toList, List.map_cons, List.map_nil,
        List.map_append, List.count_cons, List.count_nil]
      omega
    · simp at h
  | divert c =>
    simp only [Switch.step] at h
    split at h
    · simp only [Option.some.injEq] at h; subst h
      simp_all [Switch.inside, dl, sentBy]
    · simp at h
  | restore =>
    simp only [Switch.step] at h
    split at h
    · simp only [Option.some.injEq] at h; subst h
      simp_all [Switch.inside, dl, sentBy]
    · simp at h

theorem run_count : ∀ (as : List Act) (s : Switch) (x : Nat),
    ((s.run as).inside ++ dl (s.run as)).count x = (s.inside ++ dl s).count x + (sentOf as).count x
  | [], s, x => by simp [Switch.run, sentOf]
  | a :: as, s, x => by
    have hs : (sentOf (a :: as)).count x = (sentBy a).count x + (sentOf as).count x := by
      cases a <;> simp [sentOf, sentBy, List.count_cons]; omega
    simp only [Switch.run]
    cases h : s.step a with
    | some s' =>
      simp only []
      rw [run_count as s' x, step_count h x, hs]; omega
    | none =>
      simp only []
      have : (sentBy a).count x = 0 := by
        cases a <;> simp_all [sentBy, Switch.step]
      rw [run_count as s x, hs, this]; omega

/-- the routing invariant: a recorded target is a temporary channel iff `diverted` was set when `run` took the
mutex; needs `diverted → tempChan ≠ nil`, which `Divert`/`Restore` maintain. -/
def RouteOK (x : Nat × Target × Bool) : Prop := (∃ c, x.2.1 = Target.temp c) ↔ x.2.2 = true

def SwInv (s : Switch) : Prop :=
  (s.diverted = true → s.tempChan.isSome) ∧ (∀ x, s.inflight = some x → RouteOK x) ∧ (∀ x ∈ s.delivered, RouteOK x)

theorem swInv_init : SwInv {} := by simp [SwInv]

theorem swInv_step {s s' : Switch} {a : Act} (hi : SwInv s) (h : s.step a = some s') : SwInv s' := by
  obtain ⟨h1, h2, h3⟩ := hi
  cases a with
  | send e => simp only [Switch.step, Option.some.injEq] at h; subst h; exact ⟨h1, h2, h3⟩
  | recv i =>
    simp only [Switch.step] at h
    split at h
    · simp only [Option.some.injEq] at h; subst h; exact ⟨h1, h2, h3⟩
    · simp at h
  | lock =>
    simp only [Switch.step] at h
    split at h
    · simp only [Option.some.injEq] at h; subst h
      refine ⟨h1, ?_, h3⟩
      intro x hx
      simp only [Option.some.injEq] at hx; subst hx
      simp only [RouteOK, Switch.target]
      cases hd : s.diverted with
      | false => simp
      | true =>
        have := h1 hd
        cases ht : s.tempChan with
        | none => simp [ht] at this
        | some c => simp
    · simp at h
  | deliver =>
    simp only [Switch.step] at h
    split at h
    · rename_i y hy
      simp only [Option.some.injEq] at h; subst h
      refine ⟨h1, by simp, ?_⟩
      intro x hx
      simp only [List.mem_append, List.mem_singleton] at hx
      rcases hx with hx | hx
      · exact h3 x hx
      · subst hx; exact h2 _ hy
    · simp at h
  | divert c =>
    simp only [Switch.step] at h
    split at h
    · rename_i hn
      simp only [Option.some.injEq] at h; subst h
      exact ⟨by simp, by simp [hn], h3⟩
    · simp at h
  | restore =>
    simp only [Switch.step] at h
    split at h
    · rename_i hn
      simp only [Option.some.injEq] at h; subst h
      exact ⟨by simp, by simp [hn], h3⟩
    · simp at h

theorem swInv_run : ∀ (as : List Act) (s : Switch), SwInv s → SwInv (s.run as)
  | [], _, h => h
  | a :: as, s, h => by
    simp only [Switch.run]
    cases hs : s.step a with
    | some s' => exact swInv_run as s' (swInv_step h hs)
    | none => exact swInv_run as s h

end Pool.C18
