import PoolModel.C16
/-! Helper lemmas for C16: the regenerated tables match what the hand-written clause bodies assume, and the
party-level invariants of the run loops. -/
namespace Pool.C16
open Pool.Gen.C16

/-! ## (R) the regenerated facts are the ones the model's hand-written parts were written against -/

theorem states_match : sidecarStates =
    [("StateCreated", sCreated), ("StateOffered", sOffered), ("StateRegistered", sRegistered),
     ("StateOrdered", sOrdered), ("StateExpectingChannel", sExpecting), ("StateCompleted", sCompleted),
     ("StateCanceled", sCanceled)] := by decide

theorem terminal_match : terminalStates = [sCompleted, sCanceled] := by decide

/-- The clauses of `stateStepProvider` as a SET of (guard, effect) signatures: which state equalities guard a clause
(as a set), the state of the packet it returns, the driver/mailbox calls it makes in order, which tickets it returns
(locals replaced by their definition), and for a `fallthrough` clause the clause it falls into. The ORDER of the
clauses is not pinned here: the selection semantics (first match in source order, on the regenerated table) is covered
by `prov_select`, which holds for every order of mutually exclusive clauses. -/
theorem provider_clauses_match : providerCasesSet = [
      "default=false;guard=(0, 0)&(2, 1);result=some 1;calls=MailBox.SendSidecarPkt;recv=pkt.ProviderTicket;prov=pkt.ReceiverTicket",
      "default=false;guard=(0, 1)&(1, 2);result=some 2;calls=Driver.UpdateSidecar;recv=pkt.ReceiverTicket;prov=pkt.ReceiverTicket",
      "default=false;guard=(0, 2);result=some 3;calls=Driver.SubmitSidecarOrder;recv=a.cfg.Driver.SubmitSidecarOrder()#0;prov=a.cfg.Driver.SubmitSidecarOrder()#0",
      "default=false;guard=(0, 3);result=some 4;calls=MailBox.SendSidecarPkt+Driver.UpdateSidecar;recv=&*pkt.ProviderTicket;prov=&*pkt.ProviderTicket",
      "default=false;guard=(0, 4)&(1, 2);falls-into;result=some 4;calls=MailBox.SendSidecarPkt+Driver.UpdateSidecar;recv=&*pkt.ProviderTicket;prov=&*pkt.ProviderTicket",
      "default=false;guard=(1, 6);result=some 6;calls=go a.TicketExecuted;recv=pkt.ReceiverTicket;prov=pkt.ProviderTicket",
      "default=true;guard=;result=none;calls=;recv=;prov="] := rfl

theorem recipient_clauses_match : recipientCasesSet = [
      "default=false;guard=(0, 2)&(1, 2)&(2, 2);result=some 2;calls=MailBox.SendSidecarPkt;recv=pkt.ReceiverTicket;prov=pkt.ReceiverTicket",
      "default=false;guard=(0, 2)&(2, 3);result=some 4;calls=Driver.ValidateOrderedTicket+Driver.ExpectChannel;recv=pkt.ProviderTicket;prov=pkt.ProviderTicket",
      "default=false;guard=(0, 4);result=some 4;calls=Driver.ExpectChannel;recv=pkt.ReceiverTicket;prov=pkt.ProviderTicket",
      "default=false;guard=(2, 1);falls-into;result=some 2;calls=MailBox.SendSidecarPkt;recv=pkt.ReceiverTicket;prov=pkt.ReceiverTicket",
      "default=false;guard=(2, 6);result=some 6;calls=go a.TicketExecuted;recv=pkt.ReceiverTicket;prov=pkt.ProviderTicket",
      "default=true;guard=;result=none;calls=;recv=;prov="] := rfl

/-- The semantic essentials of the two run loops, of `SidecarAcceptor.Start`'s resume rules and of the ticket store, as
regenerated from the source. The extractor canonicalises before it emits (operand order of comparisons, once-assigned
locals and parameters replaced by their definition / position, conjunctions and mutually exclusive guards as sorted
sets, if-chains / switches / same-package helpers EVALUATED over the state enum), so behaviour-preserving rewrites
yield the same facts:
* the finalization branch returns from the loop (the repaired rule), persists FIRST and then either notifies the other
  side or deletes the mailbox; the notification guard;
* the provider's stateUpdateLoop stops on: no state change / expecting / canceled (a set);
* the simulated starting packets; the readers' retry branch only re-creates the mailbox and can never end the reader;
* `TicketExecuted` stops the negotiator;
* resume: a stored "offered" provider ticket resumes as "created", everything else (and every recipient ticket) as
  stored; only non-terminal auto tickets; both tickets of the starting packet are the stored ticket;
* `removeBidTemplate` tolerates a template that is already gone. -/
theorem loops_match :
    providerFinReturns = true ∧ receiverFinReturns = true ∧ ticketExecutedStops = true ∧
    providerFinFirstCall = "Driver.UpdateSidecar" ∧ receiverFinFirstCall = "Driver.UpdateSidecar" ∧
    providerFinOtherCalls = ["MailBox.DelAcctMailbox", "MailBox.SendSidecarPkt"] ∧
    receiverFinOtherCalls = ["MailBox.DelSidecarMailbox", "MailBox.SendSidecarPkt"] ∧
    providerFinNotifyCond = ["!<-a.ticketFinalized.otherSide", "<-a.ticketFinalized.state == sidecar.StateCanceled",
      "a.CurrentState() >= sidecar.StateRegistered"] ∧
    receiverFinNotifyCond = ["!<-a.ticketFinalized.otherSide", "<-a.ticketFinalized.state == sidecar.StateCanceled"] ∧
    providerLoopBreaks =
      ["a.stateStepProvider()#0.CurrentState == sidecar.State(atomic.LoadUint32(&a.currentState))",
       "a.stateStepProvider()#0.CurrentState == sidecar.StateCanceled",
       "a.stateStepProvider()#0.CurrentState == sidecar.StateExpectingChannel"] ∧
    receiverLoopBreaks = [] ∧
    providerStartGuard = ["$2.CurrentState == sidecar.StateCreated"] ∧
    providerStartPacket = "$2.ReceiverTicket" ∧
    receiverStartGuard = [] ∧ receiverStartPacket = "$2.ProviderTicket" ∧
    providerReaderRetryCalls = ["MailBox.InitAcctMailbox"] ∧ providerReaderRetryCanEnd = false ∧
    receiverReaderRetryCalls = ["MailBox.InitSidecarMailbox"] ∧ receiverReaderRetryCanEnd = false ∧
    resumeRemap = [(sOffered, sCreated)] ∧ recipientResumeRemap = [] ∧
    resumeCond = ["!$ticket.State.IsTerminal()", "$ticket.Offer.Auto"] ∧
    resumePackets = ["provider=false;ProviderTicket=$ticket,ReceiverTicket=$ticket",
      "provider=true;ProviderTicket=$ticket,ReceiverTicket=$ticket"] := by decide

/-- `clientdb.removeBidTemplate` / `DB.UpdateSidecar` as `removeBidTemplate`/`updateSidecarDB` model them: the two
early-nil guards, the terminal-state guard, and a template that is already gone (`ErrBucketNotFound`) is tolerated. -/
theorem removeBidTemplate_matches :
    removeBidTemplateNilGuards = ["$1.Bucket(bidTemplateBucket) == nil", "$2 == order.ZeroNonce"] ∧
    removeBidTemplateToleratesMissing = true ∧
    updateSidecarTemplateGuard = ["$1.Order != nil", "$1.State.IsTerminal()"] := by decide

/-- What the RPC server does around the negotiators (round 7): `CancelSidecar` hands the negotiator the state CANCELED
(the model's `cancelRPC` runs the finalization branch with `sCanceled`, which is what makes it notify the other side),
and `DB.Sidecars` - which `Start` resumes from and `setTicketStateForOrder` cancels/completes through - skips the
nested bid-template bucket WITHOUT ending the iteration, so a ticket is found whatever its random ID is (the model's
`restartParty`/`completeRPC` see the stored ticket unconditionally). -/
theorem rpc_store_match : cancelSidecarHandsCanceled = true ∧ sidecarsSkipsNestedBucket = true := by decide

theorem finReturns_true : finReturns = true := by decide

/-! ## case selection in closed form (both tickets non-nil) -/

def recpSel (cur rs ps : Nat) : Nat :=
  if ps = 1 then 1 else if cur = 2 ∧ rs = 2 ∧ ps = 2 then 1 else if cur = 2 ∧ ps = 3 then 2
  else if ps = 6 then 3 else if cur = 4 then 4 else 5

def provSel (cur rs ps : Nat) : Nat :=
  if cur = 0 ∧ ps = 1 then 0 else if cur = 1 ∧ rs = 2 then 1 else if rs = 6 then 2
  else if cur = 2 then 3 else if cur = 4 ∧ rs = 2 then 5 else if cur = 3 then 5 else 6

/-- closed form of the recipient's clause selection, in terms of clause SIGNATURES (independent of the order of
mutually exclusive clauses in the source): proved by deciding every atom of every guard -/
theorem recp_select (cur : Nat) (r p : Ticket) :
    selectBodyR cur (some r) (some p) = some (recpSel cur r.state p.state) := by
  unfold recpSel selectBodyR selectCase
  by_cases h1 : p.state = 1 <;> by_cases h2 : cur = 2 <;> by_cases h3 : r.state = 2 <;>
    by_cases h4 : p.state = 2 <;> by_cases h5 : p.state = 3 <;> by_cases h6 : p.state = 6 <;>
    by_cases h7 : cur = 4 <;>
    simp [selectFrom, recipientCases, evalAtoms, fieldVal, fallTo, bodyOf, sigR, *]

theorem prov_select (cur : Nat) (r p : Ticket) :
    selectBodyP cur (some r) (some p) = some (provSel cur r.state p.state) := by
  unfold provSel selectBodyP selectCase
  by_cases h1 : cur = 0 <;> by_cases h2 : p.state = 1 <;> by_cases h3 : cur = 1 <;>
    by_cases h4 : r.state = 2 <;> by_cases h5 : r.state = 6 <;> by_cases h6 : cur = 2 <;>
    by_cases h7 : cur = 4 <;> by_cases h8 : cur = 3 <;>
    simp [selectFrom, providerCases, evalAtoms, fieldVal, fallTo, bodyOf, sigP, *]

theorem validateOrdered_sound (t : Ticket) (h : validateOrdered t = true) : ValidSigned t := by
  unfold validateOrdered verifyOffer verifyOrder at h
  unfold ValidSigned
  cases ho : t.order with
  | none => simp [ho] at h
  | some o =>
    simp [ho] at h
    exact ⟨h.2, h.1.1.2.2, o, rfl, h.1.2.2.2, h.1.2.2.1.2⟩

theorem driverSubmit_never_exists (b : Bool) (t : Ticket) : (driverSubmit b t).2 ≠ .errExists := by
  unfold driverSubmit
  split
  · simp
  · split <;> simp

/-! ## at most one bid: the only effect that hands a bid to the auctioneer is a successful submit, and the
order store's nonce uniqueness lets it succeed once -/

/-- an effect list may contain a successful submit only as its single element and only when no bid is stored -/
def BidSafe (b : Bool) (es : List Eff) : Prop :=
  ∀ t, Eff.submit t .ok ∈ es → b = false ∧ es = [Eff.submit t .ok]

def BidInv (s : Sys) : Prop := s.bids = if s.bidStored then 1 else 0

theorem provBody_bidsafe (b : Bool) (env : Env) (hs : env.submit = driverSubmit b)
    (recv prov : Option Ticket) (i : Nat) : BidSafe b (provBody env recv prov i).effs := by
  intro t ht
  match i with
  | 0 => cases prov <;> simp [provBody] at ht; split at ht <;> simp at ht
  | 1 => cases recv <;> simp [provBody] at ht; split at ht <;> simp at ht
  | 2 => simp [provBody] at ht
  | 3 =>
    cases prov with
    | none => simp [provBody] at ht
    | some p =>
      simp only [provBody, hs] at ht
      unfold driverSubmit at ht
      cases hsg : signForOrder p with
      | none => simp [hsg] at ht
      | some p' =>
        cases b <;> simp [hsg] at ht
        subst ht; simp [provBody, hs, driverSubmit, hsg]
  | 4 =>
    cases prov <;> simp [provBody] at ht
    split at ht
    · split at ht <;> simp at ht
    · simp at ht
  | 5 =>
    cases prov <;> simp [provBody] at ht
    split at ht
    · split at ht <;> simp at ht
    · simp at ht
  | n + 6 => cases recv <;> simp [provBody] at ht

theorem recpBody_nosubmit (env : Env) (recv prov : Option Ticket) (i : Nat) (t : Ticket) (r : SubmitRes) :
    Eff.submit t r ∉ (recpBody env recv prov i).effs := by
  intro ht
  match i with
  | 0 => cases recv <;> simp [recpBody] at ht; split at ht <;> simp at ht
  | 1 => cases recv <;> simp [recpBody] at ht; split at ht <;> simp at ht
  | 2 =>
    cases prov <;> simp [recpBody] at ht
    split at ht
    · split at ht <;> simp at ht
    · simp at ht
  | 3 => simp [recpBody] at ht
  | 4 =>
    cases prov <;> simp [recpBody] at ht
    split at ht <;> simp at ht
  | n + 5 => cases prov <;> simp [recpBody] at ht

theorem procStep_bidsafe (s : Sys) (prov : Bool) (x : Party) (pkt : Ticket) :
    BidSafe s.bidStored (procStep s prov x pkt).2 := by
  unfold procStep
  cases prov with
  | true =>
    have key : BidSafe s.bidStored (stepProvider (envP s) x.cur (some pkt) x.loc).effs := by
      unfold stepProvider
      split
      · intro t ht; simp at ht
      · exact provBody_bidsafe _ _ rfl _ _ _
    simp only [if_true]
    split <;> exact key
  | false =>
    have key : BidSafe s.bidStored (stepRecipient (envR s) x.cur x.loc (some pkt)).effs := by
      unfold stepRecipient
      split
      · intro t ht; simp at ht
      · intro t ht; exact absurd ht (recpBody_nosubmit _ _ _ _ _ _)
    simp only [Bool.false_eq_true, if_false]
    split <;> exact key

theorem finStep_bidsafe (b ret prov : Bool) (x : Party) (st : Nat) (o : Bool) :
    BidSafe b (finStep ret prov x st o).2 := by
  intro t ht
  unfold finStep at ht
  split at ht
  · simp at ht
  · simp at ht; split at ht <;> simp at ht

theorem BidSafe_take (b : Bool) (es : List Eff) (k : Nat) (h : BidSafe b es) : BidSafe b (es.take k) := by
  intro t ht
  have hm := List.mem_of_mem_take ht
  obtain ⟨hb, he⟩ := h t hm
  refine ⟨hb, ?_⟩
  subst he
  cases k with
  | zero => simp at ht
  | succ n => simp

theorem applyEff_bids (prov : Bool) (s : Sys) (e : Eff) (h : ∀ t, e ≠ .submit t .ok) :
    (applyEff prov s e).bids = s.bids ∧ (applyEff prov s e).bidStored = s.bidStored := by
  cases e with
  | send tp t ok => cases tp <;> cases ok <;> simp [applyEff]
  | update t ok => cases ok <;> cases prov <;> simp [applyEff, setParty, getParty]
  | submit t r => cases r <;> simp [applyEff] <;> exact absurd rfl (h t)
  | validate t ok => simp [applyEff]
  | expect t ok => cases ok <;> simp [applyEff]
  | spawnFin => cases prov <;> simp [applyEff, setParty, getParty]
  | delMailbox => simp [applyEff]
  | initMailbox => simp [applyEff]

theorem applyEffs_bids_nosubmit (prov : Bool) (es : List Eff) :
    ∀ s : Sys, (∀ t, Eff.submit t .ok ∉ es) →
      (applyEffs prov s es).bids = s.bids ∧ (applyEffs prov s es).bidStored = s.bidStored := by
  induction es with
  | nil => intro s _; simp [applyEffs]
  | cons e rest ih =>
    intro s h
    have h1 : ∀ t, e ≠ .submit t .ok := fun t he => h t (by simp [he])
    have h2 : ∀ t, Eff.submit t .ok ∉ rest := fun t hm => h t (by simp [hm])
    have := ih (applyEff prov s e) h2
    have e1 := applyEff_bids prov s e h1
    simp only [applyEffs, List.foldl] at this ⊢
    exact ⟨this.1.trans e1.1, this.2.trans e1.2⟩

theorem applyEffs_BidInv (prov : Bool) (s : Sys) (es : List Eff) (hi : BidInv s)
    (hs : BidSafe s.bidStored es) : BidInv (applyEffs prov s es) := by
  by_cases hex : ∃ t, Eff.submit t .ok ∈ es
  · obtain ⟨t, ht⟩ := hex
    obtain ⟨hb, he⟩ := hs t ht
    subst he
    unfold BidInv at hi ⊢
    simp [applyEffs, applyEff, hb] at hi ⊢
    exact hi
  · have hno : ∀ t, Eff.submit t .ok ∉ es := fun t ht => hex ⟨t, ht⟩
    have := applyEffs_bids_nosubmit prov es s hno
    unfold BidInv at hi ⊢
    rw [this.1, this.2]; exact hi

theorem setParty_bids (s : Sys) (prov : Bool) (x : Party) :
    (setParty s prov x).bids = s.bids ∧ (setParty s prov x).bidStored = s.bidStored := by
  cases prov <;> simp [setParty]

theorem restart_bids (s : Sys) (prov : Bool) :
    (restart prov s).bids = s.bids ∧ (restart prov s).bidStored = s.bidStored := by
  cases prov <;> simp [restart, setParty]

theorem BidInv_congr (s s' : Sys) (h : s'.bids = s.bids ∧ s'.bidStored = s.bidStored) (hi : BidInv s) :
    BidInv s' := by
  unfold BidInv at hi ⊢; rw [h.1, h.2]; exact hi

theorem BidSafe_congr (s s' : Sys) (es : List Eff) (h : s'.bidStored = s.bidStored)
    (hs : BidSafe s.bidStored es) : BidSafe s'.bidStored es := by rw [h]; exact hs

/-- every transition (of the repaired or the unrepaired loop) preserves the bid invariant -/
theorem applyG_BidInv (ret : Bool) (s s' : Sys) (a : Act) (hi : BidInv s) (ha : applyG ret s a = some s') :
    BidInv s' := by
  cases a with
  | deliver tp i =>
    simp only [applyG] at ha
    split at ha
    · simp at ha
    · split at ha
      · simp at ha; subst ha; exact BidInv_congr _ _ (setParty_bids _ _ _) hi
      · simp at ha
  | proc prov =>
    simp only [applyG] at ha
    split at ha
    · simp at ha
    · split at ha
      · simp at ha
      · rename_i pkt hp
        have hsafe := procStep_bidsafe s prov (takePkt (getParty s prov)) pkt
        split at ha
        · rename_i es heq
          simp at ha; subst ha
          rw [heq] at hsafe
          exact BidInv_congr _ (applyEffs prov s es) ⟨rfl, rfl⟩ (applyEffs_BidInv prov s es hi hsafe)
        · rename_i x' es heq
          simp at ha; subst ha
          rw [heq] at hsafe
          have hb := setParty_bids s prov x'
          exact applyEffs_BidInv prov _ es (BidInv_congr _ _ hb hi) (BidSafe_congr _ _ _ hb.2 hsafe)
  | procCrash prov k =>
    simp only [applyG] at ha
    split at ha
    · simp at ha
    · split at ha
      · simp at ha
      · rename_i pkt hp
        have hsafe := procStep_bidsafe s prov (takePkt (getParty s prov)) pkt
        split at ha
        · simp at ha; subst ha
          exact BidInv_congr _ _ (restart_bids _ _)
            (applyEffs_BidInv prov s _ hi (BidSafe_take _ _ _ hsafe))
        · simp at ha
  | fin prov =>
    simp only [applyG] at ha
    split at ha
    · simp at ha
    · have hsafe := finStep_bidsafe s.bidStored ret prov (getParty s prov) sCanceled true
      split at ha
      · simp at ha; subst ha; exact hi
      · rename_i x' es heq
        simp at ha; subst ha
        rw [heq] at hsafe
        have hb := setParty_bids s prov x'
        exact applyEffs_BidInv prov _ es (BidInv_congr _ _ hb hi) (BidSafe_congr _ _ _ hb.2 hsafe)
  | finalize prov st =>
    simp only [applyG] at ha
    split at ha
    · simp at ha
    · have hsafe := finStep_bidsafe s.bidStored ret prov (getParty s prov) st false
      split at ha
      · simp at ha; subst ha; exact hi
      · rename_i x' es heq
        simp at ha; subst ha
        rw [heq] at hsafe
        have hb := setParty_bids s prov x'
        exact applyEffs_BidInv prov _ es (BidInv_congr _ _ hb hi) (BidSafe_congr _ _ _ hb.2 hsafe)
  | stop prov =>
    simp only [applyG] at ha; simp at ha; subst ha
    exact BidInv_congr _ _ (setParty_bids _ _ _) hi
  | quit prov =>
    simp only [applyG] at ha
    split at ha
    · simp at ha; subst ha; exact BidInv_congr _ _ (setParty_bids _ _ _) hi
    · simp at ha
  | restart prov =>
    simp only [applyG] at ha; simp at ha; subst ha
    exact BidInv_congr _ _ (restart_bids _ _) hi
  | recvErr prov =>
    simp only [applyG] at ha
    split at ha
    · simp at ha; subst ha; exact hi
    · simp at ha
  | cancelRPC prov =>
    simp only [applyG] at ha
    split at ha
    · simp at ha
    · split at ha
      · simp at ha
      · have hsafe := finStep_bidsafe s.bidStored ret prov (getParty s prov) sCanceled false
        split at ha
        · simp at ha
        split at ha
        · split at ha
          · simp at ha; subst ha; exact hi
          · rename_i x' es heq
            simp at ha; subst ha
            rw [heq] at hsafe
            have hb := setParty_bids s prov x'
            exact BidInv_congr _ _ (setParty_bids _ _ _)
              (applyEffs_BidInv prov _ es (BidInv_congr _ _ hb hi) (BidSafe_congr _ _ _ hb.2 hsafe))
        · simp at ha; subst ha; exact BidInv_congr _ _ (setParty_bids _ _ _) hi
  | completeRPC prov =>
    simp only [applyG] at ha
    split at ha
    · simp at ha
    · split at ha
      · simp at ha
      · have hsafe := finStep_bidsafe s.bidStored ret prov (getParty s prov) sCompleted false
        split at ha
        · simp at ha
        split at ha
        · split at ha
          · simp at ha; subst ha; exact hi
          · rename_i x' es heq
            simp at ha; subst ha
            rw [heq] at hsafe
            have hb := setParty_bids s prov x'
            exact applyEffs_BidInv prov _ es (BidInv_congr _ _ hb hi) (BidSafe_congr _ _ _ hb.2 hsafe)
        · simp at ha; subst ha; exact BidInv_congr _ _ (setParty_bids _ _ _) hi

theorem runG_BidInv (ret : Bool) (as : List Act) : ∀ s s', BidInv s → runG ret s as = some s' → BidInv s' := by
  induction as with
  | nil => intro s s' hi h; simp [runG] at h; subst h; exact hi
  | cons a rest ih =>
    intro s s' hi h
    simp only [runG] at h
    split at h
    · simp at h
    · rename_i s1 h1
      exact ih s1 s' (applyG_BidInv ret s s1 a hi h1) h

/-! ## step-level helpers -/

theorem driverExpect_ok (pend : Option Nat) (t t' : Ticket) (h : driverExpect pend t = (t', true)) :
    t' = { t with state := sExpecting } := by
  unfold driverExpect at h
  cases ho : t.order with
  | none => simp [ho] at h
  | some o =>
    simp only [ho] at h
    split at h
    · simp at h
    · simp at h; exact h.1.symm

theorem recpBody_expect (s : Sys) (l pkt t' : Ticket) (i : Nat)
    (h : Eff.expect t' true ∈ (recpBody (envR s) (some l) (some pkt) i).effs) :
    (i = 2 ∧ validateOrdered pkt = true ∧ t' = { pkt with state := sExpecting }) ∨ i = 4 := by
  match i with
  | 0 => simp [recpBody] at h; split at h <;> simp at h
  | 1 => simp [recpBody] at h; split at h <;> simp at h
  | 2 =>
    left
    simp only [recpBody, envR] at h
    by_cases hv : validateOrdered pkt = true
    · refine ⟨rfl, hv, ?_⟩
      simp only [hv, if_true] at h
      cases hde : driverExpect s.pending pkt with
      | mk p' b =>
        cases b
        · simp [hde] at h
        · simp [hde] at h
          subst h
          exact driverExpect_ok _ _ _ hde
    · simp [hv] at h
  | 3 => simp [recpBody] at h
  | 4 => right; rfl
  | n + 5 => simp [recpBody] at h

theorem recpSel_two (c r p : Nat) (h : recpSel c r p = 2) : c = 2 ∧ p = 3 := by
  unfold recpSel at h
  repeat' split at h
  all_goals simp_all

theorem recpSel_four (c r p : Nat) (h : recpSel c r p = 4) : c = 4 := by
  unfold recpSel at h
  repeat' split at h
  all_goals simp_all

def writes : List Eff → List Nat
  | [] => []
  | .update t true :: r => t.state :: writes r
  | .expect t true :: r => t.state :: writes r
  | _ :: r => writes r

theorem provBody_writes (env : Env) (l pkt : Ticket) (i w : Nat)
    (h : w ∈ writes (provBody env (some pkt) (some l) i).effs) :
    (i = 1 ∧ w = pkt.state) ∨ ((i = 4 ∨ i = 5) ∧ w = sExpecting) := by
  match i with
  | 0 => simp only [provBody] at h; split at h <;> simp [writes] at h
  | 1 =>
    simp only [provBody] at h
    split at h <;> simp [writes] at h
    left; exact ⟨rfl, h⟩
  | 2 => simp [provBody, writes] at h
  | 3 =>
    simp only [provBody] at h
    split at h <;> simp [writes] at h
  | 4 =>
    simp only [provBody] at h
    split at h
    · split at h <;> simp [writes] at h
      right; exact ⟨Or.inl rfl, h⟩
    · simp [writes] at h
  | 5 =>
    simp only [provBody] at h
    split at h
    · split at h <;> simp [writes] at h
      right; exact ⟨Or.inr rfl, h⟩
    · simp [writes] at h
  | n + 6 => simp [provBody, writes] at h

theorem provSel_one (c r p : Nat) (h : provSel c r p = 1) : c = 1 ∧ r = 2 := by
  unfold provSel at h
  repeat' split at h
  all_goals simp_all

theorem provSel_five (c r p : Nat) (h : provSel c r p = 5) : c = 4 ∨ c = 3 := by
  unfold provSel at h
  repeat' split at h
  all_goals simp_all

theorem provSel_ne_four (c r p : Nat) : provSel c r p ≠ 4 := by
  unfold provSel
  repeat' split
  all_goals simp


theorem recpBody_writes (s : Sys) (l pkt : Ticket) (i w : Nat)
    (h : w ∈ writes (recpBody (envR s) (some l) (some pkt) i).effs) : w = sExpecting := by
  match i with
  | 0 => simp only [recpBody] at h; split at h <;> simp [writes] at h
  | 1 => simp only [recpBody] at h; split at h <;> simp [writes] at h
  | 2 =>
    simp only [recpBody, envR] at h
    by_cases hv : validateOrdered pkt = true
    · simp only [hv, if_true] at h
      cases hde : driverExpect s.pending pkt with
      | mk p' b =>
        cases b
        · simp [hde, writes] at h
        · simp [hde, writes] at h
          have := driverExpect_ok _ _ _ hde
          subst this; simp at h; exact h
    · simp [hv, writes] at h
  | 3 => simp [recpBody, writes] at h
  | 4 =>
    simp only [recpBody, envR] at h
    cases hde : driverExpect s.pending pkt with
    | mk p' b =>
      cases b
      · simp [hde, writes] at h
      · simp [hde, writes] at h
        have := driverExpect_ok _ _ _ hde
        subst this; simp at h; exact h
  | n + 5 => simp [recpBody, writes] at h

/-- handling a canceled ticket (any state but the transient "created"): both step functions return "canceled" and
spawn the finalization, for ANY local ticket -/
theorem C16_cancel_spawn (s : Sys) (cur : Nat) (l pkt : Ticket)
    (hc : pkt.state = sCanceled) (hcur : cur ≠ sCreated) :
    (stepProvider (envP s) cur (some pkt) (some l)).effs = [.spawnFin] ∧
    (stepProvider (envP s) cur (some pkt) (some l)).res = .ok sCanceled (some pkt) (some l) ∧
    (stepRecipient (envR s) cur (some l) (some pkt)).effs = [.spawnFin] ∧
    (stepRecipient (envR s) cur (some l) (some pkt)).res = .ok sCanceled (some l) (some pkt) := by
  have hcur' : ¬ cur = 0 := hcur
  simp only [stepProvider, stepRecipient, prov_select, recp_select, provSel, recpSel, hc]
  simp [hcur', provBody, recpBody, sCanceled]

end Pool.C16
