import PoolModel.C12
import PoolProofs.DigestLemmas
/-! Helper lemmas for C12: the regenerated tables as the model reads them, generic injectivity of a
version-switched preimage whose lists start with nonce and version, per-term injectivity. -/
set_option linter.unusedSimpArgs false
namespace Pool.C12
open Pool.Digest

/-- The regenerated `Ask.Digest` switch as compiled by the model (re-checked against the source). -/
theorem askTable_eq : askTable = some
    [([0], [.nonce, .version, .fixedRate, .amt, .leaseDuration, .maxBatchFeeRate]),
     ([1, 2, 3, 4], [.nonce, .version, .fixedRate, .amt, .leaseDuration, .maxBatchFeeRate, .minUnitsMatch32]),
     ([5], [.nonce, .version, .fixedRate, .amt, .leaseDuration, .maxBatchFeeRate, .minUnitsMatch32,
            .channelType])] := by decide

/-- The regenerated `Bid.Digest` switch as compiled by the model. -/
theorem bidTable_eq : bidTable = some
    [([0], [.nonce, .version, .fixedRate, .amt, .leaseDuration, .maxBatchFeeRate]),
     ([1, 2], [.nonce, .version, .fixedRate, .amt, .leaseDuration, .maxBatchFeeRate, .minNodeTier,
               .minUnitsMatch32]),
     ([3], [.nonce, .version, .fixedRate, .amt, .leaseDuration, .maxBatchFeeRate, .minNodeTier,
            .minUnitsMatch32, .selfChanBalance]),
     ([4], [.nonce, .version, .fixedRate, .amt, .leaseDuration, .maxBatchFeeRate, .minNodeTier,
            .minUnitsMatch32, .selfChanBalance, .isSidecar]),
     ([5], [.nonce, .version, .fixedRate, .amt, .leaseDuration, .maxBatchFeeRate, .minNodeTier,
            .minUnitsMatch32, .selfChanBalance, .isSidecar, .channelType])] := by decide

def I64 (a : Int) : Prop := -9223372036854775808 ≤ a ∧ a < 9223372036854775808

/-- what the Go field types guarantee -/
structure TypeWF (o : Order) : Prop where
  nonce : o.nonce.length = 32
  version : o.version < 4294967296
  state : o.state < 256
  fixedRate : o.fixedRate < 4294967296
  amt : I64 o.amt
  units : o.units < 18446744073709551616
  unitsUnfulfilled : o.unitsUnfulfilled < 18446744073709551616
  fee : I64 o.maxBatchFeeRate
  lease : o.leaseDuration < 4294967296
  minUnits : o.minUnitsMatch < 18446744073709551616
  channelType : o.channelType < 256
  auctionType : o.auctionType < 4294967296
  tier : o.minNodeTier < 4294967296
  scb : I64 o.selfChanBalance

/-- the cast guard of `uint32(MinUnitsMatch)`: the minimum match fits 32 bits (orders built by
`ParseRPCOrder` always satisfy it: `poolrpc.Order.MinUnitsMatch` is a uint32) -/
def MinMatchFits32 (o : Order) : Prop := o.minUnitsMatch < 4294967296

/-- terms other than the truncated min match are encoded within their width -/
theorem encTerm_wf {o : Order} (h : TypeWF o) (hm : MinMatchFits32 o) (t : Term) : (encTerm o t).WF := by
  cases t <;> simp only [encTerm, FV.WF]
  · exact h.version
  · exact h.fixedRate
  · exact u64OfInt_lt _
  · exact h.lease
  · exact u64OfInt_lt _
  · exact hm
  · exact h.channelType
  · exact h.tier
  · exact u64OfInt_lt _
  · exact boolNat_lt _
  · exact h.state
  · exact h.units
  · exact h.unitsUnfulfilled
  · exact h.minUnits
  · exact h.auctionType

theorem sameShape_terms {o o' : Order} (hn : o.nonce.length = o'.nonce.length) (L : List Term) :
    sameShapeL (L.map (encTerm o)) (L.map (encTerm o')) := by
  induction L with
  | nil => simp [sameShapeL]
  | cons t L ih =>
    simp only [List.map_cons, sameShapeL]
    exact ⟨by cases t <;> simp [encTerm, FV.sameShape, hn], ih⟩

/-- equal encodings of the same term list ⇒ every listed term is encoded equally -/
theorem terms_enc_eq {o o' : Order} (h : TypeWF o) (h' : TypeWF o') (hm : MinMatchFits32 o)
    (hm' : MinMatchFits32 o') (L : List Term)
    (e : encAll (L.map (encTerm o)) = encAll (L.map (encTerm o'))) : ∀ t ∈ L, encTerm o t = encTerm o' t := by
  have hl := encAll_inj (sameShape_terms (by rw [h.nonce, h'.nonce]) L)
    (by intro a ha; obtain ⟨t, _, rfl⟩ := List.mem_map.1 ha; exact encTerm_wf h hm t)
    (by intro a ha; obtain ⟨t, _, rfl⟩ := List.mem_map.1 ha; exact encTerm_wf h' hm' t) e
  intro t ht
  exact List.map_inj_left.1 hl t ht

/-- the version is determined by the first 36 bytes when the list starts with nonce, version -/
theorem version_of_prefix {o o' : Order} (h : TypeWF o) (h' : TypeWF o') (r r' : List Term)
    (e : encAll ((Term.nonce :: Term.version :: r).map (encTerm o)) =
         encAll ((Term.nonce :: Term.version :: r').map (encTerm o'))) : o.version = o'.version := by
  simp only [List.map_cons, encAll, encTerm, FV.enc] at e
  obtain ⟨_, e2⟩ := List.append_inj e (by rw [h.nonce, h'.nonce])
  obtain ⟨e3, _⟩ := List.append_inj e2 (by simp [beBytes_length])
  exact beBytes_inj 4 h.version h'.version e3

theorem preimageOf_ok {tbl : Table} {o : Order} {p : Bytes} (hp : preimageOf (some tbl) o = .ok p) :
    ∃ L, lookupCase tbl o.version = some L ∧ p = encAll (L.map (encTerm o)) := by
  unfold preimageOf at hp
  cases hl : lookupCase tbl o.version with
  | none => simp [hl] at hp
  | some L => simp only [hl] at hp; injection hp with hp; exact ⟨L, rfl, hp.symm⟩

theorem lookupCase_mem {tbl : Table} {v : Nat} {L : List Term} (h : lookupCase tbl v = some L) :
    ∃ c ∈ tbl, c.2 = L := by
  unfold lookupCase at h
  generalize hf : tbl.find? (fun c => c.1.contains v) = f at h
  cases f with
  | none => simp at h
  | some c =>
    simp only [Option.map_some, Option.some.injEq] at h
    exact ⟨c, List.mem_of_find?_eq_some hf, h⟩

/-- **Generic injectivity of a version-switched digest preimage**: if every case of the table starts with
nonce and version, two well-formed orders with equal preimages have the same version, select the same
case, and agree on the encoding of every term that case lists. -/
theorem preimageOf_inj (tbl : Table) (hstart : ∀ c ∈ tbl, ∃ r, c.2 = Term.nonce :: Term.version :: r)
    {o o' : Order} (h : TypeWF o) (h' : TypeWF o') (hm : MinMatchFits32 o) (hm' : MinMatchFits32 o')
    {p : Bytes} (hp : preimageOf (some tbl) o = .ok p) (hp' : preimageOf (some tbl) o' = .ok p) :
    o.version = o'.version ∧
    ∃ L, lookupCase tbl o.version = some L ∧ ∀ t ∈ L, encTerm o t = encTerm o' t := by
  obtain ⟨L, hl, e⟩ := preimageOf_ok hp
  obtain ⟨L', hl', e'⟩ := preimageOf_ok hp'
  obtain ⟨c, hc, rfl⟩ := lookupCase_mem hl
  obtain ⟨c', hc', rfl⟩ := lookupCase_mem hl'
  obtain ⟨r, hr⟩ := hstart c hc
  obtain ⟨r', hr'⟩ := hstart c' hc'
  have hv : o.version = o'.version := by
    apply version_of_prefix h h' r r'
    rw [← hr, ← hr', ← e, ← e']
  refine ⟨hv, c.2, hl, ?_⟩
  rw [← hv, hl] at hl'
  injection hl' with hl'
  apply terms_enc_eq h h' hm hm'
  rw [← e, e', hl']


/-! ## the terms of an order, per side and version -/

/-- the order terms the property lists; a term a version does not define is `none` -/
structure Terms where
  isBid : Bool
  nonce : Bytes
  version : Nat
  rate : Nat
  amt : Int
  lease : Nat
  fee : Int
  minMatch : Option Nat          -- from v1
  nodeTier : Option Nat          -- bids, from v1
  selfChanBalance : Option Int   -- bids, from v3
  sidecar : Option Bool          -- bids, from v4
  channelType : Option Nat       -- from v5
deriving DecidableEq, Repr

def terms (o : Order) : Terms :=
  { isBid := o.isBid, nonce := o.nonce, version := o.version, rate := o.fixedRate, amt := o.amt,
    lease := o.leaseDuration, fee := o.maxBatchFeeRate,
    minMatch := if o.version ≥ 1 then some o.minUnitsMatch else none,
    nodeTier := if o.isBid ∧ o.version ≥ 1 then some o.minNodeTier else none,
    selfChanBalance := if o.isBid ∧ o.version ≥ 3 then some o.selfChanBalance else none,
    sidecar := if o.isBid ∧ o.version ≥ 4 then some o.sidecar else none,
    channelType := if o.version ≥ 5 then some o.channelType else none }

/-- the order field a term reads is determined by the term's encoding (within the Go types) -/
theorem encTerm_inj {o o' : Order} (h : TypeWF o) (h' : TypeWF o') :
    (encTerm o .nonce = encTerm o' .nonce → o.nonce = o'.nonce) ∧
    (encTerm o .version = encTerm o' .version → o.version = o'.version) ∧
    (encTerm o .fixedRate = encTerm o' .fixedRate → o.fixedRate = o'.fixedRate) ∧
    (encTerm o .amt = encTerm o' .amt → o.amt = o'.amt) ∧
    (encTerm o .leaseDuration = encTerm o' .leaseDuration → o.leaseDuration = o'.leaseDuration) ∧
    (encTerm o .maxBatchFeeRate = encTerm o' .maxBatchFeeRate → o.maxBatchFeeRate = o'.maxBatchFeeRate) ∧
    (encTerm o .minUnitsMatch32 = encTerm o' .minUnitsMatch32 → o.minUnitsMatch = o'.minUnitsMatch) ∧
    (encTerm o .channelType = encTerm o' .channelType → o.channelType = o'.channelType) ∧
    (encTerm o .minNodeTier = encTerm o' .minNodeTier → o.minNodeTier = o'.minNodeTier) ∧
    (encTerm o .selfChanBalance = encTerm o' .selfChanBalance → o.selfChanBalance = o'.selfChanBalance) ∧
    (encTerm o .isSidecar = encTerm o' .isSidecar → o.sidecar = o'.sidecar) := by
  simp only [encTerm, FV.raw.injEq, FV.num.injEq, true_and]
  refine ⟨id, id, id, u64OfInt_inj h.amt h'.amt, id, u64OfInt_inj h.fee h'.fee, id, id, id,
    u64OfInt_inj h.scb h'.scb, boolNat_inj⟩

def askLit : Table :=
    [([0], [.nonce, .version, .fixedRate, .amt, .leaseDuration, .maxBatchFeeRate]),
     ([1, 2, 3, 4], [.nonce, .version, .fixedRate, .amt, .leaseDuration, .maxBatchFeeRate, .minUnitsMatch32]),
     ([5], [.nonce, .version, .fixedRate, .amt, .leaseDuration, .maxBatchFeeRate, .minUnitsMatch32,
            .channelType])]

def bidLit : Table :=
    [([0], [.nonce, .version, .fixedRate, .amt, .leaseDuration, .maxBatchFeeRate]),
     ([1, 2], [.nonce, .version, .fixedRate, .amt, .leaseDuration, .maxBatchFeeRate, .minNodeTier,
               .minUnitsMatch32]),
     ([3], [.nonce, .version, .fixedRate, .amt, .leaseDuration, .maxBatchFeeRate, .minNodeTier,
            .minUnitsMatch32, .selfChanBalance]),
     ([4], [.nonce, .version, .fixedRate, .amt, .leaseDuration, .maxBatchFeeRate, .minNodeTier,
            .minUnitsMatch32, .selfChanBalance, .isSidecar]),
     ([5], [.nonce, .version, .fixedRate, .amt, .leaseDuration, .maxBatchFeeRate, .minNodeTier,
            .minUnitsMatch32, .selfChanBalance, .isSidecar, .channelType])]

theorem askTable_lit : askTable = some askLit := askTable_eq
theorem bidTable_lit : bidTable = some bidLit := bidTable_eq

theorem lit_start : (∀ c ∈ askLit, ∃ r, c.2 = Term.nonce :: Term.version :: r) ∧
    (∀ c ∈ bidLit, ∃ r, c.2 = Term.nonce :: Term.version :: r) := by
  constructor <;> intro c hc <;> simp [askLit, bidLit] at hc <;> rcases hc with rfl | rfl | rfl | rfl | rfl <;>
    exact ⟨_, rfl⟩

/-- which list a version selects in the regenerated ask table -/
theorem ask_lookup (v : Nat) : lookupCase askLit v =
    if v = 0 then some [.nonce, .version, .fixedRate, .amt, .leaseDuration, .maxBatchFeeRate]
    else if v ≤ 4 then some [.nonce, .version, .fixedRate, .amt, .leaseDuration, .maxBatchFeeRate, .minUnitsMatch32]
    else if v = 5 then some [.nonce, .version, .fixedRate, .amt, .leaseDuration, .maxBatchFeeRate,
      .minUnitsMatch32, .channelType]
    else none := by
  match v with
  | 0 | 1 | 2 | 3 | 4 | 5 => rfl
  | n + 6 => simp [lookupCase, askLit, List.find?]

theorem bid_lookup (v : Nat) : lookupCase bidLit v =
    if v = 0 then some [.nonce, .version, .fixedRate, .amt, .leaseDuration, .maxBatchFeeRate]
    else if v ≤ 2 then some [.nonce, .version, .fixedRate, .amt, .leaseDuration, .maxBatchFeeRate, .minNodeTier,
      .minUnitsMatch32]
    else if v = 3 then some [.nonce, .version, .fixedRate, .amt, .leaseDuration, .maxBatchFeeRate, .minNodeTier,
      .minUnitsMatch32, .selfChanBalance]
    else if v = 4 then some [.nonce, .version, .fixedRate, .amt, .leaseDuration, .maxBatchFeeRate, .minNodeTier,
      .minUnitsMatch32, .selfChanBalance, .isSidecar]
    else if v = 5 then some [.nonce, .version, .fixedRate, .amt, .leaseDuration, .maxBatchFeeRate, .minNodeTier,
      .minUnitsMatch32, .selfChanBalance, .isSidecar, .channelType]
    else none := by
  match v with
  | 0 | 1 | 2 | 3 | 4 | 5 => rfl
  | n + 6 => simp [lookupCase, bidLit, List.find?]


/-! ## the regenerated SubmitOrder literals as the model reads them -/

theorem serverOrderMap_eq : serverOrderMap = some
    [(.traderKey, .acctKey), (.auctionType, .auctionTypeEnum), (.rateFixed, .fixedRate), (.amt, .amtU64),
     (.minChanAmt, .minChanAmt), (.orderNonce, .nonce), (.orderSig, .rawSig),
     (.multiSigKey, .paramMultiSig), (.nodePub, .paramNodePub),
     (.channelType, .channelTypeEnum), (.maxBatchFeeRate, .feeU64), (.isPublic, .isPublic)] := by decide

theorem serverAskMap_eq : serverAskMap = some
    [(.leaseDurationBlocks, .leaseDuration), (.version, .versionU32),
     (.announcement, .announcement), (.confirmation, .confirmations)] := by decide

theorem serverBidMap_eq : serverBidMap = some
    [(.leaseDurationBlocks, .leaseDuration), (.version, .versionU32),
     (.minNodeTier, .nodeTierEnum), (.selfChanBalance, .scbU64), (.isSidecarChannel, .sidecarNonNil),
     (.unannounced, .unannounced), (.zeroConf, .zeroConf)] := by decide

/-- channel type: SubmitOrder's switch followed by ParseRPCServerOrder's switch is the identity on the
three defined channel types (over the regenerated tables) -/
theorem chan_roundtrip (ct : Nat) (h : ct ≤ 2) :
    ∃ n, Gen.C12.submitChannelType.lookup ct = some n ∧ Gen.C12.parseChannelType.lookup n = some ct := by
  have : ct = 0 ∨ ct = 1 ∨ ct = 2 := by omega
  rcases this with rfl | rfl | rfl
  · exact ⟨1, by decide, by decide⟩
  · exact ⟨2, by decide, by decide⟩
  · exact ⟨3, by decide, by decide⟩

/-- node tier: MarshallNodeTier is invertible on the three defined tiers -/
theorem tier_roundtrip (t : Nat) (h : t ≤ 2) :
    ∃ n, Gen.C12.marshallNodeTier.lookup t = some n ∧ unmarshallNodeTier n = some t := by
  have : t = 0 ∨ t = 1 ∨ t = 2 := by omega
  rcases this with rfl | rfl | rfl
  · exact ⟨0, by decide, by decide⟩
  · exact ⟨1, by decide, by decide⟩
  · exact ⟨2, by decide, by decide⟩

theorem wrapI64_u64OfInt {a : Int} (h : I64 a) : wrapI64 (u64OfInt a) = a := by
  unfold wrapI64 u64OfInt I64 at *; omega

theorem minChan_roundtrip {m : Nat} (h : m * 100000 < 18446744073709551616) :
    m * base % two64 / base = m := by
  have hb : base = 100000 := by decide
  rw [hb, two64, Nat.mod_eq_of_lt h, Nat.mul_div_cancel _ (by decide)]

/-- an order `SubmitOrder` can send without wrap-around: Go field types, `MinUnitsMatch · 100000` fits
uint64, channel type and (for bids) node tier are defined enum values -/
structure Sendable (o : Order) : Prop where
  wf : TypeWF o
  minChan : o.minUnitsMatch * 100000 < 18446744073709551616
  chan : o.channelType ≤ 2
  tier : o.isBid = true → o.minNodeTier ≤ 2

/-- agreement on every field a digest can read -/
def sameSigned (a b : Order) : Prop :=
  a.isBid = b.isBid ∧ a.nonce = b.nonce ∧ a.version = b.version ∧ a.fixedRate = b.fixedRate ∧ a.amt = b.amt ∧
  a.leaseDuration = b.leaseDuration ∧ a.maxBatchFeeRate = b.maxBatchFeeRate ∧
  a.minUnitsMatch = b.minUnitsMatch ∧ a.channelType = b.channelType ∧
  (b.isBid = true → a.minNodeTier = b.minNodeTier ∧ a.selfChanBalance = b.selfChanBalance ∧
    a.sidecar = b.sidecar)

theorem terms_congr {a b : Order} (h : sameSigned a b) : terms a = terms b := by
  obtain ⟨h1, h2, h3, h4, h5, h6, h7, h8, h9, h10⟩ := h
  cases hb : b.isBid with
  | false => simp [terms, h1, h2, h3, h4, h5, h6, h7, h8, h9, hb]
  | true =>
    obtain ⟨t1, t2, t3⟩ := h10 hb
    simp [terms, h1, h2, h3, h4, h5, h6, h7, h8, h9, hb, t1, t2, t3]

theorem digestPreimage_congr {a b : Order} (h : sameSigned a b) : digestPreimage a = digestPreimage b := by
  obtain ⟨h1, h2, h3, h4, h5, h6, h7, h8, h9, h10⟩ := h
  unfold digestPreimage
  rw [h1]
  cases hb : b.isBid with
  | false =>
    simp only [Bool.false_eq_true, if_false, askTable_lit]
    unfold preimageOf
    simp only [h3]
    cases hl : lookupCase askLit b.version with
    | none => rfl
    | some L =>
      simp only
      congr 2
      apply List.map_congr_left
      intro t ht
      obtain ⟨c, hc, rfl⟩ := lookupCase_mem hl
      simp [askLit] at hc
      rcases hc with rfl | rfl | rfl <;> simp at ht <;>
        rcases ht with rfl | rfl | rfl | rfl | rfl | rfl | rfl | rfl <;>
        simp [encTerm, h2, h3, h4, h5, h6, h7, h8, h9]
  | true =>
    obtain ⟨t1, t2, t3⟩ := h10 hb
    simp only [if_true, bidTable_lit]
    unfold preimageOf
    simp only [h3]
    cases hl : lookupCase bidLit b.version with
    | none => rfl
    | some L =>
      simp only
      congr 2
      apply List.map_congr_left
      intro t ht
      obtain ⟨c, hc, rfl⟩ := lookupCase_mem hl
      simp [bidLit] at hc
      rcases hc with rfl | rfl | rfl | rfl | rfl <;> simp at ht <;>
        rcases ht with rfl | rfl | rfl | rfl | rfl | rfl | rfl | rfl | rfl | rfl | rfl <;>
        simp [encTerm, h2, h3, h4, h5, h6, h7, h8, h9, t1, t2, t3]

theorem wire_roundtrip_bid (o : Order) (p : Params) (hs : Sendable o) (hb : o.isBid = true) :
    ∃ d s, toWire o p = .ok (d, s) ∧ wbytes d .orderSig = some p.rawSig ∧
      wbytes d .traderKey = some o.acctKey ∧ ∃ o', orderOfWire o.isBid d s = some o' ∧ sameSigned o' o := by
  obtain ⟨n, hc1, hc2⟩ := chan_roundtrip o.channelType hs.chan
  obtain ⟨m, ht1, ht2⟩ := tier_roundtrip o.minNodeTier (hs.tier hb)
  unfold toWire
  rw [serverOrderMap_eq, serverBidMap_eq]
  simp only [hb, if_true, hc1, Option.isNone_some, Bool.false_eq_true, if_false, evalMap, evalW, ht1,
    Option.map_some]
  refine ⟨_, _, rfl, by simp [wbytes, wget], by simp [wbytes, wget], ?_⟩
  simp [orderOfWire, wnum, wbytes, wbool, wget, hc2, ht2, sameSigned, hb, wrapI64_u64OfInt hs.wf.amt,
    wrapI64_u64OfInt hs.wf.fee, wrapI64_u64OfInt hs.wf.scb, minChan_roundtrip hs.minChan]

theorem wire_roundtrip_ask (o : Order) (p : Params) (hs : Sendable o) (hb : o.isBid = false) :
    ∃ d s, toWire o p = .ok (d, s) ∧ wbytes d .orderSig = some p.rawSig ∧
      wbytes d .traderKey = some o.acctKey ∧ ∃ o', orderOfWire o.isBid d s = some o' ∧ sameSigned o' o := by
  obtain ⟨n, hc1, hc2⟩ := chan_roundtrip o.channelType hs.chan
  unfold toWire
  rw [serverOrderMap_eq, serverAskMap_eq]
  simp only [hb, Bool.false_eq_true, if_false, hc1, Option.isNone_some, evalMap, evalW, Option.map_some]
  refine ⟨_, _, rfl, by simp [wbytes, wget], by simp [wbytes, wget], ?_⟩
  simp [orderOfWire, wnum, wbytes, wbool, wget, hc2, sameSigned, hb, wrapI64_u64OfInt hs.wf.amt,
    wrapI64_u64OfInt hs.wf.fee, minChan_roundtrip hs.minChan]

/-! ## ParseRPCOrder -/

theorem lookup_snd_mem {l : List (Nat × Nat)} {a b : Nat} (h : l.lookup a = some b) : b ∈ l.map (·.2) := by
  induction l with
  | nil => simp [List.lookup] at h
  | cons x l ih =>
    obtain ⟨k, v⟩ := x
    simp only [List.lookup] at h
    split at h
    · injection h with h; simp [h]
    · simp [ih h]

theorem copyInto_length (n : Nat) (src : Bytes) : (copyInto n src).length = n := by
  simp [copyInto, List.length_take]; omega

theorem wrapI64_range (a : Int) : I64 (wrapI64 a) := by unfold I64 wrapI64; omega

/-- what the Go types of `poolrpc.Order` and of the other arguments guarantee -/
structure RpcWF (version lease : Nat) (d : RpcOrder) : Prop where
  version : version < 4294967296
  lease : lease < 4294967296
  rate : d.rateFixed < 4294967296
  amt : d.amt < 18446744073709551616
  fee : d.maxBatchFeeRate < 18446744073709551616
  minUnits : d.minUnitsMatch < 4294967296
  auction : d.auctionType < 4294967296

theorem parsed_order_in_domain (version lease : Nat) (d : RpcOrder) (sel : Option Nat) (o : Order)
    (hd : RpcWF version lease d) (hsel : ∀ s, sel = some s → s ≤ 2)
    (h : parseRPCOrder version lease d sel = .ok o) :
    TypeWF o ∧ MinMatchFits32 o ∧ 1 ≤ o.minUnitsMatch ∧ o.minUnitsMatch * 100000 < 18446744073709551616 ∧
    o.channelType ≤ 2 ∧ o.minUnitsMatch = d.minUnitsMatch ∧
    (d.auctionType ≠ outboundMarket → o.units < 4294967296 → o.minUnitsMatch ≤ o.units) := by
  unfold parseRPCOrder at h
  simp only at h
  generalize hU : u64OfInt (wrapI64 ↑d.amt) / base = U at h
  have hUlt : U < 18446744073709551616 := by
    rw [← hU]
    exact Nat.lt_of_le_of_lt (Nat.div_le_self _ _) (u64OfInt_lt _)
  split at h
  · simp at h
  · rename_i hz
    split at h
    · simp at h
    · rename_i hx
      split at h
      · simp at h
      · rename_i ct hct
        split at h
        · simp at h
        · split at h
          · simp at h
          · split at h
            · simp at h
            · split at h
              · simp at h
              · injection h with h
                subst h
                have hmu : d.minUnitsMatch ≠ 0 := by simpa using hz
                have hmu32 := hd.minUnits
                have hct2 : ct ≤ 2 := by
                  split at hct
                  · injection hct with hct
                    cases hs : sel with
                    | none => simp [hs] at hct; omega
                    | some s => simp [hs] at hct; have := hsel s hs; omega
                  · have := lookup_snd_mem hct
                    simp [Gen.C12.parseOrderChannelType] at this
                    omega
                refine ⟨?_, hd.minUnits, by show 1 ≤ d.minUnitsMatch; omega, by show d.minUnitsMatch * 100000 < _; omega,
                  hct2, rfl, ?_⟩
                · exact { nonce := copyInto_length _ _, version := hd.version, state := by show (0:Nat) < 256; decide,
                          fixedRate := hd.rate, amt := wrapI64_range _, units := hUlt, unitsUnfulfilled := hUlt,
                          fee := wrapI64_range _, lease := hd.lease,
                          minUnits := by show d.minUnitsMatch < _; omega,
                          channelType := by show ct < 256; omega, auctionType := hd.auction,
                          tier := by show (0:Nat) < 4294967296; decide,
                          scb := by show I64 0; unfold I64; decide }
                · intro hne hu
                  simp only [bne_iff_ne, ne_eq, Bool.and_eq_true, decide_eq_true_eq, not_and, Nat.not_lt] at hx
                  have := hx hne
                  show d.minUnitsMatch ≤ U
                  have hu' : U < 4294967296 := hu
                  omega

end Pool.C12
