import PoolProofs.C17Lemmas

/-!
# C17 — maker and taker derive the same channel; the taker admits only that channel

Headline theorems only (helper lemmas: `C17Lemmas*.lean`).

## Acceptor
`Demanded bid req` is the property's English text: push amount, commitment type, announcement flag and zero-conf
flag of the incoming request are exactly what the registered bid demands.

* push amount: `req.PushAmt` carries milli-satoshis; "exactly" is in whole satoshis as lnd itself converts
  (`MilliSatoshi.ToSatoshis`, truncating): `⌊uint64(pushMsat)/1000⌋ = SelfChanBalance`.
* commitment type: a peer-dependent bid demands nothing; script-enforced demands an explicitly negotiated
  `CommitmentTypeScriptEnforcedLease`; simple-taproot an explicitly negotiated `CommitmentTypeSimpleTaproot`;
  any other (unknown) bid channel type can never be satisfied.
* announcement: bit 0 (`FFAnnounceChannel`) of the funding flags is set iff the bid is *not* unannounced.
* zero-conf: the opener's channel type carries the zero-conf bit iff the bid is zero-conf.

`admitted req resp` = lnd lets the funding flow continue = `resp.accept ∧ (req.wantsZeroConf → resp.zeroConf)`
(lnd fails a zero-conf open that the acceptor did not mark; assumption about lnd recorded in props/C17.json).
-/
set_option linter.unusedSimpArgs false
namespace Pool.C17

/-- commitment type demanded by a bid's channel type -/
def CommitTypeOK (channelType : Nat) (ct : Option Nat) : Prop :=
  channelType = Gen.C17.chanTypePeerDependent ∨
  (channelType = Gen.C17.chanTypeScriptEnforced ∧ ct = some lnwCommitScriptEnforcedLease) ∨
  (channelType = Gen.C17.chanTypeSimpleTaproot ∧ ct = some lnwCommitSimpleTaproot)

/-- the incoming request is exactly the channel the bid demands -/
def Demanded (bid : ExpBid) (req : AccReq) : Prop :=
  Int.ofNat (toU64 req.pushAmt / 1000) = bid.selfChanBalance ∧
  CommitTypeOK bid.channelType req.commitType ∧
  (req.channelFlags % 2 = 1 ↔ bid.unannounced = false) ∧
  req.wantsZeroConf = bid.zeroConf

theorem checkCommitType_none_iff (ct : Nat) (c : Option Nat) :
    checkCommitType ct c = none ↔ CommitTypeOK ct c := by
  unfold checkCommitType CommitTypeOK
  have hpd : Gen.C17.chanTypePeerDependent = 0 := rfl
  have hse : Gen.C17.chanTypeScriptEnforced = 1 := rfl
  have hst : Gen.C17.chanTypeSimpleTaproot = 2 := rfl
  rw [hpd, hse, hst]
  by_cases h0 : ct = 0
  · simp [h0]
  · by_cases h1 : ct = 1
    · subst h1
      cases c with
      | none => simp
      | some v => by_cases hv : v = lnwCommitScriptEnforcedLease <;> simp [hv]
    · by_cases h2 : ct = 2
      · subst h2
        cases c with
        | none => simp
        | some v => by_cases hv : v = lnwCommitSimpleTaproot <;> simp [hv]
      · simp [h0, h1, h2]

/-- **Registered pending id: admitted ⇔ push amount, commitment type, announcement flag and zero-conf flag are
exactly what the registered bid demands.** -/
theorem C17_acceptor_iff (m : Expected) (req : AccReq) (bid : ExpBid) (h : lookup m req.pid = some bid) :
    admitted req (acceptChannel m req) = true ↔ Demanded bid req := by
  unfold acceptChannel Demanded
  rw [h]
  rw [show Int.ofNat (toU64 req.pushAmt / 1000) = msatToSat req.pushAmt from rfl]
  generalize msatToSat req.pushAmt = q
  by_cases hp : bid.selfChanBalance = q
  · subst hp
    simp only [ne_eq, not_true_eq_false, if_false, true_and]
    cases hc : checkCommitType bid.channelType req.commitType with
    | some e =>
      have : ¬ CommitTypeOK bid.channelType req.commitType := by
        rw [← checkCommitType_none_iff]; simp [hc]
      simp [this, admitted, reject]
    | none =>
      have hok : CommitTypeOK bid.channelType req.commitType := (checkCommitType_none_iff _ _).mp hc
      simp only [hok, true_and]
      rw [odd_iff_not_private]
      generalize isPrivateChan req.channelFlags = pr
      cases hu : bid.unannounced <;> cases hz : bid.zeroConf <;> cases hw : req.wantsZeroConf <;>
        cases pr <;> simp [admitted, reject, hw]
  · have hp' : ¬ q = bid.selfChanBalance := fun hh => hp hh.symm
    simp [hp, hp', admitted, reject]

/-- the acceptor's own verdict (before lnd's zero-conf rule): it accepts iff push, commitment type and
announcement match and a zero-conf bid gets a zero-conf open.  A zero-conf open for a bid that did not ask for it
is *accepted without the zero-conf mark*, which makes lnd fail the flow – hence `admitted` in `C17_acceptor_iff`. -/
theorem C17_acceptor_accept_iff (m : Expected) (req : AccReq) (bid : ExpBid) (h : lookup m req.pid = some bid) :
    (acceptChannel m req).accept = true ↔
      (Int.ofNat (toU64 req.pushAmt / 1000) = bid.selfChanBalance ∧
       CommitTypeOK bid.channelType req.commitType ∧
       (req.channelFlags % 2 = 1 ↔ bid.unannounced = false) ∧
       (bid.zeroConf = true → req.wantsZeroConf = true)) ∧
    ((acceptChannel m req).zeroConf = true ↔ ((acceptChannel m req).accept = true ∧ bid.zeroConf = true)) := by
  unfold acceptChannel
  rw [h]
  rw [show Int.ofNat (toU64 req.pushAmt / 1000) = msatToSat req.pushAmt from rfl]
  generalize msatToSat req.pushAmt = q
  by_cases hp : bid.selfChanBalance = q
  · subst hp
    simp only [ne_eq, not_true_eq_false, if_false, true_and]
    cases hc : checkCommitType bid.channelType req.commitType with
    | some e =>
      have : ¬ CommitTypeOK bid.channelType req.commitType := by
        rw [← checkCommitType_none_iff]; simp [hc]
      simp [this, reject]
    | none =>
      have hok : CommitTypeOK bid.channelType req.commitType := (checkCommitType_none_iff _ _).mp hc
      simp only [hok, true_and]
      rw [odd_iff_not_private]
      generalize isPrivateChan req.channelFlags = pr
      cases hu : bid.unannounced <;> cases hz : bid.zeroConf <;> cases hw : req.wantsZeroConf <;>
        cases pr <;> simp [reject, hw]
  · have hp' : ¬ q = bid.selfChanBalance := fun hh => hp hh.symm
    simp [hp, hp', reject]

/-- **A pending id the acceptor did not register is always accepted, with the neutral response** (no zero-conf
mark, no error): exactly what lnd does without pool's acceptor. -/
theorem C17_unregistered_admitted (m : Expected) (req : AccReq) (h : lookup m req.pid = none) :
    acceptChannel m req = { accept := true } ∧ (acceptChannel m req).accept = true := by
  unfold acceptChannel
  rw [h]
  exact ⟨rfl, rfl⟩

/-! ### which pending ids are registered, over every history of `ShimRegistered` / `ShimRemoved` calls -/

/-- the registration a history (most recent op first) leaves for `pid`: the latest `ShimRegistered(pid, ·)` unless a
later `ShimRemoved` named that bid's nonce. -/
def lastReg : List RegOp → Bytes → Option ExpBid
  | [], _ => none
  | .reg p b :: older, pid => if p = pid then some b else lastReg older pid
  | .rm n :: older, pid => (lastReg older pid).bind (fun b => if b.nonce = n then none else some b)

theorem lookup_step (m : Expected) (hist : List RegOp) (op : RegOp) (hnd : NoDupKeys m)
    (hm : ∀ pid, lookup m pid = lastReg hist pid) (pid : Bytes) :
    lookup (regStep m op) pid = lastReg (op :: hist) pid := by
  cases op with
  | reg p b =>
    simp only [regStep, lastReg]
    rw [lookup_registered _ _ _ _ hnd, hm]
  | rm n =>
    simp only [regStep, lastReg]
    rw [lookup_removed _ _ _ hnd, hm]

theorem lookup_foldl (ops : List RegOp) (m : Expected) (hist : List RegOp) (hnd : NoDupKeys m)
    (hm : ∀ pid, lookup m pid = lastReg hist pid) (pid : Bytes) :
    lookup (ops.foldl regStep m) pid = lastReg (ops.reverse ++ hist) pid := by
  induction ops generalizing m hist with
  | nil => simpa using hm pid
  | cons op rest ih =>
    simp only [List.foldl_cons, List.reverse_cons, List.append_assoc, List.singleton_append]
    exact ih (regStep m op) (op :: hist) (nodup_step m op hnd) (lookup_step m hist op hnd hm)

/-- **Bookkeeping:** after any history the acceptor's expectation for a pending id is the latest registration of
that id that no later `ShimRemoved` (by bid nonce) cancelled. -/
theorem C17_registry_spec (ops : List RegOp) (pid : Bytes) :
    lookup (regRun ops) pid = lastReg ops.reverse pid := by
  have := lookup_foldl ops [] [] List.nodup_nil (fun _ => rfl) pid
  simpa [regRun] using this

/-! ### non-vacuity -/

def exBid : ExpBid := { nonce := [1], selfChanBalance := 250000, channelType := 1, unannounced := true, zeroConf := true }
def exReq : AccReq := { pid := [7], pushAmt := 250000999, commitType := some 3, channelFlags := 0, wantsZeroConf := true }

example : lookup (regRun [.reg [7] exBid]) exReq.pid = some exBid := by decide
example : Demanded exBid exReq := by
  refine ⟨by decide, Or.inr (Or.inl ⟨rfl, rfl⟩), by decide, rfl⟩
example : admitted exReq (acceptChannel (regRun [.reg [7] exBid]) exReq) = true := by decide
-- one field off (announced although the bid is unannounced): rejected
example : admitted { exReq with channelFlags := 1 } (acceptChannel (regRun [.reg [7] exBid]) { exReq with channelFlags := 1 }) = false := by
  decide
-- unregistered id
example : lookup (regRun [.reg [7] exBid, .rm [1]]) [7] = none := by decide

end Pool.C17
