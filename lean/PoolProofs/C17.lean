import PoolProofs.C17Lemmas
import PoolProofs.C17LemmasFunding
import PoolModel.Generated.C17State

/-!
# C17 — maker and taker derive the same channel; the taker admits only that channel

Headline theorems only (helper lemmas: `C17Lemmas*.lean`).

## Acceptor
`Demanded bid req` is the property's English text: push amount, commitment type, announcement flag and zero-conf
flag of the incoming request are exactly what the registered bid demands.

* push amount: `req.PushAmt` carries milli-satoshis; "exactly" is in whole satoshis as lnd itself converts
  (`MilliSatoshi.ToSatoshis`, truncating): `⌊uint64(pushMsat)/1000⌋ = SelfChanBalance`.
* commitment type: a peer-dependent bid demands nothing; script-enforced demands an explicitly negotiated
  `CommitmentTypeScriptEnforcedLease`; simple-taproot an explicitly negotiated `CommitmentTypeSimpleTaproot`;
  any other (unknown) bid channel type can never be satisfied.
* announcement: bit 0 (`FFAnnounceChannel`) of the funding flags is set iff the bid is *not* unannounced.
* zero-conf: the opener's channel type carries the zero-conf bit iff the bid is zero-conf.

`admitted req resp` = lnd lets the funding flow continue = `resp.accept ∧ (req.wantsZeroConf → resp.zeroConf)`
(lnd fails a zero-conf open that the acceptor did not mark; assumption about lnd recorded in props/C17.json).
-/
set_option linter.unusedSimpArgs false
namespace Pool.C17

/-- **Registered pending id: admitted ⇔ push amount, commitment type, announcement flag and zero-conf flag are
exactly what the registered bid demands.** -/
theorem C17_acceptor_iff (m : Expected) (req : AccReq) (bid : ExpBid) (h : lookup m req.pid = some bid) :
    admitted req (acceptChannel m req) = true ↔ Demanded bid req := by
  unfold acceptChannel Demanded
  rw [h]
  rw [show Int.ofNat (toU64 req.pushAmt / 1000) = msatToSat req.pushAmt from rfl]
  generalize msatToSat req.pushAmt = q
  by_cases hp : bid.selfChanBalance = q
  · subst hp
    simp only [ne_eq, not_true_eq_false, if_false, true_and]
    cases hc : checkCommitType bid.channelType req.commitType with
    | some e =>
      have : ¬ CommitTypeOK bid.channelType req.commitType := by
        rw [← checkCommitType_none_iff]; simp [hc]
      simp [this, admitted, reject]
    | none =>
      have hok : CommitTypeOK bid.channelType req.commitType := (checkCommitType_none_iff _ _).mp hc
      simp only [hok, true_and]
      rw [odd_iff_not_private]
      generalize isPrivateChan req.channelFlags = pr
      cases hu : bid.unannounced <;> cases hz : bid.zeroConf <;> cases hw : req.wantsZeroConf <;>
        cases pr <;> simp [admitted, reject, hw]
  · have hp' : ¬ q = bid.selfChanBalance := fun hh => hp hh.symm
    simp [hp, hp', admitted, reject]

/-- the acceptor's own verdict (before lnd's zero-conf rule): it accepts iff push, commitment type and
announcement match and a zero-conf bid gets a zero-conf open.  A zero-conf open for a bid that did not ask for it
is *accepted without the zero-conf mark*, which makes lnd fail the flow – hence `admitted` in `C17_acceptor_iff`. -/
theorem C17_acceptor_accept_iff (m : Expected) (req : AccReq) (bid : ExpBid) (h : lookup m req.pid = some bid) :
    (acceptChannel m req).accept = true ↔
      (Int.ofNat (toU64 req.pushAmt / 1000) = bid.selfChanBalance ∧
       CommitTypeOK bid.channelType req.commitType ∧
       (req.channelFlags % 2 = 1 ↔ bid.unannounced = false) ∧
       (bid.zeroConf = true → req.wantsZeroConf = true)) ∧
    ((acceptChannel m req).zeroConf = true ↔ ((acceptChannel m req).accept = true ∧ bid.zeroConf = true)) := by
  unfold acceptChannel
  rw [h]
  rw [show Int.ofNat (toU64 req.pushAmt / 1000) = msatToSat req.pushAmt from rfl]
  generalize msatToSat req.pushAmt = q
  by_cases hp : bid.selfChanBalance = q
  · subst hp
    simp only [ne_eq, not_true_eq_false, if_false, true_and]
    cases hc : checkCommitType bid.channelType req.commitType with
    | some e =>
      have : ¬ CommitTypeOK bid.channelType req.commitType := by
        rw [← checkCommitType_none_iff]; simp [hc]
      simp [this, reject]
    | none =>
      have hok : CommitTypeOK bid.channelType req.commitType := (checkCommitType_none_iff _ _).mp hc
      simp only [hok, true_and]
      rw [odd_iff_not_private]
      generalize isPrivateChan req.channelFlags = pr
      cases hu : bid.unannounced <;> cases hz : bid.zeroConf <;> cases hw : req.wantsZeroConf <;>
        cases pr <;> simp [reject, hw]
  · have hp' : ¬ q = bid.selfChanBalance := fun hh => hp hh.symm
    simp [hp, hp', reject]

/-- **A pending id the acceptor did not register is always accepted, with the neutral response** (no zero-conf
mark, no error): exactly what lnd does without pool's acceptor. -/
theorem C17_unregistered_admitted (m : Expected) (req : AccReq) (h : lookup m req.pid = none) :
    acceptChannel m req = { accept := true } ∧ (acceptChannel m req).accept = true := by
  unfold acceptChannel
  rw [h]
  exact ⟨rfl, rfl⟩

/-! ### which pending ids are registered, over every history of `ShimRegistered` / `ShimRemoved` calls -/

/-- **Bookkeeping:** after any history the acceptor's expectation for a pending id is the latest registration of
that id that no later `ShimRemoved` (by bid nonce) cancelled. -/
theorem C17_registry_spec (ops : List RegOp) (pid : Bytes) :
    lookup (regRun ops) pid = lastReg ops.reverse pid := by
  have := lookup_foldl ops [] [] List.nodup_nil (fun _ => rfl) pid
  simpa [regRun] using this

/-! ## Funding parameters: maker and taker derive the same channel

Setting of the theorems: the ask `a` and the bid `b` as their owners hold them; `ka`/`kb` the multisig keys they
were submitted with (each owner's wallet re-derives its key from the stored locator: `hka`, `hkb`); `ma`/`mb` what
the counterparty receives (`projAsk`/`projBid` = `Client.SubmitOrder` ∘ `ParseRPCServerAsk/Bid`, success implies
known channel types, non-zero nonces, valid keys); one batch transaction and height hint for both; SHA-256 and
lnd's funding-script builders are the same functions on both machines (`hH`, `hFS`); the builders sort the two
keys, i.e. are symmetric (`hsym` – checked on every harness case with direct calls to lnd). -/

/-- **Every compatible ask/bid pair, every batch transaction:** if the funding script can be built, the asker sends
exactly one `OpenChannelRequest`, the bidder registers exactly one shim + acceptor expectation, and they agree on
pending channel id, funding outpoint (the first output carrying the funding script), capacity, mirrored keys, thaw
height, commitment type / musig2 flag; push amount = the bid's self channel balance; private and zero-conf flags =
the bid's. -/
theorem C17_shims_agree
    (envA envB : Env) (a : Kit) (b : Bid) (ka kb na nb nodeB : Bytes) (u : Nat) (tx : BatchTx) (hint : Nat)
    (ma mb : MatchedOrder) (script : Bytes)
    (hH : envB.H = envA.H) (hFS : envB.fundScript = envA.fundScript)
    (hsym : ∀ t x y, envA.fundScript t x y = envA.fundScript t y x)
    (hns : b.sidecar = none)
    (hka : envA.deriveKey a.keyFamily a.keyIndex = some ka)
    (hkb : envB.deriveKey b.kit.keyFamily b.kit.keyIndex = some kb)
    (hpa : projAsk envB a ka na u = .ok ma)
    (hpb : projBid envA b kb nb u = .ok mb)
    (hscript : envA.fundScript (commitSpec a.channelType b.kit.channelType == 5) ka kb = some script) :
    ∃ req sT pidT eT,
      batchChannelSetup envA (.ask a) mb tx hint = .ok (some req) ∧
      prepRegisters envB nodeB (.bid b) ma tx hint = .ok (some (sT, pidT, eT)) ∧
      ShimsAgree envA.H a b ka kb nb u tx hint script req sT pidT eT := by
  have hma := projAsk_ok _ _ _ _ _ _ hpa
  have hmb := projBid_ok _ _ _ _ _ _ hpb
  subst hma hmb
  have hfsA : envA.fundScript ((determineCommitmentType a.channelType b.kit.channelType).1 == rpcCommitSimpleTaproot)
      ka kb = some script := by rw [det_fst]; exact hscript
  have hfsB : envB.fundScript ((determineCommitmentType b.kit.channelType a.channelType).1 == rpcCommitSimpleTaproot)
      kb ka = some script := by rw [det_symm, det_fst, hFS, hsym]; exact hscript
  have hA := derive_maker envA a
    { nonce := b.kit.nonce, leaseDuration := b.kit.leaseDuration, channelType := b.kit.channelType, keyFamily := 0, keyIndex := 0 }
    b.selfChanBalance b.unannounced b.zeroConf ka kb nb u tx hint script hka hfsA
  have hB := derive_taker envB b
    { nonce := a.nonce, leaseDuration := a.leaseDuration, channelType := a.channelType, keyFamily := 0, keyIndex := 0 }
    ka kb na u tx hint script hns hkb hfsB
  refine ⟨?req, ?sT, ?pidT, ?eT, ?h1, ?h2, ?h3⟩
  case h1 =>
    unfold batchChannelSetup
    simp only [hA, Res.bind]
    rfl
  case h2 =>
    unfold prepRegisters
    simp only [hns, hB, Res.bind]
    rfl
  case h3 =>
    constructor
    · rfl
    · show envB.H _ = envA.H _
      rw [hH]
    · show envB.H _ = envA.H _
      rw [hH]
    · exact ⟨rfl, rfl⟩
    · rfl
    · intro hex; exact find_first script tx.outs hex
    · exact ⟨rfl, rfl, rfl⟩
    · exact ⟨rfl, rfl, rfl, rfl⟩
    · exact ⟨thawOf_spec_maker _ _ _ _, thawOf_spec_taker _ _ _ _⟩
    · exact det_fst _ _
    · refine ⟨?_, ?_⟩
      · show (determineCommitmentType a.channelType b.kit.channelType).2 =
          (determineCommitmentType b.kit.channelType a.channelType).2
        rw [det_symm]
      · show (determineCommitmentType b.kit.channelType a.channelType).2 = true ↔
          (determineCommitmentType a.channelType b.kit.channelType).1 = 5
        rw [det_symm]; exact det_snd _ _
    · rfl
    · rfl
    · rfl
    · rfl
    · exact ⟨rfl, rfl, rfl, rfl, rfl⟩

/-- … and when the funding script cannot be built (lnd's builder refuses the keys or the amount) neither side sends
or registers anything: both derivations fail with an error. -/
theorem C17_shims_agree_err
    (envA envB : Env) (a : Kit) (b : Bid) (ka kb na nb nodeB : Bytes) (u : Nat) (tx : BatchTx) (hint : Nat)
    (ma mb : MatchedOrder)
    (hFS : envB.fundScript = envA.fundScript)
    (hsym : ∀ t x y, envA.fundScript t x y = envA.fundScript t y x)
    (hns : b.sidecar = none)
    (hka : envA.deriveKey a.keyFamily a.keyIndex = some ka)
    (hkb : envB.deriveKey b.kit.keyFamily b.kit.keyIndex = some kb)
    (hpa : projAsk envB a ka na u = .ok ma)
    (hpb : projBid envA b kb nb u = .ok mb)
    (hscript : envA.fundScript (commitSpec a.channelType b.kit.channelType == 5) ka kb = none) :
    batchChannelSetup envA (.ask a) mb tx hint = .err ∧
    prepRegisters envB nodeB (.bid b) ma tx hint = .err := by
  have hma := projAsk_ok _ _ _ _ _ _ hpa
  have hmb := projBid_ok _ _ _ _ _ _ hpb
  subst hma hmb
  have hfsA : envA.fundScript ((determineCommitmentType a.channelType b.kit.channelType).1 == rpcCommitSimpleTaproot)
      ka kb = none := by rw [det_fst]; exact hscript
  have hfsB : envB.fundScript ((determineCommitmentType b.kit.channelType a.channelType).1 == rpcCommitSimpleTaproot)
      kb ka = none := by rw [det_symm, det_fst, hFS, hsym]; exact hscript
  constructor
  · unfold batchChannelSetup deriveFundingShim
    simp only [Res.bind, ourMultiSigKey, Order.kit, hka]
    cases hd : determineCommitmentType a.channelType b.kit.channelType with
    | mk ct m2 => rw [hd] at hfsA; dsimp only at hfsA; simp [hfsA]
  · unfold prepRegisters deriveFundingShim
    simp only [Res.bind, ourMultiSigKey, Order.kit, hkb, hns]
    cases hd : determineCommitmentType b.kit.channelType a.channelType with
    | mk ct m2 => rw [hd] at hfsB; dsimp only at hfsB; simp [hfsB]

/-! ## Whole batches

`PrepChannelFunding` and `BatchChannelSetup` loop over all of a trader's matched orders.  The two theorems say the
loops add nothing and lose nothing: one registration (resp. one request) per matched pair, namely the per-pair one
that `C17_shims_agree` / `C17_sidecar_agree` speak about – in particular a second match with an already connected
node is registered like the first (only the connection attempt is de-duplicated). -/

/-- **One shim + acceptor expectation per matched pair:** if every (our order, matched order) pair of the batch
registers `f pair` on its own, `PrepChannelFunding` over the whole batch succeeds and registers exactly
`f pair₁, f pair₂, …` – as many as there are pairs, none twice, none missing. -/
theorem C17_prep_batch_regs (env : Env) (node : Bytes) (tx : BatchTx) (hint : Nat)
    (batch : List (Order × List MatchedOrder)) (f : Order × MatchedOrder → Shim × Bytes × ExpBid)
    (hall : ∀ p, p ∈ flatPairs batch → prepRegisters env node p.1 p.2 tx hint = .ok (some (f p))) :
    ∃ out, prepBatch env node batch tx hint = .ok out ∧ out.regs = (flatPairs batch).map f := by
  unfold prepBatch
  rw [prepBatch_flat]
  obtain ⟨out, hout⟩ := prepFlat_ok env node tx hint (flatPairs batch) f {} hall
  refine ⟨out, hout, ?_⟩
  have := prepFlat_regs env node tx hint (flatPairs batch) f {} out hall hout
  simpa using this

/-- **One open request per matched pair** of the asker's batch. -/
theorem C17_setup_batch_reqs (env : Env) (tx : BatchTx) (hint : Nat)
    (batch : List (Order × List MatchedOrder)) (f : Order × MatchedOrder → OpenReq)
    (hall : ∀ p, p ∈ flatPairs batch → batchChannelSetup env p.1 p.2 tx hint = .ok (some (f p))) :
    setupBatch env batch tx hint = .ok ((flatPairs batch).map f) := by
  unfold setupBatch
  rw [setupBatch_flat, setupFlat_reqs env tx hint (flatPairs batch) f [] hall]
  simp

/-- **Re-proposed batches:** whenever `PrepChannelFunding` succeeds against an lnd that already holds the shims
`lnd0` (left over from earlier proposals whose cancel failed or was skipped), every pair it registered – and told
the acceptor about – is held by lnd with exactly the shim derived from *this* proposal's batch transaction and height
hint, and lnd held nothing for that pending id before.  So the bidder never accepts a proposal while its lnd keeps a
stale shim for one of its pairs (a leftover shim makes the register call, hence the whole preparation, fail). -/
theorem C17_lnd_holds_current (env : Env) (node : Bytes) (batch : List (Order × List MatchedOrder)) (tx : BatchTx)
    (hint : Nat) (lnd0 : LndShims) (st : PrepSt)
    (h : prepBatchLnd env node batch tx hint lnd0 = .ok st) :
    ∀ r, r ∈ st.out.regs → lndLookup st.lnd r.2.1 = some r.1 ∧ lndLookup lnd0 r.2.1 = none := by
  unfold prepBatchLnd at h
  have hinv := resFoldl_inv
    (fun st (e : Order × List MatchedOrder) => resFoldl (prepMatchLnd env node e.1 tx hint) st e.2)
    (fun st => HeldInv lnd0 st ∧ KeepsInv lnd0 st)
    (fun s e s' hs hP =>
      resFoldl_inv (prepMatchLnd env node e.1 tx hint) (fun st => HeldInv lnd0 st ∧ KeepsInv lnd0 st)
        (fun s1 m s2 hm hP1 => prepMatchLnd_inv env node e.1 tx hint lnd0 s1 m s2 hm hP1) e.2 s s' hP hs)
    batch { lnd := lnd0 } st
    ⟨fun r hr => by simp at hr, fun q sh hq => hq⟩ h
  exact hinv.1

/-! ## Sidecar bids

Three parties: the provider holds the bid `b` with ticket `t` and submits it with the *recipient's* multisig and
node key (`order.manager.PrepareOrder`); the asker sees `projBid b kr r.nodeKey`; the recipient's node holds its
copies of ordered tickets (`pending`), turns the one carrying the bid's nonce into a dummy bid
(`getSidecarAsOrder`) and registers shim + acceptor expectation from it. -/

/-- **Sidecar bid with the default channel type whose parameters are those of the ticket's offer:** the asker's
open request and what the recipient registers agree exactly as in `C17_shims_agree`. -/
theorem C17_sidecar_agree
    (envA envR : Env) (a : Kit) (b : Bid) (t : Ticket) (r : Recipient) (ka kr na nodeR : Bytes) (u : Nat)
    (tx : BatchTx) (hint : Nat) (ma mb : MatchedOrder) (script : Bytes) (pending : List Ticket) (dummy : Order)
    (hH : envR.H = envA.H) (hFS : envR.fundScript = envA.fundScript)
    (hsym : ∀ t x y, envA.fundScript t x y = envA.fundScript t y x)
    (_hs : b.sidecar = some t) (hr : t.recipient = some r) (hkr : r.multiSigKey = some kr)
    (hnode : r.nodeKey = nodeR)
    (hka : envA.deriveKey a.keyFamily a.keyIndex = some ka)
    (hpa : projAsk envR a ka na u = .ok ma)
    (hpb : projBid envA b kr r.nodeKey u = .ok mb)
    (hdef : b.kit.channelType = Gen.C17.chanTypePeerDependent)
    (hcons : OfferConsistent t.offer b)
    (hcopy : ∀ t', t' ∈ pending → t'.orderBidNonce = some b.kit.nonce → t'.offer = t.offer ∧ t'.recipient = t.recipient)
    (hdummy : getSidecarAsOrder pending b.kit.nonce = .ok dummy)
    (hscript : envA.fundScript (commitSpec a.channelType b.kit.channelType == 5) ka kr = some script) :
    ∃ req sT pidT eT,
      batchChannelSetup envA (.ask a) mb tx hint = .ok (some req) ∧
      prepRegisters envR nodeR dummy ma tx hint = .ok (some (sT, pidT, eT)) ∧
      ShimsAgree envA.H a b ka kr r.nodeKey u tx hint script req sT pidT eT := by
  have hma := projAsk_ok _ _ _ _ _ _ hpa
  have hmb := projBid_ok _ _ _ _ _ _ hpb
  subst hma hmb
  obtain ⟨t', ht', hn', hd⟩ := getSidecar_ok _ _ _ hdummy
  obtain ⟨hoff, hrec⟩ := hcopy t' ht' hn'
  obtain ⟨hc1, hc2, hc3, hc4⟩ := hcons
  subst hd
  have hct0 : b.kit.channelType = 0 := hdef
  have hfsA : envA.fundScript ((determineCommitmentType a.channelType b.kit.channelType).1 == rpcCommitSimpleTaproot)
      ka kr = some script := by rw [det_fst]; exact hscript
  have hfsR : envR.fundScript ((determineCommitmentType 0 a.channelType).1 == rpcCommitSimpleTaproot)
      kr ka = some script := by rw [det_symm, det_fst, hFS, hsym, ← hct0]; exact hscript
  have hA := derive_maker envA a
    { nonce := b.kit.nonce, leaseDuration := b.kit.leaseDuration, channelType := b.kit.channelType, keyFamily := 0, keyIndex := 0 }
    b.selfChanBalance b.unannounced b.zeroConf ka kr r.nodeKey u tx hint script hka hfsA
  have hR := derive_recipient envR
    { kit := { nonce := b.kit.nonce, leaseDuration := t'.offer.leaseDurationBlocks, channelType := 0,
               keyFamily := 0, keyIndex := 0 },
      selfChanBalance := t'.offer.pushAmt, unannounced := t'.offer.unannounced,
      zeroConf := t'.offer.zeroConf, sidecar := some t' } t' r kr
    { nonce := a.nonce, leaseDuration := a.leaseDuration, channelType := a.channelType, keyFamily := 0, keyIndex := 0 }
    ka na u tx hint script rfl (hrec.trans hr) hkr hfsR
  refine ⟨?req, ?sT, ?pidT, ?eT, ?h1, ?h2, ?h3⟩
  case h1 =>
    unfold batchChannelSetup
    simp only [hA, Res.bind]
    rfl
  case h2 =>
    unfold prepRegisters
    have hprov : (r.nodeKey == nodeR) = true := by simp [hnode]
    simp only [hrec, hr, hprov, hR, Res.bind]
    rfl
  case h3 =>
    constructor
    · rfl
    · show envR.H _ = envA.H _
      rw [hH]
    · show envR.H _ = envA.H _
      rw [hH]
    · exact ⟨rfl, rfl⟩
    · rfl
    · intro hex; exact find_first script tx.outs hex
    · refine ⟨rfl, ?_, rfl⟩
      show wrapI64 (toSatoshis u + t'.offer.pushAmt) = wrapI64 (toSatoshis u + b.selfChanBalance)
      rw [hoff, hc2]
    · exact ⟨rfl, rfl, rfl, rfl⟩
    · refine ⟨thawOf_spec_maker _ _ _ _, ?_⟩
      show thawOf 0 a.channelType t'.offer.leaseDurationBlocks hint =
        thawOf a.channelType b.kit.channelType b.kit.leaseDuration hint
      rw [hoff, hc1, thawOf_spec_maker, ← hct0, thawOf_spec_taker]
    · exact det_fst _ _
    · refine ⟨?_, ?_⟩
      · show (determineCommitmentType a.channelType b.kit.channelType).2 =
          (determineCommitmentType 0 a.channelType).2
        rw [det_symm, hct0]
      · show (determineCommitmentType 0 a.channelType).2 = true ↔
          (determineCommitmentType a.channelType b.kit.channelType).1 = 5
        rw [det_symm, ← hct0]; exact det_snd _ _
    · rfl
    · rfl
    · rfl
    · rfl
    · refine ⟨rfl, ?_, ?_, ?_, ?_⟩
      · show t'.offer.pushAmt = b.selfChanBalance
        rw [hoff, hc2]
      · show t'.offer.unannounced = b.unannounced
        rw [hoff, hc3]
      · show t'.offer.zeroConf = b.zeroConf
        rw [hoff, hc4]
      · exact hct0.symm

/-- the provider of a sidecar channel (its node is not the recipient) neither registers a shim nor opens a
channel for that bid. -/
theorem C17_sidecar_provider_silent (env : Env) (nodeP : Bytes) (b : Bid) (t : Ticket) (r : Recipient)
    (m : MatchedOrder) (tx : BatchTx) (hint : Nat)
    (hs : b.sidecar = some t) (hr : t.recipient = some r) (hnode : r.nodeKey ≠ nodeP) :
    prepRegisters env nodeP (.bid b) m tx hint = .ok none ∧
    batchChannelSetup env (.bid b) m tx hint = .ok none := by
  constructor
  · unfold prepRegisters
    have : (r.nodeKey == nodeP) = false := by simpa using hnode
    simp [hs, hr, this]
  · unfold batchChannelSetup
    simp [hs]

/-- **What the repaired gate guarantees:** a sidecar bid that passes `validateAndSignTicketForOrder` (after the
`fix:` commit) and whose offer names a lease duration is consistent with the offer – the hypothesis of
`C17_sidecar_agree`. -/
theorem C17_gate_consistent (offer : Offer) (b : Bid) (amt : Int) (minUnits : Nat)
    (hg : offerGate offer b amt minUnits = true) (hl : offer.leaseDurationBlocks ≠ 0) :
    OfferConsistent offer b := by
  unfold offerGate at hg
  simp only [Bool.and_eq_true, Bool.or_eq_true, beq_iff_eq] at hg
  obtain ⟨⟨⟨⟨_, hlease⟩, hpush⟩, hun⟩, hzc⟩ := hg
  refine ⟨?_, hpush, hun, hzc⟩
  cases hlease with
  | inl h0 => exact absurd h0 hl
  | inr h => exact h

/-- **The two checks together:** an offer that `Manager.OfferSidecar` agrees to create (the only way to obtain an
offer signed by the provider's account key, which the gate verifies) and a bid that passes the gate against it are
consistent – no side condition left.  This discharges hypothesis `hcons` of `C17_sidecar_agree` for every sidecar
bid that can reach the auctioneer. -/
theorem C17_offer_gate_consistent (offer : Offer) (b : Bid) (amt : Int) (minUnits : Nat)
    (ho : offerSidecarOK offer = true) (hg : offerGate offer b amt minUnits = true) :
    OfferConsistent offer b := by
  apply C17_gate_consistent offer b amt minUnits hg
  unfold offerSidecarOK at ho
  simp only [Bool.and_eq_true, bne_iff_ne, ne_eq] at ho
  exact ho.1.1.1

/-- **No term of the offer is optional:** a bid that passes the gate against an offer `OfferSidecar` made has a self
channel balance exactly when the offer has a push amount (and then the same one), the offer's lease duration is the
bid's non-zero one, and the flags coincide – in particular "offer says 0 / unset, bid says something" never passes,
for any of the compared terms. -/
theorem C17_gate_no_optional_term (offer : Offer) (b : Bid) (amt : Int) (minUnits : Nat)
    (ho : offerSidecarOK offer = true) (hg : offerGate offer b amt minUnits = true) :
    (offer.pushAmt = 0 ↔ b.selfChanBalance = 0) ∧ offer.pushAmt = b.selfChanBalance ∧
    b.kit.leaseDuration ≠ 0 ∧ offer.leaseDurationBlocks = b.kit.leaseDuration ∧
    (offer.unannounced = true ↔ b.unannounced = true) ∧ (offer.zeroConf = true ↔ b.zeroConf = true) := by
  obtain ⟨h1, h2, h3, h4⟩ := C17_offer_gate_consistent offer b amt minUnits ho hg
  have hl : offer.leaseDurationBlocks ≠ 0 := by
    unfold offerSidecarOK at ho
    simp only [Bool.and_eq_true, bne_iff_ne, ne_eq] at ho
    exact ho.1.1.1
  refine ⟨by rw [h2], h2, by rw [← h1]; exact hl, h1, by rw [h3], by rw [h4]⟩

/-- the gate of the pinned tree admitted bids on which maker and recipient derive different channels: here the
unannounced flag (which the CLI does not pre-fill from the ticket).  Replayed on the real code by
`corpus/C17/sidecar-offer-mismatch.json`. -/
theorem C17_pinned_gate_admits_disagreement :
    ∃ (offer : Offer) (b : Bid) (amt : Int) (mu : Nat),
      offerGatePinned offer amt mu = true ∧ offerGate offer b amt mu = false ∧ ¬ OfferConsistent offer b :=
  ⟨{ capacity := 500000, pushAmt := 0, leaseDurationBlocks := 2016, unannounced := true, zeroConf := false },
   { kit := { nonce := [1], leaseDuration := 2016, channelType := 0 }, selfChanBalance := 0, unannounced := false,
     zeroConf := false },
   500000, 5, by decide, by decide, by
     intro h
     exact absurd h.2.2.1 (by decide)⟩

/-- why the second `fix:` commit is needed: the gate alone lets an offer without a lease duration pass with any bid
lease duration, and then the recipient's thaw height (from the offer) differs from the asker's (from the bid);
`offerSidecarOK` refuses exactly these offers. -/
theorem C17_gate_lease_unset_residual :
    ∃ (offer : Offer) (b : Bid) (amt : Int) (mu : Nat),
      offerGate offer b amt mu = true ∧ offerSidecarOK offer = false ∧ ¬ OfferConsistent offer b ∧
      thawSpec 0 0 offer.leaseDurationBlocks 800000 ≠ thawSpec 0 0 b.kit.leaseDuration 800000 :=
  ⟨{ capacity := 500000, pushAmt := 0, leaseDurationBlocks := 0, unannounced := false, zeroConf := false },
   { kit := { nonce := [1], leaseDuration := 2016, channelType := 0 }, selfChanBalance := 0, unannounced := false,
     zeroConf := false },
   500000, 5, by decide, by decide, by
     intro h
     exact absurd h.1 (by decide), by decide⟩

/-! ## Regenerated facts consumed -/

/-- **(R)** the `switch` of `order.DetermineCommitmentType`, as regenerated from the source on this run, computes
for every pair of channel types exactly the model's `determineCommitmentType` (which the theorems above use). -/
theorem C17_det_table (x y : Nat) :
    evalDetCases x y Gen.C17.detCases = some (determineCommitmentType x y) := by
  have e1 : Gen.C17.chanTypeScriptEnforced = 1 := rfl
  have e2 : Gen.C17.chanTypeSimpleTaproot = 2 := rfl
  unfold determineCommitmentType
  rw [e1, e2]
  simp only [Gen.C17.detCases, evalDetCases, evalCond]
  by_cases hx1 : x = 1 <;> by_cases hy1 : y = 1 <;> by_cases hx2 : x = 2 <;> by_cases hy2 : y = 2 <;>
    simp [hx1, hy1, hx2, hy2, rpcCommitScriptEnforcedLease, rpcCommitSimpleTaproot, rpcCommitUnknown]

/-- **(R)** the derivation is a function of its arguments: no function in the intra-package call graphs of
`order.PendingChanKey`, `DetermineCommitmentType`, `Kit.Nonce/Details`, `SupplyUnit.ToSatoshis`,
`funding.Manager.deriveFundingShim`, `CancelPendingFundingShims` and `poolscript.FundingOutput` references a
package-level variable other than the logger – so the model's pure functions also describe calls made concurrently
from the daemon's batch handler and sidecar acceptor goroutines (exercised by the `conc` cases of the harness). -/
theorem C17_derivation_stateless :
    Gen.C17.derivationPkgVarRefs.filter (fun r => r.2 != "log") = [] ∧
    "order/PendingChanKey" ∈ Gen.C17.derivationCallGraph ∧
    "funding/Manager.deriveFundingShim" ∈ Gen.C17.derivationCallGraph := by
  refine ⟨by decide, by decide, by decide⟩

/-- **(R)** field mapping of the `lnrpc.OpenChannelRequest` literal in `BatchChannelSetup` and of the
`lnrpc.ChanPointShim` / `lnrpc.ChannelPoint` literals in `deriveFundingShim`, regenerated from the source: the fields
the model's `batchChannelSetup` / `deriveFundingShim` fill, from the same expressions (field order irrelevant; locals that are defined once by a
selector / type assertion are replaced by their definition and a helper's parameters by the call's arguments, so
their names do not matter; computed locals – funding amount, shim, commitment type – are pinned by name of the FIELD
only, their values are tied by the correspondence run). -/
theorem C17_literal_fields :
    Gen.C17.openChannelRequestFields.map Prod.fst =
      ["CommitmentType", "FundingShim", "LocalFundingAmount", "NodePubkey", "Private", "PushSat", "ZeroConf"] ∧
    Gen.C17.openChannelRequestFields.filter
        (fun f => f.1 == "NodePubkey" || f.1 == "Private" || f.1 == "PushSat" || f.1 == "ZeroConf") =
      [("NodePubkey", "matchedOrder.NodeKey[:]"), ("Private", "matchedOrder.Order.(*order.Bid).UnannouncedChannel"),
       ("PushSat", "int64(matchedOrder.Order.(*order.Bid).SelfChanBalance)"),
       ("ZeroConf", "matchedOrder.Order.(*order.Bid).ZeroConfChannel")] ∧
    Gen.C17.chanPointShimFields.map Prod.fst =
      ["Amt", "ChanPoint", "LocalKey", "Musig2", "PendingChanId", "RemoteKey", "ThawHeight"] ∧
    Gen.C17.chanPointShimFields.filter (fun f => f.1 == "RemoteKey") = [("RemoteKey", "matchedOrder.MultiSigKey[:]")] ∧
    Gen.C17.channelPointFields.map Prod.fst = ["FundingTxid", "OutputIndex"] := by
  refine ⟨by decide, by decide, by decide, by decide, by decide⟩

/-- **(R)** what travels between the two sides: the bid fields `SubmitOrder` sends, `ParseRPCServerBid` reads
back, and `getSidecarAsOrder` takes from the ticket's offer instead. -/
theorem C17_projection_fields :
    Gen.C17.submitServerBidFields.filter
        (fun f => f.1 == "SelfChanBalance" || f.1 == "UnannouncedChannel" || f.1 == "ZeroConfChannel" ||
                  f.1 == "LeaseDurationBlocks") =
      [("LeaseDurationBlocks", "o.(type).LeaseDuration"), ("SelfChanBalance", "uint64(o.(type).SelfChanBalance)"),
       ("UnannouncedChannel", "o.(type).UnannouncedChannel"), ("ZeroConfChannel", "o.(type).ZeroConfChannel")] ∧
    Gen.C17.parseServerBidFields.filter (fun f => f.1 != "Kit") =
      [("SelfChanBalance", "btcutil.Amount(details.SelfChanBalance)"),
       ("UnannouncedChannel", "details.UnannouncedChannel"), ("ZeroConfChannel", "details.ZeroConfChannel")] ∧
    Gen.C17.sidecarAsOrderFields.filter (fun f => f.1 != "Kit") =
      [("SelfChanBalance", "ticket.Offer.PushAmt"), ("SidecarTicket", "ticket"),
       ("UnannouncedChannel", "ticket.Offer.UnannouncedChannel"), ("ZeroConfChannel", "ticket.Offer.ZeroConfChannel")] ∧
    Gen.C17.baseSupplyUnit = 100000 := by
  refine ⟨by decide, by decide, by decide, by decide⟩

/-- inside the domain of real orders (matched units < 2^32, 0 ≤ self balance ≤ 21·10^14 sat) the capacity of
`ShimsAgree` is the plain sum "matched units · base unit + self channel balance". -/
theorem C17_capacity_exact (u : Nat) (sb : Int) (hu : u < 2 ^ 32) (h0 : 0 ≤ sb) (h1 : sb ≤ 2100000000000000) :
    wrapI64 (toSatoshis u + sb) = (u : Int) * 100000 + sb := by
  have hb : Gen.C17.baseSupplyUnit = 100000 := rfl
  unfold toSatoshis wrapI64
  rw [hb]
  have h2 : u * 100000 % 2 ^ 64 = u * 100000 := Nat.mod_eq_of_lt (by omega)
  rw [h2]
  simp only [Int.ofNat_eq_natCast]
  have hc : ((u * 100000 : Nat) : Int) = (u : Int) * 100000 := by omega
  rw [hc]
  have hu' : (u : Int) < 4294967296 := by omega
  have hu0 : (0 : Int) ≤ (u : Int) := by omega
  have h3 : ((u : Int) * 100000 + 2 ^ 63) % (2 ^ 64 : Int) = (u : Int) * 100000 + 2 ^ 63 := by
    apply Int.emod_eq_of_lt <;> omega
  rw [h3]
  have h5 : (u : Int) * 100000 + 2 ^ 63 - 2 ^ 63 + sb + 2 ^ 63 = (u : Int) * 100000 + sb + 2 ^ 63 := by omega
  rw [h5]
  have h4 : ((u : Int) * 100000 + sb + 2 ^ 63) % (2 ^ 64 : Int) = (u : Int) * 100000 + sb + 2 ^ 63 := by
    apply Int.emod_eq_of_lt <;> omega
  rw [h4]
  omega

/-! ### non-vacuity -/

def exBid : ExpBid := { nonce := [1], selfChanBalance := 250000, channelType := 1, unannounced := true, zeroConf := true }
def exReq : AccReq := { pid := [7], pushAmt := 250000999, commitType := some 3, channelFlags := 0, wantsZeroConf := true }

example : lookup (regRun [.reg [7] exBid]) exReq.pid = some exBid := by decide
example : Demanded exBid exReq := by
  refine ⟨by decide, Or.inr (Or.inl ⟨rfl, rfl⟩), by decide, rfl⟩
example : admitted exReq (acceptChannel (regRun [.reg [7] exBid]) exReq) = true := by decide
-- one field off (announced although the bid is unannounced): rejected
example : admitted { exReq with channelFlags := 1 } (acceptChannel (regRun [.reg [7] exBid]) { exReq with channelFlags := 1 }) = false := by
  decide
-- unregistered id
example : lookup (regRun [.reg [7] exBid, .rm [1]]) [7] = none := by decide

/-! non-vacuity of the funding theorems: one environment (constant funding scripts per type, identity hash), a
script-enforced ask against a peer-dependent bid with a self balance, funding output at index 2 with a duplicate -/
def exEnv : Env :=
  { deriveKey := fun f i => some [UInt8.ofNat f, UInt8.ofNat i]
    fundScript := fun t _ _ => some [if t then 1 else 0]
    H := id
    validKey := fun _ => true }
def exAsk : Kit := { nonce := [0xa], leaseDuration := 2016, channelType := 1, keyFamily := 6, keyIndex := 11 }
def exFBid : Bid :=
  { kit := { nonce := [0xb], leaseDuration := 2016, channelType := 0, keyFamily := 6, keyIndex := 12 },
    selfChanBalance := 250000, unannounced := true, zeroConf := false }
def exTx : BatchTx := { txid := [0x77], outs := [[9], [8], [0], [0]] }

example : ∃ req sT pidT eT,
    batchChannelSetup exEnv (.ask exAsk)
      { order := .bid { exFBid with kit := { exFBid.kit with keyFamily := 0, keyIndex := 0 } },
        multiSigKey := [6, 12], nodeKey := [5], unitsFilled := 7 } exTx 800000 = .ok (some req) ∧
    prepRegisters exEnv [5] (.bid exFBid)
      { order := .ask { exAsk with keyFamily := 0, keyIndex := 0 }, multiSigKey := [6, 11], nodeKey := [4],
        unitsFilled := 7 } exTx 800000 = .ok (some (sT, pidT, eT)) ∧
    ShimsAgree exEnv.H exAsk exFBid [6, 11] [6, 12] [5] 7 exTx 800000 [0] req sT pidT eT :=
  C17_shims_agree exEnv exEnv exAsk exFBid [6, 11] [6, 12] [4] [5] [5] 7 exTx 800000 _ _ [0]
    rfl rfl (fun _ _ _ => rfl) rfl rfl rfl (by decide) (by decide) (by decide)

-- the outpoint is index 2 (first of the two outputs with the funding script), thaw height absolute, type 4
def exReq' : Res (Option OpenReq) := batchChannelSetup exEnv (.ask exAsk)
  { order := .bid { exFBid with kit := { exFBid.kit with keyFamily := 0, keyIndex := 0 } },
    multiSigKey := [6, 12], nodeKey := [5], unitsFilled := 7 } exTx 800000
example : (match exReq' with
    | .ok (some q) => (q.shim.outputIndex, q.shim.thawHeight, q.commitmentType, q.shim.pendingChanId, q.isPrivate)
    | _ => (99, 0, 0, [], false)) = (2, 802016, 4, [0xa, 0xb], true) := by decide

def exTicket : Ticket :=
  { offer := { capacity := 700000, pushAmt := 250000, leaseDurationBlocks := 2016, unannounced := true, zeroConf := false },
    recipient := some { nodeKey := [0x33], multiSigKey := some [0x44], multiSigKeyIndex := 5 },
    orderBidNonce := some [0xb] }
def exSBid : Bid := { exFBid with sidecar := some exTicket }

example : ∃ req sT pidT eT,
    batchChannelSetup exEnv (.ask exAsk)
      { order := .bid { exFBid with kit := { exFBid.kit with keyFamily := 0, keyIndex := 0 } },
        multiSigKey := [0x44], nodeKey := [0x33], unitsFilled := 7 } exTx 800000 = .ok (some req) ∧
    prepRegisters exEnv [0x33]
      (.bid { kit := { nonce := [0xb], leaseDuration := 2016, channelType := 0, keyFamily := 0, keyIndex := 0 },
              selfChanBalance := 250000, unannounced := true, zeroConf := false, sidecar := some exTicket })
      { order := .ask { exAsk with keyFamily := 0, keyIndex := 0 }, multiSigKey := [6, 11], nodeKey := [4],
        unitsFilled := 7 } exTx 800000 = .ok (some (sT, pidT, eT)) ∧
    ShimsAgree exEnv.H exAsk exSBid [6, 11] [0x44] [0x33] 7 exTx 800000 [0] req sT pidT eT :=
  C17_sidecar_agree exEnv exEnv exAsk exSBid exTicket
    { nodeKey := [0x33], multiSigKey := some [0x44], multiSigKeyIndex := 5 } [6, 11] [0x44] [4] [0x33] 7 exTx 800000
    _ _ [0] [{ exTicket with orderBidNonce := some [0xc] }, exTicket] _
    rfl rfl (fun _ _ _ => rfl) rfl rfl rfl rfl rfl (by decide) (by decide) rfl
    ⟨rfl, rfl, rfl, rfl⟩
    (by
      intro t' ht' hn
      simp only [List.mem_cons, List.mem_nil_iff, or_false] at ht'
      cases ht' with
      | inl h => subst h; exact absurd hn (by decide)
      | inr h => subst h; exact ⟨rfl, rfl⟩)
    (by decide) (by decide)

example : offerGate exTicket.offer exSBid 700000 7 = true := by decide
example : offerSidecarOK exTicket.offer = true := by decide
example : C17_gate_consistent exTicket.offer exSBid 700000 7 (by decide) (by decide) =
    (⟨rfl, rfl, rfl, rfl⟩ : OfferConsistent exTicket.offer exSBid) := rfl

-- a bid matched with two asks of the *same* node: two registrations, one connection attempt
def exAsk2 : Kit := { exAsk with nonce := [0xc], keyIndex := 13 }
def exBatch : List (Order × List MatchedOrder) :=
  [(.bid exFBid,
    [{ order := .ask { exAsk with keyFamily := 0, keyIndex := 0 }, multiSigKey := [6, 11], nodeKey := [4], unitsFilled := 7 },
     { order := .ask { exAsk2 with keyFamily := 0, keyIndex := 0 }, multiSigKey := [6, 13], nodeKey := [4], unitsFilled := 3 }])]
example : (match prepBatch exEnv [5] exBatch exTx 800000 with
    | .ok out => (out.conns, out.regs.map (fun r => r.2.1))
    | _ => ([], [])) = ([[4]], [[0xa, 0xb], [0xc, 0xb]]) := by decide

-- re-proposal with a leftover shim: the second preparation fails; after a successful cancel it succeeds
example : (match prepBatchLnd exEnv [5] exBatch exTx 800000 [] with
    | .ok st => (match prepBatchLnd exEnv [5] exBatch { exTx with txid := [0x78] } 800003 st.lnd with
        | .err => (match prepBatchLnd exEnv [5] exBatch { exTx with txid := [0x78] } 800003
              (cancelPendingFundingShims exEnv.H exBatch [] st.lnd) with
            | .ok st2 => st2.lnd.map (fun e => (e.2.txid, e.2.thawHeight))
            | _ => [])
        | _ => [])
    | _ => []) = [([0x78], 802019), ([0x78], 802019)] := by decide

end Pool.C17
