import PoolProofs.C16LemmasCancel
/-! C16 liveness: the states reachable without restarts/cancellations in closed form, their closure under deliveries,
handler steps and receive errors, progress to both-expecting and its stability. -/
namespace Pool.C16
open Pool.Gen.C16

def tOrd : Ticket := ⟨0, sOrdered, .valid, true, some ⟨1, .valid⟩⟩
def tExp : Ticket := ⟨0, sExpecting, .valid, true, some ⟨1, .valid⟩⟩

theorem stepP0 (s : Sys) : stepProvider (envP s) sOffered (some tRegistered) (some tOffered) =
    ⟨.ok sRegistered (some tRegistered) (some tRegistered), some tOffered, [.update tRegistered true]⟩ := rfl
theorem stepP1 (s : Sys) (h : s.bidStored = false) :
    stepProvider (envP s) sRegistered (some tRegistered) (some tRegistered) =
    ⟨.ok sOrdered (some tOrd) (some tOrd), some tOrd, [.submit tOrd .ok]⟩ := by
  unfold envP; rw [h]; rfl
theorem stepP2 (s : Sys) : stepProvider (envP s) sOrdered (some tRegistered) (some tOrd) =
    ⟨.ok sExpecting (some tExp) (some tExp), some tOrd, [.send false tOrd true, .update tExp true]⟩ := rfl
theorem stepP3 (s : Sys) : stepProvider (envP s) sExpecting (some tRegistered) (some tExp) =
    ⟨.ok sExpecting (some tExp) (some tExp), some tOrd, [.send false tOrd true, .update tExp true]⟩ := rfl
theorem stepR0 (s : Sys) : stepRecipient (envR s) sRegistered (some tRegistered) (some tRegistered) =
    ⟨.ok sRegistered (some tRegistered) (some tRegistered), some tRegistered, [.send true tRegistered true]⟩ := rfl
theorem stepR1 (s : Sys) (h : s.pending = none) :
    stepRecipient (envR s) sRegistered (some tRegistered) (some tOrd) =
    ⟨.ok sExpecting (some tExp) (some tExp), some tExp, [.validate tOrd true, .expect tExp true]⟩ := by
  unfold envR; rw [h]; rfl
theorem stepR2 (s : Sys) (h : s.pending = some 1) :
    stepRecipient (envR s) sExpecting (some tExp) (some tOrd) =
    ⟨.err eExpect, some tOrd, [.expect tOrd false]⟩ := by
  unfold envR; rw [h]; rfl

/-- only deliveries (of any sent ticket, again and again), handler steps and receive errors -/
def noRestartAct : Act → Bool
  | .deliver _ _ | .proc _ | .recvErr _ => true
  | _ => false

/-! ### the states reachable without restarts, in closed form -/

structure NRc where
  pp : Nat            -- provider phase: 0 offered, 1 registered (in loop), 2 ordered (in loop), 3 expecting
  pin : Bool          -- the recipient's registered ticket sits in the provider's packetChan
  rp : Nat            -- recipient phase: 0 starting packet pending, 1 registered, 2 expecting
  rin : Bool          -- the ordered ticket sits in the recipient's packetChan
  n : Nat             -- how often the provider has sent the ordered ticket
  lg : List (Bool × Eff)

def pParty (pp : Nat) (pin : Bool) : Party :=
  let inb := if pin then some tRegistered else none
  match pp with
  | 0 => ⟨true, sOffered, some tOffered, inb, none, false, false, tOffered⟩
  | 1 => ⟨true, sRegistered, some tRegistered, inb, some tRegistered, false, false, tRegistered⟩
  | 2 => ⟨true, sOrdered, some tOrd, inb, some tRegistered, false, false, tRegistered⟩
  | _ => ⟨true, sExpecting, some tExp, inb, none, false, false, tExp⟩

def rParty (rp : Nat) (rin : Bool) : Party :=
  let inb := if rin then some tOrd else none
  match rp with
  | 0 => ⟨true, sRegistered, some tRegistered, some tRegistered, none, false, false, tRegistered⟩
  | 1 => ⟨true, sRegistered, some tRegistered, inb, none, false, false, tRegistered⟩
  | _ => ⟨true, sExpecting, some tExp, inb, none, false, false, tExp⟩

def mk (c : NRc) : Sys :=
  { p := pParty c.pp c.pin, r := rParty c.rp c.rin,
    bidStored := decide (2 ≤ c.pp), bids := if 2 ≤ c.pp then 1 else 0,
    pending := if 2 ≤ c.rp then some 1 else none,
    toR := List.replicate c.n tOrd, toP := if c.rp = 0 then [] else [tRegistered],
    log := c.lg, panicked := false }

theorem replicate_snoc (n : Nat) (a : Ticket) : List.replicate n a ++ [a] = List.replicate (n + 1) a := by
  induction n with
  | zero => rfl
  | succ k ih => simp [List.replicate_succ, ih]

theorem procP0 (rp n : Nat) (rin : Bool) (lg : List (Bool × Eff)) :
    applyG true (mk ⟨0, true, rp, rin, n, lg⟩) (.proc true) =
      some (mk ⟨1, false, rp, rin, n, (true, .update tRegistered true) :: lg⟩) := by
  simp [mk, pParty, applyG, getParty, nextPkt, takePkt, procStep, stepP0, applyEffs, applyEff, setParty]
  decide

theorem procP1 (rp n : Nat) (pin rin : Bool) (lg : List (Bool × Eff)) :
    applyG true (mk ⟨1, pin, rp, rin, n, lg⟩) (.proc true) =
      some (mk ⟨2, pin, rp, rin, n, (true, .submit tOrd .ok) :: lg⟩) := by
  have h := stepP1 (mk ⟨1, pin, rp, rin, n, lg⟩) (by simp [mk])
  simp [mk, pParty] at h
  simp [mk, pParty, applyG, getParty, nextPkt, takePkt, procStep, h, applyEffs, applyEff, setParty]
  decide

theorem procP2 (rp n : Nat) (pin rin : Bool) (lg : List (Bool × Eff)) :
    applyG true (mk ⟨2, pin, rp, rin, n, lg⟩) (.proc true) =
      some (mk ⟨3, pin, rp, rin, n + 1,
        (true, .update tExp true) :: (true, .send false tOrd true) :: lg⟩) := by
  simp [mk, pParty, applyG, getParty, nextPkt, takePkt, procStep, stepP2, applyEffs, applyEff, setParty,
    replicate_snoc]

theorem procP3 (rp n : Nat) (rin : Bool) (lg : List (Bool × Eff)) :
    applyG true (mk ⟨3, true, rp, rin, n, lg⟩) (.proc true) =
      some (mk ⟨3, false, rp, rin, n + 1,
        (true, .update tExp true) :: (true, .send false tOrd true) :: lg⟩) := by
  simp [mk, pParty, applyG, getParty, nextPkt, takePkt, procStep, stepP3, applyEffs, applyEff, setParty,
    replicate_snoc]

theorem procR0 (pp n : Nat) (pin rin : Bool) (lg : List (Bool × Eff)) :
    applyG true (mk ⟨pp, pin, 0, rin, n, lg⟩) (.proc false) =
      some (mk ⟨pp, pin, 1, false, n, (false, .send true tRegistered true) :: lg⟩) := by
  simp [mk, rParty, applyG, getParty, nextPkt, takePkt, procStep, stepR0, applyEffs, applyEff, setParty]

theorem procR1 (pp n : Nat) (pin : Bool) (lg : List (Bool × Eff)) :
    applyG true (mk ⟨pp, pin, 1, true, n, lg⟩) (.proc false) =
      some (mk ⟨pp, pin, 2, false, n,
        (false, .expect tExp true) :: (false, .validate tOrd true) :: lg⟩) := by
  have h := stepR1 (mk ⟨pp, pin, 1, true, n, lg⟩) (by simp [mk])
  simp [mk, rParty] at h
  simp [mk, rParty, applyG, getParty, nextPkt, takePkt, procStep, h, applyEffs, applyEff, setParty, tExp]

theorem procR2 (pp n : Nat) (pin : Bool) (lg : List (Bool × Eff)) :
    applyG true (mk ⟨pp, pin, 2, true, n, lg⟩) (.proc false) =
      some (mk ⟨pp, pin, 2, false, n, (false, .expect tOrd false) :: lg⟩) := by
  have h := stepR2 (mk ⟨pp, pin, 2, true, n, lg⟩) (by simp [mk])
  simp [mk, rParty] at h
  simp [mk, rParty, applyG, getParty, nextPkt, takePkt, procStep, h, applyEffs, applyEff, setParty]


theorem procP_none0 (rp n : Nat) (rin : Bool) (lg : List (Bool × Eff)) :
    applyG true (mk ⟨0, false, rp, rin, n, lg⟩) (.proc true) = none := by
  simp [mk, pParty, applyG, getParty, nextPkt]

theorem procP_none3 (rp n : Nat) (rin : Bool) (lg : List (Bool × Eff)) :
    applyG true (mk ⟨3, false, rp, rin, n, lg⟩) (.proc true) = none := by
  simp [mk, pParty, applyG, getParty, nextPkt]

theorem procR_none (pp rp n : Nat) (pin : Bool) (lg : List (Bool × Eff)) :
    applyG true (mk ⟨pp, pin, rp + 1, false, n, lg⟩) (.proc false) = none := by
  cases rp <;> simp [mk, rParty, applyG, getParty, nextPkt]

theorem deliverP (c : NRc) (i : Nat) :
    applyG true (mk c) (.deliver true i) =
      if c.rp ≠ 0 ∧ i = 0 ∧ c.pin = false then some (mk { c with pin := true }) else none := by
  obtain ⟨pp, pin, rp, rin, n, lg⟩ := c
  rcases pp with _ | _ | _ | pp <;> rcases rp with _ | rp <;> cases pin <;> rcases i with _ | i <;>
    simp [mk, pParty, applyG, getParty, setParty]

theorem deliverR (c : NRc) (i : Nat) :
    applyG true (mk c) (.deliver false i) =
      if c.rp ≠ 0 ∧ i < c.n ∧ c.rin = false then some (mk { c with rin := true }) else none := by
  obtain ⟨pp, pin, rp, rin, n, lg⟩ := c
  rcases rp with _ | _ | rp <;> cases rin <;> by_cases hi : i < n <;>
    simp [mk, rParty, applyG, getParty, setParty, List.getElem?_replicate, hi]

theorem recvErrNR (c : NRc) (prov : Bool) :
    applyG true (mk c) (.recvErr prov) = some (mk { c with lg := (prov, .initMailbox) :: c.lg }) := by
  obtain ⟨pp, pin, rp, rin, n, lg⟩ := c
  cases prov
  · rcases rp with _ | _ | rp <;> simp [mk, rParty, applyG, getParty]
  · rcases pp with _ | _ | _ | pp <;> simp [mk, pParty, applyG, getParty]

def NRok (c : NRc) : Prop :=
  c.pp ≤ 3 ∧ c.rp ≤ 2 ∧ (c.rp = 0 → c.pin = false ∧ c.pp = 0 ∧ c.rin = false) ∧
  (c.pp < 3 → c.n = 0 ∧ c.rin = false ∧ c.rp ≤ 1) ∧ (c.pp = 3 → 1 ≤ c.n)

/-- the closed-form states are closed under deliveries (of any sent ticket, any number of times), handler steps and
receive errors -/
theorem NR_closure (c : NRc) (hok : NRok c) (a : Act) (hn : noRestartAct a = true) (s' : Sys)
    (ha : applyG true (mk c) a = some s') :
    ∃ c', NRok c' ∧ s' = mk c' ∧ c.pp ≤ c'.pp ∧ c.rp ≤ c'.rp := by
  obtain ⟨pp, pin, rp, rin, n, lg⟩ := c
  obtain ⟨h1, h2, h3, h4, h5⟩ := hok
  simp only at h1 h2 h3 h4 h5
  cases a with
  | deliver tp i =>
    cases tp
    · rw [deliverR] at ha
      split at ha
      · rename_i hc
        simp at ha; subst ha
        simp only at hc
        refine ⟨_, ⟨h1, h2, ?_, ?_, h5⟩, rfl, by simp, by simp⟩
        · intro h0; exact absurd h0 hc.1
        · intro hlt; have := h4 hlt; omega
      · simp at ha
    · rw [deliverP] at ha
      split at ha
      · rename_i hc
        simp at ha; subst ha
        simp only at hc
        refine ⟨_, ⟨h1, h2, ?_, h4, h5⟩, rfl, by simp, by simp⟩
        intro h0; exact absurd h0 hc.1
      · simp at ha
  | proc prov =>
    cases prov
    · -- recipient
      rcases rp with _ | _ | rp
      · rw [procR0] at ha; simp at ha; subst ha
        have := h3 rfl
        refine ⟨_, ⟨h1, by simp, by simp, ?_, h5⟩, rfl, by simp, by simp⟩
        intro hlt; have := h4 hlt; simp; omega
      · cases rin
        · rw [procR_none] at ha; simp at ha
        · rw [procR1] at ha; simp at ha; subst ha
          have hp3 : pp = 3 := by
            by_cases hlt : pp < 3
            · have := (h4 hlt).2.1; simp at this
            · omega
          refine ⟨_, ⟨h1, by simp, by simp, ?_, h5⟩, rfl, by simp, by simp⟩
          intro hlt; simp only at hlt; omega
      · have hrp : rp = 0 := by omega
        subst hrp
        cases rin
        · rw [procR_none] at ha; simp at ha
        · rw [procR2] at ha; simp at ha; subst ha
          refine ⟨_, ⟨h1, h2, by simp, ?_, h5⟩, rfl, by simp, by simp⟩
          intro hlt; have := h4 hlt; omega
    · -- provider
      rcases pp with _ | _ | _ | pp
      · cases pin
        · rw [procP_none0] at ha; simp at ha
        · rw [procP0] at ha; simp at ha; subst ha
          have := h4 (by omega)
          refine ⟨_, ⟨by simp, h2, ?_, ?_, by simp⟩, rfl, by simp, by simp⟩
          · intro h0; have := h3 h0; simp at this
          · intro _; exact this
      · rw [procP1] at ha; simp at ha; subst ha
        have := h4 (by omega)
        refine ⟨_, ⟨by simp, h2, ?_, ?_, by simp⟩, rfl, by simp, by simp⟩
        · intro h0; have := h3 h0; simp at this
        · intro _; exact this
      · rw [procP2] at ha; simp at ha; subst ha
        have := h4 (by omega)
        refine ⟨_, ⟨by simp, h2, ?_, ?_, by simp⟩, rfl, by simp, by simp⟩
        · intro h0; have := h3 h0; simp at this
        · intro hlt; simp at hlt
      · have hpp : pp = 0 := by omega
        subst hpp
        cases pin
        · rw [procP_none3] at ha; simp at ha
        · rw [procP3] at ha; simp at ha; subst ha
          refine ⟨_, ⟨by simp, h2, ?_, ?_, by simp⟩, rfl, by simp, by simp⟩
          · intro h0; have := h3 h0; simp at this
          · intro hlt; simp at hlt
  | recvErr prov =>
    rw [recvErrNR] at ha; simp at ha; subst ha
    exact ⟨_, ⟨h1, h2, h3, h4, h5⟩, rfl, by simp, by simp⟩
  | procCrash _ _ => simp [noRestartAct] at hn
  | fin _ => simp [noRestartAct] at hn
  | finalize _ _ => simp [noRestartAct] at hn
  | stop _ => simp [noRestartAct] at hn
  | quit _ => simp [noRestartAct] at hn
  | restart _ => simp [noRestartAct] at hn
  | cancelRPC _ => simp [noRestartAct] at hn
  | completeRPC _ => simp [noRestartAct] at hn


theorem init_eq_mk : init = mk ⟨0, false, 0, false, 0, []⟩ := rfl

theorem NRok_init : NRok ⟨0, false, 0, false, 0, []⟩ := by
  unfold NRok; simp

theorem NR_run (as : List Act) : ∀ c, NRok c → as.all noRestartAct = true → ∀ s',
    runG true (mk c) as = some s' → ∃ c', NRok c' ∧ s' = mk c' := by
  induction as with
  | nil => intro c hc _ s' h; simp [runG] at h; exact ⟨c, hc, h.symm⟩
  | cons a rest ih =>
    intro c hc hall s' h
    simp only [List.all_cons, Bool.and_eq_true] at hall
    simp only [runG] at h
    split at h
    · simp at h
    · rename_i s1 h1
      obtain ⟨c1, hc1, rfl, _, _⟩ := NR_closure c hc a hall.1 s1 h1
      exact ih c1 hc1 hall.2 s' h

theorem runG_append (ret : Bool) (as bs : List Act) : ∀ s,
    runG ret s (as ++ bs) = (runG ret s as).bind (fun s1 => runG ret s1 bs) := by
  induction as with
  | nil => intro s; simp [runG]
  | cons a rest ih =>
    intro s
    simp only [List.cons_append, runG]
    cases applyG ret s a with
    | none => simp
    | some s1 => simp [ih]

def bothExpecting (s : Sys) : Bool := s.p.alive && s.p.cur == sExpecting && s.r.alive && s.r.cur == sExpecting

theorem bothExpecting_mk (c : NRc) (hok : NRok c) : bothExpecting (mk c) = true ↔ c.pp = 3 ∧ c.rp = 2 := by
  obtain ⟨pp, pin, rp, rin, n, lg⟩ := c
  obtain ⟨h1, h2, _⟩ := hok
  simp only at h1 h2
  rcases pp with _ | _ | _ | pp <;> rcases rp with _ | _ | rp <;>
    simp [bothExpecting, mk, pParty, rParty, sExpecting, sOffered, sRegistered, sOrdered] <;> omega

/-- from every closed-form state a finite sequence of deliveries and handler steps reaches both-expecting -/
theorem NR_progress (c : NRc) (hok : NRok c) :
    ∃ as c', as.all noRestartAct = true ∧ runG true (mk c) as = some (mk c') ∧ NRok c' ∧ c'.pp = 3 ∧ c'.rp = 2 := by
  -- phase 1: the recipient handles its starting packet
  have ph1 : ∃ as c1, as.all noRestartAct = true ∧ runG true (mk c) as = some (mk c1) ∧ NRok c1 ∧ c1.rp ≠ 0 := by
    by_cases h0 : c.rp = 0
    · obtain ⟨pp, pin, rp, rin, n, lg⟩ := c
      simp only at h0; subst h0
      refine ⟨[.proc false], ⟨pp, pin, 1, false, n, (false, .send true tRegistered true) :: lg⟩, rfl,
        by simp [runG, procR0], ?_, by simp⟩
      obtain ⟨h1, h2, h3, h4, h5⟩ := hok
      exact ⟨h1, by simp, by simp, fun hlt => by have := h4 hlt; simp at this ⊢; omega, h5⟩
    · exact ⟨[], c, rfl, rfl, hok, h0⟩
  obtain ⟨as1, c1, ha1, hr1, hok1, hrp1⟩ := ph1
  -- phase 2: the provider gets the registered ticket and runs its loop to "expecting"
  have ph2 : ∃ as c2, as.all noRestartAct = true ∧ runG true (mk c1) as = some (mk c2) ∧ NRok c2 ∧
      c2.rp ≠ 0 ∧ c2.pp = 3 := by
    obtain ⟨pp, pin, rp, rin, n, lg⟩ := c1
    obtain ⟨h1, h2, h3, h4, h5⟩ := hok1
    simp only at h1 h2 h3 h4 h5 hrp1
    rcases pp with _ | _ | _ | pp
    · have hn := h4 (by omega)
      cases pin
      · refine ⟨[.deliver true 0, .proc true, .proc true, .proc true],
          ⟨3, false, rp, rin, n + 1, (true, .update tExp true) :: (true, .send false tOrd true) :: (true, .submit tOrd .ok) :: (true, .update tRegistered true) :: lg⟩, rfl, ?_, ?_, hrp1, rfl⟩
        · simp [runG, deliverP, hrp1, procP0, procP1, procP2]
        · exact ⟨by simp, h2, fun h0 => absurd h0 hrp1, by simp, by simp⟩
      · refine ⟨[.proc true, .proc true, .proc true],
          ⟨3, false, rp, rin, n + 1, (true, .update tExp true) :: (true, .send false tOrd true) :: (true, .submit tOrd .ok) :: (true, .update tRegistered true) :: lg⟩, rfl, ?_, ?_, hrp1, rfl⟩
        · simp [runG, procP0, procP1, procP2]
        · exact ⟨by simp, h2, fun h0 => absurd h0 hrp1, by simp, by simp⟩
    · refine ⟨[.proc true, .proc true], ⟨3, pin, rp, rin, n + 1, (true, .update tExp true) :: (true, .send false tOrd true) :: (true, .submit tOrd .ok) :: lg⟩, rfl, ?_, ?_, hrp1, rfl⟩
      · simp [runG, procP1, procP2]
      · exact ⟨by simp, h2, fun h0 => absurd h0 hrp1, by simp, by simp⟩
    · refine ⟨[.proc true], ⟨3, pin, rp, rin, n + 1, (true, .update tExp true) :: (true, .send false tOrd true) :: lg⟩, rfl, ?_, ?_, hrp1, rfl⟩
      · simp [runG, procP2]
      · exact ⟨by simp, h2, fun h0 => absurd h0 hrp1, by simp, by simp⟩
    · have : pp = 0 := by omega
      subst this
      exact ⟨[], _, rfl, rfl, ⟨h1, h2, h3, h4, h5⟩, hrp1, rfl⟩
  obtain ⟨as2, c2, ha2, hr2, hok2, hrp2, hpp2⟩ := ph2
  -- phase 3: the recipient gets the ordered ticket
  have ph3 : ∃ as c3, as.all noRestartAct = true ∧ runG true (mk c2) as = some (mk c3) ∧ NRok c3 ∧
      c3.pp = 3 ∧ c3.rp = 2 := by
    obtain ⟨pp, pin, rp, rin, n, lg⟩ := c2
    obtain ⟨h1, h2, h3, h4, h5⟩ := hok2
    simp only at h1 h2 h3 h4 h5 hrp2 hpp2
    subst hpp2
    have hn := h5 rfl
    rcases rp with _ | _ | rp
    · exact absurd rfl hrp2
    · cases rin
      · refine ⟨[.deliver false 0, .proc false], ⟨3, pin, 2, false, n, (false, .expect tExp true) :: (false, .validate tOrd true) :: lg⟩, rfl, ?_, ?_, rfl, rfl⟩
        · have : 0 < n := hn
          simp [runG, deliverR, this, procR1]
        · exact ⟨by simp, by simp, by simp, by simp, h5⟩
      · refine ⟨[.proc false], ⟨3, pin, 2, false, n, (false, .expect tExp true) :: (false, .validate tOrd true) :: lg⟩, rfl, ?_, ?_, rfl, rfl⟩
        · simp [runG, procR1]
        · exact ⟨by simp, by simp, by simp, by simp, h5⟩
    · have : rp = 0 := by omega
      subst this
      exact ⟨[], _, rfl, rfl, ⟨h1, h2, h3, h4, h5⟩, rfl, rfl⟩
  obtain ⟨as3, c3, ha3, hr3, hok3, hpp3, hrp3⟩ := ph3
  refine ⟨as1 ++ as2 ++ as3, c3, ?_, ?_, hok3, hpp3, hrp3⟩
  · simp [List.all_append, ha1, ha2, ha3]
  · rw [runG_append, runG_append, hr1]; simp [hr2, hr3]


/-- both-expecting is stable under deliveries, handler steps and receive errors -/
theorem NR_stable (c : NRc) (hok : NRok c) (hb : c.pp = 3 ∧ c.rp = 2) (a : Act) (hn : noRestartAct a = true)
    (s' : Sys) (ha : applyG true (mk c) a = some s') : bothExpecting s' = true := by
  obtain ⟨c', hok', rfl, hp, hr⟩ := NR_closure c hok a hn s' ha
  rw [bothExpecting_mk c' hok']
  obtain ⟨h1, h2, _⟩ := hok'
  omega

end Pool.C16
