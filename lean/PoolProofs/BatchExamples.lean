import PoolProofs.BatchSpec
/-! Concrete proposals used by the non-vacuity examples of C01/C02/C03. -/
namespace Pool.Batch

def isOk {α ε} : Except ε α → Bool
  | .ok _ => true
  | .error _ => false

/-- trader with one account, an ask (deny list, min match 2) and a sidecar bid in another market -/
def exEnv : Env :=
  { orders := [
      { nonce := "n1", isAsk := true, acctKey := "A", acctKeyParses := true, auctionType := 0, duration := 2016,
        rate := 100, unitsUnfulfilled := 10, minUnitsMatch := 2, chanType := 0, selfChanBalance := 0,
        sidecar := none, derivedKey := some "K1", allowed := [], notAllowed := ["X"] },
      { nonce := "n2", isAsk := false, acctKey := "A", acctKeyParses := true, auctionType := 0, duration := 4032,
        rate := 900, unitsUnfulfilled := 4, minUnitsMatch := 4, chanType := 2, selfChanBalance := 50000,
        sidecar := some (some "R"), derivedKey := some "K2", allowed := ["THEM2"], notAllowed := [] }],
    accounts := [{ key := "A", value := 1000000, expiry := 5000, version := 0 }],
    ourNode := "US", version := 58, minNoDust := 678,
    premium := floatPremium (fun _ _ _ => 0),
    acctScript := fun k sv e => some s!"acct-{k}-{sv}-{e}",
    fundScript := fun tap a c => some s!"fund-{tap}-{a}-{c}" }

/-- accepted proposal: the ask sells 3 units to a bid, the sidecar bid buys 4 units (taproot channel for the
recipient key), the account is extended and upgraded to taproot -/
def exBatch : Batch :=
  { id := "B", version := 58, heightHint := 100,
    matched := [
      ("n1", [{ isAsk := false, nonce := "t1", auctionType := 0, duration := 2016, rate := 120,
                selfChanBalance := 0, chanType := 0, nodeKey := "THEM", multiSigKey := "M1", unitsFilled := 3 }]),
      ("n2", [{ isAsk := true, nonce := "t2", auctionType := 0, duration := 4032, rate := 800,
                selfChanBalance := 0, chanType := 2, nodeKey := "THEM2", multiSigKey := "M2", unitsFilled := 4 }])],
    clearing := [(2016, 110), (4032, 850)],
    diffs := [{ acctKey := "A", endingState := 0, endingBalance := 647808, outpointIndex := 1,
                newExpiry := 40000, newVersion := 1 }],
    execBase := 1, execRate := 1000, feeRate := 253,
    txOuts := [⟨300000, "fund-false-K1-M1"⟩, ⟨647808, "acct-A-1-40000"⟩, ⟨450000, "fund-true-R-M2"⟩] }


def exDiff : Diff :=
  { acctKey := "A", endingState := 0, endingBalance := 647808, outpointIndex := 1, newExpiry := 40000, newVersion := 1 }

/-- hostile but self-consistent: the account is locked until block 4 000 000 000 -/
def exDiffExp : Diff := { exDiff with newExpiry := 4000000000 }
def exBatchExp : Batch := { exBatch with
  diffs := [exDiffExp],
  txOuts := [⟨300000, "fund-false-K1-M1"⟩, ⟨647808, "acct-A-1-4000000000"⟩, ⟨450000, "fund-true-R-M2"⟩] }

/-- hostile but self-consistent: the account is "upgraded" to the unknown version 77 (script version 0) -/
def exDiffVer : Diff := { exDiff with newVersion := 77 }
def exBatchVer : Batch := { exBatch with
  diffs := [exDiffVer],
  txOuts := [⟨300000, "fund-false-K1-M1"⟩, ⟨647808, "acct-A-0-40000"⟩, ⟨450000, "fund-true-R-M2"⟩] }

/-- hostile but self-consistent: a second diff for the same account, charged a chain fee again (145 sat: the account object was already upgraded to taproot by the first diff) -/
def exDiffDup : Diff := { exDiff with endingBalance := 647663, outpointIndex := 3 }
def exBatchDup : Batch := { exBatch with
  diffs := [exDiff, exDiffDup],
  txOuts := exBatch.txOuts ++ [⟨647663, "acct-A-1-40000"⟩] }

/-- an account left with dust: value chosen so that 500 sat remain -/
def exEnvDust : Env := { exEnv with accounts := [{ key := "A", value := 352692, expiry := 5000, version := 0 }] }
def exBatchDust : Batch := { exBatch with
  diffs := [{ acctKey := "A", endingState := 2, endingBalance := 500, outpointIndex := -1, newExpiry := 0, newVersion := 0 }],
  txOuts := [⟨300000, "fund-false-K1-M1"⟩, ⟨450000, "fund-true-R-M2"⟩] }

end Pool.Batch
