import PoolModel.C11
import PoolProofs.C11Lemmas
/-! Closed form of `reservedValue` and freedom from `int64` overflow inside the domain `inDomain`. -/
namespace Pool.C11
open Pool.Float64 Pool.Gen.Reserve

/-- `reservedValue` for an arbitrary closure, in closed form -/
theorem reservedValue_closed_gen (o : Order) (pm : Nat → Int) (ver : Nat)
    (hna : archived o.state = false) (hm : 0 < o.minUnitsMatch) :
    reservedValue o pm ver = .ok
      (let U := toSatoshis o.unitsUnfulfilled
       let m := toSatoshis o.minUnitsMatch
       let fee1 : Int := estimateTraderFee 1 o.maxBatchFeeRate ver
       let bd : Int := if U % m ≠ 0 then
           (((U / m : Nat) : Int) - 1) * pm m + pm (m + U % m) - (((U / m : Nat) : Int) - 1) * fee1 - fee1
         else ((U / m : Nat) : Int) * pm m - ((U / m : Nat) : Int) * fee1
       if bd < 0 then -bd else 0) := by
  have hmpos : 0 < toSatoshis o.minUnitsMatch := Nat.mul_pos hm baseSupplyUnit_pos
  generalize hU : toSatoshis o.unitsUnfulfilled = U
  generalize hM : toSatoshis o.minUnitsMatch = m at hmpos
  generalize hF : (estimateTraderFee 1 o.maxBatchFeeRate ver : Int) = fee1
  have hdm := Nat.div_add_mod U m
  have hdmI : (m : Int) * ((U / m : Nat) : Int) + ((U % m : Nat) : Int) = (U : Int) := by exact_mod_cast hdm
  have hmne : m ≠ 0 := Nat.pos_iff_ne_zero.mp hmpos
  unfold reservedValue
  simp only [hna, hU, hM, hF, hmne, if_false, Bool.false_eq_true]
  by_cases hc : ((U / m : Nat) : Int) * (m : Int) < (U : Int)
  · have hrem : U % m ≠ 0 := by
      intro h0
      have h0' : ((U % m : Nat) : Int) = 0 := by rw [h0]; rfl
      rw [h0'] at hdmI; nlinarith
    have hremval : (U : Int) - (((U / m : Nat) : Int) - 1) * (m : Int) = ((m + U % m : Nat) : Int) := by
      push_cast; nlinarith
    have hpos : (0 : Int) < ((m + U % m : Nat) : Int) := by
      exact_mod_cast Nat.add_pos_left hmpos _
    simp only [hc, if_true, hremval, hpos, Int.toNat_natCast, hrem, ne_eq, not_false_eq_true]
    split <;> rfl
  · have hrem : U % m = 0 := by
      by_contra h
      have : 0 < U % m := Nat.pos_of_ne_zero h
      have : (0 : Int) < ((U % m : Nat) : Int) := by exact_mod_cast this
      apply hc; nlinarith
    simp only [hc, if_false, lt_self_iff_false, hrem, ne_eq, not_true_eq_false]
    split <;> rfl

theorem orderReservedValue_eq (fs : FeeSchedule) (o : Order) (ver : Nat) :
    orderReservedValue fs o ver = reservedValue o (perMatch fs o) ver := by
  unfold orderReservedValue perMatch; split <;> rfl

/-- **closed form**: for an active order with a non-zero minimum match, `ReservedValue` is the negated closed-form
    balance delta, clipped at 0 -/
theorem reservedValue_closed (fs : FeeSchedule) (o : Order) (ver : Nat)
    (hna : archived o.state = false) (hm : 0 < o.minUnitsMatch) :
    orderReservedValue fs o ver =
      .ok (if closedBalanceDelta fs o ver < 0 then -closedBalanceDelta fs o ver else 0) := by
  rw [orderReservedValue_eq, reservedValue_closed_gen o _ ver hna hm]
  rfl


/-- the value fits Go's `int64` -/
def In64 (v : Int) : Prop := -(2 : Int) ^ 63 ≤ v ∧ v < (2 : Int) ^ 63

/-- the box part of `inDomain` and its two premium guards, as propositions -/
structure Dom (fs : FeeSchedule) (o : Order) : Prop where
  unf : o.unitsUnfulfilled ≤ 10 ^ 7
  mn : o.minUnitsMatch ≤ 10 ^ 7
  self : o.selfChanBalance ≤ 10 ^ 11
  base : fs.baseFee ≤ 10 ^ 9
  ppm : fs.feeRate ≤ 10 ^ 6
  maxFee : o.maxBatchFeeRate ≤ 10 ^ 8
  g1 : (toSatoshis o.unitsUnfulfilled + maxMatches o * o.selfChanBalance) * o.fixedRate * o.leaseDuration
        ≤ 2 ^ 48 * feeRateTotalParts
  g2 : (toSatoshis o.unitsUnfulfilled + 2 * toSatoshis o.minUnitsMatch + o.selfChanBalance) * o.fixedRate * o.leaseDuration
        ≤ 2 ^ 48 * feeRateTotalParts

theorem dom_of_inDomain (fs : FeeSchedule) (o : Order) (h : inDomain fs o = true) : Dom fs o := by
  simp only [inDomain, premiumGuard, Bool.and_eq_true, decide_eq_true_eq] at h
  obtain ⟨⟨⟨⟨⟨⟨⟨⟨⟨⟨⟨h1, h2⟩, _⟩, _⟩, h5⟩, h6⟩, h7⟩, h8⟩, _⟩, _⟩, h11⟩, h12⟩ := h
  exact ⟨h1, h2, h5, h6, h7, h8, h11, h12⟩

/-- a premium on an amount `y` with `y·rate·dur ≤ 2^48·10^9` is below 2^49 -/
theorem premium_le_of_guard (y rate dur : Nat) (h : y * rate * dur ≤ 2 ^ 48 * feeRateTotalParts) :
    premium y rate dur ≤ 2 ^ 49 := by
  have hp := premium_le y rate dur
  have hK : (0 : ℚ) < (feeRateTotalParts : ℚ) := by exact_mod_cast feeRateTotalParts_pos
  have hq : ((y * rate * dur : ℕ) : ℚ) ≤ ((2 ^ 48 * feeRateTotalParts : ℕ) : ℚ) := by exact_mod_cast h
  have hc : (y : ℚ) * cRate rate dur ≤ 2 ^ 48 := by
    unfold cRate
    rw [← mul_div_assoc, div_le_iff₀ hK]
    push_cast at hq ⊢
    nlinarith
  have he : (1 : ℚ) + eps ≤ 2 := by unfold eps; norm_num
  have h0 : (0 : ℚ) ≤ (y : ℚ) * cRate rate dur := mul_nonneg (Nat.cast_nonneg _) (cRate_nonneg _ _)
  have : (premium y rate dur : ℚ) ≤ 2 ^ 49 := by nlinarith
  exact_mod_cast this

/-- `k` premiums on `y` with `k·y·rate·dur ≤ 2^48·10^9` sum to less than 2^49 -/
theorem mul_premium_le_of_guard (k y rate dur : Nat) (h : k * y * rate * dur ≤ 2 ^ 48 * feeRateTotalParts) :
    k * premium y rate dur ≤ 2 ^ 49 := by
  have hp := premium_le y rate dur
  have hK : (0 : ℚ) < (feeRateTotalParts : ℚ) := by exact_mod_cast feeRateTotalParts_pos
  have hq : ((k * y * rate * dur : ℕ) : ℚ) ≤ ((2 ^ 48 * feeRateTotalParts : ℕ) : ℚ) := by exact_mod_cast h
  have hc : (k : ℚ) * ((y : ℚ) * cRate rate dur) ≤ 2 ^ 48 := by
    unfold cRate
    rw [← mul_div_assoc, ← mul_div_assoc, div_le_iff₀ hK]
    push_cast at hq ⊢
    nlinarith
  have he : (1 : ℚ) + eps ≤ 2 := by unfold eps; norm_num
  have h0 : (0 : ℚ) ≤ (y : ℚ) * cRate rate dur := mul_nonneg (Nat.cast_nonneg _) (cRate_nonneg _ _)
  have hk0 : (0 : ℚ) ≤ (k : ℚ) := Nat.cast_nonneg _
  have h1 : (k : ℚ) * (premium y rate dur : ℚ) ≤ k * ((y : ℚ) * cRate rate dur * (1 + eps)) :=
    mul_le_mul_of_nonneg_left hp hk0
  have : ((k * premium y rate dur : ℕ) : ℚ) ≤ 2 ^ 49 := by
    push_cast
    have h2 : (0 : ℚ) ≤ (k : ℚ) * ((y : ℚ) * cRate rate dur) := mul_nonneg hk0 h0
    nlinarith
  exact_mod_cast this


theorem In64.of_bounds {v : Int} (h1 : -(4 * 10 ^ 18 : Int) ≤ v) (h2 : v ≤ 4 * 10 ^ 18) : In64 v := by
  unfold In64; constructor <;> [skip; skip] <;> norm_num at * <;> omega

theorem quot_le_self (fs : FeeSchedule) (y : Nat) (hppm : fs.feeRate ≤ 10 ^ 6) :
    y * fs.feeRate / execFeeRateDivisor ≤ y := by
  apply Nat.div_le_of_le_mul
  have : execFeeRateDivisor = 10 ^ 6 := by decide
  rw [this]; nlinarith

theorem executionFee_le_nat (fs : FeeSchedule) (y : Nat) (hppm : fs.feeRate ≤ 10 ^ 6) :
    executionFee fs y ≤ fs.baseFee + y := by
  unfold executionFee; have := quot_le_self fs y hppm; omega

theorem natCast_bound {n : Nat} (h : n ≤ 4 * 10 ^ 18) : (0 : Int) ≤ (n : Int) ∧ (n : Int) ≤ 4 * 10 ^ 18 :=
  ⟨Int.natCast_nonneg _, by exact_mod_cast h⟩

theorem execFeeParts_bound (fs : FeeSchedule) (y : Nat) (hy : y ≤ 3 * 10 ^ 12) (hppm : fs.feeRate ≤ 10 ^ 6)
    (hbase : fs.baseFee ≤ 10 ^ 9) : ∀ v ∈ execFeeParts fs y, (0 : Int) ≤ v ∧ v ≤ 4 * 10 ^ 18 := by
  have h1 : y * fs.feeRate ≤ 3 * 10 ^ 18 := by nlinarith
  have h2 := quot_le_self fs y hppm
  have h3 := executionFee_le_nat fs y hppm
  intro v hv
  simp only [execFeeParts, List.mem_cons, List.mem_nil_iff, or_false] at hv
  rcases hv with rfl | rfl | rfl
  · exact natCast_bound (by omega)
  · exact natCast_bound (by omega)
  · exact natCast_bound (by omega)

/-- magnitude of the per-match closure -/
theorem perMatch_bound (fs : FeeSchedule) (o : Order) (amt : Nat) (hamt : amt ≤ 2 * 10 ^ 12)
    (hs : o.selfChanBalance ≤ 10 ^ 11) (hppm : fs.feeRate ≤ 10 ^ 6) (hbase : fs.baseFee ≤ 10 ^ 9)
    (hP : premium (if o.isBid then bidPremiumAmt o amt else amt) o.fixedRate o.leaseDuration ≤ 2 ^ 49) :
    -(2 : Int) ^ 50 ≤ perMatch fs o amt ∧ perMatch fs o amt ≤ 2 ^ 49 := by
  unfold perMatch
  by_cases hb : o.isBid = true
  · simp only [hb, if_true] at hP ⊢
    have hσ := sigma_le o
    rw [bidPremiumAmt_eq] at hP
    have hE := executionFee_le_nat fs (amt + sigma o) hppm
    unfold bidPerMatch takerDelta
    rw [bidPremiumAmt_eq]
    constructor <;> norm_num at * <;> omega
  · have hb' : o.isBid = false := by simpa using hb
    simp only [hb', Bool.false_eq_true, if_false] at hP ⊢
    have hE := executionFee_le_nat fs amt hppm
    unfold askPerMatch makerDelta
    constructor <;> norm_num at * <;> omega

theorem perMatchParts_bound (fs : FeeSchedule) (o : Order) (amt : Nat) (hamt : amt ≤ 2 * 10 ^ 12)
    (hs : o.selfChanBalance ≤ 10 ^ 11) (hppm : fs.feeRate ≤ 10 ^ 6) (hbase : fs.baseFee ≤ 10 ^ 9)
    (hP : premium (if o.isBid then bidPremiumAmt o amt else amt) o.fixedRate o.leaseDuration ≤ 2 ^ 49) :
    ∀ v ∈ perMatchParts fs o amt, In64 v := by
  have hpm := perMatch_bound fs o amt hamt hs hppm hbase hP
  unfold perMatch at hpm
  intro v hv
  unfold perMatchParts at hv
  by_cases hb : o.isBid = true
  · simp only [hb, if_true] at hP hv hpm
    have hσ := sigma_le o
    rw [bidPremiumAmt_eq] at hP hv
    have hy : amt + sigma o ≤ 3 * 10 ^ 12 := by norm_num at *; omega
    have hE := execFeeParts_bound fs (amt + sigma o) hy hppm hbase
    simp only [List.mem_append, List.mem_cons, List.mem_nil_iff, or_false] at hv
    rcases hv with ((rfl | rfl | rfl | rfl) | hv) | rfl
    · apply In64.of_bounds <;> norm_num at * <;> omega
    · apply In64.of_bounds <;> norm_num at * <;> omega
    · apply In64.of_bounds <;> norm_num at * <;> omega
    · apply In64.of_bounds <;> norm_num at * <;> omega
    · have := hE v hv; apply In64.of_bounds <;> norm_num at * <;> omega
    · apply In64.of_bounds <;> norm_num at * <;> omega
  · have hb' : o.isBid = false := by simpa using hb
    simp only [hb', Bool.false_eq_true, if_false] at hP hv hpm
    have hy : amt ≤ 3 * 10 ^ 12 := by norm_num at *; omega
    have hE := execFeeParts_bound fs amt hy hppm hbase
    simp only [List.mem_append, List.mem_cons, List.mem_nil_iff, or_false] at hv
    rcases hv with ((rfl | rfl | rfl | rfl) | hv) | rfl
    · apply In64.of_bounds <;> norm_num at * <;> omega
    · apply In64.of_bounds <;> norm_num at * <;> omega
    · apply In64.of_bounds <;> norm_num at * <;> omega
    · apply In64.of_bounds <;> norm_num at * <;> omega
    · have := hE v hv; apply In64.of_bounds <;> norm_num at * <;> omega
    · apply In64.of_bounds <;> norm_num at * <;> omega

theorem traderWeight_one_le (ver : Nat) : traderWeight 1 ver ≤ 1000 := by
  unfold traderWeight
  rcases traderWitness_cases ver with h | h <;> rw [h] <;> decide

theorem traderFeeParts_bound (feeRate ver : Nat) (hf : feeRate ≤ 10 ^ 8) :
    ∀ v ∈ traderFeeParts 1 feeRate ver, (0 : Int) ≤ v ∧ v ≤ 10 ^ 11 := by
  have hw := traderWeight_one_le ver
  have h1 : feeRate * traderWeight 1 ver ≤ 10 ^ 11 := by nlinarith
  have h2 : estimateTraderFee 1 feeRate ver ≤ 10 ^ 8 := by
    unfold estimateTraderFee
    apply Nat.div_le_of_le_mul; nlinarith
  intro v hv
  simp only [traderFeeParts, List.mem_cons, List.mem_nil_iff, or_false] at hv
  rcases hv with rfl | rfl | rfl <;> constructor <;> norm_num at * <;> omega


/-- `N·perMatchDelta(min)` stays far inside `int64`: the premiums add up to < 2^49 by the first premium guard, the
    self balances to ≤ 10^18, the execution fees to ≤ 10^16 + 10^12 + 10^18. -/
theorem n0_perMatch_bound (fs : FeeSchedule) (o : Order) (hd : Dom fs o) (hm : 0 < o.minUnitsMatch) :
    -(21 * 10 ^ 17 : Int) ≤ (maxMatches o : Int) * perMatch fs o (toSatoshis o.minUnitsMatch) ∧
    (maxMatches o : Int) * perMatch fs o (toSatoshis o.minUnitsMatch) ≤ 21 * 10 ^ 17 := by
  have hbsu : baseSupplyUnit = 100000 := by decide
  have hU : toSatoshis o.unitsUnfulfilled ≤ 10 ^ 12 := by
    have := hd.unf; unfold toSatoshis; rw [hbsu]; omega
  have hN : maxMatches o ≤ 10 ^ 7 := le_trans (Nat.div_le_self _ _) hd.unf
  have hNm : maxMatches o * toSatoshis o.minUnitsMatch ≤ toSatoshis o.unitsUnfulfilled := by
    rw [← maxMatches_eq o hm]; exact Nat.div_mul_le_self _ _
  have hs := hd.self
  have hσ := sigma_le o
  set N := maxMatches o with hNdef
  set m := toSatoshis o.minUnitsMatch with hmdef
  set U := toSatoshis o.unitsUnfulfilled with hUdef
  set sb := o.selfChanBalance with hsb
  have hNs : N * sb ≤ 10 ^ 18 := by nlinarith
  have hNσ : N * sigma o ≤ N * sb := Nat.mul_le_mul_left _ hσ
  have hNb : N * fs.baseFee ≤ 10 ^ 16 := by have := hd.base; nlinarith
  unfold perMatch
  by_cases hb : o.isBid = true
  · simp only [hb, if_true]
    -- N premiums
    have hg : N * (m + sigma o) * o.fixedRate * o.leaseDuration ≤ 2 ^ 48 * feeRateTotalParts := by
      refine le_trans ?_ hd.g1
      have : N * (m + sigma o) ≤ U + N * sb := by nlinarith
      exact Nat.mul_le_mul_right _ (Nat.mul_le_mul_right _ this)
    have hNP := mul_premium_le_of_guard N (m + sigma o) o.fixedRate o.leaseDuration hg
    have hE := executionFee_le_nat fs (m + sigma o) hd.ppm
    have hNE : N * executionFee fs (m + sigma o) ≤ N * fs.baseFee + (N * m + N * sigma o) := by
      calc N * executionFee fs (m + sigma o) ≤ N * (fs.baseFee + (m + sigma o)) := Nat.mul_le_mul_left _ hE
        _ = N * fs.baseFee + (N * m + N * sigma o) := by ring
    unfold bidPerMatch takerDelta
    rw [bidPremiumAmt_eq]
    have e : (N : Int) * (-(premium (m + sigma o) o.fixedRate o.leaseDuration : Int) - (sb : Int)
          - (executionFee fs (m + sigma o) : Int)) =
        -((N * premium (m + sigma o) o.fixedRate o.leaseDuration : Nat) : Int) - ((N * sb : Nat) : Int)
          - ((N * executionFee fs (m + sigma o) : Nat) : Int) := by push_cast; ring
    rw [e]
    constructor <;> norm_num at * <;> omega
  · have hb' : o.isBid = false := by simpa using hb
    simp only [hb', Bool.false_eq_true, if_false]
    have hg : N * m * o.fixedRate * o.leaseDuration ≤ 2 ^ 48 * feeRateTotalParts := by
      refine le_trans ?_ hd.g1
      have : N * m ≤ U + N * sb := by omega
      exact Nat.mul_le_mul_right _ (Nat.mul_le_mul_right _ this)
    have hNP := mul_premium_le_of_guard N m o.fixedRate o.leaseDuration hg
    have hE := executionFee_le_nat fs m hd.ppm
    have hNE : N * executionFee fs m ≤ N * fs.baseFee + N * m := by
      calc N * executionFee fs m ≤ N * (fs.baseFee + m) := Nat.mul_le_mul_left _ hE
        _ = N * fs.baseFee + N * m := by ring
    unfold askPerMatch makerDelta
    have e : (N : Int) * (-(m : Int) + (premium m o.fixedRate o.leaseDuration : Int) - (executionFee fs m : Int)) =
        -((N * m : Nat) : Int) + ((N * premium m o.fixedRate o.leaseDuration : Nat) : Int)
          - ((N * executionFee fs m : Nat) : Int) := by push_cast; ring
    rw [e]
    constructor <;> norm_num at * <;> omega


/-- **No `int64` overflow inside the domain.** For an active order with a non-zero minimum match inside `inDomain`,
    every integer intermediate of `ReservedValue` (in program order, `reservedIntermediates`) fits an `int64`. -/
theorem reserved_intermediates_in64 (fs : FeeSchedule) (o : Order) (ver : Nat)
    (hD : inDomain fs o = true) (hm : 0 < o.minUnitsMatch) :
    ∀ v ∈ reservedIntermediates fs o ver, In64 v := by
  have hd := dom_of_inDomain fs o hD
  have hbsu : baseSupplyUnit = 100000 := by decide
  have hU : toSatoshis o.unitsUnfulfilled ≤ 10 ^ 12 := by
    have := hd.unf; unfold toSatoshis; rw [hbsu]; omega
  have hmle : toSatoshis o.minUnitsMatch ≤ 10 ^ 12 := by
    have := hd.mn; unfold toSatoshis; rw [hbsu]; omega
  have hmpos : 0 < toSatoshis o.minUnitsMatch := Nat.mul_pos hm baseSupplyUnit_pos
  have hN : maxMatches o ≤ 10 ^ 7 := le_trans (Nat.div_le_self _ _) hd.unf
  have hNeq := maxMatches_eq o hm
  have hNm : maxMatches o * toSatoshis o.minUnitsMatch ≤ toSatoshis o.unitsUnfulfilled := by
    rw [← hNeq]; exact Nat.div_mul_le_self _ _
  have hr : toSatoshis o.unitsUnfulfilled % toSatoshis o.minUnitsMatch < toSatoshis o.minUnitsMatch :=
    Nat.mod_lt _ hmpos
  have hA := n0_perMatch_bound fs o hd hm
  have hσ := sigma_le o
  have hs := hd.self
  -- premium magnitudes of the two match sizes
  have hPgen : ∀ amt : Nat, amt ≤ 2 * toSatoshis o.minUnitsMatch →
      premium (if o.isBid then bidPremiumAmt o amt else amt) o.fixedRate o.leaseDuration ≤ 2 ^ 49 := by
    intro amt hamt
    apply premium_le_of_guard
    refine le_trans ?_ hd.g2
    apply Nat.mul_le_mul_right; apply Nat.mul_le_mul_right
    split
    · rw [bidPremiumAmt_eq]; omega
    · omega
  have hfee := traderFeeParts_bound o.maxBatchFeeRate ver hd.maxFee
  have hfee1 : (0 : Int) ≤ (estimateTraderFee 1 o.maxBatchFeeRate ver : Int) ∧
      (estimateTraderFee 1 o.maxBatchFeeRate ver : Int) ≤ 10 ^ 11 :=
    hfee _ (by simp [traderFeeParts])
  have hNf : (0 : Int) ≤ (maxMatches o : Int) * (estimateTraderFee 1 o.maxBatchFeeRate ver : Int) ∧
      (maxMatches o : Int) * (estimateTraderFee 1 o.maxBatchFeeRate ver : Int) ≤ 10 ^ 18 := by
    have h1 : (0 : Int) ≤ (maxMatches o : Int) := Int.natCast_nonneg _
    have h2 : (maxMatches o : Int) ≤ 10 ^ 7 := by exact_mod_cast hN
    constructor
    · exact mul_nonneg h1 hfee1.1
    · nlinarith [hfee1.1, hfee1.2]
  have hX := perMatch_bound fs o (toSatoshis o.minUnitsMatch) (by omega) hs hd.ppm hd.base
    (hPgen _ (by omega))
  have hY := perMatch_bound fs o (toSatoshis o.minUnitsMatch + toSatoshis o.unitsUnfulfilled % toSatoshis o.minUnitsMatch)
    (by omega) hs hd.ppm hd.base (hPgen _ (by omega))
  have hpmX := perMatchParts_bound fs o (toSatoshis o.minUnitsMatch) (by omega) hs hd.ppm hd.base (hPgen _ (by omega))
  have hpmY := perMatchParts_bound fs o
    (toSatoshis o.minUnitsMatch + toSatoshis o.unitsUnfulfilled % toSatoshis o.minUnitsMatch)
    (by omega) hs hd.ppm hd.base (hPgen _ (by omega))
  have hNmI : ((maxMatches o : Int)) * (toSatoshis o.minUnitsMatch : Int) ≤ (toSatoshis o.unitsUnfulfilled : Int) := by
    exact_mod_cast hNm
  have hNmI0 : (0 : Int) ≤ ((maxMatches o : Int)) * (toSatoshis o.minUnitsMatch : Int) :=
    mul_nonneg (Int.natCast_nonneg _) (Int.natCast_nonneg _)
  -- abbreviations
  unfold reservedIntermediates closedBalanceDelta
  simp only [hNeq]
  generalize hUg : toSatoshis o.unitsUnfulfilled = U at *
  generalize hmg : toSatoshis o.minUnitsMatch = m at *
  generalize hng : maxMatches o = N at *
  generalize hfg : estimateTraderFee 1 o.maxBatchFeeRate ver = f at *
  generalize hXg : perMatch fs o m = X at *
  generalize hYg : perMatch fs o (m + U % m) = Y at *
  generalize hAg : (N : Int) * X = A at *
  generalize hCg : (N : Int) * (f : Int) = C at *
  generalize hMg : (N : Int) * (m : Int) = M at *
  have e1 : ((N : Int) - 1) * X = A - X := by rw [← hAg]; ring
  have e2 : ((N : Int) - 1) * (f : Int) = C - f := by rw [← hCg]; ring
  have e3 : ((N : Int) - 1) * (m : Int) = M - m := by rw [← hMg]; ring
  have hUI : (U : Int) ≤ 10 ^ 12 := by exact_mod_cast hU
  have hmI : (m : Int) ≤ 10 ^ 12 := by exact_mod_cast hmle
  have hNI : (N : Int) ≤ 10 ^ 7 := by exact_mod_cast hN
  have hrI : ((m + U % m : Nat) : Int) ≤ 2 * 10 ^ 12 := by
    have : m + U % m ≤ 2 * 10 ^ 12 := by omega
    exact_mod_cast this
  intro v hv
  by_cases hrem : U % m ≠ 0
  · simp only [hrem, ne_eq, not_false_eq_true, if_true, e1, e2, e3, List.mem_append, List.mem_cons,
      List.mem_nil_iff, or_false] at hv
    rcases hv with ((((rfl | rfl | rfl | rfl) | hv) | hv) | ((rfl | rfl | rfl) | hv) | (rfl | rfl | rfl | rfl)) | (rfl | rfl)
    all_goals first
      | exact hpmX v hv
      | exact hpmY v hv
      | (have := hfee v hv; apply In64.of_bounds <;> norm_num at * <;> omega)
      | (apply In64.of_bounds <;> norm_num at * <;> omega)
  · simp only [hrem, if_false, List.mem_append, List.mem_cons, List.mem_nil_iff, or_false] at hv
    rcases hv with ((((rfl | rfl | rfl | rfl) | hv) | hv) | (rfl | rfl)) | (rfl | rfl)
    all_goals first
      | exact hpmX v hv
      | (have := hfee v hv; apply In64.of_bounds <;> norm_num at * <;> omega)
      | (apply In64.of_bounds <;> norm_num at * <;> omega)


/-! ## magnitude of one reserved value and the running sum of `validateOrder` -/

/-- inside the domain a reserved value is at most 2.2·10^18 -/
theorem closedBalanceDelta_ge (fs : FeeSchedule) (o : Order) (ver : Nat)
    (hD : inDomain fs o = true) (hm : 0 < o.minUnitsMatch) :
    -(22 * 10 ^ 17 : Int) ≤ closedBalanceDelta fs o ver := by
  have hd := dom_of_inDomain fs o hD
  have hbsu : baseSupplyUnit = 100000 := by decide
  have hmle : toSatoshis o.minUnitsMatch ≤ 10 ^ 12 := by
    have := hd.mn; unfold toSatoshis; rw [hbsu]; omega
  have hmpos : 0 < toSatoshis o.minUnitsMatch := Nat.mul_pos hm baseSupplyUnit_pos
  have hN : maxMatches o ≤ 10 ^ 7 := le_trans (Nat.div_le_self _ _) hd.unf
  have hNeq := maxMatches_eq o hm
  have hr : toSatoshis o.unitsUnfulfilled % toSatoshis o.minUnitsMatch < toSatoshis o.minUnitsMatch :=
    Nat.mod_lt _ hmpos
  have hA := n0_perMatch_bound fs o hd hm
  have hs := hd.self
  have hPgen : ∀ amt : Nat, amt ≤ 2 * toSatoshis o.minUnitsMatch →
      premium (if o.isBid then bidPremiumAmt o amt else amt) o.fixedRate o.leaseDuration ≤ 2 ^ 49 := by
    intro amt hamt
    apply premium_le_of_guard
    refine le_trans ?_ hd.g2
    apply Nat.mul_le_mul_right; apply Nat.mul_le_mul_right
    have hσ := sigma_le o
    split
    · rw [bidPremiumAmt_eq]; omega
    · omega
  have hfeeN : estimateTraderFee 1 o.maxBatchFeeRate ver ≤ 10 ^ 8 := by
    have hw := traderWeight_one_le ver
    have := hd.maxFee
    unfold estimateTraderFee
    apply Nat.div_le_of_le_mul; nlinarith
  have hfee1 : (0 : Int) ≤ (estimateTraderFee 1 o.maxBatchFeeRate ver : Int) ∧
      (estimateTraderFee 1 o.maxBatchFeeRate ver : Int) ≤ 10 ^ 8 :=
    ⟨Int.natCast_nonneg _, by exact_mod_cast hfeeN⟩
  have hNf : (maxMatches o : Int) * (estimateTraderFee 1 o.maxBatchFeeRate ver : Int) ≤ 10 ^ 15 := by
    have h1 : (0 : Int) ≤ (maxMatches o : Int) := Int.natCast_nonneg _
    have h2 : (maxMatches o : Int) ≤ 10 ^ 7 := by exact_mod_cast hN
    nlinarith [hfee1.1, hfee1.2]
  have hNf0 : (0 : Int) ≤ (maxMatches o : Int) * (estimateTraderFee 1 o.maxBatchFeeRate ver : Int) :=
    mul_nonneg (Int.natCast_nonneg _) hfee1.1
  have hX := perMatch_bound fs o (toSatoshis o.minUnitsMatch) (by omega) hs hd.ppm hd.base (hPgen _ (by omega))
  have hY := perMatch_bound fs o (toSatoshis o.minUnitsMatch + toSatoshis o.unitsUnfulfilled % toSatoshis o.minUnitsMatch)
    (by omega) hs hd.ppm hd.base (hPgen _ (by omega))
  unfold closedBalanceDelta
  simp only [hNeq]
  generalize toSatoshis o.unitsUnfulfilled = U at *
  generalize toSatoshis o.minUnitsMatch = m at *
  generalize maxMatches o = N at *
  generalize estimateTraderFee 1 o.maxBatchFeeRate ver = f at *
  generalize perMatch fs o m = X at *
  generalize perMatch fs o (m + U % m) = Y at *
  generalize hAg : (N : Int) * X = A at *
  generalize hCg : (N : Int) * (f : Int) = C at *
  have e1 : ((N : Int) - 1) * X = A - X := by rw [← hAg]; ring
  have e2 : ((N : Int) - 1) * (f : Int) = C - f := by rw [← hCg]; ring
  split
  · rw [e1, e2]; norm_num at *; omega
  · norm_num at *; omega

/-- `0 ≤ ReservedValue ≤ 2.2·10^18` for every order of the domain (archived or active with a minimum match) -/
theorem reservedOf_bounds (fs : FeeSchedule) (o : Order) (ver : Nat)
    (h : archived o.state = true ∨ (inDomain fs o = true ∧ 0 < o.minUnitsMatch)) :
    0 ≤ reservedOf fs ver o ∧ reservedOf fs ver o ≤ 22 * 10 ^ 17 := by
  by_cases ha : archived o.state = true
  · have : orderReservedValue fs o ver = .ok 0 := by unfold orderReservedValue reservedValue; simp [ha]
    simp [reservedOf, this]
  · have hna : archived o.state = false := by simpa using ha
    rcases h with h | ⟨hD, hm⟩
    · exact absurd h ha
    · have hc := reservedValue_closed fs o ver hna hm
      have hb := closedBalanceDelta_ge fs o ver hD hm
      simp only [reservedOf, hc]
      split <;> constructor <;> omega

/-- the running sums of `validateOrder` grow by at most 2.2·10^18 per evaluated order -/
theorem runningSums_bound (fs : FeeSchedule) (acct : Account) (db : List Order) (acc : Int) (k : Nat)
    (hacc : 0 ≤ acc ∧ acc ≤ (k : Int) * (22 * 10 ^ 17))
    (hdom : ∀ x ∈ db, x.acctKey = acct.key →
      archived x.state = true ∨ (inDomain fs x = true ∧ 0 < x.minUnitsMatch)) :
    ∀ v ∈ runningSums fs acct acc db,
      0 ≤ v ∧ v ≤ ((k + (db.filter (fun x => x.acctKey = acct.key)).length : Nat) : Int) * (22 * 10 ^ 17) := by
  induction db generalizing acc k with
  | nil => intro v hv; simp [runningSums] at hv
  | cons x rest ih =>
    intro v hv
    unfold runningSums at hv
    by_cases hk : x.acctKey = acct.key
    · simp only [hk, ne_eq, not_true_eq_false, if_false] at hv
      have hb := reservedOf_bounds fs x acct.version (hdom x List.mem_cons_self hk)
      cases hx : orderReservedValue fs x acct.version with
      | panic => simp [hx] at hv
      | ok r =>
        have hr : reservedOf fs acct.version x = r := by simp [reservedOf, hx]
        rw [hr] at hb
        simp only [hx, List.mem_cons] at hv
        have hlen : (List.filter (fun y => decide (y.acctKey = acct.key)) (x :: rest)).length =
            (List.filter (fun y => decide (y.acctKey = acct.key)) rest).length + 1 := by
          simp [List.filter_cons, hk]
        rcases hv with rfl | hv
        · rw [hlen]; push_cast; constructor <;> nlinarith [hacc.1, hacc.2, hb.1, hb.2]
        · have := ih (acc + r) (k + 1) (by push_cast; constructor <;> nlinarith [hacc.1, hacc.2, hb.1, hb.2])
            (fun y hy => hdom y (List.mem_cons_of_mem _ hy)) v hv
          rw [hlen]
          have e : k + 1 + (List.filter (fun y => decide (y.acctKey = acct.key)) rest).length =
              k + ((List.filter (fun y => decide (y.acctKey = acct.key)) rest).length + 1) := by omega
          rw [e] at this; exact this
    · simp only [hk, ne_eq, not_false_eq_true, if_true] at hv
      have := ih acc k hacc (fun y hy => hdom y (List.mem_cons_of_mem _ hy)) v hv
      have hlen : (List.filter (fun y => decide (y.acctKey = acct.key)) (x :: rest)).length =
          (List.filter (fun y => decide (y.acctKey = acct.key)) rest).length := by
        simp [List.filter_cons, hk]
      rw [hlen]; exact this


/-- `runningSums` ends in the total `validateOrder` compares with the account value -/
theorem runningSums_last (fs : FeeSchedule) (acct : Account) (db : List Order) (r0 rs : Int)
    (h : sumReserved fs acct db = some rs) :
    (r0 :: runningSums fs acct r0 db).getLast? = some (r0 + rs) := by
  induction db generalizing r0 rs with
  | nil => simp [sumReserved] at h; simp [runningSums, ← h]
  | cons x rest ih =>
    unfold sumReserved at h
    unfold runningSums
    by_cases hk : x.acctKey = acct.key
    · simp only [hk, ne_eq, not_true_eq_false, if_false] at h ⊢
      cases hx : orderReservedValue fs x acct.version with
      | panic => simp [hx] at h
      | ok v =>
        simp only [hx] at h ⊢
        cases hr : sumReserved fs acct rest with
        | none => simp [hr] at h
        | some r =>
          simp only [hr, Option.map_some, Option.some.injEq] at h
          have := ih (r0 + v) r hr
          rw [List.getLast?_cons_cons, this, ← h]
          congr 1; ring
    · simp only [hk, ne_eq, not_false_eq_true, if_true] at h ⊢
      exact ih r0 rs h

end Pool.C11
