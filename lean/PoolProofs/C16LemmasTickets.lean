import PoolProofs.C16LemmasInv
/-! C16: the ticket invariant (who holds a signed ticket, what travels on the wire) and its preservation; consequence:
every successful `ExpectChannel` of a reachable run is for a ticket with the provider's valid signatures. -/
namespace Pool.C16
open Pool.Gen.C16

def Base (t : Ticket) : Prop := t.id = 0 ∧ t.offerSig = .valid
def Sgn (t : Ticket) : Prop := ∃ o, t.order = some o ∧ o.sig = .valid ∧ o.nonce ≠ 0
def MsgOK (t : Ticket) : Prop := Base t ∧ (t.state = 1 ∨ t.state = 6 ∨ Sgn t)

structure InvB (s : Sys) : Prop where
  toR : ∀ t ∈ s.toR, MsgOK t
  toP : ∀ t ∈ s.toP, Base t
  ploc : ∀ l, s.p.loc = some l → Base l ∧ (s.p.alive = true → (s.p.cur = 3 ∨ s.p.cur = 4) → Sgn l)
  pin : ∀ t, s.p.inbox = some t → Base t
  plp : ∀ t, s.p.loopPkt = some t → Base t
  pstore : Base s.p.store ∧ (s.p.store.state = 4 → Sgn s.p.store)
  rloc : ∀ l, s.r.loc = some l → Base l
  rin : ∀ t, s.r.inbox = some t → Base t ∧ (s.r.cur = 4 → t.state = 1 ∨ t.state = 6 ∨ Sgn t)
  rlp : s.r.loopPkt = none
  rstore : Base s.r.store ∧ (s.r.store.state = 4 → Sgn s.r.store)
  log : ∀ t, (false, Eff.expect t true) ∈ s.log → Base t ∧ Sgn t

@[simp] theorem Base_state (t : Ticket) (n : Nat) : Base { t with state := n } ↔ Base t := Iff.rfl
@[simp] theorem Sgn_state (t : Ticket) (n : Nat) : Sgn { t with state := n } ↔ Sgn t := Iff.rfl

theorem signForOrder_spec (l l' : Ticket) (h : signForOrder l = some l') : (Base l → Base l') ∧ Sgn l' := by
  unfold signForOrder at h
  split at h
  · simp at h; subst h
    exact ⟨fun hb => hb, ⟨⟨1, .valid⟩, rfl, rfl, by decide⟩⟩
  · simp at h

@[simp] theorem takePkt_loopPkt (x : Party) : (takePkt x).loopPkt = x.loopPkt := by
  unfold takePkt; split <;> rfl

theorem takePkt_inbox_imp (x : Party) (t : Ticket) (h : (takePkt x).inbox = some t) : x.inbox = some t := by
  unfold takePkt at h; split at h
  · exact h
  · simp at h

theorem nextPkt_Base_P (s : Sys) (hB : InvB s) (pkt : Ticket) (h : nextPkt s.p = some pkt) : Base pkt := by
  unfold nextPkt at h
  split at h
  · exact hB.plp pkt h
  · exact hB.pin pkt h

theorem stepB_procP (s s' : Sys) (hA : InvA s) (hB : InvB s) (ha : applyG true s (.proc true) = some s') :
    InvB s' := by
  obtain ⟨hnp, hpst, hpal, hrst, hral⟩ := hA
  simp only [applyG, getParty, if_true, hnp] at ha
  by_cases hal : s.p.alive = true
  · obtain ⟨⟨l, hl⟩, hrel⟩ := hpal hal
    simp only [hal, Bool.not_true, Bool.or_false, Bool.false_eq_true, if_false] at ha
    cases hn : nextPkt s.p with
    | none => simp [hn] at ha
    | some pkt =>
      have hpk := nextPkt_Base_P s hB pkt hn
      obtain ⟨hlB, hlS⟩ := hB.ploc l hl
      have hlS' := hlS hal
      simp only [hn] at ha
      unfold procStep at ha
      simp only [if_true, takePkt_loc, takePkt_cur, hl] at ha
      have ho := stepProvider_POut s s.p.cur pkt l
      generalize stepProvider (envP s) s.p.cur (some pkt) (some l) = o at ho ha
      obtain ⟨b1, b2, b3, b4, b5, b6, b7, b8, b9, b10, b11⟩ := hB
      cases ho
      case submitOk l' _ _ hsg =>
        have hs := signForOrder_spec l l' hsg
        simp [setParty, applyEffs, applyEff, getParty] at ha; subst ha
        refine ⟨?_, ?_, ?_, ?_, ?_, ?_, ?_, ?_, ?_, ?_, ?_⟩ <;> (try simp_all [MsgOK, sOffered, sRegistered, sOrdered, sExpecting, sCanceled, sCompleted])
        all_goals first
          | (intro t ht; exact b4 t (takePkt_inbox_imp _ _ ht))
          | (intros; subst_vars; assumption)
      case submitDup l' _ hsg =>
        have hs := signForOrder_spec l l' hsg
        simp [setParty, applyEffs, applyEff, getParty] at ha; subst ha
        refine ⟨?_, ?_, ?_, ?_, ?_, ?_, ?_, ?_, ?_, ?_, ?_⟩ <;> (try simp_all [MsgOK, sOffered, sRegistered, sOrdered, sExpecting, sCanceled, sCompleted])
        all_goals first
          | (intro t ht; exact b4 t (takePkt_inbox_imp _ _ ht))
          | (intros; subst_vars; assumption)
      case finalOk hc hid =>
        clear hid
        simp [setParty, applyEffs, applyEff, getParty] at ha; subst ha
        refine ⟨?_, ?_, ?_, ?_, ?_, ?_, ?_, ?_, ?_, ?_, ?_⟩ <;>
          (try simp_all [MsgOK, sOffered, sRegistered, sOrdered, sExpecting, sCanceled, sCompleted])
        all_goals first
          | (intro t ht; exact b4 t (takePkt_inbox_imp _ _ ht))
          | (intros; subst_vars; assumption)
          | (intro t ht; rcases ht with ht | rfl <;> first | exact b1 t ht | exact b2 t ht | simp_all)
          | trace_state
      all_goals
        simp [setParty, applyEffs, applyEff, getParty] at ha <;> subst ha <;>
        refine ⟨?_, ?_, ?_, ?_, ?_, ?_, ?_, ?_, ?_, ?_, ?_⟩ <;>
        (try simp_all [MsgOK, sOffered, sRegistered, sOrdered, sExpecting, sCanceled, sCompleted])
      all_goals first
        | (intro t ht; exact b4 t (takePkt_inbox_imp _ _ ht))
        | (intros; subst_vars; assumption)
        | (intro t ht; rcases ht with ht | rfl <;> first | exact b1 t ht | exact b2 t ht | simp_all)
        | trace_state
  · simp [hal] at ha

theorem takePkt_of_lp_none (x : Party) (h : x.loopPkt = none) : takePkt x = { x with inbox := none } := by
  unfold takePkt; simp [h]

theorem validSigned_split (t : Ticket) (h : ValidSigned t) : Base t ∧ Sgn t :=
  ⟨⟨h.1, h.2.1⟩, h.2.2⟩

theorem stepB_procR (s s' : Sys) (hA : InvA s) (hB : InvB s) (ha : applyG true s (.proc false) = some s') :
    InvB s' := by
  obtain ⟨hnp, hpst, hpal, hrst, hral⟩ := hA
  simp only [applyG, getParty, Bool.false_eq_true, if_false, hnp] at ha
  by_cases hal : s.r.alive = true
  · obtain ⟨⟨l, hl⟩, hrel⟩ := hral hal
    simp only [hal, Bool.not_true, Bool.or_false, Bool.false_eq_true, if_false] at ha
    cases hn : nextPkt s.r with
    | none => simp [hn] at ha
    | some pkt =>
      have hin : s.r.inbox = some pkt := by
        unfold nextPkt at hn; simpa [hB.rlp] using hn
      obtain ⟨hpk, hpk4⟩ := hB.rin pkt hin
      have hlB := hB.rloc l hl
      simp only [hn] at ha
      unfold procStep at ha
      simp only [Bool.false_eq_true, if_false, takePkt_loc, takePkt_cur, hl] at ha
      rw [takePkt_of_lp_none _ hB.rlp] at ha
      have ho := stepRecipient_ROut s s.r.cur l pkt
      generalize stepRecipient (envR s) s.r.cur (some l) (some pkt) = o at ho ha
      obtain ⟨b1, b2, b3, b4, b5, b6, b7, b8, b9, b10, b11⟩ := hB
      cases ho
      case expectOk p' _ _ hv hde =>
        have hp' := driverExpect_ok _ _ _ hde
        have hvs := validSigned_split pkt (validateOrdered_sound pkt hv)
        subst hp'
        simp [setParty, applyEffs, applyEff, getParty] at ha; subst ha
        refine ⟨?_, ?_, ?_, ?_, ?_, ?_, ?_, ?_, ?_, ?_, ?_⟩ <;> (try simp_all [MsgOK, sOffered, sRegistered, sOrdered, sExpecting, sCanceled, sCompleted])
        all_goals first
          | (intro t ht; exact b4 t (takePkt_inbox_imp _ _ ht))
          | (intros; subst_vars; assumption)
          | (intro t ht; rcases ht with ht | rfl <;> first | exact b1 t ht | exact b2 t ht | simp_all)
          | (intro t ht; rcases ht with rfl | ht <;> first | exact b11 t ht | simp_all)
          | trace_state
      case reexpOk p' hc4 h1 h6 hde =>
        have hp' := driverExpect_ok _ _ _ hde
        have hsg : Sgn pkt := by
          rcases hpk4 hc4 with h | h | h
          · exact absurd h h1
          · exact absurd h h6
          · exact h
        subst hp'
        simp [setParty, applyEffs, applyEff, getParty] at ha; subst ha
        refine ⟨?_, ?_, ?_, ?_, ?_, ?_, ?_, ?_, ?_, ?_, ?_⟩ <;> (try simp_all [MsgOK, sOffered, sRegistered, sOrdered, sExpecting, sCanceled, sCompleted])
        all_goals first
          | (intro t ht; exact b4 t (takePkt_inbox_imp _ _ ht))
          | (intros; subst_vars; assumption)
          | (intro t ht; rcases ht with ht | rfl <;> first | exact b1 t ht | exact b2 t ht | simp_all)
          | (intro t ht; rcases ht with rfl | ht <;> first | exact b11 t ht | simp_all)
          | trace_state
      all_goals
        simp [setParty, applyEffs, applyEff, getParty] at ha <;> subst ha <;>
        refine ⟨?_, ?_, ?_, ?_, ?_, ?_, ?_, ?_, ?_, ?_, ?_⟩ <;> (try simp_all [MsgOK, sOffered, sRegistered, sOrdered, sExpecting, sCanceled, sCompleted])
      all_goals first
          | (intro t ht; exact b4 t (takePkt_inbox_imp _ _ ht))
          | (intros; subst_vars; assumption)
          | (intro t ht; rcases ht with ht | rfl <;> first | exact b1 t ht | exact b2 t ht | simp_all)
          | (intro t ht; rcases ht with rfl | ht <;> first | exact b11 t ht | simp_all)
          | trace_state
  · simp [hal] at ha


theorem restart_store (s : Sys) (prov : Bool) :
    (restart prov s).p.store = s.p.store ∧ (restart prov s).r.store = s.r.store := by
  cases prov <;> unfold restart restartParty <;> simp [setParty, getParty] <;> split <;> simp

theorem restartB (s : Sys) (prov : Bool) (hB : InvB s) (hp : PSt s.p.store.state) : InvB (restart prov s) := by
  obtain ⟨b1, b2, b3, b4, b5, b6, b7, b8, b9, b10, b11⟩ := hB
  cases prov
  · unfold restart restartParty
    by_cases ht : isTerminal s.r.store.state = true
    · simp [ht, setParty, getParty]
      exact ⟨b1, b2, b3, b4, b5, b6, b7, by simp, rfl, b10, b11⟩
    · simp [ht, setParty, getParty]
      refine ⟨b1, b2, b3, b4, b5, b6, ?_, ?_, rfl, b10, b11⟩
      · intro l hl; simp at hl; subst hl; exact b10.1
      · intro t ht'; simp at ht'; subst ht'
        exact ⟨b10.1, fun h4 => Or.inr (Or.inr (b10.2 h4))⟩
  · unfold restart restartParty
    by_cases ht : isTerminal s.p.store.state = true
    · simp [ht, setParty, getParty]
      exact ⟨b1, b2, fun l hl => ⟨(b3 l hl).1, by simp⟩, by simp, by simp, b6, b7, b8, b9, b10, b11⟩
    · simp [ht, setParty, getParty]
      refine ⟨b1, b2, ?_, ?_, by simp, b6, b7, b8, b9, b10, b11⟩
      · intro l hl; simp at hl; subst hl
        refine ⟨b6.1, fun _ hc => b6.2 ?_⟩
        unfold PSt at hp
        simp [resumeState, resumeRemap] at hc
        rcases hp with h | h | h | h | h <;> simp [h] at hc ⊢
      · intro t ht'
        split at ht' <;> simp at ht'
        subst ht'; exact b6.1

/-- what an effect of side `prov` must satisfy to keep the ticket invariant -/
def EffOK (prov : Bool) : Eff → Prop
  | .send false t true => MsgOK t
  | .send true t true => Base t
  | .update t true => Base t ∧ (t.state = 4 → Sgn t)
  | .expect t true => prov = false ∧ Base t ∧ Sgn t
  | _ => True

theorem applyEff_B (prov : Bool) (s : Sys) (e : Eff) (hB : InvB s) (h : EffOK prov e) :
    InvB (applyEff prov s e) := by
  obtain ⟨b1, b2, b3, b4, b5, b6, b7, b8, b9, b10, b11⟩ := hB
  cases e with
  | send tp t ok =>
    cases tp <;> cases ok <;> simp [applyEff, EffOK] at h ⊢
    · exact ⟨b1, b2, b3, b4, b5, b6, b7, b8, b9, b10, fun t ht => b11 t (by simpa using ht)⟩
    · refine ⟨?_, b2, b3, b4, b5, b6, b7, b8, b9, b10, fun t ht => b11 t (by simpa using ht)⟩
      intro t' ht'; simp at ht'; rcases ht' with ht' | rfl
      · exact b1 t' ht'
      · exact h
    · exact ⟨b1, b2, b3, b4, b5, b6, b7, b8, b9, b10, fun t ht => b11 t (by simpa using ht)⟩
    · refine ⟨b1, ?_, b3, b4, b5, b6, b7, b8, b9, b10, fun t ht => b11 t (by simpa using ht)⟩
      intro t' ht'; simp at ht'; rcases ht' with ht' | rfl
      · exact b2 t' ht'
      · exact h
  | update t ok =>
    cases ok <;> cases prov <;> simp [applyEff, EffOK, setParty, getParty] at h ⊢
    · exact ⟨b1, b2, b3, b4, b5, b6, b7, b8, b9, b10, fun t ht => b11 t (by simpa using ht)⟩
    · exact ⟨b1, b2, b3, b4, b5, b6, b7, b8, b9, b10, fun t ht => b11 t (by simpa using ht)⟩
    · exact ⟨b1, b2, b3, b4, b5, b6, b7, b8, b9, h, fun t ht => b11 t (by simpa using ht)⟩
    · exact ⟨b1, b2, b3, b4, b5, h, b7, b8, b9, b10, fun t ht => b11 t (by simpa using ht)⟩
  | submit t r =>
    cases r <;> simp [applyEff] <;>
      exact ⟨b1, b2, b3, b4, b5, b6, b7, b8, b9, b10, fun t ht => b11 t (by simpa using ht)⟩
  | validate t ok =>
    simp [applyEff]
    exact ⟨b1, b2, b3, b4, b5, b6, b7, b8, b9, b10, fun t ht => b11 t (by simpa using ht)⟩
  | expect t ok =>
    cases ok <;> simp [applyEff, EffOK] at h ⊢
    · exact ⟨b1, b2, b3, b4, b5, b6, b7, b8, b9, b10, fun t ht => b11 t (by simpa using ht)⟩
    · obtain ⟨hp, hb, hs⟩ := h
      subst hp
      refine ⟨b1, b2, b3, b4, b5, b6, b7, b8, b9, ⟨hb, fun _ => hs⟩, ?_⟩
      intro t' ht'; simp at ht'; rcases ht' with rfl | ht'
      · exact ⟨hb, hs⟩
      · exact b11 t' ht'
  | spawnFin =>
    cases prov <;> simp [applyEff, setParty, getParty] <;>
      exact ⟨b1, b2, b3, b4, b5, b6, b7, b8, b9, b10, fun t ht => b11 t (by simpa using ht)⟩
  | delMailbox =>
    simp [applyEff]
    exact ⟨b1, b2, b3, b4, b5, b6, b7, b8, b9, b10, fun t ht => b11 t (by simpa using ht)⟩
  | initMailbox =>
    simp [applyEff]
    exact ⟨b1, b2, b3, b4, b5, b6, b7, b8, b9, b10, fun t ht => b11 t (by simpa using ht)⟩

theorem applyEffs_B (prov : Bool) (es : List Eff) :
    ∀ s : Sys, InvB s → (∀ e ∈ es, EffOK prov e) → InvB (applyEffs prov s es) := by
  induction es with
  | nil => intro s hB _; simpa [applyEffs] using hB
  | cons e rest ih =>
    intro s hB h
    have h1 := applyEff_B prov s e hB (h e (by simp))
    have := ih (applyEff prov s e) h1 (fun e' he' => h e' (by simp [he']))
    simpa [applyEffs] using this

theorem POut_effsOK (s : Sys) (pkt l : Ticket) (o : Out) (hpk : Base pkt) (hlB : Base l)
    (hlS : (s.p.cur = 3 ∨ s.p.cur = 4) → Sgn l) (ho : POut s s.p.cur pkt l o) :
    ∀ e ∈ o.effs, EffOK true e := by
  cases ho <;> intro e he <;> simp at he
  case resend _ h1 => subst he; exact ⟨hlB, Or.inl h1⟩
  case persist h2 _ => subst he; exact ⟨hpk, fun h4 => by omega⟩
  case persistFail => subst he; trivial
  case cancel => subst he; trivial
  case submitOk => subst he; trivial
  case submitDup => subst he; trivial
  case submitRej => subst he; trivial
  case finalOk hc _ =>
    rcases he with rfl | rfl
    · exact ⟨hlB, Or.inr (Or.inr (hlS hc))⟩
    · exact ⟨hlB, fun _ => hlS hc⟩
  case finalFail hc =>
    rcases he with rfl | rfl
    · exact ⟨hlB, Or.inr (Or.inr (hlS hc))⟩
    · trivial

theorem ROut_effsOK (s : Sys) (l pkt : Ticket) (o : Out) (hpk : Base pkt) (hlB : Base l)
    (hpk4 : s.r.cur = 4 → pkt.state = 1 ∨ pkt.state = 6 ∨ Sgn pkt) (ho : ROut s s.r.cur l pkt o) :
    ∀ e ∈ o.effs, EffOK false e := by
  cases ho <;> intro e he <;> simp at he
  case resend => subst he; exact hlB
  case expectOk p' _ _ hv hde =>
    have hp' := driverExpect_ok _ _ _ hde
    have hvs := validSigned_split pkt (validateOrdered_sound pkt hv)
    subst hp'
    rcases he with rfl | rfl
    · trivial
    · exact ⟨rfl, hvs.1, hvs.2⟩
  case expectFail => rcases he with rfl | rfl <;> trivial
  case invalid => subst he; trivial
  case cancel => subst he; trivial
  case reexpOk p' hc4 h1 h6 hde =>
    have hp' := driverExpect_ok _ _ _ hde
    subst hp' he
    refine ⟨rfl, hpk, ?_⟩
    rcases hpk4 hc4 with h | h | h
    · exact absurd h h1
    · exact absurd h h6
    · exact h
  case reexpFail => subst he; trivial


theorem stepB_crashP (s s' : Sys) (k : Nat) (hA : InvA s) (hB : InvB s)
    (ha : applyG true s (.procCrash true k) = some s') : InvB s' := by
  have hA' := (stepA s s' _ hA ha).1
  simp only [applyG, getParty, if_true, hA.np] at ha
  by_cases hal : s.p.alive = true
  · obtain ⟨⟨l, hl⟩, _⟩ := hA.pal hal
    simp only [hal, Bool.not_true, Bool.or_false, Bool.false_eq_true, if_false] at ha
    cases hn : nextPkt s.p with
    | none => simp [hn] at ha
    | some pkt =>
      simp only [hn] at ha
      have hpk := nextPkt_Base_P s hB pkt hn
      obtain ⟨hlB, hlS⟩ := hB.ploc l hl
      have he := procStep_effs_P s (takePkt s.p) pkt
      simp only [takePkt_loc, takePkt_cur, hl] at he
      have ho := stepProvider_POut s s.p.cur pkt l
      have hok := POut_effsOK s pkt l _ hpk hlB (hlS hal) ho
      cases hps : procStep s true (takePkt s.p) pkt with
      | mk x1 es =>
        rw [hps] at he ha
        simp only at he ha
        subst he
        split at ha
        · simp at ha; subst ha
          have h2 := applyEffs_B true (List.take k _) s hB (fun e he => hok e (List.mem_of_mem_take he))
          refine restartB _ true h2 ?_
          rw [← (restart_store _ true).1]; exact hA'.pst
        · simp at ha
  · simp [hal] at ha

theorem stepB_crashR (s s' : Sys) (k : Nat) (hA : InvA s) (hB : InvB s)
    (ha : applyG true s (.procCrash false k) = some s') : InvB s' := by
  have hA' := (stepA s s' _ hA ha).1
  simp only [applyG, getParty, Bool.false_eq_true, if_false, hA.np] at ha
  by_cases hal : s.r.alive = true
  · obtain ⟨⟨l, hl⟩, _⟩ := hA.ral hal
    simp only [hal, Bool.not_true, Bool.or_false, Bool.false_eq_true, if_false] at ha
    cases hn : nextPkt s.r with
    | none => simp [hn] at ha
    | some pkt =>
      simp only [hn] at ha
      have hin : s.r.inbox = some pkt := by
        unfold nextPkt at hn; simpa [hB.rlp] using hn
      obtain ⟨hpk, hpk4⟩ := hB.rin pkt hin
      have hlB := hB.rloc l hl
      have he := procStep_effs_R s (takePkt s.r) pkt
      simp only [takePkt_loc, takePkt_cur, hl] at he
      have ho := stepRecipient_ROut s s.r.cur l pkt
      have hok := ROut_effsOK s l pkt _ hpk hlB hpk4 ho
      cases hps : procStep s false (takePkt s.r) pkt with
      | mk x1 es =>
        rw [hps] at he ha
        simp only at he ha
        subst he
        split at ha
        · simp at ha; subst ha
          have h2 := applyEffs_B false (List.take k _) s hB (fun e he => hok e (List.mem_of_mem_take he))
          refine restartB _ false h2 ?_
          rw [← (restart_store _ false).1]; exact hA'.pst
        · simp at ha
  · simp [hal] at ha

/-- the finalization branch keeps the ticket invariant -/
theorem finB (s : Sys) (prov : Bool) (l : Ticket) (st : Nat) (o : Bool) (hB : InvB s)
    (hl : (getParty s prov).loc = some l) (hst : st = 5 ∨ st = 6) :
    ∀ x' es, finStep true prov (getParty s prov) st o = (some x', es) →
      InvB (applyEffs prov (setParty s prov x') es) := by
  intro x' es he
  unfold finStep at he
  simp only [hl] at he
  simp at he
  obtain ⟨hx, hes⟩ := he
  subst hx hes
  have hlB : Base l := by
    cases prov
    · exact hB.rloc l hl
    · exact (hB.ploc l hl).1
  apply applyEffs_B
  · obtain ⟨b1, b2, b3, b4, b5, b6, b7, b8, b9, b10, b11⟩ := hB
    cases prov
    · simp only [setParty, getParty, Bool.false_eq_true, if_false] at hl ⊢
      refine ⟨b1, b2, b3, b4, b5, b6, ?_, b8, b9, b10, b11⟩
      intro l' hl'; simp at hl'; subst hl'; exact hlB
    · simp only [setParty, getParty, if_true] at hl ⊢
      refine ⟨b1, b2, ?_, b4, b5, b6, b7, b8, b9, b10, b11⟩
      intro l' hl'; simp at hl'; subst hl'; exact ⟨hlB, by simp⟩
  · intro e he
    simp at he
    rcases he with rfl | rfl
    · exact ⟨hlB, fun h4 => by simp at h4; omega⟩
    · split
      · rename_i hn
        have h6 : st = 6 := by simp [sCanceled] at hn; exact hn.1.2
        cases prov
        · simp [EffOK]; exact hlB
        · simp [EffOK, MsgOK]; exact ⟨hlB, Or.inr (Or.inl h6)⟩
      · trivial


theorem storeWriteB (s1 : Sys) (prov : Bool) (t : Ticket) (st : Nat) (hB : InvB s1) (ht : Base t)
    (hst : st ≠ 4) :
    InvB (setParty s1 prov { getParty s1 prov with store := { t with state := st } }) := by
  obtain ⟨b1, b2, b3, b4, b5, b6, b7, b8, b9, b10, b11⟩ := hB
  cases prov
  · simp only [setParty, getParty, Bool.false_eq_true, if_false]
    exact ⟨b1, b2, b3, b4, b5, b6, b7, b8, b9, ⟨ht, fun h => absurd h hst⟩, b11⟩
  · simp only [setParty, getParty, if_true]
    exact ⟨b1, b2, b3, b4, b5, ⟨ht, fun h => absurd h hst⟩, b7, b8, b9, b10, b11⟩

theorem getParty_store_Base (s : Sys) (prov : Bool) (hB : InvB s) : Base (getParty s prov).store := by
  cases prov
  · exact hB.rstore.1
  · exact hB.pstore.1

theorem getParty_loc (s : Sys) (prov : Bool) (hA : InvA s) (hal : (getParty s prov).alive = true) :
    ∃ l, (getParty s prov).loc = some l := by
  cases prov
  · exact (hA.ral hal).1
  · exact (hA.pal hal).1

theorem stepB (s s' : Sys) (a : Act) (hA : InvA s) (hB : InvB s) (ha : applyG true s a = some s') :
    InvB s' := by
  cases a with
  | deliver tp i =>
    simp only [applyG] at ha
    split at ha
    · simp at ha
    · rename_i m hm
      split at ha
      · simp at ha; subst ha
        obtain ⟨b1, b2, b3, b4, b5, b6, b7, b8, b9, b10, b11⟩ := hB
        cases tp
        · simp only [Bool.false_eq_true, if_false] at hm
          have hmem := List.mem_of_getElem? hm
          simp only [setParty, getParty, Bool.false_eq_true, if_false]
          refine ⟨b1, b2, b3, b4, b5, b6, b7, ?_, b9, b10, b11⟩
          intro t ht; simp at ht; subst ht
          exact ⟨(b1 _ hmem).1, fun _ => (b1 _ hmem).2⟩
        · simp only [if_true] at hm
          have hmem := List.mem_of_getElem? hm
          simp only [setParty, getParty, if_true]
          refine ⟨b1, b2, b3, ?_, b5, b6, b7, b8, b9, b10, b11⟩
          intro t ht; simp at ht; subst ht
          exact b2 _ hmem
      · simp at ha
  | proc prov => cases prov; exact stepB_procR s s' hA hB ha; exact stepB_procP s s' hA hB ha
  | procCrash prov k => cases prov; exact stepB_crashR s s' k hA hB ha; exact stepB_crashP s s' k hA hB ha
  | fin prov =>
    simp only [applyG] at ha
    split at ha
    · simp at ha
    · rename_i hc
      have hal : (getParty s prov).alive = true := by
        cases hx : (getParty s prov).alive <;> simp [hx] at hc ⊢
      obtain ⟨l, hl⟩ := getParty_loc s prov hA hal
      have := finB s prov l sCanceled true hB hl (Or.inr rfl)
      split at ha
      · rename_i heq; simp [finStep, hl] at heq
      · rename_i x' es heq
        simp at ha; subst ha
        exact this x' es heq
  | finalize prov st =>
    simp only [applyG] at ha
    split at ha
    · simp at ha
    · rename_i hc
      have hal : (getParty s prov).alive = true := by
        cases hx : (getParty s prov).alive <;> simp [hx] at hc ⊢
      have hst : st = 5 ∨ st = 6 := by
        simp [sCompleted, sCanceled] at hc
        have := hc.2
        omega
      obtain ⟨l, hl⟩ := getParty_loc s prov hA hal
      have := finB s prov l st false hB hl hst
      split at ha
      · rename_i heq; simp [finStep, hl] at heq
      · rename_i x' es heq
        simp at ha; subst ha
        exact this x' es heq
  | stop prov =>
    simp only [applyG] at ha; simp at ha; subst ha
    obtain ⟨b1, b2, b3, b4, b5, b6, b7, b8, b9, b10, b11⟩ := hB
    cases prov
    · simp only [setParty, getParty, Bool.false_eq_true, if_false]
      exact ⟨b1, b2, b3, b4, b5, b6, b7, b8, b9, b10, b11⟩
    · simp only [setParty, getParty, if_true]
      exact ⟨b1, b2, b3, b4, b5, b6, b7, b8, b9, b10, b11⟩
  | quit prov =>
    simp only [applyG] at ha
    split at ha
    · simp at ha; subst ha
      obtain ⟨b1, b2, b3, b4, b5, b6, b7, b8, b9, b10, b11⟩ := hB
      cases prov
      · simp only [setParty, getParty, Bool.false_eq_true, if_false]
        exact ⟨b1, b2, b3, b4, b5, b6, b7, by simp, b9, b10, b11⟩
      · simp only [setParty, getParty, if_true]
        exact ⟨b1, b2, fun l hl => ⟨(b3 l hl).1, by simp⟩, by simp, b5, b6, b7, b8, b9, b10, b11⟩
    · simp at ha
  | restart prov =>
    simp only [applyG] at ha; simp at ha; subst ha
    exact restartB s prov hB hA.pst
  | recvErr prov =>
    simp only [applyG] at ha
    split at ha
    · simp at ha; subst ha
      obtain ⟨b1, b2, b3, b4, b5, b6, b7, b8, b9, b10, b11⟩ := hB
      exact ⟨b1, b2, b3, b4, b5, b6, b7, b8, b9, b10, fun t ht => b11 t (by simpa using ht)⟩
    · simp at ha
  | cancelRPC prov =>
    simp only [applyG] at ha
    split at ha
    · simp at ha
    split at ha
    · simp at ha
    split at ha
    · simp at ha
    split at ha
    · rename_i hal
      obtain ⟨l, hl⟩ := getParty_loc s prov hA hal
      have := finB s prov l sCanceled false hB hl (Or.inr rfl)
      split at ha
      · rename_i heq; simp [finStep, hl] at heq
      · rename_i x' es heq
        simp at ha; subst ha
        exact storeWriteB _ prov _ sCanceled (this x' es heq) (getParty_store_Base s prov hB) (by decide)
    · simp at ha; subst ha
      exact storeWriteB s prov _ sCanceled hB (getParty_store_Base s prov hB) (by decide)
  | completeRPC prov =>
    simp only [applyG] at ha
    split at ha
    · simp at ha
    split at ha
    · simp at ha
    split at ha
    · simp at ha
    split at ha
    · rename_i hal
      obtain ⟨l, hl⟩ := getParty_loc s prov hA hal
      have := finB s prov l sCompleted false hB hl (Or.inl rfl)
      split at ha
      · rename_i heq; simp [finStep, hl] at heq
      · rename_i x' es heq
        simp at ha; subst ha
        exact this x' es heq
    · simp at ha; subst ha
      exact storeWriteB s prov _ sCompleted hB (getParty_store_Base s prov hB) (by decide)

theorem InvB_init : InvB init := by
  refine ⟨?_, ?_, ?_, ?_, ?_, ?_, ?_, ?_, ?_, ?_, ?_⟩ <;>
    simp [init, Base, tOffered, tRegistered, sOffered, sRegistered]

theorem runAB (as : List Act) :
    ∀ s s', InvA s → InvB s → runG true s as = some s' → InvA s' ∧ InvB s' := by
  induction as with
  | nil => intro s s' hA hB h; simp [runG] at h; subst h; exact ⟨hA, hB⟩
  | cons a rest ih =>
    intro s s' hA hB h
    simp only [runG] at h
    split at h
    · simp at h
    · rename_i s1 h1
      exact ih s1 s' (stepA s s1 a hA h1).1 (stepB s s1 a hA hB h1) h

theorem reachable_InvB (s : Sys) (h : Reachable s) : InvB s := by
  obtain ⟨as, has⟩ := h
  unfold run at has
  rw [finReturns_true] at has
  exact (runAB as init s InvA_init InvB_init has).2

end Pool.C16
