import PoolModel.Digest
/-! Helper lemmas shared by C12 and C14: the concatenation of fixed-width encodings is injective. -/
deriving instance DecidableEq for Except

namespace Pool.Digest

theorem beBytes_length (w v : Nat) : (beBytes w v).length = w := by
  induction w generalizing v with
  | zero => rfl
  | succ w ih => simp [beBytes, ih]

theorem u8_ofNat_inj {a b : Nat} (ha : a < 256) (hb : b < 256) (h : UInt8.ofNat a = UInt8.ofNat b) : a = b := by
  have := congrArg UInt8.toNat h
  simp at this
  omega

theorem beBytes_inj (w : Nat) {v v' : Nat} (hv : v < 256 ^ w) (hv' : v' < 256 ^ w)
    (h : beBytes w v = beBytes w v') : v = v' := by
  induction w generalizing v v' with
  | zero => simp at hv hv'; omega
  | succ w ih =>
    simp only [beBytes] at h
    have hl : (beBytes w (v / 256)).length = (beBytes w (v' / 256)).length := by simp [beBytes_length]
    obtain ⟨h1, h2⟩ := List.append_inj h hl
    have h3 : v % 256 = v' % 256 := by
      apply u8_ofNat_inj (Nat.mod_lt _ (by decide)) (Nat.mod_lt _ (by decide))
      simpa using h2
    have hp : 256 ^ (w + 1) = 256 ^ w * 256 := by rw [Nat.pow_succ]
    have h4 : v / 256 = v' / 256 := by
      apply ih
      · apply Nat.div_lt_of_lt_mul; omega
      · apply Nat.div_lt_of_lt_mul; omega
      · exact h1
    omega

def FV.len : FV → Nat
  | .num w _ => w
  | .raw bs => bs.length

/-- numeric values fit their width (the Go value has that integer type) -/
def FV.WF : FV → Prop
  | .num w v => v < 256 ^ w
  | .raw _ => True

/-- same kind and same width: what two executions of the same `WriteElements` call guarantee -/
def FV.sameShape : FV → FV → Prop
  | .num w _, .num w' _ => w = w'
  | .raw x, .raw y => x.length = y.length
  | _, _ => False

theorem FV.enc_length (a : FV) : a.enc.length = a.len := by
  cases a <;> simp [FV.enc, FV.len, beBytes_length]

theorem FV.enc_append_inj {a b : FV} (hs : a.sameShape b) (ha : a.WF) (hb : b.WF) {l l' : List UInt8}
    (h : a.enc ++ l = b.enc ++ l') : a = b ∧ l = l' := by
  cases a with
  | num w v =>
    cases b with
    | num w' v' =>
      simp only [FV.sameShape] at hs; subst hs
      simp only [FV.enc] at h
      obtain ⟨h1, h2⟩ := List.append_inj h (by simp [beBytes_length])
      exact ⟨by rw [beBytes_inj w ha hb h1], h2⟩
    | raw y => simp [FV.sameShape] at hs
  | raw x =>
    cases b with
    | num w' v' => simp [FV.sameShape] at hs
    | raw y =>
      simp only [FV.sameShape] at hs
      simp only [FV.enc] at h
      obtain ⟨h1, h2⟩ := List.append_inj h hs
      exact ⟨by rw [h1], h2⟩

def sameShapeL : List FV → List FV → Prop
  | [], [] => True
  | a :: l, b :: l' => a.sameShape b ∧ sameShapeL l l'
  | _, _ => False

/-- **Concatenation of fixed-width encodings is injective**: two argument lists of the same shape (same
call site) whose numeric values fit their widths and whose encodings are equal, are equal. -/
theorem encAll_inj {l l' : List FV} (hs : sameShapeL l l')
    (hw : ∀ a ∈ l, a.WF) (hw' : ∀ a ∈ l', a.WF) (h : encAll l = encAll l') : l = l' := by
  induction l generalizing l' with
  | nil => cases l' with
    | nil => rfl
    | cons b l' => simp [sameShapeL] at hs
  | cons a l ih =>
    cases l' with
    | nil => simp [sameShapeL] at hs
    | cons b l' =>
      simp only [sameShapeL] at hs
      simp only [encAll] at h
      obtain ⟨h1, h2⟩ := FV.enc_append_inj hs.1 (hw _ (by simp)) (hw' _ (by simp)) h
      rw [h1, ih hs.2 (fun a ha => hw a (by simp [ha])) (fun a ha => hw' a (by simp [ha])) h2]

theorem encAll_length (l : List FV) : (encAll l).length = (l.map FV.len).sum := by
  induction l with
  | nil => rfl
  | cons a l ih => simp [encAll, ih, FV.enc_length]

theorem u64OfInt_lt (a : Int) : u64OfInt a < 256 ^ 8 := by
  unfold u64OfInt; omega

theorem u64OfInt_inj {a b : Int} (ha : -9223372036854775808 ≤ a ∧ a < 9223372036854775808)
    (hb : -9223372036854775808 ≤ b ∧ b < 9223372036854775808) (h : u64OfInt a = u64OfInt b) : a = b := by
  unfold u64OfInt at h; omega

theorem boolNat_lt (b : Bool) : boolNat b < 256 ^ 1 := by cases b <;> decide

theorem boolNat_inj {a b : Bool} (h : boolNat a = boolNat b) : a = b := by
  cases a <;> cases b <;> simp [boolNat] at h <;> rfl

end Pool.Digest
