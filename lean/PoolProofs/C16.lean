import PoolProofs.C16Lemmas
/-!
C16 — sidecar auto-negotiation is safe under any delivery order and restart.

Model: `PoolModel/C16.lean` (`apply : Sys → Act → Option Sys`, one transition per handler invocation of the two run
loops; `Reachable` = any finite action list from `init`: deliveries of any sent ticket any number of times, receive
errors, stop/restart/crash of either side at every step incl. in the middle of a handler, local cancellation or
completion, the hand-off of a received cancellation).  The case tables of the two step functions, the state enum,
`IsTerminal`, the shape of the run loops (incl. "the finalization branch returns") and the resume rules of
`SidecarAcceptor.Start` are REGENERATED from the Go source (`PoolModel/Generated/C16Facts.lean`); the theorems below are
re-checked against them on every run.
-/
namespace Pool.C16
open Pool.Gen.C16

/-! ## (1) the provider submits at most one bid — all schedules, unbounded runs -/

/-- In every reachable state at most one bid was handed to the auctioneer (by induction over every transition). -/
theorem C16_at_most_one_bid (s : Sys) (h : Reachable s) : s.bids ≤ 1 := by
  obtain ⟨as, has⟩ := h
  have hi : BidInv s := runG_BidInv finReturns as init s (by unfold BidInv; rfl) has
  unfold BidInv at hi
  split at hi <;> omega

/-- The same for the loop as it was before the repair (the clause does not depend on the repaired rule). -/
theorem C16_at_most_one_bid_any_rule (ret : Bool) (as : List Act) (s : Sys)
    (h : runG ret init as = some s) : s.bids ≤ 1 := by
  have hi : BidInv s := runG_BidInv ret as init s (by unfold BidInv; rfl) h
  unfold BidInv at hi
  split at hi <;> omega

/-- the happy path (recipient sends, provider handles: persist, submit, send+persist) -/
def happyP : List Act := [.proc false, .deliver true 0, .proc true, .proc true, .proc true]

-- non-vacuity: a bid IS submitted on the happy path, and a restarted provider that is asked again does not
-- submit a second one (the order store rejects the duplicate nonce)
example : (run init happyP).map (·.bids) = some 1 := by decide
example : (run init (happyP ++ [.restart true, .deliver true 0, .proc true])).map (·.bids) = some 1 := by
  decide
example : (run init [.proc false, .deliver true 0, .proc true, .proc true, .procCrash true 0,
    .deliver true 0, .proc true]).map (fun s => (s.bids, s.p.cur, s.p.store.state)) = some (1, 2, 2) := by decide

/-! ## (2) expecting a channel only for a validated ticket -/

/-- FULL statement: every successful `ExpectChannel` of a reachable run is for a ticket that carries the provider's
valid order signature over the registered offer. -/
def C16_expect_only_validated_full_statement : Prop :=
  ∀ s, Reachable s → ∀ t, (false, Eff.expect t true) ∈ s.log → ValidSigned t

/-- Proved part (every step of the recipient, ANY incoming ticket, any local ticket): a successful `ExpectChannel`
happens either right after `validateOrderedTicket` accepted that very ticket — which then carries a valid offer
signature, a valid order signature over a non-zero nonce and is the ticket the store knows — or in the "already
expecting" state (re-registration after a restart; extra hypothesis needed for the full statement: every ticket the
honest provider sends in a state other than offered/canceled is the signed ordered ticket). -/
theorem C16_expect_only_validated_partial (s : Sys) (cur : Nat) (l pkt t' : Ticket)
    (h : Eff.expect t' true ∈ (stepRecipient (envR s) cur (some l) (some pkt)).effs) :
    (cur = sRegistered ∧ pkt.state = sOrdered ∧ ValidSigned pkt ∧ t' = { pkt with state := sExpecting }) ∨
    cur = sExpecting := by
  simp only [stepRecipient, recp_select] at h
  rcases recpBody_expect s l pkt t' _ h with ⟨hi, hv, ht⟩ | hi
  · obtain ⟨hc, hp⟩ := recpSel_two _ _ _ hi
    left; exact ⟨hc, hp, validateOrdered_sound pkt hv, ht⟩
  · right; exact recpSel_four _ _ _ hi

-- non-vacuity: the recipient does start expecting for the signed ordered ticket, and refuses an unsigned one
example : Eff.expect ⟨0, sExpecting, .valid, true, some ⟨1, .valid⟩⟩ true ∈
    (stepRecipient (envR init) sRegistered (some tRegistered)
      (some ⟨0, sOrdered, .valid, true, some ⟨1, .valid⟩⟩)).effs := by decide
example : (stepRecipient (envR init) sRegistered (some tRegistered)
      (some ⟨0, sOrdered, .valid, true, some ⟨1, .bad⟩⟩)).res = .err eValidate := by decide

/-! ## (3) persisted state never moves backwards -/

/-- the order of the property: offered < registered < ordered < expecting < completed; a terminal state never
changes; canceled may be entered from every non-terminal state -/
def Mono (a b : Nat) : Prop :=
  (isTerminal a = true → b = a) ∧ (isTerminal a = false → a ≤ b ∨ b = sCanceled)

def C16_persisted_state_monotone_full_statement : Prop :=
  ∀ s, Reachable s → ∀ a s', apply s a = some s' →
    Mono s.p.store.state s'.p.store.state ∧ Mono s.r.store.state s'.r.store.state

/-- relation between the provider's in-memory state and its persisted ticket state (the loop invariant the full
statement needs: created/offered ↦ offered, registered/ordered ↦ registered, expecting ↦ expecting) -/
def pRel (cur st : Nat) : Prop :=
  ((cur = sCreated ∨ cur = sOffered) ∧ st = sOffered) ∨ ((cur = sRegistered ∨ cur = sOrdered) ∧ st = sRegistered) ∨
  (cur = sExpecting ∧ st = sExpecting) ∨ (cur = sCanceled ∧ (st = sOffered ∨ st = sRegistered ∨ st = sExpecting))

/-- Proved part (every handler step of the provider, ANY incoming and local ticket): the only store writes are
"registered" while the in-memory state is "offered" and "expecting" while it is "ordered"/"expecting" — under
`pRel` each of them is ≥ the persisted state and non-terminal. -/
theorem C16_persisted_state_monotone_partial (s : Sys) (cur w : Nat) (l pkt : Ticket)
    (h : w ∈ writes (stepProvider (envP s) cur (some pkt) (some l)).effs) :
    (cur = sOffered ∧ w = sRegistered) ∨ ((cur = sOrdered ∨ cur = sExpecting) ∧ w = sExpecting) := by
  simp only [stepProvider, prov_select] at h
  rcases provBody_writes _ _ _ _ _ h with ⟨hi, hw⟩ | ⟨hi, hw⟩
  · obtain ⟨hc, hr⟩ := provSel_one _ _ _ hi
    left; exact ⟨hc, by rw [hw, hr]⟩
  · right
    rcases hi with hi | hi
    · exact absurd hi (provSel_ne_four _ _ _)
    · rcases provSel_five _ _ _ hi with hc | hc
      · exact ⟨Or.inr hc, hw⟩
      · exact ⟨Or.inl hc, hw⟩

/-- … so under the loop invariant a write never moves the persisted state backwards -/
theorem C16_persisted_state_monotone_step (s : Sys) (cur st w : Nat) (l pkt : Ticket) (hr : pRel cur st)
    (h : w ∈ writes (stepProvider (envP s) cur (some pkt) (some l)).effs) : Mono st w := by
  rcases C16_persisted_state_monotone_partial s cur w l pkt h with ⟨hc, hw⟩ | ⟨hc, hw⟩ <;>
    unfold pRel at hr <;> unfold Mono <;>
    simp_all [isTerminal, terminalStates, sCreated, sOffered, sRegistered, sOrdered, sExpecting, sCanceled] <;> omega

example : pRel sOffered sOffered ∧
    sRegistered ∈ writes (stepProvider (envP init) sOffered (some tRegistered) (some tOffered)).effs := by
  constructor
  · unfold pRel; simp
  · decide

/-- the recipient's handlers only ever write "expecting" (from registered or expecting) -/
theorem C16_persisted_state_monotone_recipient_partial (s : Sys) (cur : Nat) (l pkt : Ticket) :
    ∀ w ∈ writes (stepRecipient (envR s) cur (some l) (some pkt)).effs, w = sExpecting := by
  intro w h
  simp only [stepRecipient, recp_select] at h
  exact recpBody_writes s l pkt _ w h

/-- the finalization branch writes exactly the final state, then the loop is over (repaired rule) -/
theorem C16_finalization_is_final (prov : Bool) (x : Party) (l : Ticket) (st : Nat) (o : Bool)
    (hl : x.loc = some l) :
    ∃ x' es, finStep finReturns prov x st o = (some x', es) ∧ x'.alive = false ∧ x'.quit = true ∧
      writes es = [st] := by
  unfold finStep
  simp only [hl, finReturns_true]
  refine ⟨_, _, rfl, by simp, by simp, ?_⟩
  cases (!o && st == sCanceled && (!prov || decide (sRegistered ≤ x.cur))) <;> simp [writes]

/-! ## (4) a cancellation ends both -/

def C16_cancel_ends_both_full_statement : Prop :=
  ∀ s, Reachable s → ∀ prov : Bool,
    -- a side whose persisted ticket is canceled has no running negotiator, and nothing but a restart
    -- (which finds a terminal ticket and starts nothing) is enabled for it
    ((getParty s prov).store.state = sCanceled → (getParty s prov).alive = false) ∧
    -- a side that handled the other side's cancel message has the finalization pending, taking it is enabled and
    -- persists "canceled" and ends the loop
    ((getParty s prov).finPend = true → (getParty s prov).alive = true)

/-- Proved part (a): the finalization branch (own cancellation, or the hand-off after the other side's cancel
message) persists the final state and ENDS the loop (`C16_finalization_is_final` above); and a side whose loop has
ended has no enabled handler: no packet, no finalization, no delivery is ever handled again — only a restart, which
finds a terminal ticket and starts nothing (`restartParty`). -/
theorem C16_cancel_ends_both_partial (s : Sys) (prov : Bool) (st : Nat)
    (h : (getParty s prov).alive = false) :
    apply s (.proc prov) = none ∧ apply s (.fin prov) = none ∧ apply s (.finalize prov st) = none ∧
    (∀ k, apply s (.procCrash prov k) = none) ∧ ∀ i, apply s (.deliver prov i) = none := by
  unfold apply
  simp only [applyG, h]
  refine ⟨by simp, by simp, by simp, fun k => by simp, fun i => ?_⟩
  split <;> simp

/-- a restart of a side whose persisted ticket is terminal starts no negotiator -/
theorem C16_terminal_ticket_not_resumed (prov : Bool) (x : Party) (h : isTerminal x.store.state = true) :
    (restartParty prov x).alive = false ∧ (restartParty prov x).store = x.store := by
  unfold restartParty; simp [h]

/-- Proved part (b): handling the other side's cancel message (any state but the transient "created") makes the
step return "canceled" and spawn the finalization, for ANY local ticket. -/
theorem C16_cancel_message_spawns_finalization (s : Sys) (cur : Nat) (l pkt : Ticket)
    (hc : pkt.state = sCanceled) (hcur : cur ≠ sCreated) :
    (stepProvider (envP s) cur (some pkt) (some l)).effs = [.spawnFin] ∧
    (stepProvider (envP s) cur (some pkt) (some l)).res = .ok sCanceled (some pkt) (some l) ∧
    (stepRecipient (envR s) cur (some l) (some pkt)).effs = [.spawnFin] ∧
    (stepRecipient (envR s) cur (some l) (some pkt)).res = .ok sCanceled (some l) (some pkt) := by
  have hcur' : ¬ cur = 0 := hcur
  simp only [stepProvider, stepRecipient, prov_select, recp_select, provSel, recpSel, hc]
  simp [hcur', provBody, recpBody, sCanceled]

-- non-vacuity: cancel by the provider after the happy path; the recipient handles the message and ends as well
example : (run init (happyP ++ [.finalize true sCanceled, .deliver false 1, .proc false, .fin false])).map
    (fun s => (s.p.alive, s.p.store.state, s.r.alive, s.r.store.state)) =
    some (false, sCanceled, false, sCanceled) := by decide

/-! ### the rule before the repair violates (3) and (4)

With a finalization branch that does NOT return (`ret = false`, the code before the `fix:` commit), a ticket that
is already buffered in `packetChan` can be handled after the own cancellation was persisted: the provider
overwrites the canceled ticket with "expecting" and re-sends the ordered ticket.  Replayed on the real code by the
harness (`corpus/C16/cancel_race.json`). -/
def raceRun : List Act :=
  happyP ++ [.deliver true 0, .finalize true sCanceled, .proc true]

theorem C16_unrepaired_rule_false :
    (runG false init (happyP ++ [.deliver true 0, .finalize true sCanceled])).map (·.p.store.state)
      = some sCanceled ∧
    (runG false init raceRun).map (·.p.store.state) = some sExpecting ∧
    -- … while the repaired rule ends the loop: the buffered ticket is never handled
    runG true init raceRun = none := by decide

/-! ## observation: the `errors.Is(err, clientdb.ErrOrderExists)` branch

`order.manager.PrepareOrder` wraps the store's error with `%v`, so the real driver never answers `errExists`
(`driverSubmit_never_exists`); a duplicate submission is an ordinary error and the restarted provider stays in
"registered" (liveness is only claimed without restarts).  If a driver DID answer `(nil, ErrOrderExists)`, the
step would return a packet with nil tickets and the next iteration of the loop would dereference nil: -/
theorem C16_errExists_branch_panics (env : Env) (r p p' : Ticket) (hr : r.state ≠ sCanceled)
    (hs : env.submit p = (p', .errExists)) :
    (stepProvider env sRegistered (some r) (some p)).res = .ok sOrdered none none := by
  simp only [stepProvider, prov_select, provSel]
  simp [hr, provBody, hs]

/-- … and the next iteration of the stateUpdateLoop (state "ordered", the same incoming ticket, nil local ticket)
dereferences the nil ticket -/
theorem C16_errExists_next_step_panics :
    (stepProvider (envP init) sOrdered (some tRegistered) none).res = .panic := by decide

theorem C16_real_driver_never_reports_exists (b : Bool) (t : Ticket) :
    (driverSubmit b t).2 ≠ .errExists := driverSubmit_never_exists b t

/-! ## (5) liveness without restarts -/

def bothExpecting (s : Sys) : Bool :=
  s.p.alive && s.p.cur == sExpecting && s.r.alive && s.r.cur == sExpecting

/-- only deliveries (of any sent ticket, again and again), handler steps and receive errors -/
def noRestartAct : Act → Bool
  | .deliver _ _ | .proc _ | .recvErr _ => true
  | _ => false

def ReachableNR (s : Sys) : Prop := ∃ as, as.all noRestartAct = true ∧ run init as = some s

/-- FULL statement: from every state reachable without restarts/cancellations a finite sequence of deliveries and
handler steps reaches both-expecting, and both-expecting is stable under such steps. -/
def C16_progress_full_statement : Prop :=
  (∀ s, ReachableNR s → ∃ as s', as.all noRestartAct = true ∧ run s as = some s' ∧ bothExpecting s' = true) ∧
  (∀ s, ReachableNR s → bothExpecting s = true → ∀ a s', noRestartAct a = true → apply s a = some s' →
    bothExpecting s' = true)

def fairRun : List Act := happyP ++ [.deliver false 0, .proc false]

/-- Proved part (NOT the full statement): the fair run from the initial state reaches both-expecting without any
restart, and re-delivering every ticket sent so far — in both directions, incl. the re-sent ordered ticket the
first re-delivery produces — leaves both sides expecting. The general statement (every no-restart reachable state)
is checked by the harness' fair-delivery runs on the real code only. -/
theorem C16_progress_partial :
    fairRun.all noRestartAct = true ∧
    (run init fairRun).map bothExpecting = some true ∧
    (run init (fairRun ++ [.deliver true 0, .proc true, .deliver false 0, .proc false, .deliver false 1,
      .proc false, .recvErr true, .recvErr false])).map bothExpecting = some true := by decide

end Pool.C16
