import PoolProofs.C16LemmasLive
/-!
C16 — sidecar auto-negotiation is safe under any delivery order and restart.

Model: `PoolModel/C16.lean` (`apply : Sys → Act → Option Sys`, one transition per handler invocation of the two run
loops; `Reachable` = any finite action list from `init`: deliveries of any sent ticket any number of times, receive
errors, stop/restart/crash of either side at every step incl. in the middle of a handler, local cancellation or
completion, the hand-off of a received cancellation).  The case tables of the two step functions, the state enum,
`IsTerminal`, the shape of the run loops (incl. "the finalization branch returns") and the resume rules of
`SidecarAcceptor.Start` are REGENERATED from the Go source (`PoolModel/Generated/C16Facts.lean`); the theorems below are
re-checked against them on every run.
-/
namespace Pool.C16
open Pool.Gen.C16

/-! ## (1) the provider submits at most one bid — all schedules, unbounded runs -/

/-- In every reachable state at most one bid was handed to the auctioneer (by induction over every transition). -/
theorem C16_at_most_one_bid (s : Sys) (h : Reachable s) : s.bids ≤ 1 := by
  obtain ⟨as, has⟩ := h
  have hi : BidInv s := runG_BidInv finReturns as init s (by unfold BidInv; rfl) has
  unfold BidInv at hi
  split at hi <;> omega

/-- The same for the loop as it was before the repair (the clause does not depend on the repaired rule). -/
theorem C16_at_most_one_bid_any_rule (ret : Bool) (as : List Act) (s : Sys)
    (h : runG ret init as = some s) : s.bids ≤ 1 := by
  have hi : BidInv s := runG_BidInv ret as init s (by unfold BidInv; rfl) h
  unfold BidInv at hi
  split at hi <;> omega

/-- the happy path (recipient sends, provider handles: persist, submit, send+persist) -/
def happyP : List Act := [.proc false, .deliver true 0, .proc true, .proc true, .proc true]

-- non-vacuity: a bid IS submitted on the happy path, and a restarted provider that is asked again does not
-- submit a second one (the order store rejects the duplicate nonce)
example : (run init happyP).map (·.bids) = some 1 := by decide
example : (run init (happyP ++ [.restart true, .deliver true 0, .proc true])).map (·.bids) = some 1 := by
  decide
example : (run init [.proc false, .deliver true 0, .proc true, .proc true, .procCrash true 0,
    .deliver true 0, .proc true]).map (fun s => (s.bids, s.p.cur, s.p.store.state)) = some (1, 2, 2) := by decide

/-! ## (2) expecting a channel only for a validated ticket -/

/-- Every successful `ExpectChannel` of every reachable run (any delivery order, duplicates, restarts, crash points,
cancellations; unbounded) is for a ticket that carries the provider's valid offer signature and valid order signature
over a non-zero nonce and is the ticket the recipient registered (store key). By induction over every transition with
the ticket invariant `InvB` (what each side holds, what travels on the wire). Only the recipient ever expects. -/
theorem C16_expect_only_validated (s : Sys) (h : Reachable s) :
    ∀ t, (false, Eff.expect t true) ∈ s.log → ValidSigned t := by
  intro t ht
  obtain ⟨hb, hs⟩ := (reachable_InvB s h).log t ht
  exact ⟨hb.1, hb.2, hs⟩

/-- Step level, for ANY incoming ticket (also tickets no honest provider would send) and any local ticket: a successful
`ExpectChannel` happens either right after `validateOrderedTicket` accepted that very ticket or in the "already
expecting" state (re-registration after a restart - there the ticket is NOT re-validated by the code; the system
theorem above shows that honest runs only deliver the signed ticket in that state). -/
theorem C16_expect_step_any_ticket (s : Sys) (cur : Nat) (l pkt t' : Ticket)
    (h : Eff.expect t' true ∈ (stepRecipient (envR s) cur (some l) (some pkt)).effs) :
    (cur = sRegistered ∧ pkt.state = sOrdered ∧ ValidSigned pkt ∧ t' = { pkt with state := sExpecting }) ∨
    cur = sExpecting := by
  simp only [stepRecipient, recp_select] at h
  rcases recpBody_expect s l pkt t' _ h with ⟨hi, hv, ht⟩ | hi
  · obtain ⟨hc, hp⟩ := recpSel_two _ _ _ hi
    left; exact ⟨hc, hp, validateOrdered_sound pkt hv, ht⟩
  · right; exact recpSel_four _ _ _ hi

-- non-vacuity: the recipient does start expecting for the signed ordered ticket, and refuses an unsigned one
example : Eff.expect ⟨0, sExpecting, .valid, true, some ⟨1, .valid⟩⟩ true ∈
    (stepRecipient (envR init) sRegistered (some tRegistered)
      (some ⟨0, sOrdered, .valid, true, some ⟨1, .valid⟩⟩)).effs := by decide
example : (stepRecipient (envR init) sRegistered (some tRegistered)
      (some ⟨0, sOrdered, .valid, true, some ⟨1, .bad⟩⟩)).res = .err eValidate := by decide

/-! ## (3) persisted state never moves backwards -/

/-- In every reachable state every enabled transition (delivery, handler step, crash inside a handler, restart,
cancellation, completion, …) leaves the persisted ticket state of BOTH sides monotone in the order
offered < registered < ordered < expecting < completed, with canceled reachable from every non-terminal state and
terminal states final (`Mono`). By induction with the loop invariant `InvA` (`pRel`: created/offered ↦ offered,
registered/ordered ↦ registered, expecting ↦ expecting; a running negotiator never has a terminal ticket). -/
theorem C16_persisted_state_monotone (s : Sys) (h : Reachable s) (a : Act) (s' : Sys)
    (ha : apply s a = some s') :
    Mono s.p.store.state s'.p.store.state ∧ Mono s.r.store.state s'.r.store.state := by
  unfold apply at ha
  rw [finReturns_true] at ha
  exact (stepA s s' a (reachable_InvA s h) ha).2

/-- … and no nil dereference of the step functions or run loops is reachable. -/
theorem C16_no_panic (s : Sys) (h : Reachable s) : s.panicked = false := (reachable_InvA s h).np

/-- Proved part (every handler step of the provider, ANY incoming and local ticket): the only store writes are
"registered" while the in-memory state is "offered" and "expecting" while it is "ordered"/"expecting" — under
`pRel` each of them is ≥ the persisted state and non-terminal. -/
theorem C16_provider_store_writes (s : Sys) (cur w : Nat) (l pkt : Ticket)
    (h : w ∈ writes (stepProvider (envP s) cur (some pkt) (some l)).effs) :
    (cur = sOffered ∧ w = sRegistered) ∨ ((cur = sOrdered ∨ cur = sExpecting) ∧ w = sExpecting) := by
  simp only [stepProvider, prov_select] at h
  rcases provBody_writes _ _ _ _ _ h with ⟨hi, hw⟩ | ⟨hi, hw⟩
  · obtain ⟨hc, hr⟩ := provSel_one _ _ _ hi
    left; exact ⟨hc, by rw [hw, hr]⟩
  · right
    rcases hi with hi | hi
    · exact absurd hi (provSel_ne_four _ _ _)
    · rcases provSel_five _ _ _ hi with hc | hc
      · exact ⟨Or.inr hc, hw⟩
      · exact ⟨Or.inl hc, hw⟩

/-- … so under the loop invariant a write never moves the persisted state backwards -/
theorem C16_persisted_state_monotone_step (s : Sys) (cur st w : Nat) (l pkt : Ticket) (hr : pRel cur st)
    (h : w ∈ writes (stepProvider (envP s) cur (some pkt) (some l)).effs) : Mono st w := by
  rcases C16_provider_store_writes s cur w l pkt h with ⟨hc, hw⟩ | ⟨hc, hw⟩ <;>
    unfold pRel at hr <;> rw [Mono_iff] <;>
    simp_all [sCreated, sOffered, sRegistered, sOrdered, sExpecting, sCanceled] <;> omega

example : pRel sOffered sOffered ∧
    sRegistered ∈ writes (stepProvider (envP init) sOffered (some tRegistered) (some tOffered)).effs := by
  constructor
  · unfold pRel; simp
  · decide

-- non-vacuity of the system theorem: a transition that does write (offered → registered)
example : (run init [.proc false, .deliver true 0, .proc true]).map (·.p.store.state) = some sRegistered := by
  decide

/-- the recipient's handlers only ever write "expecting" (from registered or expecting) -/
theorem C16_recipient_store_writes (s : Sys) (cur : Nat) (l pkt : Ticket) :
    ∀ w ∈ writes (stepRecipient (envR s) cur (some l) (some pkt)).effs, w = sExpecting := by
  intro w h
  simp only [stepRecipient, recp_select] at h
  exact recpBody_writes s l pkt _ w h

/-- the finalization branch writes exactly the final state, then the loop is over (repaired rule) -/
theorem C16_finalization_is_final (prov : Bool) (x : Party) (l : Ticket) (st : Nat) (o : Bool)
    (hl : x.loc = some l) :
    ∃ x' es, finStep finReturns prov x st o = (some x', es) ∧ x'.alive = false ∧ x'.quit = true ∧
      writes es = [st] := by
  unfold finStep
  simp only [hl, finReturns_true]
  refine ⟨_, _, rfl, by simp, by simp, ?_⟩
  cases (!o && st == sCanceled && (!prov || decide (sRegistered ≤ x.cur))) <;> simp [writes]

/-! ## (4) a cancellation ends both -/

/-- A cancellation by either side ends both. In every reachable state, for either side `prov`:
(a) a side whose persisted ticket is terminal (canceled/completed) has no running negotiator (and by
    `C16_persisted_state_monotone` the ticket never changes again; `C16_terminal_ticket_not_resumed`: a restart starts
    nothing);
(b) the user's cancellation (`CancelSidecar`) persists "canceled", ends the own negotiator, and - whenever a negotiator
    was running and the other side may be listening (always for the recipient; for the provider once a recipient
    registered) - puts the canceled ticket into the other side's mailbox;
(c) a side that handles that ticket (in any state but the transient "created") goes to the in-memory state canceled
    with the finalization pending, its persisted ticket untouched;
(d) whenever a finalization is pending its hand-off is enabled, persists "canceled" and ends that side too. -/
theorem C16_cancel_ends_both (s : Sys) (h : Reachable s) (prov : Bool) :
    (isTerminal (getParty s prov).store.state = true → (getParty s prov).alive = false) ∧
    (∀ s', apply s (.cancelRPC prov) = some s' →
      (getParty s' prov).store.state = sCanceled ∧ (getParty s' prov).alive = false ∧
      ((getParty s prov).alive = true → (prov = false ∨ sRegistered ≤ (getParty s prov).cur) →
        ∃ t, t.state = sCanceled ∧ t ∈ (if prov then s'.toR else s'.toP))) ∧
    (∀ pkt s', (getParty s prov).alive = true → nextPkt (getParty s prov) = some pkt → pkt.state = sCanceled →
      (getParty s prov).cur ≠ sCreated → apply s (.proc prov) = some s' →
      (getParty s' prov).finPend = true ∧ (getParty s' prov).cur = sCanceled ∧ (getParty s' prov).alive = true ∧
      (getParty s' prov).store = (getParty s prov).store) ∧
    ((getParty s prov).alive = true → (getParty s prov).finPend = true → (getParty s prov).loopPkt = none →
      ∃ s', apply s (.fin prov) = some s' ∧ (getParty s' prov).store.state = sCanceled ∧
        (getParty s' prov).alive = false) := by
  have hA := reachable_InvA s h
  unfold apply
  rw [finReturns_true]
  refine ⟨?_, fun s' ha => cancelRPC_spec s s' prov hA ha,
    fun pkt s' hal hn hs hc ha => proc_cancel_msg s s' prov pkt hA hal hn hs hc ha,
    fun hal hf hlp => fin_spec s prov hA hal hf hlp⟩
  intro ht
  rw [term_iff] at ht
  cases prov
  · simp only [getParty, Bool.false_eq_true, if_false] at ht ⊢
    cases hx : s.r.alive
    · rfl
    · have := (hA.ral hx).2; omega
  · simp only [getParty, if_true] at ht ⊢
    cases hx : s.p.alive
    · rfl
    · have := (hA.pal hx).2; unfold pRel at this; omega

/-- a side whose loop has ended has no enabled handler: no packet, no finalization, no delivery is ever handled again
— only a restart, which finds a terminal ticket and starts nothing (`C16_terminal_ticket_not_resumed`). -/
theorem C16_ended_side_disabled (s : Sys) (prov : Bool) (st : Nat)
    (h : (getParty s prov).alive = false) :
    apply s (.proc prov) = none ∧ apply s (.fin prov) = none ∧ apply s (.finalize prov st) = none ∧
    (∀ k, apply s (.procCrash prov k) = none) ∧ ∀ i, apply s (.deliver prov i) = none := by
  unfold apply
  simp only [applyG, h]
  refine ⟨by simp, by simp, by simp, fun k => by simp, fun i => ?_⟩
  split <;> simp

/-- a restart of a side whose persisted ticket is terminal starts no negotiator -/
theorem C16_terminal_ticket_not_resumed (prov : Bool) (x : Party) (h : isTerminal x.store.state = true) :
    (restartParty prov x).alive = false ∧ (restartParty prov x).store = x.store := by
  unfold restartParty; simp [h]

-- non-vacuity: cancel by the provider after the happy path; the recipient handles the message and ends as well
example : (run init (happyP ++ [.cancelRPC true, .deliver false 1, .proc false, .fin false])).map
    (fun s => (s.p.alive, s.p.store.state, s.r.alive, s.r.store.state)) =
    some (false, sCanceled, false, sCanceled) := by decide

/-- Store level (`clientdb/sidecar.go`): updating a ticket the store knows always succeeds and keeps it known - whatever
state is written, with or without order part, however often (second terminal write after the bid template is gone
included). This is the assumption `updateOk` of the transition system. -/
theorem C16_update_of_known_ticket_succeeds (db : TicketDB) (state : Nat) (hasOrder nonceZero : Bool)
    (h : db.known = true) :
    (updateSidecarDB db state hasOrder nonceZero).2 = true ∧
    (updateSidecarDB db state hasOrder nonceZero).1.known = true := by
  unfold updateSidecarDB removeBidTemplate
  cases hb : db.bucket <;> cases ht : db.template <;> cases nonceZero <;> cases hasOrder <;>
    cases hterm : isTerminal state <;> simp [h, hb, ht, hterm]

example : ((updateSidecarDB ⟨true, true, true⟩ sCanceled true false).1, sCanceled) =
    ((⟨true, true, false⟩ : TicketDB), 6) := by decide

/-! ### the rule before the repair violates (3) and (4)

With a finalization branch that does NOT return (`ret = false`, the code before the `fix:` commit), a ticket that
is already buffered in `packetChan` can be handled after the own cancellation was persisted: the provider
overwrites the canceled ticket with "expecting" and re-sends the ordered ticket.  Replayed on the real code by the
harness (`corpus/C16/cancel_race.json`). -/
def raceRun : List Act :=
  happyP ++ [.deliver true 0, .finalize true sCanceled, .proc true]

theorem C16_unrepaired_rule_false :
    (runG false init (happyP ++ [.deliver true 0, .finalize true sCanceled])).map (·.p.store.state)
      = some sCanceled ∧
    (runG false init raceRun).map (·.p.store.state) = some sExpecting ∧
    -- … while the repaired rule ends the loop: the buffered ticket is never handled
    runG true init raceRun = none := by decide

/-! ## observation: the `errors.Is(err, clientdb.ErrOrderExists)` branch

`order.manager.PrepareOrder` wraps the store's error with `%v`, so the real driver never answers `errExists`
(`driverSubmit_never_exists`); a duplicate submission is an ordinary error and the restarted provider stays in
"registered" (liveness is only claimed without restarts).  If a driver DID answer `(nil, ErrOrderExists)`, the
step would return a packet with nil tickets and the next iteration of the loop would dereference nil: -/
theorem C16_errExists_branch_panics (env : Env) (r p p' : Ticket) (hr : r.state ≠ sCanceled)
    (hs : env.submit p = (p', .errExists)) :
    (stepProvider env sRegistered (some r) (some p)).res = .ok sOrdered none none := by
  simp only [stepProvider, prov_select, provSel]
  simp [hr, provBody, hs]

/-- … and the next iteration of the stateUpdateLoop (state "ordered", the same incoming ticket, nil local ticket)
dereferences the nil ticket -/
theorem C16_errExists_next_step_panics :
    (stepProvider (envP init) sOrdered (some tRegistered) none).res = .panic := by decide

theorem C16_real_driver_never_reports_exists (b : Bool) (t : Ticket) :
    (driverSubmit b t).2 ≠ .errExists := driverSubmit_never_exists b t

/-! ## (5) liveness without restarts -/

def ReachableNR (s : Sys) : Prop := ∃ as, as.all noRestartAct = true ∧ run init as = some s

/-- When neither party is restarted (and nobody cancels) – only deliveries of any sent ticket, in any order and any
number of times, handler steps and receive errors happen – then from EVERY state reachable that way a finite
sequence of deliveries and handler steps reaches both-expecting, and both-expecting is stable under all such steps
(so under fair delivery both parties reach and keep the expecting-channel state). Proof: the no-restart reachable
states are characterised in closed form (`NRc`/`mk`: provider phase, recipient phase, what sits in the two
packetChans, how often the ordered ticket was sent), shown closed under every such transition (`NR_closure`), and the
delivery sequence is constructed phase by phase (`NR_progress`). -/
theorem C16_progress :
    (∀ s, ReachableNR s → ∃ as s', as.all noRestartAct = true ∧ run s as = some s' ∧ bothExpecting s' = true) ∧
    (∀ s, ReachableNR s → bothExpecting s = true → ∀ a s', noRestartAct a = true → apply s a = some s' →
      bothExpecting s' = true) := by
  have reach : ∀ s, ReachableNR s → ∃ c, NRok c ∧ s = mk c := by
    intro s ⟨as, hall, hrun⟩
    unfold run at hrun
    rw [finReturns_true, init_eq_mk] at hrun
    exact NR_run as _ NRok_init hall s hrun
  constructor
  · intro s hs
    obtain ⟨c, hok, rfl⟩ := reach s hs
    obtain ⟨as, c', hall, hrun, hok', hp, hr⟩ := NR_progress c hok
    refine ⟨as, mk c', hall, ?_, (bothExpecting_mk c' hok').2 ⟨hp, hr⟩⟩
    unfold run; rw [finReturns_true]; exact hrun
  · intro s hs hb a s' hn ha
    obtain ⟨c, hok, rfl⟩ := reach s hs
    unfold apply at ha
    rw [finReturns_true] at ha
    exact NR_stable c hok ((bothExpecting_mk c hok).1 hb) a hn s' ha

def fairRun : List Act := happyP ++ [.deliver false 0, .proc false]

-- non-vacuity: the fair run is a no-restart run and ends both-expecting; duplicates keep it there
example : fairRun.all noRestartAct = true ∧ (run init fairRun).map bothExpecting = some true ∧
    (run init (fairRun ++ [.deliver true 0, .proc true, .deliver false 0, .proc false, .deliver false 1,
      .proc false, .recvErr true, .recvErr false])).map bothExpecting = some true := by decide

end Pool.C16
