import PoolProofs.C10LemmasTx
import PoolProofs.C10LemmasOrder
import PoolModel.C10Snapshot
/-! Snapshot round trip: net addresses, count-prefixed nested lists, the header field list, and the completion
of own orders from the orders bucket. -/
namespace Pool.C10
open Pool.Gen

theorem readN_enc {α β : Type} (d : Dec β) (enc : α → Bytes) (f : α → β) (xs : List α) (rest : Bytes)
    (h : ∀ x ∈ xs, ∀ r, d (enc x ++ r) = .ok (f x) r) :
    readN d xs.length ((xs.map enc).flatten ++ rest) = .ok (xs.map f) rest := by
  induction xs with
  | nil => rfl
  | cons x xs ih =>
    simp only [List.length_cons, readN, List.map_cons, List.flatten_cons, List.append_assoc, bind_apply,
      h x (List.mem_cons_self), ih (fun y hy => h y (List.mem_cons_of_mem _ hy)), pure_apply]

theorem encAddr_pos (a : Addr) (h : a.WF) : 0 < (encAddr a).length := by
  cases a <;> simp [encAddr, Addr.WF] at h ⊢

theorem parseAddrs_enc (as : List Addr) (h : ∀ a ∈ as, a.WF) :
    ∀ fuel, (encAddrBody as).length < fuel → parseAddrs fuel (encAddrBody as) = some as := by
  induction as with
  | nil =>
    intro fuel hf
    cases fuel with
    | zero => omega
    | succ f => rfl
  | cons a as ih =>
    intro fuel hf
    have ha := h a (List.mem_cons_self)
    have ih' := ih (fun x hx => h x (List.mem_cons_of_mem _ hx))
    cases fuel with
    | zero => omega
    | succ f =>
      have hlen : (encAddrBody (a :: as)).length = (encAddr a).length + (encAddrBody as).length := by
        simp [encAddrBody]
      have hf' : (encAddrBody as).length < f := by
        have := encAddr_pos a ha; omega
      cases a with
      | tcp4 ip p =>
        obtain ⟨h1, h2⟩ := ha
        simp [encAddrBody, encAddr, parseAddrs, readHostPort, List.append_assoc, take_append _ _ 4 h1,
          readU16_enc _ _ h2]
        exact ih' f hf'
      | tcp6 ip p =>
        obtain ⟨h1, h2⟩ := ha
        simp [encAddrBody, encAddr, parseAddrs, readHostPort, List.append_assoc, take_append _ _ 16 h1,
          readU16_enc _ _ h2]
        exact ih' f hf'
      | onionV2 ip p =>
        obtain ⟨h1, h2⟩ := ha
        simp [encAddrBody, encAddr, parseAddrs, readHostPort, List.append_assoc, take_append _ _ 10 h1,
          readU16_enc _ _ h2]
        exact ih' f hf'
      | onionV3 ip p =>
        obtain ⟨h1, h2⟩ := ha
        simp [encAddrBody, encAddr, parseAddrs, readHostPort, List.append_assoc, take_append _ _ 35 h1,
          readU16_enc _ _ h2]
        exact ih' f hf'
      | unknown pl => exact absurd ha (by simp [Addr.WF])

theorem readAddrs_enc (as : List Addr) (rest : Bytes) (h : ∀ a ∈ as, a.WF)
    (hl : (encAddrBody as).length < 2 ^ 16) : readAddrs (encAddrs as ++ rest) = .ok as rest := by
  unfold readAddrs encAddrs
  simp only [bind_apply, List.append_assoc, readU16_enc _ _ (show WFu16 _ from hl), take_append _ rest _ rfl,
    parseAddrs_enc as h _ (Nat.lt_succ_self _), pure_apply]


theorem deserializeMatch_enc (m : Match) (rest : Bytes) (h : m.WF) :
    deserializeMatch (serializeMatch m ++ rest) = .ok { m with order := m.order.baseProj } rest := by
  obtain ⟨h1, h2, h3, h4, h5, h6, h7⟩ := h
  unfold deserializeMatch serializeMatch
  simp only [bind_apply, List.append_assoc, take_append _ _ 32 h1, take_append _ _ 32 h2.1,
    order_base_rt m.order _ h2, take_append _ _ 33 h3, take_append _ _ 33 h4, readAddrs_enc _ _ h5 h6,
    readU64_enc _ _ h7, pure_apply]

/-- the bytes `serializeAccount` produces for a well-formed account -/
def acctBytes (a : Account) : Bytes :=
  match serializeAccount a with
  | .ok b => b
  | _ => []

theorem serializeAccount_ok (a : Account) (h : a.WF) :
    serializeAccount a = .ok (acctBytes a) ∧ ∀ rest, deserializeAccount (acctBytes a ++ rest) = .ok a rest := by
  constructor
  · obtain ⟨b, hb, _⟩ := account_roundtrip_of (fun t r ht => readTx_enc t r ht) a [] h
    simp [acctBytes, hb]
  · intro rest
    obtain ⟨b, hb, hd⟩ := account_roundtrip_of (fun t r ht => readTx_enc t r ht) a rest h
    simpa [acctBytes, hb] using hd

theorem serializeAccounts_ok (as : List (Bytes × Account)) (h : ∀ p ∈ as, p.1.length = 33 ∧ p.2.WF) :
    serializeAccounts as = .ok (encU32 as.length ++ (as.map fun p => p.1 ++ acctBytes p.2).flatten) := by
  unfold serializeAccounts
  have : serConcat (as.map fun (k, a) => (Ser.ok k).append (serializeAccount a)) =
      .ok ((as.map fun p => p.1 ++ acctBytes p.2).flatten) := by
    induction as with
    | nil => rfl
    | cons p as ih =>
      obtain ⟨k, a⟩ := p
      have := (serializeAccount_ok a (h (k, a) (List.mem_cons_self)).2).1
      simp only [List.map_cons, serConcat, List.flatten_cons]
      rw [this, ih (fun q hq => h q (List.mem_cons_of_mem _ hq))]
      simp [Ser.append]
  rw [this]; rfl

theorem deserializeAccounts_enc (as : List (Bytes × Account)) (rest : Bytes)
    (h : ∀ p ∈ as, p.1.length = 33 ∧ p.2.WF) (hl : WFu32 as.length) :
    deserializeAccounts (encU32 as.length ++ (as.map fun p => p.1 ++ acctBytes p.2).flatten ++ rest) =
      .ok as rest := by
  unfold deserializeAccounts
  simp only [bind_apply, List.append_assoc, readU32_enc _ _ hl]
  have := readN_enc (do let k ← take 33; let a ← deserializeAccount; pure (k, a))
    (fun p : Bytes × Account => p.1 ++ acctBytes p.2) id as rest (by
      intro p hp r
      obtain ⟨h1, h2⟩ := h p hp
      simp only [bind_apply, List.append_assoc, take_append _ _ 33 h1, (serializeAccount_ok p.2 h2).2, pure_apply, id])
  simpa using this

theorem deserializeOrders_enc (os : List (Bytes × Order)) (rest : Bytes)
    (h : ∀ p ∈ os, p.1 = p.2.kit.nonce ∧ p.2.kit.WF) (hl : WFu32 os.length) :
    deserializeOrders (serializeOrders os ++ rest) = .ok (os.map fun (n, o) => (n, o.baseProj)) rest := by
  unfold deserializeOrders serializeOrders
  simp only [bind_apply, List.append_assoc, readU32_enc _ _ hl]
  have := readN_enc (do let nonce ← take 32; let o ← deserializeOrder nonce; pure (nonce, o))
    (fun p : Bytes × Order => p.1 ++ serializeOrder p.2) (fun p => (p.1, p.2.baseProj)) os rest (by
      intro p hp r
      obtain ⟨h1, h2⟩ := h p hp
      have hn : p.1.length = 32 := by rw [h1]; exact h2.1
      simp only [bind_apply, List.append_assoc, take_append _ _ 32 hn, pure_apply]
      rw [h1, order_base_rt p.2 r h2])
  simpa using this

theorem prices_enc (ps : List (Nat × Nat)) (rest : Bytes) (h : ∀ p ∈ ps, WFu32 p.1 ∧ WFu32 p.2) :
    readN (do let d ← readU32; let p ← readU32; pure (d, p)) ps.length
      ((ps.map fun (d, p) => encU32 d ++ encU32 p).flatten ++ rest) = .ok ps rest := by
  have := readN_enc (do let d ← readU32; let p ← readU32; pure (d, p))
    (fun p : Nat × Nat => encU32 p.1 ++ encU32 p.2) id ps rest (by
      intro p hp r
      obtain ⟨h1, h2⟩ := h p hp
      simp only [bind_apply, List.append_assoc, readU32_enc _ _ h1, readU32_enc _ _ h2, pure_apply, id])
  simpa using this


theorem snapshot_roundtrip_aux (s : Snapshot) (h : s.WF) :
    ∃ b, serializeSnapshot s = .ok b ∧ deserializeSnapshot b = .ok s.proj [] := by
  obtain ⟨hv, hid, hfb, hfr, htx, htf, hacc, hal, hord, hol, hm, hml, hp, hpl⟩ := h
  have e : elemList "serializeLocalBatchSnapshot" 0 = ["uint32(b.Version)", "b.BatchID[:]", "uint32(zeroPrice)",
    "uint64(b.ExecutionFee.BaseFee())", "uint64(b.ExecutionFee.FeeRate())", "b.BatchTX", "b.BatchTxFeeRate"] := by rfl
  have d : elemList "deserializeLocalBatchSnapshot" 0 = ["b.Version", "b.BatchID[:]", "clearingPrice",
    "b.ExecutionFee", "b.BatchTX", "b.BatchTxFeeRate"] := by rfl
  have hhead : ∀ rest, decFields snapTbl (elemList "deserializeLocalBatchSnapshot" 0) ⟨Snapshot.empty, 0⟩
      (encFields snapTbl (elemList "serializeLocalBatchSnapshot" 0) ⟨s, 0⟩ ++ rest) =
      .ok ⟨{ s with clearingPrices := [], accounts := [], orders := [], matched := [] }, 0⟩ rest := by
    intro rest
    rw [e, d]
    simp only [encFields, decFields, snapTbl, List.append_assoc, List.append_nil, bind_apply, pure_apply,
      readU32_enc _ _ hv, take_append _ _ 33 hid, readU32_enc _ _ (show WFu32 0 by decide), readU64_enc _ _ hfb,
      readU64_enc _ _ hfr, readTx_enc _ _ htx, readU64_enc _ _ htf, Snapshot.empty]
  unfold serializeSnapshot
  rw [serializeAccounts_ok s.accounts hacc]
  refine ⟨_, rfl, ?_⟩
  unfold deserializeSnapshot
  have hmm := readN_enc deserializeMatch serializeMatch (fun m => { m with order := m.order.baseProj })
    s.matched
  have hA := fun rest => deserializeAccounts_enc s.accounts rest hacc hal
  simp only [List.append_assoc] at hA
  have hpp := prices_enc s.clearingPrices [] hp
  simp only [List.append_nil] at hpp
  simp only [bind_apply, List.append_assoc, hhead, hA,
    deserializeOrders_enc _ _ hord hol, readU32_enc _ _ hml,
    hmm _ (fun m hm' r => deserializeMatch_enc m r (hm m hm')), Nat.lt_irrefl, if_false,
    readU32_enc _ _ hpl, hpp, pure_apply]
  simp [Snapshot.proj]


/-! ### completion of own orders (`fetchLocalBatchSnapshot` / repaired `fetchPendingBatchSnapshot`) -/

/-- **completion**: the base-field projection kept in the snapshot, completed from the order's own bucket
(as `SubmitOrder` wrote it), is the full order again. -/
theorem completeOrder_rt (o : Order) (h : o.WF) : completeOrder o.baseProj (some (storeOrder o)) = .ok o [] := by
  have hk : o.kit.WF := by cases o <;> exact h.1
  have hmum : WFu64 o.kit.minUnitsMatch := hk.2.2.2.2.2.2.2.2.2.2.2.2.1
  have hm := readU64_enc o.kit.minUnitsMatch [] hmum
  rw [List.append_nil] at hm
  have hd := order_tlv_decode o h
  unfold orderKnown at hd
  unfold completeOrder storeOrder
  simp only [hm]
  unfold deserializeOrderTlvData
  rw [hd]
  simp only []
  rw [applyTypeTlv_rt' o h]
  simp only []
  rw [applyKitTlv_rt o h]
  cases o with
  | ask k a c =>
    cases k with
    | mk nonce pre ver st fr amt u uu kl fee ak ld mum ct al nal pub at' =>
    simp only [Order.kit, Kit.baseProj, Order.setKit, Order.baseProj]
    by_cases ha : al.length > 0 <;> by_cases hn : nal.length > 0 <;>
      cases pub <;> simp [ha, hn, keys_nil_of_len]
  | bid k t s tk u z =>
    have ht := readU32_enc t [] h.2.1
    rw [List.append_nil] at ht
    cases k with
    | mk nonce pre ver st fr amt u' uu kl fee ak ld mum ct al nal pub at' =>
    simp only [Order.kit, Kit.baseProj, Order.setKit, Order.baseProj]
    by_cases ha : al.length > 0 <;> by_cases hn : nal.length > 0 <;>
      cases pub <;> simp [ha, hn, keys_nil_of_len, ht]


theorem orderTlvVars_tlvProj (o : Order) : orderTlvVars o.tlvProj = orderTlvVars o := by
  funext t
  cases o with
  | ask k a c => cases k; rfl
  | bid k t' s tk u z => cases k; cases tk <;> rfl


end Pool.C10
