import PoolModel.C09

set_option linter.unusedSimpArgs false
namespace Pool.C09

/-- number of notifications for key `k` in one op's output -/
def cnt (out : List (Key × Nat)) (k : Key) : Nat := out.countP (fun p => p.1 == k)

@[simp] theorem cnt_nil (k : Key) : cnt [] k = 0 := rfl

theorem cnt_cons (p : Key × Nat) (out : List (Key × Nat)) (k : Key) :
    cnt (p :: out) k = cnt out k + (if p.1 = k then 1 else 0) := by
  unfold cnt
  rw [List.countP_cons]
  by_cases h : p.1 = k <;> simp [h]

theorem visit_exp (sel : Sel) (b : Nat) (l : List (Nat × Key)) (e : Key → Option Nat) (k : Key) :
    (visit sel b l e).1 k =
      match e k with
      | some h => if (h, k) ∈ l ∧ sel h b = true then none else some h
      | none => none := by
  induction l generalizing e with
  | nil => cases h : e k <;> simp [visit, h]
  | cons p rest ih =>
    obtain ⟨h0, k0⟩ := p
    unfold visit
    by_cases hs : sel h0 b = true
    · by_cases he : e k0 = some h0
      · rw [if_pos hs, if_pos he]
        rw [ih]
        by_cases hk : k = k0
        · subst hk; simp [erase, he, hs]
        · cases hek : e k with
          | none => simp [erase, hk, hek]
          | some h => simp [erase, hk, hek]
      · rw [if_pos hs, if_neg he]
        rw [ih]
        cases hek : e k with
        | none => simp
        | some h =>
          have : ¬ (h = h0 ∧ k = k0) := by
            rintro ⟨rfl, rfl⟩; exact he hek
          simp [this]
    · rw [if_neg hs]
      rw [ih]
      cases hek : e k with
      | none => simp
      | some h =>
        by_cases hh : h = h0 ∧ k = k0
        · obtain ⟨rfl, rfl⟩ := hh
          simp [hs]
        · simp [hh]

theorem visit_cnt (sel : Sel) (b : Nat) (l : List (Nat × Key)) (e : Key → Option Nat) (k : Key) :
    cnt (visit sel b l e).2 k =
      match e k with
      | some h => if (h, k) ∈ l ∧ sel h b = true then 1 else 0
      | none => 0 := by
  induction l generalizing e with
  | nil => cases h : e k <;> simp [visit, h]
  | cons p rest ih =>
    obtain ⟨h0, k0⟩ := p
    unfold visit
    by_cases hs : sel h0 b = true
    · by_cases he : e k0 = some h0
      · rw [if_pos hs, if_pos he]
        rw [cnt_cons, ih]
        by_cases hk : k = k0
        · subst hk; simp [erase, he, hs]
        · have hk' : ¬ k0 = k := fun h => hk h.symm
          cases hek : e k with
          | none => simp [erase, hk, hk', hek]
          | some h => simp [erase, hk, hk', hek]
      · rw [if_pos hs, if_neg he]
        rw [ih]
        cases hek : e k with
        | none => simp
        | some h =>
          have : ¬ (h = h0 ∧ k = k0) := by
            rintro ⟨rfl, rfl⟩; exact he hek
          simp [this]
    · rw [if_neg hs]
      rw [ih]
      cases hek : e k with
      | none => simp
      | some h =>
        by_cases hh : h = h0 ∧ k = k0
        · obtain ⟨rfl, rfl⟩ := hh
          simp [hs]
        · simp [hh]

/-- every reported height of a block op is the registered height of the fired key -/
theorem visit_mem (sel : Sel) (b : Nat) (l : List (Nat × Key)) (e : Key → Option Nat)
    (k : Key) (r : Nat) (hm : (k, r) ∈ (visit sel b l e).2) :
    e k = some r ∧ sel r b = true := by
  induction l generalizing e with
  | nil => simp [visit] at hm
  | cons p rest ih =>
    obtain ⟨h0, k0⟩ := p
    unfold visit at hm
    by_cases hs : sel h0 b = true
    · by_cases he : e k0 = some h0
      · rw [if_pos hs, if_pos he] at hm
        rcases List.mem_cons.mp hm with heq | hrest
        · cases heq; exact ⟨he, hs⟩
        · have := ih _ hrest
          by_cases hk : k = k0
          · subst hk; simp [erase] at this
          · simpa [erase, hk] using this
      · rw [if_pos hs, if_neg he] at hm
        exact ih _ hm
    · rw [if_neg hs] at hm
      exact ih _ hm

/-- representation invariant of the watcher under the `selUpTo` rule -/
def Inv (s : St) : Prop :=
  ∀ k h, s.exp k = some h → (h, k) ∈ s.perH ∧ s.best < h

theorem inv_init : Inv init := by
  intro k h hk; simp [init] at hk

theorem inv_step (s : St) (op : Op) (hI : Inv s) : Inv (step selUpTo s op).1 := by
  intro k h hk
  cases op with
  | add k0 h0 =>
    unfold step at hk ⊢
    by_cases hle : h0 ≤ s.best
    · simp only [hle, if_true] at hk ⊢
      by_cases hkk : k = k0
      · subst hkk; simp [erase] at hk
      · simp only [erase, hkk, if_false] at hk
        exact hI k h hk
    · simp only [hle, if_false] at hk ⊢
      by_cases hkk : k = k0
      · subst hkk
        simp only [insert, if_true, Option.some.injEq] at hk
        subst hk
        exact ⟨by simp, by omega⟩
      · simp only [insert, hkk, if_false] at hk
        have := hI k h hk
        exact ⟨by simp [this.1], this.2⟩
  | block b =>
    simp only [step] at hk ⊢
    rw [visit_exp] at hk
    cases hek : s.exp k with
    | none => simp [hek] at hk
    | some h' =>
      simp only [hek] at hk
      have hI' := hI k h' hek
      by_cases hc : (h', k) ∈ s.perH ∧ selUpTo h' b = true
      · simp [hc] at hk
      · simp only [hc, if_false, Option.some.injEq] at hk
        subst hk
        have hns : ¬ selUpTo h' b = true := fun hx => hc ⟨hI'.1, hx⟩
        refine ⟨?_, ?_⟩
        · simp only [List.mem_filter]
          exact ⟨hI'.1, by simpa using hns⟩
        · simp [selUpTo] at hns; omega

end Pool.C09
