import PoolProofs.C10LemmasTlv
/-! Element and account round trips. The transaction round trip enters as the hypothesis `TxRT` here and is
discharged in `PoolProofs/C10.lean` with `readTx_enc` (C10LemmasTx). -/
namespace Pool.C10
open Pool.Gen

def TxRT : Prop := ∀ (t : Tx) (rest : Bytes), t.WF → readTx (encTx t ++ rest) = .ok t rest

theorem validPubKey_length (b : Bytes) (h : validPubKey b = true) : b.length = 33 := by
  unfold validPubKey at h
  cases b with
  | nil => simp at h
  | cons f xs =>
    simp only [Bool.and_eq_true, beq_iff_eq] at h
    exact h.1.1

theorem readPubKey_enc (b rest : Bytes) (h : validPubKey b = true) : readPubKey (b ++ rest) = .ok b rest := by
  simp [readPubKey, take_append b rest 33 (validPubKey_length b h), h]

theorem readKeyLoc_enc (k : KeyLoc) (rest : Bytes) (h : k.WF) : readKeyLoc (encKeyLoc k ++ rest) = .ok k rest := by
  obtain ⟨h1, h2⟩ := h
  simp [readKeyLoc, encKeyLoc, List.append_assoc, readU32_enc _ _ h1, readU32_enc _ _ h2]

theorem readKeyDesc_enc (k : KeyDesc) (rest : Bytes) (h : k.WF) :
    readKeyDesc (encKeyDesc k ++ rest) = .ok k rest := by
  obtain ⟨h1, h2⟩ := h
  simp [readKeyDesc, encKeyDesc, List.append_assoc, readKeyLoc_enc _ _ h1, readPubKey_enc _ _ h2]

theorem readOutPoint_enc (o : OutPoint) (rest : Bytes) (h : o.WF) :
    readOutPoint (encOutPoint o ++ rest) = .ok o rest := by
  obtain ⟨h1, h2⟩ := h
  simp [readOutPoint, encOutPoint, List.append_assoc, take_append _ _ 32 h1, readU16_enc _ _ h2]

theorem readBool_enc (b : Bool) (rest : Bytes) : readBool (encBool b ++ rest) = .ok b rest := by
  cases b <;> rfl

/-! ### version bit -/

theorem versionMask_val : versionMask = 128 := by decide

theorem clear_set (s : Nat) (h : s < 128) : clearVersionBit (s ||| versionMask) = s := by
  rw [versionMask_val]; unfold clearVersionBit; rw [versionMask_val]
  revert s; decide

theorem clear_unset (s : Nat) (h : s < 128) : clearVersionBit s = s := by
  unfold clearVersionBit; rw [versionMask_val]
  revert s; decide

theorem isVersioned_set (s : Nat) (h : s < 128) : isVersioned (s ||| versionMask) = true := by
  unfold isVersioned; rw [versionMask_val]
  revert s; decide

theorem isVersioned_unset (s : Nat) (h : s < 128) : isVersioned s = false := by
  unfold isVersioned; rw [versionMask_val]
  revert s; decide

theorem set_lt (s : Nat) (h : s < 128) : s ||| versionMask < 256 := by
  rw [versionMask_val]
  revert s; decide

/-- every defined account state leaves the version bit free (regenerated list) -/
theorem accountStates_lt : ∀ s ∈ Store.accountStates.map (·.2), s < 128 := by decide

/-- (R) serialiser and deserialiser agree on which states carry no LatestTx -/
theorem noLatestTx_agree : Store.noLatestTx_serializeAccount = Store.noLatestTx_deserializeAccount := by decide

theorem storesLatestTx_agree (s : Nat) : storesLatestTxDe s = storesLatestTxSer s := by
  unfold storesLatestTxDe storesLatestTxSer; rw [noLatestTx_agree]

theorem acct_tlv_rt (a : Account) (a' : Account) (rest : Bytes) (hv : WFu8 a.version) :
    deserializeAccountTlvData a' (serializeAccountTlvData a ++ rest) = .ok { a' with version := a.version } rest := by
  have hrecs : tlvRecsOf "serializeAccountTlvData" (acctTlvVars a) =
      [⟨tlvType "accountVersionType", .u8, .num (a.version % 256)⟩] := by rfl
  have hknown : tlvKnownOf "deserializeAccountTlvData" acctTlvKinds = [(tlvType "accountVersionType", .u8)] := by rfl
  have hmod : a.version % 256 = a.version := Nat.mod_eq_of_lt hv
  have ht : tlvType "accountVersionType" = 0 := by decide
  unfold deserializeAccountTlvData serializeAccountTlvData
  rw [hrecs, hknown, hmod, ht]
  have hdec := decodeStream_enc [(0, RecKind.u8)] [⟨0, .u8, .num a.version⟩]
    (by simp [IncFrom]) (by intro r hr; simp at hr; subst hr; exact ⟨(by show WFu64 0; decide), hv⟩)
    (by intro r hr; simp at hr; subst hr; rfl)
  have hlen : (encStream [⟨0, .u8, .num a.version⟩]).length = 3 := by
    simp [encStream, encRecord, TlvRec.payload, encBigSize, encU8]
  simp only [bind_apply, List.append_assoc, readU32_enc _ _ (show WFu32 (encStream _).length by rw [hlen]; decide),
    take_append _ rest _ rfl, hdec]
  simp [parsedNum]

theorem account_roundtrip_of (htx : TxRT) (a : Account) (rest : Bytes) (h : a.WF) :
    ∃ b, serializeAccount a = .ok b ∧ deserializeAccount (b ++ rest) = .ok a rest := by
  obtain ⟨hval, hexp, htk, hak, hbk, hsec, hst, hhh, hop, hver, hltx⟩ := h
  have hs128 : a.state < 128 := accountStates_lt _ hst
  have e0 : elemList "serializeAccount" 0 = ["a.Value", "a.Expiry", "a.TraderKey", "a.AuctioneerKey",
    "a.BatchKey", "a.Secret", "uint8(rawState)", "a.HeightHint", "a.OutPoint"] := by rfl
  have e1 : elemList "serializeAccount" 1 = ["a.LatestTx"] := by rfl
  have d0 : elemList "deserializeAccount" 0 = ["a.Value", "a.Expiry", "a.TraderKey", "a.AuctioneerKey",
    "a.BatchKey", "a.Secret", "rawState", "a.HeightHint", "a.OutPoint"] := by rfl
  have d1 : elemList "deserializeAccount" 1 = ["a.LatestTx"] := by rfl
  have hraw : WFu8 (rawState a) := by
    unfold rawState WFu8; split
    · exact set_lt _ hs128
    · omega
  have hwr : outPointWritable a.outPoint = true := by
    have := hop.2; unfold WFu16 at this; simp [outPointWritable]; omega
  have hbase : ∀ rest', decFields acctTbl (elemList "deserializeAccount" 0) Account.empty
      (encFields acctTbl (elemList "serializeAccount" 0) a ++ rest') =
      .ok { a with state := rawState a, latestTx := none, version := 0 } rest' := by
    intro rest'
    rw [e0, d0]
    simp only [encFields, decFields, acctTbl, List.append_assoc, List.append_nil, bind_apply, pure_apply,
      readU64_enc _ _ hval, readU32_enc _ _ hexp, readKeyDesc_enc _ _ htk, readPubKey_enc _ _ hak,
      readPubKey_enc _ _ hbk, take_append _ _ 32 hsec, readU8_enc _ _ hraw, readU32_enc _ _ hhh,
      readOutPoint_enc _ _ hop, Account.empty]
  have hclr : clearVersionBit (rawState a) = a.state := by
    unfold rawState; split
    · exact clear_set _ hs128
    · exact clear_unset _ hs128
  have hisv : isVersioned (rawState a) = decide (a.version > 0) := by
    unfold rawState; split
    · rename_i hv; simp [isVersioned_set _ hs128, hv]
    · rename_i hv; simp [isVersioned_unset _ hs128, hv]
  unfold serializeAccount deserializeAccount
  simp only [hwr, Bool.not_true, Bool.false_eq_true, if_false]
  cases hl : a.latestTx with
  | none =>
    rw [hl] at hltx
    simp only [latestTxWF] at hltx
    simp only [hltx, Bool.false_and, Bool.false_eq_true, if_false]
    refine ⟨_, rfl, ?_⟩
    simp only [bind_apply, List.append_assoc, List.nil_append, hbase, hclr, storesLatestTx_agree, hltx,
      Bool.false_eq_true, if_false, pure_apply, hisv]
    by_cases hv : a.version > 0
    · simp only [hv, if_true, decide_true, acct_tlv_rt a _ rest hver]
      cases a; simp_all
    · simp only [hv, if_false, decide_false, Bool.false_eq_true, pure_apply, List.nil_append]
      cases a; simp_all
  | some t =>
    rw [hl] at hltx
    simp only [latestTxWF] at hltx
    obtain ⟨hs, htwf⟩ := hltx
    simp only [hs, Option.isNone_some, Bool.and_false, Bool.false_eq_true, if_false, if_true]
    refine ⟨_, rfl, ?_⟩
    rw [e1, d1]
    simp only [bind_apply, List.append_assoc, List.nil_append, hbase, hclr, storesLatestTx_agree, hs,
      if_true, pure_apply, hisv, encFields, decFields, acctTbl, hl, List.append_nil, htx t _ htwf]
    by_cases hv : a.version > 0
    · simp only [hv, if_true, decide_true, acct_tlv_rt a _ rest hver]
      cases a; simp_all
    · simp only [hv, if_false, decide_false, Bool.false_eq_true, pure_apply, List.append_nil]
      cases a; simp_all

end Pool.C10
