import PoolProofs.C17Spec
/-! Helper lemmas for C17 (funding-parameter part). -/
set_option linter.unusedSimpArgs false
set_option linter.unusedVariables false
namespace Pool.C17

/-! ### `DetermineCommitmentType` -/

theorem det_symm (x y : Nat) : determineCommitmentType x y = determineCommitmentType y x := by
  unfold determineCommitmentType
  by_cases hx1 : x = Gen.C17.chanTypeScriptEnforced <;> by_cases hy1 : y = Gen.C17.chanTypeScriptEnforced <;>
  by_cases hx2 : x = Gen.C17.chanTypeSimpleTaproot <;> by_cases hy2 : y = Gen.C17.chanTypeSimpleTaproot <;>
  simp [hx1, hy1, hx2, hy2]

theorem det_fst (x y : Nat) : (determineCommitmentType x y).1 = commitSpec x y := by
  unfold determineCommitmentType commitSpec
  by_cases h1 : x = Gen.C17.chanTypeScriptEnforced ∨ y = Gen.C17.chanTypeScriptEnforced
  · rw [if_pos h1, if_pos h1]; rfl
  · rw [if_neg h1, if_neg h1]
    by_cases h2 : x = Gen.C17.chanTypeSimpleTaproot ∧ y = Gen.C17.chanTypeSimpleTaproot
    · rw [if_pos h2, if_pos h2]; rfl
    · rw [if_neg h2, if_neg h2]; rfl

theorem det_snd (x y : Nat) : (determineCommitmentType x y).2 = true ↔ (determineCommitmentType x y).1 = 5 := by
  unfold determineCommitmentType
  by_cases h1 : x = Gen.C17.chanTypeScriptEnforced ∨ y = Gen.C17.chanTypeScriptEnforced
  · rw [if_pos h1]; decide
  · rw [if_neg h1]
    by_cases h2 : x = Gen.C17.chanTypeSimpleTaproot ∧ y = Gen.C17.chanTypeSimpleTaproot
    · rw [if_pos h2]; decide
    · rw [if_neg h2]; decide

/-! ### first output with a script -/

theorem firstIdx_some (script : Bytes) (outs : List Bytes) (i : Nat) (h : firstIdx script outs = some i) :
    FirstOutputWith outs script i := by
  induction outs generalizing i with
  | nil => simp [firstIdx] at h
  | cons s rest ih =>
    unfold firstIdx at h
    by_cases hs : s = script
    · simp [hs] at h
      subst h
      refine ⟨by simp [hs], ?_⟩
      intro j hj
      omega
    · simp only [hs, if_false] at h
      cases hr : firstIdx script rest with
      | none => simp [hr] at h
      | some i' =>
        simp [hr] at h
        subst h
        obtain ⟨h1, h2⟩ := ih i' hr
        refine ⟨by simpa using h1, ?_⟩
        intro j hj
        cases j with
        | zero =>
          simp
          exact hs
        | succ j' =>
          have := h2 j' (by omega)
          simpa using this

theorem firstIdx_none (script : Bytes) (outs : List Bytes) (h : firstIdx script outs = none) :
    ∀ j : Nat, outs[j]? ≠ some script := by
  induction outs with
  | nil => intro j; simp
  | cons s rest ih =>
    unfold firstIdx at h
    by_cases hs : s = script
    · simp [hs] at h
    · simp only [hs, if_false] at h
      have hr : firstIdx script rest = none := by
        cases hr : firstIdx script rest with
        | none => rfl
        | some i' => simp [hr] at h
      intro j
      cases j with
      | zero =>
        simp
        exact hs
      | succ j' =>
        have := ih hr j'
        simpa using this

theorem find_first (script : Bytes) (outs : List Bytes) (hex : ∃ i : Nat, outs[i]? = some script) :
    FirstOutputWith outs script (findScriptOutputIndex outs script) := by
  unfold findScriptOutputIndex
  cases h : firstIdx script outs with
  | some i => exact firstIdx_some script outs i h
  | none =>
    obtain ⟨i, hi⟩ := hex
    exact absurd hi (firstIdx_none script outs h i)

/-! ### projections -/

theorem projAsk_ok (env : Env) (k : Kit) (mk nk : Bytes) (u : Nat) (m : MatchedOrder)
    (h : projAsk env k mk nk u = .ok m) :
    m = { order := .ask { nonce := k.nonce, leaseDuration := k.leaseDuration, channelType := k.channelType,
                          keyFamily := 0, keyIndex := 0 },
          multiSigKey := mk, nodeKey := nk, unitsFilled := u } := by
  unfold projAsk projKit projChannelType at h
  split at h
  · simp at h
  · rename_i pk hpk
    split at hpk
    · simp at hpk
    · rename_i ct hct
      split at hct
      · simp at hct
        subst hct
        split at hpk
        · simp at hpk
          subst hpk
          split at h
          · simp at h
          · simp at h
            exact h.symm
        · simp at hpk
      · simp at hct

theorem projBid_ok (env : Env) (b : Bid) (mk nk : Bytes) (u : Nat) (m : MatchedOrder)
    (h : projBid env b mk nk u = .ok m) :
    m = { order := .bid { kit := { nonce := b.kit.nonce, leaseDuration := b.kit.leaseDuration,
                                   channelType := b.kit.channelType, keyFamily := 0, keyIndex := 0 },
                          selfChanBalance := b.selfChanBalance, unannounced := b.unannounced,
                          zeroConf := b.zeroConf, sidecar := none },
          multiSigKey := mk, nodeKey := nk, unitsFilled := u } := by
  unfold projBid projKit projChannelType at h
  split at h
  · simp at h
  · rename_i pk hpk
    split at hpk
    · simp at hpk
    · rename_i ct hct
      split at hct
      · simp at hct
        subst hct
        split at hpk
        · simp at hpk
          subst hpk
          split at h
          · split at h <;> simp at h
          · simp at h
            exact h.symm
        · simp at hpk
      · simp at hct

/-! ### explicit results of `deriveFundingShim` in the three roles -/

/-- thaw height as `deriveFundingShim` computes it -/
def thawOf (ourType theirType lease hint : Nat) : Nat :=
  if ourType = Gen.C17.chanTypeScriptEnforced ∨ theirType = Gen.C17.chanTypeScriptEnforced
  then wrapU32 (lease + hint) else lease

theorem thawOf_spec_maker (a b lease hint : Nat) : thawOf a b lease hint = thawSpec a b lease hint := rfl

theorem thawOf_spec_taker (a b lease hint : Nat) : thawOf b a lease hint = thawSpec a b lease hint := by
  unfold thawOf thawSpec wrapU32
  by_cases h : a = Gen.C17.chanTypeScriptEnforced ∨ b = Gen.C17.chanTypeScriptEnforced
  · rw [if_pos h, if_pos (Or.symm h)]
  · rw [if_neg h, if_neg (fun hh => h (Or.symm hh))]

theorem derive_maker (env : Env) (a bk : Kit) (sb : Int) (un zc : Bool) (ka kb nb : Bytes) (u : Nat)
    (tx : BatchTx) (hint : Nat) (script : Bytes)
    (hka : env.deriveKey a.keyFamily a.keyIndex = some ka)
    (hfs : env.fundScript ((determineCommitmentType a.channelType bk.channelType).1 == rpcCommitSimpleTaproot)
            ka kb = some script) :
    deriveFundingShim env (.ask a)
      { order := .bid { kit := bk, selfChanBalance := sb, unannounced := un, zeroConf := zc, sidecar := none },
        multiSigKey := kb, nodeKey := nb, unitsFilled := u } tx hint =
    .ok ({ amt := wrapI64 (toSatoshis u + sb), txid := tx.txid,
           outputIndex := findScriptOutputIndex tx.outs script,
           localKey := ka, localKeyFamily := toI32 a.keyFamily, localKeyIndex := toI32 a.keyIndex,
           remoteKey := kb, pendingChanId := env.H (a.nonce ++ bk.nonce),
           thawHeight := thawOf a.channelType bk.channelType bk.leaseDuration hint,
           musig2 := (determineCommitmentType a.channelType bk.channelType).2 },
         env.H (a.nonce ++ bk.nonce)) := by
  unfold deriveFundingShim
  simp only [Res.bind, ourMultiSigKey, Order.kit, hka, pendingChanKey, thawOf]
  cases hd : determineCommitmentType a.channelType bk.channelType with
  | mk ct m2 =>
    rw [hd] at hfs
    dsimp only at hfs
    simp [hfs]
    all_goals (first | rfl | (split <;> simp_all))

theorem derive_taker (env : Env) (b : Bid) (ak : Kit) (ka kb na : Bytes) (u : Nat)
    (tx : BatchTx) (hint : Nat) (script : Bytes) (hns : b.sidecar = none)
    (hkb : env.deriveKey b.kit.keyFamily b.kit.keyIndex = some kb)
    (hfs : env.fundScript ((determineCommitmentType b.kit.channelType ak.channelType).1 == rpcCommitSimpleTaproot)
            kb ka = some script) :
    deriveFundingShim env (.bid b)
      { order := .ask ak, multiSigKey := ka, nodeKey := na, unitsFilled := u } tx hint =
    .ok ({ amt := wrapI64 (toSatoshis u + b.selfChanBalance), txid := tx.txid,
           outputIndex := findScriptOutputIndex tx.outs script,
           localKey := kb, localKeyFamily := toI32 b.kit.keyFamily, localKeyIndex := toI32 b.kit.keyIndex,
           remoteKey := ka, pendingChanId := env.H (ak.nonce ++ b.kit.nonce),
           thawHeight := thawOf b.kit.channelType ak.channelType b.kit.leaseDuration hint,
           musig2 := (determineCommitmentType b.kit.channelType ak.channelType).2 },
         env.H (ak.nonce ++ b.kit.nonce)) := by
  unfold deriveFundingShim
  simp only [Res.bind, ourMultiSigKey, Order.kit, hkb, hns, pendingChanKey, thawOf]
  cases hd : determineCommitmentType b.kit.channelType ak.channelType with
  | mk ct m2 =>
    rw [hd] at hfs
    dsimp only at hfs
    simp [hfs]
    all_goals (first | rfl | (split <;> simp_all))

/-- the sidecar recipient: key material from the ticket, everything else from the dummy bid -/
theorem derive_recipient (env : Env) (b : Bid) (t : Ticket) (r : Recipient) (kr : Bytes) (ak : Kit)
    (ka na : Bytes) (u : Nat) (tx : BatchTx) (hint : Nat) (script : Bytes)
    (hs : b.sidecar = some t) (hr : t.recipient = some r) (hk : r.multiSigKey = some kr)
    (hfs : env.fundScript ((determineCommitmentType b.kit.channelType ak.channelType).1 == rpcCommitSimpleTaproot)
            kr ka = some script) :
    deriveFundingShim env (.bid b)
      { order := .ask ak, multiSigKey := ka, nodeKey := na, unitsFilled := u } tx hint =
    .ok ({ amt := wrapI64 (toSatoshis u + b.selfChanBalance), txid := tx.txid,
           outputIndex := findScriptOutputIndex tx.outs script,
           localKey := kr, localKeyFamily := toI32 keyFamilyMultiSig, localKeyIndex := toI32 r.multiSigKeyIndex,
           remoteKey := ka, pendingChanId := env.H (ak.nonce ++ b.kit.nonce),
           thawHeight := thawOf b.kit.channelType ak.channelType b.kit.leaseDuration hint,
           musig2 := (determineCommitmentType b.kit.channelType ak.channelType).2 },
         env.H (ak.nonce ++ b.kit.nonce)) := by
  unfold deriveFundingShim
  simp only [Res.bind, ourMultiSigKey, Order.kit, hs, hr, hk, pendingChanKey, thawOf]
  cases hd : determineCommitmentType b.kit.channelType ak.channelType with
  | mk ct m2 =>
    rw [hd] at hfs
    dsimp only at hfs
    simp [hfs]
    all_goals (first | rfl | (split <;> simp_all))

/-! ### `getSidecarAsOrder` -/

theorem getSidecar_ok (pending : List Ticket) (n : Bytes) (d : Order) (h : getSidecarAsOrder pending n = .ok d) :
    ∃ t', t' ∈ pending ∧ t'.orderBidNonce = some n ∧
      d = .bid { kit := { nonce := n, leaseDuration := t'.offer.leaseDurationBlocks, channelType := 0,
                          keyFamily := 0, keyIndex := 0 },
                 selfChanBalance := t'.offer.pushAmt, unannounced := t'.offer.unannounced,
                 zeroConf := t'.offer.zeroConf, sidecar := some t' } := by
  induction pending with
  | nil => simp [getSidecarAsOrder] at h
  | cons t rest ih =>
    unfold getSidecarAsOrder at h
    cases hn : t.orderBidNonce with
    | none => simp [hn] at h
    | some m =>
      simp only [hn] at h
      by_cases hm : m = n
      · subst hm
        simp at h
        exact ⟨t, List.mem_cons_self, hn, h.symm⟩
      · simp only [hm, if_false] at h
        obtain ⟨t', ht', h1, h2⟩ := ih h
        exact ⟨t', List.mem_cons_of_mem _ ht', h1, h2⟩

/-! ### whole batches -/

theorem resFoldl_append {σ α : Type} (f : σ → α → Res σ) (s : σ) (xs ys : List α) :
    resFoldl f s (xs ++ ys) = (resFoldl f s xs).bind fun s' => resFoldl f s' ys := by
  induction xs generalizing s with
  | nil => simp [resFoldl, Res.bind]
  | cons x rest ih =>
    simp only [List.cons_append, resFoldl]
    cases hx : f s x with
    | ok s' => simp only [Res.bind]; exact ih s'
    | err => simp [Res.bind]
    | panic => simp [Res.bind]

/-- the nested loops are one loop over the flattened (our order, matched order) pairs -/
theorem prepBatch_flat (env : Env) (node : Bytes) (tx : BatchTx) (hint : Nat)
    (batch : List (Order × List MatchedOrder)) (st : PrepOut) :
    resFoldl (prepOrder env node tx hint) st batch =
    resFoldl (fun st (p : Order × MatchedOrder) => prepMatch env node p.1 tx hint st p.2) st (flatPairs batch) := by
  induction batch generalizing st with
  | nil => simp [flatPairs, resFoldl]
  | cons e rest ih =>
    have hfl : flatPairs (e :: rest) = (e.2.map fun m => (e.1, m)) ++ flatPairs rest := by
      simp [flatPairs]
    rw [hfl, resFoldl_append]
    simp only [resFoldl, prepOrder]
    have hinner : ∀ (ms : List MatchedOrder) (s0 : PrepOut),
        resFoldl (prepMatch env node e.1 tx hint) s0 ms =
        resFoldl (fun st (p : Order × MatchedOrder) => prepMatch env node p.1 tx hint st p.2) s0
          (ms.map fun m => (e.1, m)) := by
      intro ms
      induction ms with
      | nil => intro s0; simp [resFoldl]
      | cons m ms ihm =>
        intro s0
        simp only [List.map_cons, resFoldl]
        cases hm : prepMatch env node e.1 tx hint s0 m with
        | ok s' => simp only [Res.bind]; exact ihm s'
        | err => simp [Res.bind]
        | panic => simp [Res.bind]
    rw [hinner]
    cases hr : resFoldl (fun st (p : Order × MatchedOrder) => prepMatch env node p.1 tx hint st p.2) st
        (e.2.map fun m => (e.1, m)) with
    | ok s' => simp only [Res.bind]; exact ih s'
    | err => simp [Res.bind]
    | panic => simp [Res.bind]

/-- if every pair registers `f pair`, the loop registers exactly those, in order, after what was there -/
theorem prepFlat_regs (env : Env) (node : Bytes) (tx : BatchTx) (hint : Nat)
    (pairs : List (Order × MatchedOrder)) (f : Order × MatchedOrder → Shim × Bytes × ExpBid) (st out : PrepOut)
    (hall : ∀ p, p ∈ pairs → prepRegisters env node p.1 p.2 tx hint = .ok (some (f p)))
    (h : resFoldl (fun st (p : Order × MatchedOrder) => prepMatch env node p.1 tx hint st p.2) st pairs = .ok out) :
    out.regs = st.regs ++ pairs.map f := by
  induction pairs generalizing st with
  | nil =>
    simp [resFoldl] at h
    subst h
    simp
  | cons p rest ih =>
    have hp := hall p List.mem_cons_self
    simp only [resFoldl, prepMatch, hp, Res.bind] at h
    have := ih _ (fun q hq => hall q (List.mem_cons_of_mem _ hq)) h
    rw [this]
    simp

/-- … and the loop does not fail -/
theorem prepFlat_ok (env : Env) (node : Bytes) (tx : BatchTx) (hint : Nat)
    (pairs : List (Order × MatchedOrder)) (f : Order × MatchedOrder → Shim × Bytes × ExpBid) (st : PrepOut)
    (hall : ∀ p, p ∈ pairs → prepRegisters env node p.1 p.2 tx hint = .ok (some (f p))) :
    ∃ out, resFoldl (fun st (p : Order × MatchedOrder) => prepMatch env node p.1 tx hint st p.2) st pairs = .ok out := by
  induction pairs generalizing st with
  | nil => exact ⟨st, rfl⟩
  | cons p rest ih =>
    have hp := hall p List.mem_cons_self
    simp only [resFoldl, prepMatch, hp, Res.bind]
    exact ih _ (fun q hq => hall q (List.mem_cons_of_mem _ hq))

theorem setupBatch_flat (env : Env) (tx : BatchTx) (hint : Nat)
    (batch : List (Order × List MatchedOrder)) (st : List OpenReq) :
    resFoldl (fun st (e : Order × List MatchedOrder) => resFoldl (setupMatch env e.1 tx hint) st e.2) st batch =
    resFoldl (fun st (p : Order × MatchedOrder) => setupMatch env p.1 tx hint st p.2) st (flatPairs batch) := by
  induction batch generalizing st with
  | nil => simp [flatPairs, resFoldl]
  | cons e rest ih =>
    have hfl : flatPairs (e :: rest) = (e.2.map fun m => (e.1, m)) ++ flatPairs rest := by
      simp [flatPairs]
    rw [hfl, resFoldl_append]
    simp only [resFoldl]
    have hinner : ∀ (ms : List MatchedOrder) (s0 : List OpenReq),
        resFoldl (setupMatch env e.1 tx hint) s0 ms =
        resFoldl (fun st (p : Order × MatchedOrder) => setupMatch env p.1 tx hint st p.2) s0
          (ms.map fun m => (e.1, m)) := by
      intro ms
      induction ms with
      | nil => intro s0; simp [resFoldl]
      | cons m ms ihm =>
        intro s0
        simp only [List.map_cons, resFoldl]
        cases hm : setupMatch env e.1 tx hint s0 m with
        | ok s' => simp only [Res.bind]; exact ihm s'
        | err => simp [Res.bind]
        | panic => simp [Res.bind]
    rw [hinner]
    cases hr : resFoldl (fun st (p : Order × MatchedOrder) => setupMatch env p.1 tx hint st p.2) st
        (e.2.map fun m => (e.1, m)) with
    | ok s' => simp only [Res.bind]; exact ih s'
    | err => simp [Res.bind]
    | panic => simp [Res.bind]

theorem setupFlat_reqs (env : Env) (tx : BatchTx) (hint : Nat)
    (pairs : List (Order × MatchedOrder)) (f : Order × MatchedOrder → OpenReq) (st : List OpenReq)
    (hall : ∀ p, p ∈ pairs → batchChannelSetup env p.1 p.2 tx hint = .ok (some (f p))) :
    resFoldl (fun st (p : Order × MatchedOrder) => setupMatch env p.1 tx hint st p.2) st pairs =
      .ok (st ++ pairs.map f) := by
  induction pairs generalizing st with
  | nil => simp [resFoldl]
  | cons p rest ih =>
    have hp := hall p List.mem_cons_self
    simp only [resFoldl, setupMatch, hp, Res.bind]
    have := ih (st ++ [f p]) (fun q hq => hall q (List.mem_cons_of_mem _ hq))
    simp only [List.map_cons]
    rw [show st ++ f p :: List.map f rest = st ++ [f p] ++ List.map f rest by simp]
    exact this

/-! ### lnd's shim registry over re-proposed batches -/

theorem resFoldl_inv {σ α : Type} (f : σ → α → Res σ) (P : σ → Prop)
    (hstep : ∀ s a s', f s a = .ok s' → P s → P s') (xs : List α) (s0 s : σ)
    (h0 : P s0) (h : resFoldl f s0 xs = .ok s) : P s := by
  induction xs generalizing s0 with
  | nil =>
    simp [resFoldl] at h
    subst h
    exact h0
  | cons a rest ih =>
    simp only [resFoldl] at h
    cases ha : f s0 a with
    | ok s1 =>
      simp only [ha, Res.bind] at h
      exact ih s1 (hstep s0 a s1 ha h0) h
    | err => simp [ha, Res.bind] at h
    | panic => simp [ha, Res.bind] at h

theorem lndLookup_append (l : LndShims) (p q : Bytes) (sh : Shim) :
    lndLookup (l ++ [(p, sh)]) q =
      match lndLookup l q with
      | some x => some x
      | none => if p = q then some sh else none := by
  induction l with
  | nil => simp [lndLookup]
  | cons e rest ih =>
    obtain ⟨p', s'⟩ := e
    simp only [List.cons_append, lndLookup]
    by_cases hp : p' = q
    · simp [hp]
    · simp [hp, ih]

/-- every registration of this call is what lnd holds for its pending id, and lnd held nothing for it before -/
def HeldInv (lnd0 : LndShims) (st : PrepSt) : Prop :=
  ∀ r, r ∈ st.out.regs → lndLookup st.lnd r.2.1 = some r.1 ∧ lndLookup lnd0 r.2.1 = none

/-- lnd only ever gains entries during `PrepChannelFunding`: what it held before it still holds -/
def KeepsInv (lnd0 : LndShims) (st : PrepSt) : Prop :=
  ∀ q sh, lndLookup lnd0 q = some sh → lndLookup st.lnd q = some sh

theorem prepMatchLnd_inv (env : Env) (node : Bytes) (o : Order) (tx : BatchTx) (hint : Nat) (lnd0 : LndShims)
    (st : PrepSt) (m : MatchedOrder) (st' : PrepSt)
    (h : prepMatchLnd env node o tx hint st m = .ok st') (hinv : HeldInv lnd0 st ∧ KeepsInv lnd0 st) :
    HeldInv lnd0 st' ∧ KeepsInv lnd0 st' := by
  unfold prepMatchLnd at h
  cases hr : prepRegisters env node o m tx hint with
  | err => simp [hr, Res.bind] at h
  | panic => simp [hr, Res.bind] at h
  | ok r =>
    simp only [hr, Res.bind] at h
    cases r with
    | none =>
      simp at h
      subst h
      exact hinv
    | some x =>
      simp only at h
      unfold lndRegister at h
      cases hl : lndLookup st.lnd x.2.1 with
      | some y => simp [hl] at h
      | none =>
        simp only [hl] at h
        simp at h
        subst h
        obtain ⟨hheld, hkeeps⟩ := hinv
        constructor
        · intro r hr'
          simp only [List.mem_append, List.mem_singleton] at hr'
          cases hr' with
          | inl hin =>
            obtain ⟨h1, h2⟩ := hheld r hin
            refine ⟨?_, h2⟩
            show lndLookup (st.lnd ++ [(x.2.1, x.1)]) r.2.1 = some r.1
            rw [lndLookup_append, h1]
          | inr heq =>
            subst heq
            refine ⟨?_, ?_⟩
            · show lndLookup (st.lnd ++ [(r.2.1, r.1)]) r.2.1 = some r.1
              rw [lndLookup_append, hl]
              simp
            · cases h0 : lndLookup lnd0 r.2.1 with
              | none => rfl
              | some sh =>
                have := hkeeps _ _ h0
                rw [hl] at this
                simp at this
        · intro q sh hq
          show lndLookup (st.lnd ++ [(x.2.1, x.1)]) q = some sh
          rw [lndLookup_append, hkeeps q sh hq]

end Pool.C17
