import PoolModel.C10Account
/-! Generic codec lemmas for C10: fixed-width integers, sequencing, the `take` reader. -/
namespace Pool.C10

@[simp] theorem bind_apply (d : Dec α) (f : α → Dec β) (s : Bytes) :
    (d >>= f) s = match d s with
      | .ok a r => f a r
      | .err => .err
      | .panic => .panic := rfl

@[simp] theorem pure_apply (a : α) (s : Bytes) : (pure a : Dec α) s = .ok a s := rfl
@[simp] theorem fail_apply (s : Bytes) : (Dec.fail : Dec α) s = .err := rfl
@[simp] theorem panic_apply (s : Bytes) : (Dec.panic : Dec α) s = .panic := rfl

theorem take_append (b rest : Bytes) (n : Nat) (h : b.length = n) : take n (b ++ rest) = .ok b rest := by
  unfold take
  have : n ≤ (b ++ rest).length := by rw [List.length_append]; omega
  rw [if_pos this, List.take_left' h, List.drop_left' h]

@[simp] theorem leEnc_length (n v : Nat) : (leEnc n v).length = n := by
  induction n generalizing v with
  | zero => rfl
  | succ n ih => simp [leEnc, ih]

theorem leDec_leEnc (n v : Nat) (h : v < 256 ^ n) : leDec (leEnc n v) = v := by
  induction n generalizing v with
  | zero => simp [leEnc, leDec]; omega
  | succ n ih =>
    simp only [leEnc, leDec]
    have h1 : v / 256 < 256 ^ n := by
      rw [Nat.div_lt_iff_lt_mul (by decide)]; rw [Nat.pow_succ] at h; exact h
    rw [ih _ h1, UInt8.toNat_ofNat']
    have : v % 256 % 2 ^ 8 = v % 256 := Nat.mod_eq_of_lt (by omega)
    omega

@[simp] theorem beEnc_length (n v : Nat) : (beEnc n v).length = n := by simp [beEnc]

theorem beDec_beEnc (n v : Nat) (h : v < 256 ^ n) : beDec (beEnc n v) = v := by
  simp [beDec, beEnc, leDec_leEnc n v h]

theorem readLE_enc (n v : Nat) (rest : Bytes) (h : v < 256 ^ n) :
    readLE n (leEnc n v ++ rest) = .ok v rest := by
  simp [readLE, take_append _ _ n (leEnc_length n v), leDec_leEnc n v h]

theorem readBE_enc (n v : Nat) (rest : Bytes) (h : v < 256 ^ n) :
    readBE n (beEnc n v ++ rest) = .ok v rest := by
  simp [readBE, take_append _ _ n (beEnc_length n v), beDec_beEnc n v h]

theorem readU8_enc (v : Nat) (rest : Bytes) (h : WFu8 v) : readU8 (encU8 v ++ rest) = .ok v rest :=
  readBE_enc 1 v rest (by unfold WFu8 at h; omega)
theorem readU16_enc (v : Nat) (rest : Bytes) (h : WFu16 v) : readU16 (encU16 v ++ rest) = .ok v rest :=
  readBE_enc 2 v rest (by unfold WFu16 at h; omega)
theorem readU32_enc (v : Nat) (rest : Bytes) (h : WFu32 v) : readU32 (encU32 v ++ rest) = .ok v rest :=
  readBE_enc 4 v rest (by unfold WFu32 at h; omega)
theorem readU64_enc (v : Nat) (rest : Bytes) (h : WFu64 v) : readU64 (encU64 v ++ rest) = .ok v rest :=
  readBE_enc 8 v rest (by unfold WFu64 at h; omega)

end Pool.C10
