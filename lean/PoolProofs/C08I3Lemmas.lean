import PoolProofs.C08Lemmas
/-! I3 (every publish is preceded by the store write of a record carrying the transaction) as an
invariant over all histories.  Depends on I1 for the pending-open rebroadcast on restart. -/
set_option linter.unusedSimpArgs false
set_option linter.unusedVariables false
namespace Pool.C08
open Pool.Gen

/-- scan the effect trace from the left with the set of transactions written so far: every `publish`
must find its transaction in that set -/
def chk : List Tx → List Effect → Bool
  | _, [] => true
  | w, .write a :: r => chk (a.latestTx.toList ++ w) r
  | w, .publish t :: r => w.contains t && chk w r
  | w, .fund _ :: r => chk w r

/-- the written set after a trace -/
def wr : List Tx → List Effect → List Tx
  | w, [] => w
  | w, .write a :: r => wr (a.latestTx.toList ++ w) r
  | w, .publish _ :: r => wr w r
  | w, .fund _ :: r => wr w r

theorem chk_append (w : List Tx) (l l' : List Effect) : chk w (l ++ l') = (chk w l && chk (wr w l) l') := by
  induction l generalizing w with
  | nil => simp [chk, wr]
  | cons e l ih => cases e <;> simp [chk, wr, ih, Bool.and_assoc]

theorem wr_append (w : List Tx) (l l' : List Effect) : wr w (l ++ l') = wr (wr w l) l' := by
  induction l generalizing w with
  | nil => simp [wr]
  | cons e l ih => cases e <;> simp [wr, ih]

theorem mem_wr_of_mem {t : Tx} {w : List Tx} (l : List Effect) (h : t ∈ w) : t ∈ wr w l := by
  induction l generalizing w with
  | nil => exact h
  | cons e l ih => cases e <;> simp only [wr] <;> apply ih <;> simp [h]

/-- **I3**: the trace is publish-safe and the stored record's transaction has been written -/
structure Inv3 (s : AState) : Prop where
  ok : chk [] s.trace = true
  recW : ∀ a t, s.acct = some a → a.latestTx = some t → t ∈ wr [] s.trace

theorem Inv3.of_frame {s s' : AState} (i : Inv3 s) (h1 : s'.trace = s.trace) (h2 : s'.acct = s.acct) : Inv3 s' :=
  ⟨by rw [h1]; exact i.ok, fun a t ha ht => by rw [h1]; exact i.recW a t (h2 ▸ ha) ht⟩

theorem Inv3.write {s : AState} (i : Inv3 s) (a : Acct) : Inv3 (write s a) := by
  refine ⟨?_, ?_⟩
  · show chk [] (s.trace ++ [Effect.write a.stored]) = true
    rw [chk_append, i.ok]; rfl
  · intro b t hb ht
    have hb' : b = a.stored := by
      have : (Pool.C08.write s a).acct = some a.stored := rfl
      rw [this] at hb; exact (Option.some.inj hb).symm
    subst hb'
    show t ∈ wr [] (s.trace ++ [Effect.write a.stored])
    rw [wr_append]
    simp [wr, ht]

/-- after a write, the written record's own transaction is in the written set -/
theorem wrote_self (s : AState) (a : Acct) (t : Tx) (ht : a.stored.latestTx = some t) :
    t ∈ wr [] (write s a).trace := by
  show t ∈ wr [] (s.trace ++ [Effect.write a.stored])
  rw [wr_append]
  simp [wr, ht]

theorem Inv3.maybeBroadcast {s : AState} (i : Inv3 s) (t : Tx) (ht : t ∈ wr [] s.trace) :
    Inv3 (maybeBroadcast s t) := by
  unfold Pool.C08.maybeBroadcast
  split
  · refine ⟨?_, ?_⟩
    · show chk [] (s.trace ++ [Effect.publish t]) = true
      rw [chk_append, i.ok]
      simp [chk, ht]
    · intro a t' ha ht'
      show t' ∈ wr [] (s.trace ++ [Effect.publish t])
      rw [wr_append]
      simp only [wr]
      exact i.recW a t' ha ht'
  · exact i

theorem Inv3.setW {s : AState} (i : Inv3 s) (w : Watch) : Inv3 { s with w := w } := i.of_frame rfl rfl
theorem Inv3.setBest {s : AState} (i : Inv3 s) (b : Nat) : Inv3 { s with best := b } := i.of_frame rfl rfl
theorem Inv3.setWB {s : AState} (i : Inv3 s) (w : Watch) (b : Nat) : Inv3 { s with w := w, best := b } :=
  i.of_frame rfl rfl
theorem Inv3.regConf {s : AState} (i : Inv3 s) (x : Nat) (sc : Script) : Inv3 (regConf s x sc) := i.of_frame rfl rfl
theorem Inv3.regSpend {s : AState} (i : Inv3 s) (x : OutPoint) (sc : Script) : Inv3 (regSpend s x sc) :=
  i.of_frame rfl rfl
theorem Inv3.cancelConf {s : AState} (i : Inv3 s) : Inv3 (cancelConf s) := by
  unfold Pool.C08.cancelConf; split <;> first | exact i.of_frame rfl rfl | exact i
theorem Inv3.cancelSpend {s : AState} (i : Inv3 s) : Inv3 (cancelSpend s) := by
  unfold Pool.C08.cancelSpend; split <;> first | exact i.of_frame rfl rfl | exact i

theorem Inv3.handleExpiry {s : AState} (i : Inv3 s) : Inv3 (handleExpiry s) := by
  unfold Pool.C08.handleExpiry
  repeat' split
  all_goals first | exact i | exact i.write _

theorem Inv3.watchExpiration {s : AState} (i : Inv3 s) (e : Nat) : Inv3 (watchExpiration s e) := by
  unfold Pool.C08.watchExpiration
  split
  · exact Inv3.handleExpiry (i.of_frame rfl rfl)
  · exact i.of_frame rfl rfl

theorem Inv3.handleStateOpen {s : AState} (i : Inv3 s) (a : Acct) : Inv3 (handleStateOpen s a) := by
  unfold Pool.C08.handleStateOpen
  simp only []
  split <;> split <;>
    first
    | exact Inv3.watchExpiration (Inv3.regSpend i _ _) _
    | exact Inv3.regSpend i _ _
    | exact Inv3.watchExpiration i _
    | exact i

theorem Inv3.handleConf {s : AState} (i : Inv3 s) (h : Nat) : Inv3 (handleConf s h) := by
  unfold Pool.C08.handleConf
  repeat' split
  all_goals first | exact i | exact Inv3.handleStateOpen (i.write _) _

theorem Inv3.completeOnly {s : AState} (i : Inv3 s) : Inv3 (completeOnly s) := by
  unfold Pool.C08.completeOnly
  split
  · exact i
  · exact (i.write _).of_frame rfl rfl

theorem Inv3.watchers {s : AState} (i : Inv3 s) (a : Acct) (acts : List String) : Inv3 (watchers s a acts) := by
  unfold Pool.C08.watchers
  simp only []
  repeat' split
  all_goals
    repeat (first
      | assumption
      | apply Inv3.regSpend
      | apply Inv3.handleStateOpen
      | apply Inv3.regConf)

/-- only the clauses of `pendingOpen` (on restart) and `pendingClosed` rebroadcast -/
def rebroadcastTbl (st : State) : Bool :=
  match resumeActs st with
  | some acts => !(acts.contains "[onRestart]maybeBroadcastTx" || acts.contains "maybeBroadcastTx") ||
      (st == .pendingOpen || st == .pendingClosed)
  | none => true

theorem rebroadcast_states (st : State) : rebroadcastTbl st = true := by cases st <;> decide

def closedNoOnRestart : Bool :=
  match resumeActs .pendingClosed with
  | some acts => !acts.contains "[onRestart]maybeBroadcastTx"
  | none => true

theorem closed_no_onRestart : closedNoOnRestart = true := by decide

theorem Inv3.rebroadcast {s : AState} (i : Inv3 s) (a : Acct) (r : Bool) (acts : List String)
    (hacts : resumeActs a.state = some acts)
    (h1 : (a.state = .pendingOpen ∨ a.state = .pendingClosed) → ∀ t, a.latestTx = some t → t ∈ wr [] s.trace)
    (h2 : a.state = .pendingOpen → ∃ t, a.latestTx = some t ∧ t.id = a.outpoint.txid) :
    Inv3 (rebroadcast s a r acts).1 := by
  have htab := rebroadcast_states a.state
  simp only [rebroadcastTbl, hacts] at htab
  have hstOf : (acts.contains "[onRestart]maybeBroadcastTx" || acts.contains "maybeBroadcastTx") = true →
      a.state = .pendingOpen ∨ a.state = .pendingClosed := by
    intro hb
    simp only [hb, Bool.not_true, Bool.false_or, Bool.or_eq_true, beq_iff_eq] at htab
    exact htab
  unfold Pool.C08.rebroadcast
  split
  · rename_i hc
    have hc1 : acts.contains "[onRestart]maybeBroadcastTx" = true := by
      simp only [Bool.and_eq_true] at hc; exact hc.1
    have hst := hstOf (by rw [hc1]; rfl)
    by_cases hpo : a.state = .pendingOpen
    · obtain ⟨t, ht, hid⟩ := h2 hpo
      simp only [ht, hid, beq_self_eq_true, if_true]
      exact Inv3.maybeBroadcast i t (h1 hst t ht)
    · exfalso
      rcases hst with h | h
      · exact hpo h
      · have hx := closed_no_onRestart
        rw [h] at hacts
        simp only [closedNoOnRestart, hacts] at hx
        rw [hc1] at hx
        exact absurd hx (by decide)
  · split
    · rename_i hc
      have hst := hstOf (by rw [hc]; exact Bool.or_true _)
      split
      · rename_i t ht
        exact Inv3.maybeBroadcast i t (h1 hst t ht)
      · exact i
    · exact i


theorem Inv3.expiryRearm {s : AState} (i : Inv3 s) (a : Acct) (acts : List String) :
    Inv3 (expiryRearm s a acts) := by
  unfold Pool.C08.expiryRearm; split
  · exact Inv3.watchExpiration i _
  · exact i

theorem Inv3.resumeRest {s : AState} (i : Inv3 s) (a : Acct) (r : Bool)
    (h1 : (a.state = .pendingOpen ∨ a.state = .pendingClosed) → ∀ t, a.latestTx = some t → t ∈ wr [] s.trace)
    (h2 : a.state = .pendingOpen → ∃ t, a.latestTx = some t ∧ t.id = a.outpoint.txid) :
    Inv3 (resumeRest s a r).1 := by
  unfold Pool.C08.resumeRest
  split
  · exact i
  · rename_i acts hacts
    simp only []
    split
    · exact Inv3.expiryRearm (Inv3.watchers (Inv3.rebroadcast i a r acts hacts h1 h2) _ _) _ _
    · exact Inv3.rebroadcast i a r acts hacts h1 h2

theorem fundOrLocate_got3 {s s' : AState} {a : Acct} {r1 r2 fee : Bool} {f : Option (Nat × Nat)}
    {acts : List String} {t : Tx} (i : Inv3 s) (h : fundOrLocate s a r1 r2 fee f acts = .got s' t) : Inv3 s' := by
  unfold fundOrLocate at h
  simp only [] at h
  split at h
  · split at h
    · simp at h
    simp at h; rw [← h.1]; exact i
  · repeat' split at h
    all_goals (try (simp at h))
    obtain ⟨h1, _⟩ := h
    subst h1
    refine ⟨?_, ?_⟩
    · show chk [] (s.trace ++ [Effect.fund _]) = true
      rw [chk_append, i.ok]; rfl
    · intro b t' hb ht'
      show t' ∈ wr [] (s.trace ++ [Effect.fund _])
      rw [wr_append]; simp only [wr]
      exact i.recW b t' hb ht'

theorem live_pendingOpen : State.live .pendingOpen = true := rfl

theorem Inv3.resume {s : AState} (i : Inv3 s) (a : Acct) (r1 r2 fee : Bool) (f : Option (Nat × Nat))
    (h1 : (a.state = .pendingOpen ∨ a.state = .pendingClosed) → ∀ t, a.latestTx = some t → t ∈ wr [] s.trace)
    (h2 : a.state = .pendingOpen → ∃ t, a.latestTx = some t ∧ t.id = a.outpoint.txid) :
    Inv3 (resume s a r1 r2 fee f).1 := by
  unfold Pool.C08.resume
  split
  · split
    · exact i
    · split
      · exact i
      · exact i.write _
      · rename_i s' t hg
        have i' := fundOrLocate_got3 i hg
        split
        · exact i'
        · rename_i idx _
          simp only []
          split
          · apply Inv3.resumeRest (i'.write _)
            · intro _ t' ht'
              exact wrote_self _ _ _ (by simpa [Acct.stored] using ht')
            · intro _; exact ⟨t, rfl, rfl⟩
          · exact i'.write _
  · exact Inv3.resumeRest i a r1 h1 h2

/-- the side conditions of `Inv3.resume` for the stored record, from I3 itself and I1 -/
theorem stored_h1 {s : AState} (i : Inv3 s) {a : Acct} (ha : s.acct = some a) :
    (a.state = .pendingOpen ∨ a.state = .pendingClosed) → ∀ t, a.latestTx = some t → t ∈ wr [] s.trace :=
  fun _ t ht => i.recW a t ha ht

theorem stored_h2 {s : AState} (j : Inv1 s) {a : Acct} (ha : s.acct = some a) :
    a.state = .pendingOpen → ∃ t, a.latestTx = some t ∧ t.id = a.outpoint.txid := by
  intro hst
  obtain ⟨t, h1, h2, _⟩ := (j.acctOK a ha).1.1 (by rw [hst]; rfl)
  exact ⟨t, h1, h2⟩

theorem Inv3.modify {s : AState} (i : Inv3 s) (k : Kind) (m : ModArgs) : Inv3 (modify s k m).1 := by
  unfold Pool.C08.modify
  split
  · exact i
  · cases k <;> simp only [] <;> (repeat' split) <;> (try exact i)
    all_goals (
      first
      | (apply Inv3.watchExpiration; apply Inv3.maybeBroadcast (i.write _); exact wrote_self _ _ _ rfl)
      | (apply Inv3.maybeBroadcast (i.write _); exact wrote_self _ _ _ rfl))

theorem Inv3.close {s : AState} (i : Inv3 s) (h t : Nat) (ok sg : Bool) : Inv3 (close s h t ok sg).1 := by
  unfold Pool.C08.close
  repeat' split
  all_goals (simp only []; try exact i)
  apply Inv3.maybeBroadcast (i.write _); exact wrote_self _ _ _ rfl

theorem Inv3.bump {s : AState} (i : Inv3 s) : Inv3 (bump s).1 := by
  unfold Pool.C08.bump
  repeat' split
  all_goals exact i

theorem Inv3.stage {s : AState} (i : Inv3 s) (g : StageArgs) : Inv3 (stage s g).1 := by
  unfold Pool.C08.stage
  repeat' split
  all_goals first | exact i | exact i.of_frame rfl rfl

theorem Inv3.handleSpend {s : AState} (i : Inv3 s) (j : Inv1 s) (t : Tx) (h : Nat) :
    Inv3 (handleSpend s t h).1 := by
  unfold Pool.C08.handleSpend
  split
  · exact i
  · simp only []
    split
    · exact i.write _
    · split
      · have ic := Inv3.completeOnly i
        have jc := Inv1.completeOnly j
        split
        · exact ic
        · rename_i a' ha'
          split
          · exact Inv3.resume ic _ _ _ _ _ (stored_h1 ic ha') (stored_h2 jc ha')
          · exact ic.write _
      · exact i

theorem Inv3.initAccount {s : AState} (i : Inv3 s) (v e ver h : Nat) (f : Option (Nat × Nat)) :
    Inv3 (initAccount s v e ver h f).1 := by
  unfold Pool.C08.initAccount
  simp only []
  apply Inv3.resume (i.write _)
  · intro h; rcases h with h | h <;> simp at h
  · intro h; simp at h

theorem Inv3.watchMatched {s : AState} (i : Inv3 s) (j : Inv1 s) : Inv3 (watchMatched s).1 := by
  unfold Pool.C08.watchMatched
  split
  · exact i
  · rename_i a ha
    have i' := Inv3.cancelConf (Inv3.cancelSpend i)
    have j' := Inv1.cancelConf (Inv1.cancelSpend j)
    have ha' : (Pool.C08.cancelConf (Pool.C08.cancelSpend s)).acct = some a := by
      rw [(same_cancelConf _).2.1, (same_cancelSpend _).2.1]; exact ha
    exact Inv3.resume i' _ _ _ _ _ (stored_h1 i' ha') (stored_h2 j' ha')

theorem Inv3.step {s : AState} (i : Inv3 s) (j : Inv1 s) (op : Op) (hop : OpOK s.key op) :
    Inv3 (step s op).1 := by
  cases op with
  | init v e ver h f => exact Inv3.initAccount i _ _ _ _ _
  | modify k m => exact Inv3.modify i _ _
  | close h t ok sg => exact Inv3.close i _ _ _ _
  | bump => exact Inv3.bump i
  | conf pos h =>
    simp only [Pool.C08.step]
    split
    · exact i
    · apply Inv3.setW; apply Inv3.handleConf; exact Inv3.setW i _
  | confDirect h => exact Inv3.handleConf i _
  | spend pos k h =>
    simp only [Pool.C08.step]
    split
    · exact i
    · split
      · exact i
      · apply Inv3.setW; apply Inv3.handleSpend (Inv3.setW i _) (Inv1.setW j _)
  | consumeSpend pos =>
    simp only [Pool.C08.step]
    split
    · exact i
    · exact Inv3.setW i _
  | spendH t h =>
    simp only [Pool.C08.step]
    apply Inv3.setW; exact Inv3.handleSpend i j _ _
  | spendDirect k h =>
    simp only [Pool.C08.step]
    split
    · exact i
    · exact Inv3.handleSpend i j _ _
  | block h =>
    simp only [Pool.C08.step]
    split
    · split
      · apply Inv3.handleExpiry; exact Inv3.setWB i _ _
      · exact Inv3.setBest i _
    · exact Inv3.setBest i _
  | expiryDirect => exact Inv3.handleExpiry i
  | stage g => exact Inv3.stage i _
  | completeOnly => exact Inv3.completeOnly i
  | dropStage => exact i.of_frame rfl rfl
  | watchMatched => exact Inv3.watchMatched i j
  | restart feeOk f =>
    simp only [Pool.C08.step]
    have i0 : Inv3 { s with w := {}, best := 0 } := Inv3.setWB i _ _
    have j0 : Inv1 { s with w := {}, best := 0 } := Inv1.setWB j _ _
    split
    · exact i0
    · rename_i a ha
      exact Inv3.resume i0 _ _ _ _ _ (stored_h1 i0 ha) (stored_h2 j0 ha)
  | flush => exact Inv3.setW i _
  | recover a known =>
    simp only [Pool.C08.step]
    obtain ⟨hr, _, _⟩ := hop
    have i0 : Inv3 { s with wallet := known } := i.of_frame rfl rfl
    apply Inv3.resume (i0.write _)
    · intro hst t ht
      apply wrote_self
      have hst' : a.state = .pendingOpen ∨ a.state = .pendingClosed := hst
      unfold Acct.stored
      rcases hst' with h | h <;> simp [h] <;> exact ht
    · intro hst
      have hst' : a.state = .pendingOpen := hst
      obtain ⟨t, h1, h2, _⟩ := hr.1 (by rw [hst']; rfl)
      exact ⟨t, h1, h2⟩

end Pool.C08
