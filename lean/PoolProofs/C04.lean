import PoolProofs.C04LemmasScript

/-!
# C04 — account outputs need both signatures before expiry and only the trader's after

Headline theorems.  Scripts are the ones `Builder` produces from the *regenerated* call lists of
`poolscript.accountWitnessScript` / `TaprootExpiryScript`; the interpreter is the model of btcd's engine under
`StandardVerifyFlags`; signature verification is a parameter `sigOK` (ideal in `C04_wrong_params_invalid`).
-/
set_option linter.unusedSimpArgs false
namespace Pool.C04

/-- **Script numbers**: for every uint32 expiry the bytes `scriptNum.Bytes` produces decode back (minimal
encoding, 5-byte CLTV limit) to the same number, and their length is 0/1/2/3/4/5 exactly on the boundaries
128, 32768, 2^23, 2^31. -/
theorem scriptNum_roundtrip (n : Nat) (h : n < 2 ^ 32) :
    makeScriptNum (scriptNumBytes n) true cltvMaxScriptNumLen = .ok (n : Int) ∧
    (scriptNumBytes n).length =
      (if n = 0 then 0 else if n < 128 then 1 else if n < 32768 then 2 else if n < 8388608 then 3
       else if n < 2147483648 then 4 else 5) := by
  refine ⟨(numOK_scriptNum n h).dec, ?_⟩
  rw [scriptNumBytes_form n h]
  repeat' split
  all_goals first | omega | simp

example : scriptNumBytes 52560 = [0x50, 0xcd, 0x00] := by decide
example : scriptNumBytes 127 = [0x7f] ∧ scriptNumBytes 128 = [0x80, 0x00] ∧ scriptNumBytes 32767 = [0xff, 0x7f] ∧
    scriptNumBytes 32768 = [0x00, 0x80, 0x00] ∧ scriptNumBytes 8388607 = [0xff, 0xff, 0x7f] := by decide

/-- BIP-65 condition as a proposition: same lock-time type, expiry reached, input not final -/
def CLTV (lockTime sequence expiry : Nat) : Prop :=
  ((lockTime < LockTimeThreshold) ↔ (expiry < LockTimeThreshold)) ∧ expiry ≤ lockTime ∧
    sequence ≠ MaxTxInSequenceNum

theorem cltv_iff (lt sq e : Nat) : cltvSatisfied lt sq e = true ↔ CLTV lt sq e := by
  simp [cltvSatisfied, CLTV, Bool.and_eq_true, beq_iff_eq, decide_eq_decide, and_assoc]

/-- **p2wsh, exact outcome** of spending Pool's version-0 account output with the witness `stack ++ [script]`
(stack given bottom first, as in the witness): which error the engine reports, or success. -/
theorem C04_p2wsh_outcome (lt sq : Nat) (sigOK : Bytes → Bytes → Bool) (e : Nat) (tk ak : Bytes)
    (htk : tk.length = 33) (hak : ak.length = 33) (he : e < 2 ^ 32) (stack : List Bytes)
    (hsz : ∀ x ∈ stack, x.length ≤ MaxScriptElementSize) :
    verifyP2WSH (stdCtx false lt sq sigOK) (Sha256.sha256 (accountWitnessScript e tk ak))
        (stack ++ [accountWitnessScript e tk ak]) =
      match stack.reverse with
      | [] => .error .invalidStackOperation
      | [σt] =>
        if σt = [] then .error .checkSigVerify
        else if sigOK tk σt = false then .error .nullFail
        else .error .invalidStackOperation
      | σt :: σa :: rest =>
        if σt = [] then .error .checkSigVerify
        else if sigOK tk σt = false then .error .nullFail
        else if σa = [] then
          (if cltvSatisfied lt sq e then v0Final (scriptNumBytes e) rest else .error .unsatisfiedLockTime)
        else if sigOK ak σa = false then .error .nullFail
        else v0Final [1] rest := by
  have hlen : ¬ (accountWitnessScript e tk ak).length > MaxScriptSize := by
    rw [accountWitnessScript_eq e tk ak htk hak he]
    have := pushNumBytes_length e he
    simp [htk, hak, MaxScriptSize]
    split at this <;> (try split at this) <;> (try split at this) <;> (try split at this) <;> (try split at this) <;> omega
  have hany : (stack.reverse.any fun x => decide (x.length > MaxScriptElementSize)) = false := by
    simp only [List.any_eq_false, List.mem_reverse, decide_eq_true_eq]
    intro x hx; have := hsz x hx; omega
  have hrun := p2wsh_run lt sq sigOK e tk ak (scriptNumBytes e) (by omega) (by omega) (numOK_scriptNum e he)
    stack.reverse
  simp only [verifyP2WSH, List.reverse_append, List.reverse_cons, List.reverse_nil, List.nil_append,
    List.singleton_append, hlen, if_false, ne_eq, not_true_eq_false, parse_accountWitnessScript e tk ak htk hak he,
    hany, Bool.false_eq_true]
  exact hrun

/-- **C04, p2wsh.**  Pool's version-0 account output is spendable by the witness `stack ++ [script]` exactly
when the stack is `[σa, σt]` with a valid (non-empty) trader signature and either a valid auctioneer signature
(any lock time) or an *empty* auctioneer element together with BIP-65 satisfied for the expiry (and
`expiry ≠ 0`: the CLTV argument stays on the stack and must be truthy). -/
theorem C04_p2wsh_spendable_iff (lt sq : Nat) (sigOK : Bytes → Bytes → Bool) (e : Nat) (tk ak : Bytes)
    (htk : tk.length = 33) (hak : ak.length = 33) (he : e < 2 ^ 32) (stack : List Bytes)
    (hsz : ∀ x ∈ stack, x.length ≤ MaxScriptElementSize) :
    verifyP2WSH (stdCtx false lt sq sigOK) (Sha256.sha256 (accountWitnessScript e tk ak))
        (stack ++ [accountWitnessScript e tk ak]) = .ok () ↔
    ∃ σa σt, stack = [σa, σt] ∧ σt ≠ [] ∧ sigOK tk σt = true ∧
      ((σa ≠ [] ∧ sigOK ak σa = true) ∨ (σa = [] ∧ CLTV lt sq e ∧ e ≠ 0)) := by
  rw [C04_p2wsh_outcome lt sq sigOK e tk ak htk hak he stack hsz, ← cltv_iff]
  have hN := numOK_scriptNum e he
  constructor
  · intro h
    generalize hr : stack.reverse = r at h
    match r, hr, h with
    | [], _, h => simp at h
    | [σt], _, h =>
      by_cases a : σt = [] <;> by_cases b : sigOK tk σt = false <;> simp [a, b] at h
    | σt :: σa :: rest, hr, h =>
      have hs : stack = rest.reverse ++ [σa, σt] := by
        have := congrArg List.reverse hr; simpa using this
      simp only at h
      by_cases h1 : σt = []
      · simp [h1] at h
      by_cases h2 : sigOK tk σt = false
      · simp [h1, h2] at h
      simp only [h1, h2, if_false] at h
      have h2' : sigOK tk σt = true := by simpa using h2
      by_cases h3 : σa = []
      · simp only [h3, if_true] at h
        by_cases h4 : cltvSatisfied lt sq e = true
        · simp only [h4, if_true, v0Final, hN.truthy] at h
          by_cases h5 : rest = []
          · subst h5
            by_cases h6 : e = 0
            · simp [h6] at h
            · exact ⟨σa, σt, by simpa using hs, h1, h2', Or.inr ⟨h3, h4, h6⟩⟩
          · simp [h5] at h
        · simp [h4] at h
      · simp only [h3, if_false] at h
        by_cases h4 : sigOK ak σa = false
        · simp [h4] at h
        · simp only [h4, if_false, v0Final] at h
          by_cases h5 : rest = []
          · subst h5
            exact ⟨σa, σt, by simpa using hs, h1, h2', Or.inl ⟨h3, by simpa using h4⟩⟩
          · simp [h5] at h
  · rintro ⟨σa, σt, rfl, h1, h2, h3 | h3⟩
    · simp [h1, h2, h3.1, h3.2, v0Final, asBool_one]
    · simp [h1, h2, h3.1, h3.2.1, v0Final, hN.truthy, h3.2.2]

/-- error code of a verdict (`none` = accepted); only used to state concrete examples decidably -/
def code : Except Err Unit → Option Err
  | .ok _ => none
  | .error e => some e

def exTk : Bytes := List.replicate 33 2
def exAk : Bytes := List.replicate 33 3
/-- an ideal `sigOK` for the examples: the trader's signature is the byte `7`, the auctioneer's the byte `9` -/
def exOK : Bytes → Bytes → Bool := fun pk σ => (pk == exTk && σ == [7]) || (pk == exAk && σ == [9])

/-- non-vacuity: a joint spend and an expired trader-only spend are accepted; an early one, an
auctioneer-only one and expiry 0 are not -/
example :
    code (runScript (stdCtx false 0 0 exOK) (accountInstrs 52560 exTk exAk) [[7], [9]]) = none ∧
    code (runScript (stdCtx false 52560 0 exOK) (accountInstrs 52560 exTk exAk) [[7], []]) = none ∧
    code (runScript (stdCtx false 52559 0 exOK) (accountInstrs 52560 exTk exAk) [[7], []]) = some .unsatisfiedLockTime ∧
    code (runScript (stdCtx false 52560 0xffffffff exOK) (accountInstrs 52560 exTk exAk) [[7], []]) = some .unsatisfiedLockTime ∧
    code (runScript (stdCtx false 52560 0 exOK) (accountInstrs 52560 exTk exAk) [[], [9]]) = some .checkSigVerify ∧
    code (runScript (stdCtx false 5 0 exOK) (accountInstrs 0 exTk exAk) [[7], []]) = some .evalFalse := by
  decide

/-- **Trader-only spend with an earlier lock time is invalid** (error code included). -/
theorem C04_p2wsh_trader_only_early (lt sq : Nat) (sigOK : Bytes → Bytes → Bool) (e : Nat) (tk ak σt : Bytes)
    (htk : tk.length = 33) (hak : ak.length = 33) (he : e < 2 ^ 32) (hσ : σt.length ≤ MaxScriptElementSize)
    (hearly : lt < e) :
    verifyP2WSH (stdCtx false lt sq sigOK) (Sha256.sha256 (accountWitnessScript e tk ak))
        [[], σt, accountWitnessScript e tk ak] ≠ .ok () := by
  have := (C04_p2wsh_spendable_iff lt sq sigOK e tk ak htk hak he [[], σt]
    (by intro x hx; simp at hx; rcases hx with rfl | rfl <;> simp [MaxScriptElementSize] <;> exact hσ))
  intro h
  obtain ⟨σa, σt', hst, _, _, h3 | h3⟩ := this.mp (by simpa using h)
  · simp at hst; exact h3.1 hst.1
  · have := h3.2.1.2.1; omega

/-- **Auctioneer-only spend is invalid**: whatever the auctioneer puts in its slot, an empty (or otherwise
invalid) trader element never passes. -/
theorem C04_p2wsh_auctioneer_only (lt sq : Nat) (sigOK : Bytes → Bytes → Bool) (e : Nat) (tk ak σa σt : Bytes)
    (htk : tk.length = 33) (hak : ak.length = 33) (he : e < 2 ^ 32)
    (hσa : σa.length ≤ MaxScriptElementSize) (hσt : σt.length ≤ MaxScriptElementSize)
    (hno : σt = [] ∨ sigOK tk σt = false) :
    verifyP2WSH (stdCtx false lt sq sigOK) (Sha256.sha256 (accountWitnessScript e tk ak))
        [σa, σt, accountWitnessScript e tk ak] ≠ .ok () := by
  have := (C04_p2wsh_spendable_iff lt sq sigOK e tk ak htk hak he [σa, σt]
    (by intro x hx; simp at hx; rcases hx with rfl | rfl <;> assumption))
  intro h
  obtain ⟨σa', σt', hst, h1, h2, _⟩ := this.mp (by simpa using h)
  simp at hst
  obtain ⟨rfl, rfl⟩ := hst
  rcases hno with h | h
  · exact h1 h
  · rw [h] at h2; exact absurd h2 (by simp)

end Pool.C04
