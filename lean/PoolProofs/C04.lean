import PoolProofs.C04LemmasScript

/-!
# C04 — account outputs need both signatures before expiry and only the trader's after

Headline theorems.  Scripts are the ones `Builder` produces from the *regenerated* call lists of
`poolscript.accountWitnessScript` / `TaprootExpiryScript`; the interpreter is the model of btcd's engine under
`StandardVerifyFlags`; signature verification is a parameter `sigOK` (ideal in `C04_wrong_params_invalid`).
-/
set_option linter.unusedSimpArgs false
namespace Pool.C04

/-- **Script numbers**: for every uint32 expiry the bytes `scriptNum.Bytes` produces decode back (minimal
encoding, 5-byte CLTV limit) to the same number, and their length is 0/1/2/3/4/5 exactly on the boundaries
128, 32768, 2^23, 2^31. -/
theorem scriptNum_roundtrip (n : Nat) (h : n < 2 ^ 32) :
    makeScriptNum (scriptNumBytes n) true cltvMaxScriptNumLen = .ok (n : Int) ∧
    (scriptNumBytes n).length =
      (if n = 0 then 0 else if n < 128 then 1 else if n < 32768 then 2 else if n < 8388608 then 3
       else if n < 2147483648 then 4 else 5) := by
  refine ⟨(numOK_scriptNum n h).dec, ?_⟩
  rw [scriptNumBytes_form n h]
  repeat' split
  all_goals first | omega | simp

example : scriptNumBytes 52560 = [0x50, 0xcd, 0x00] := by decide
example : scriptNumBytes 127 = [0x7f] ∧ scriptNumBytes 128 = [0x80, 0x00] ∧ scriptNumBytes 32767 = [0xff, 0x7f] ∧
    scriptNumBytes 32768 = [0x00, 0x80, 0x00] ∧ scriptNumBytes 8388607 = [0xff, 0xff, 0x7f] := by decide

/-- BIP-65 condition as a proposition: same lock-time type, expiry reached, input not final -/
def CLTV (lockTime sequence expiry : Nat) : Prop :=
  ((lockTime < LockTimeThreshold) ↔ (expiry < LockTimeThreshold)) ∧ expiry ≤ lockTime ∧
    sequence ≠ MaxTxInSequenceNum

theorem cltv_iff (lt sq e : Nat) : cltvSatisfied lt sq e = true ↔ CLTV lt sq e := by
  simp [cltvSatisfied, CLTV, Bool.and_eq_true, beq_iff_eq, decide_eq_decide, and_assoc]

/-- **p2wsh, exact outcome** of spending Pool's version-0 account output with the witness `stack ++ [script]`
(stack given bottom first, as in the witness): which error the engine reports, or success. -/
theorem C04_p2wsh_outcome (lt sq : Nat) (sigOK : Bytes → Bytes → Bool) (e : Nat) (tk ak : Bytes)
    (htk : tk.length = 33) (hak : ak.length = 33) (he : e < 2 ^ 32) (stack : List Bytes)
    (hsz : ∀ x ∈ stack, x.length ≤ MaxScriptElementSize) :
    verifyP2WSH (stdCtx false lt sq sigOK) (Sha256.sha256 (accountWitnessScript e tk ak))
        (stack ++ [accountWitnessScript e tk ak]) =
      match stack.reverse with
      | [] => .error .invalidStackOperation
      | [σt] =>
        if σt = [] then .error .checkSigVerify
        else if sigOK tk σt = false then .error .nullFail
        else .error .invalidStackOperation
      | σt :: σa :: rest =>
        if σt = [] then .error .checkSigVerify
        else if sigOK tk σt = false then .error .nullFail
        else if σa = [] then
          (if cltvSatisfied lt sq e then v0Final (scriptNumBytes e) rest else .error .unsatisfiedLockTime)
        else if sigOK ak σa = false then .error .nullFail
        else v0Final [1] rest := by
  have hlen : ¬ (accountWitnessScript e tk ak).length > MaxScriptSize := by
    rw [accountWitnessScript_eq e tk ak htk hak he]
    have := pushNumBytes_length e he
    simp [htk, hak, MaxScriptSize]
    split at this <;> (try split at this) <;> (try split at this) <;> (try split at this) <;> (try split at this) <;> omega
  have hany : (stack.reverse.any fun x => decide (x.length > MaxScriptElementSize)) = false := by
    simp only [List.any_eq_false, List.mem_reverse, decide_eq_true_eq]
    intro x hx; have := hsz x hx; omega
  have hrun := p2wsh_run lt sq sigOK e tk ak (scriptNumBytes e) (by omega) (by omega) (numOK_scriptNum e he)
    stack.reverse
  simp only [verifyP2WSH, List.reverse_append, List.reverse_cons, List.reverse_nil, List.nil_append,
    List.singleton_append, hlen, if_false, ne_eq, not_true_eq_false, parse_accountWitnessScript e tk ak htk hak he,
    hany, Bool.false_eq_true]
  exact hrun

/-- **C04, p2wsh.**  Pool's version-0 account output is spendable by the witness `stack ++ [script]` exactly
when the stack is `[σa, σt]` with a valid (non-empty) trader signature and either a valid auctioneer signature
(any lock time) or an *empty* auctioneer element together with BIP-65 satisfied for the expiry (and
`expiry ≠ 0`: the CLTV argument stays on the stack and must be truthy). -/
theorem C04_p2wsh_spendable_iff (lt sq : Nat) (sigOK : Bytes → Bytes → Bool) (e : Nat) (tk ak : Bytes)
    (htk : tk.length = 33) (hak : ak.length = 33) (he : e < 2 ^ 32) (stack : List Bytes)
    (hsz : ∀ x ∈ stack, x.length ≤ MaxScriptElementSize) :
    verifyP2WSH (stdCtx false lt sq sigOK) (Sha256.sha256 (accountWitnessScript e tk ak))
        (stack ++ [accountWitnessScript e tk ak]) = .ok () ↔
    ∃ σa σt, stack = [σa, σt] ∧ σt ≠ [] ∧ sigOK tk σt = true ∧
      ((σa ≠ [] ∧ sigOK ak σa = true) ∨ (σa = [] ∧ CLTV lt sq e ∧ e ≠ 0)) := by
  rw [C04_p2wsh_outcome lt sq sigOK e tk ak htk hak he stack hsz, ← cltv_iff]
  have hN := numOK_scriptNum e he
  constructor
  · intro h
    generalize hr : stack.reverse = r at h
    match r, hr, h with
    | [], _, h => simp at h
    | [σt], _, h =>
      by_cases a : σt = [] <;> by_cases b : sigOK tk σt = false <;> simp [a, b] at h
    | σt :: σa :: rest, hr, h =>
      have hs : stack = rest.reverse ++ [σa, σt] := by
        have := congrArg List.reverse hr; simpa using this
      simp only at h
      by_cases h1 : σt = []
      · simp [h1] at h
      by_cases h2 : sigOK tk σt = false
      · simp [h1, h2] at h
      simp only [h1, h2, if_false] at h
      have h2' : sigOK tk σt = true := by simpa using h2
      by_cases h3 : σa = []
      · simp only [h3, if_true] at h
        by_cases h4 : cltvSatisfied lt sq e = true
        · simp only [h4, if_true, v0Final, hN.truthy] at h
          by_cases h5 : rest = []
          · subst h5
            by_cases h6 : e = 0
            · simp [h6] at h
            · exact ⟨σa, σt, by simpa using hs, h1, h2', Or.inr ⟨h3, h4, h6⟩⟩
          · simp [h5] at h
        · simp [h4] at h
      · simp only [h3, if_false] at h
        by_cases h4 : sigOK ak σa = false
        · simp [h4] at h
        · simp only [h4, if_false, v0Final] at h
          by_cases h5 : rest = []
          · subst h5
            exact ⟨σa, σt, by simpa using hs, h1, h2', Or.inl ⟨h3, by simpa using h4⟩⟩
          · simp [h5] at h
  · rintro ⟨σa, σt, rfl, h1, h2, h3 | h3⟩
    · simp [h1, h2, h3.1, h3.2, v0Final, asBool_one]
    · simp [h1, h2, h3.1, h3.2.1, v0Final, hN.truthy, h3.2.2]

/-- error code of a verdict (`none` = accepted); only used to state concrete examples decidably -/
def code : Except Err Unit → Option Err
  | .ok _ => none
  | .error e => some e

def exTk : Bytes := List.replicate 33 2
def exAk : Bytes := List.replicate 33 3
/-- an ideal `sigOK` for the examples: the trader's signature is the byte `7`, the auctioneer's the byte `9` -/
def exOK : Bytes → Bytes → Bool := fun pk σ => (pk == exTk && σ == [7]) || (pk == exAk && σ == [9])

/-- non-vacuity: a joint spend and an expired trader-only spend are accepted; an early one, an
auctioneer-only one and expiry 0 are not -/
example :
    code (runScript (stdCtx false 0 0 exOK) (accountInstrs 52560 exTk exAk) [[7], [9]]) = none ∧
    code (runScript (stdCtx false 52560 0 exOK) (accountInstrs 52560 exTk exAk) [[7], []]) = none ∧
    code (runScript (stdCtx false 52559 0 exOK) (accountInstrs 52560 exTk exAk) [[7], []]) = some .unsatisfiedLockTime ∧
    code (runScript (stdCtx false 52560 0xffffffff exOK) (accountInstrs 52560 exTk exAk) [[7], []]) = some .unsatisfiedLockTime ∧
    code (runScript (stdCtx false 52560 0 exOK) (accountInstrs 52560 exTk exAk) [[], [9]]) = some .checkSigVerify ∧
    code (runScript (stdCtx false 5 0 exOK) (accountInstrs 0 exTk exAk) [[7], []]) = some .evalFalse := by
  decide

/-- **Trader-only spend with an earlier lock time is invalid** (error code included). -/
theorem C04_p2wsh_trader_only_early (lt sq : Nat) (sigOK : Bytes → Bytes → Bool) (e : Nat) (tk ak σt : Bytes)
    (htk : tk.length = 33) (hak : ak.length = 33) (he : e < 2 ^ 32) (hσ : σt.length ≤ MaxScriptElementSize)
    (hearly : lt < e) :
    verifyP2WSH (stdCtx false lt sq sigOK) (Sha256.sha256 (accountWitnessScript e tk ak))
        [[], σt, accountWitnessScript e tk ak] ≠ .ok () := by
  have := (C04_p2wsh_spendable_iff lt sq sigOK e tk ak htk hak he [[], σt]
    (by intro x hx; simp at hx; rcases hx with rfl | rfl <;> simp [MaxScriptElementSize] <;> exact hσ))
  intro h
  obtain ⟨σa, σt', hst, _, _, h3 | h3⟩ := this.mp (by simpa using h)
  · simp at hst; exact h3.1 hst.1
  · have := h3.2.1.2.1; omega

/-- **Auctioneer-only spend is invalid**: whatever the auctioneer puts in its slot, an empty (or otherwise
invalid) trader element never passes. -/
theorem C04_p2wsh_auctioneer_only (lt sq : Nat) (sigOK : Bytes → Bytes → Bool) (e : Nat) (tk ak σa σt : Bytes)
    (htk : tk.length = 33) (hak : ak.length = 33) (he : e < 2 ^ 32)
    (hσa : σa.length ≤ MaxScriptElementSize) (hσt : σt.length ≤ MaxScriptElementSize)
    (hno : σt = [] ∨ sigOK tk σt = false) :
    verifyP2WSH (stdCtx false lt sq sigOK) (Sha256.sha256 (accountWitnessScript e tk ak))
        [σa, σt, accountWitnessScript e tk ak] ≠ .ok () := by
  have := (C04_p2wsh_spendable_iff lt sq sigOK e tk ak htk hak he [σa, σt]
    (by intro x hx; simp at hx; rcases hx with rfl | rfl <;> assumption))
  intro h
  obtain ⟨σa', σt', hst, h1, h2, _⟩ := this.mp (by simpa using h)
  simp at hst
  obtain ⟨rfl, rfl⟩ := hst
  rcases hno with h | h
  · exact h1 h
  · rw [h] at h2; exact absurd h2 (by simp)

/-! ## determineWitnessType and the lock time spendAccount sets -/

theorem determineWitnessType_spec (v st e best : Nat) :
    determineWitnessType v st e best =
      (if v = 1 ∨ v = 2 then (if st = Gen.C04.stateExpired ∨ e ≤ best then .expiryTaproot else .muSig2Taproot)
       else (if st = Gen.C04.stateExpired ∨ e ≤ best then .expiryWitness else .multiSigWitness)) := by
  have hv : v = 1 ∨ v = 2 ∨ (v ≠ 1 ∧ v ≠ 2) := by omega
  have hs : st = 4 ∨ st ≠ 4 := by omega
  have hr : best < e ∨ best = e ∨ e < best := by omega
  rcases hv with rfl | rfl | ⟨h1, h2⟩ <;> rcases hs with rfl | h4 <;> rcases hr with hr | hr | hr
  all_goals
    first
    | (have hle : ¬ e ≤ best := by omega
       have hne : ¬ best = e := by omega
       simp [determineWitnessType, Gen.C04.dwtVersionSpecial, Gen.C04.dwtVersionOther, Gen.C04.dwtStateSpecial,
         Gen.C04.dwtStateOther, Gen.C04.dwtTable, wtypeByName, Gen.C04.stateExpired, hr, hle, hne, *])
    | (have hle : e ≤ best := by omega
       have hlt : ¬ best < e := by omega
       have hne : ¬ best = e := by omega
       simp [determineWitnessType, Gen.C04.dwtVersionSpecial, Gen.C04.dwtVersionOther, Gen.C04.dwtStateSpecial,
         Gen.C04.dwtStateOther, Gen.C04.dwtTable, wtypeByName, Gen.C04.stateExpired, hle, hlt, hne, *])
    | (have hle : e ≤ best := by omega
       have hlt : ¬ best < e := by omega
       simp [determineWitnessType, Gen.C04.dwtVersionSpecial, Gen.C04.dwtVersionOther, Gen.C04.dwtStateSpecial,
         Gen.C04.dwtStateOther, Gen.C04.dwtTable, wtypeByName, Gen.C04.stateExpired, hr, hle, hlt, *])

/-- the decision table was obtained from code in which expiry and best height are only compared -/
theorem determineWitnessType_comparison_only : Gen.C04.dwtNoArith = true := by decide

/-- **C04, lock-time choice.**  With `wt = determineWitnessType(account, bestHeight)`:
* `wt` is an expiry type exactly when `State == StateExpired ∨ bestHeight ≥ expiry`;
* for an expiry type `spendAccount` (action CLOSE) sets `LockTime = bestHeight`, for a multisig type `0`;
  the account input created by `createSpendTx` has sequence 0;
* for heights below `LockTimeThreshold` that lock time satisfies the script's CLTV exactly when
  `bestHeight ≥ expiry`. -/
theorem C04_locktime_choice (v st e best : Nat) (hb : best < LockTimeThreshold) :
    let wt := determineWitnessType v st e best
    (wtypeIsExpiry wt = true ↔ (st = Gen.C04.stateExpired ∨ e ≤ best)) ∧
    (wtypeIsExpiry wt = true → spendLockTime wt true best = some best) ∧
    (wtypeIsExpiry wt = false → ∀ isClose, spendLockTime wt isClose best = some 0) ∧
    createSpendTxSequence = some 0 ∧
    (CLTV best 0 e ↔ e ≤ best) := by
  have hseq : createSpendTxSequence = some 0 := by decide
  have hcl : CLTV best 0 e ↔ e ≤ best := by
    simp only [CLTV, LockTimeThreshold, MaxTxInSequenceNum] at *
    constructor
    · intro h; exact h.2.1
    · intro h; exact ⟨⟨fun _ => by omega, fun _ => hb⟩, h, by decide⟩
  simp only [determineWitnessType_spec]
  refine ⟨?_, ?_, ?_, hseq, hcl⟩
  · by_cases hv : v = 1 ∨ v = 2 <;> by_cases hc : st = Gen.C04.stateExpired ∨ e ≤ best <;>
      simp [hv, hc, wtypeIsExpiry, Gen.C04.witnessTypeIsExpiryTable, wtypeByName, WType.name]
  · by_cases hv : v = 1 ∨ v = 2 <;> by_cases hc : st = Gen.C04.stateExpired ∨ e ≤ best <;>
      simp [hv, hc, wtypeIsExpiry, Gen.C04.witnessTypeIsExpiryTable, wtypeByName, spendLockTime,
        WType.name, Gen.C04.spendAccountLockTimeTable]
  · by_cases hv : v = 1 ∨ v = 2 <;> by_cases hc : st = Gen.C04.stateExpired ∨ e ≤ best <;>
      simp [hv, hc, wtypeIsExpiry, Gen.C04.witnessTypeIsExpiryTable, wtypeByName, spendLockTime,
        WType.name, Gen.C04.spendAccountLockTimeTable]

/-- **The stated corner**: an account marked `StateExpired` whose expiry is above the best height handed to
`determineWitnessType` takes the expiry path with `LockTime = bestHeight < expiry`, which the script rejects. -/
theorem C04_locktime_expired_state_corner (v e best : Nat) (hlt : best < e) :
    let wt := determineWitnessType v Gen.C04.stateExpired e best
    wtypeIsExpiry wt = true ∧ spendLockTime wt true best = some best ∧ ¬ CLTV best 0 e := by
  simp only [determineWitnessType_spec]
  refine ⟨?_, ?_, ?_⟩
  · by_cases hv : v = 1 ∨ v = 2 <;> simp [hv, wtypeIsExpiry, Gen.C04.witnessTypeIsExpiryTable, wtypeByName, WType.name]
  · by_cases hv : v = 1 ∨ v = 2 <;>
      simp [hv, wtypeIsExpiry, Gen.C04.witnessTypeIsExpiryTable, wtypeByName, spendLockTime,
        WType.name, Gen.C04.spendAccountLockTimeTable]
  · intro h; have := h.2.1; omega

example : determineWitnessType 1 3 100 100 = .expiryTaproot ∧ determineWitnessType 0 3 100 99 = .multiSigWitness ∧
    determineWitnessType 77 4 100 5 = .expiryWitness := by decide

/-- **RenewAccount always takes the cooperative path** (regenerated rule of `RenewAccount`): for every account
version, state, expiry and best height its witness type is not an expiry type, `spendAccount` accepts it for a
modification and sets lock time 0 – so a renewal needs the auctioneer's signature even after expiry; and for the
three valid account versions the taproot flavour is chosen exactly for the taproot script versions. -/
theorem C04_renew_cooperative (v best : Nat) :
    wtypeIsExpiry (renewWitnessType v) = false ∧
    spendLockTime (renewWitnessType v) false best = some 0 ∧
    (renewWitnessType v = .muSig2Taproot ↔ 1 ≤ v) ∧ (renewWitnessType v = .multiSigWitness ↔ v = 0) := by
  have hv : v = 0 ∨ v = 1 ∨ v = 2 ∨ 3 ≤ v := by omega
  rcases hv with rfl | rfl | rfl | h3
  · simp [renewWitnessType, Gen.C04.renewWitnessTypeTable, wtypeByName, wtypeIsExpiry,
      Gen.C04.witnessTypeIsExpiryTable, spendLockTime, WType.name, Gen.C04.spendAccountLockTimeTable]
  · simp [renewWitnessType, Gen.C04.renewWitnessTypeTable, wtypeByName, wtypeIsExpiry,
      Gen.C04.witnessTypeIsExpiryTable, spendLockTime, WType.name, Gen.C04.spendAccountLockTimeTable]
  · simp [renewWitnessType, Gen.C04.renewWitnessTypeTable, wtypeByName, wtypeIsExpiry,
      Gen.C04.witnessTypeIsExpiryTable, spendLockTime, WType.name, Gen.C04.spendAccountLockTimeTable]
  · have hm : min v 3 = 3 := by omega
    have h0 : v ≠ 0 := by omega
    have h1 : 1 ≤ v := by omega
    simp [renewWitnessType, Gen.C04.renewWitnessTypeTable, wtypeByName, wtypeIsExpiry, hm, h0, h1,
      Gen.C04.witnessTypeIsExpiryTable, spendLockTime, WType.name, Gen.C04.spendAccountLockTimeTable]

/-- which rule each account-spending manager method uses (regenerated): Close / Deposit / Withdraw follow
`determineWitnessType`, Renew its own cooperative rule; modifications (not CLOSE) on an expiry type are refused -/
theorem C04_manager_witness_types (v st e best : Nat) :
    managerWitnessType "CloseAccount" v st e best = some (determineWitnessType v st e best) ∧
    managerWitnessType "DepositAccount" v st e best = some (determineWitnessType v st e best) ∧
    managerWitnessType "WithdrawAccount" v st e best = some (determineWitnessType v st e best) ∧
    managerWitnessType "RenewAccount" v st e best = some (renewWitnessType v) ∧
    (wtypeIsExpiry (determineWitnessType v st e best) = true →
      spendLockTime (determineWitnessType v st e best) false best = none) := by
  refine ⟨by simp [managerWitnessType, lookupStr, Gen.C04.spendWitnessTypeSource],
    by simp [managerWitnessType, lookupStr, Gen.C04.spendWitnessTypeSource],
    by simp [managerWitnessType, lookupStr, Gen.C04.spendWitnessTypeSource],
    by simp [managerWitnessType, lookupStr, Gen.C04.spendWitnessTypeSource], ?_⟩
  simp only [determineWitnessType_spec]
  by_cases hv : v = 1 ∨ v = 2 <;> by_cases hc : st = Gen.C04.stateExpired ∨ e ≤ best <;>
    simp [hv, hc, wtypeIsExpiry, Gen.C04.witnessTypeIsExpiryTable, wtypeByName, spendLockTime,
      WType.name, Gen.C04.spendAccountLockTimeTable]

example : renewWitnessType 0 = .multiSigWitness ∧ renewWitnessType 2 = .muSig2Taproot ∧
    managerWitnessType "WithdrawAccount" 1 3 100 100 = some .expiryTaproot := by decide

/-! ## the record a batch leaves behind commits to the output the trader verified and signed -/

/-- **The stored record after a batch describes the re-created output** (regenerated: the statements of every
`account.Modifier`, the modifiers `batchStorer.StorePendingBatch` stages and their conditions, the in-place
updates of `batchVerifier.Verify` and their conditions).  For every account, every diff (new expiry below,
equal to or above the current one; any new version) and every combination of batch-version capabilities, the
record the storer stages has exactly the value, expiry, version and batch key of the output whose script the
verifier checked with `NextOutputScript` – so every witness Pool later builds from the stored record is for
the script that is on chain.  A modifier that does anything but assign its argument (e.g. a "monotonic"
`ExpiryModifier`) or a storer condition that differs from the verifier's breaks this proof. -/
theorem C04_stored_record_is_verified_output (d : DiffIn) (a : AcctRec) :
    storedAfterBatch d a = verifiedOutputParams d a ∧
    verifiedOutputParams d a = some
      { value := d.endingBalance
        expiry := if d.supportsExt && d.newExpiry != 0 then d.newExpiry else a.expiry
        version := if d.supportsUpg && decide (d.newVersion > a.version) then d.newVersion else a.version
        batchInc := a.batchInc + 1 } := by
  cases he : (d.supportsExt && d.newExpiry != 0) <;> cases hu : (d.supportsUpg && decide (d.newVersion > a.version)) <;>
    simp [storedAfterBatch, storedAfterBatchWith, Gen.C04.storerModifiers, diffCondHolds,
      applyModifier, Gen.C04.modifierBodies, applyStmts, applyModifierStmt, diffArg, verifiedOutputParams,
      verifiedWith, Gen.C04.verifierAccountUpdates, he, hu]

/-- non-vacuity: an expiry *lowered* by the auctioneer and a version upgrade are both persisted -/
example : storedAfterBatch ⟨true, true, 900, 400, 2⟩ ⟨1000, 500, 1, 7⟩ = some ⟨900, 400, 2, 8⟩ ∧
    storedAfterBatch ⟨false, false, 900, 400, 2⟩ ⟨1000, 500, 1, 7⟩ = some ⟨900, 500, 1, 8⟩ := by
  constructor <;>
    rw [(C04_stored_record_is_verified_output _ _).1, (C04_stored_record_is_verified_output _ _).2] <;> simp

/-! ## classification by the spend handler -/

/-- **C04, classification.**  Every witness Pool builds is classified by `manager.HandleAccountSpend`'s switch
(regenerated case order) as the path it takes: `SpendMultiSig` / `SpendMuSig2Taproot` as cooperative,
`SpendExpiry` / `SpendExpiryTaproot` as expiry.  Hypotheses: the auctioneer signature is non-empty, the
MuSig2 signature has 64 bytes, the trader's Schnorr signature is non-empty, the control block is
`0xc0|0xc1 ‖ 32 bytes`, and (taproot expiry only) `expiry < 2^23`. -/
theorem C04_classification_agrees (e : Nat) (tk ak tkx σt σa σ key : Bytes) (v : UInt8)
    (htk : tk.length = 33) (hak : ak.length = 33) (hx : tkx.length = 32) (he : e < 2 ^ 32)
    (hσa : σa ≠ []) (hσ : σ.length = 64) (hσt : σt ≠ []) (hkey : key.length = 32)
    (hv : v.toNat = 0xc0 ∨ v.toNat = 0xc1) :
    (spendMultiSig (accountWitnessScript e tk ak) σt σa).map classify = some .multisig ∧
    (spendExpiry (accountWitnessScript e tk ak) σt).map classify = some .expiry ∧
    (spendMuSig2Taproot σ).map classify = some .multisig ∧
    (e < 2 ^ 23 → (spendExpiryTaproot (taprootExpiryScript e tkx) σt (v :: key)).map classify = some .expiry) := by
  have hS := accountWitnessScript_eq e tk ak htk hak he
  have hT := taprootExpiryScript_eq e tkx hx he
  have hTl := taprootExpiryScript_length e tkx hx he
  have hL := pushNumBytes_length e he
  refine ⟨?_, ?_, ?_, ?_⟩
  · cases σa with
    | nil => exact absurd rfl hσa
    | cons a as =>
      simp [spendMultiSig, witnessFromLayout, Gen.C04.spendMultiSigLayout, classify, classifyWith,
        Gen.C04.handleAccountSpendCases, classifierByName, isExpirySpend, isTaprootExpirySpend, hasAnnex, hS,
        isMultiSigSpend, casePath]
      intro _ _ _
      cases List.head? σt <;> cases List.getLast? σt <;> simp
  · simp [spendExpiry, witnessFromLayout, Gen.C04.spendExpiryLayout, classify, classifyWith,
      Gen.C04.handleAccountSpendCases, classifierByName, isExpirySpend, casePath]
  · simp [spendMuSig2Taproot, witnessFromLayout, Gen.C04.spendMuSig2TaprootLayout, classify, classifyWith,
      Gen.C04.handleAccountSpendCases, classifierByName, isExpirySpend, isTaprootExpirySpend, hasAnnex,
      isMultiSigSpend, isTaprootMultiSigSpend, casePath, hσ]
  · intro h23
    have hne : taprootExpiryScript e tkx ≠ [] := by rw [hT]; simp
    have hhead : (taprootExpiryScript e tkx).head? = some 0x20 := by rw [hT]; simp
    have hlast : (taprootExpiryScript e tkx).getLast? = some 0xb1 := by rw [hT, List.getLast?_append]; simp
    have hlen : 36 ≤ (taprootExpiryScript e tkx).length ∧ (taprootExpiryScript e tkx).length ≤ 39 := by
      rw [hTl, hL]; repeat' split
      all_goals omega
    cases σt with
    | nil => exact absurd rfl hσt
    | cons t ts =>
      have hv1 : v.toNat ≠ 0x50 := by rcases hv with h | h <;> omega
      simp [spendExpiryTaproot, witnessFromLayout, Gen.C04.spendExpiryTaprootLayout, classify, classifyWith,
        Gen.C04.handleAccountSpendCases, classifierByName, isExpirySpend, isTaprootExpirySpend, hasAnnex,
        casePath, hv1, hkey, hhead, hlast, Gen.C04.taprootExpiryMinScriptLen, Gen.C04.TaprootExpiryScriptSize]
      intro hcon
      exfalso
      have := hcon (decide_eq_false (by have := hlen.1; omega)) hlen.2
      rcases hv with h | h
      · exact this.1 h
      · exact this.2 h

/-- **Why the bound `expiry < 2^23` is needed**: from `2^23` on the script number takes 4 bytes, the leaf script
40 bytes (> `TaprootExpiryScriptSize`), `IsTaprootExpirySpend` is false and the handler's second case
(`IsMultiSigSpend`: three elements, first non-empty) classifies the trader-only spend as cooperative.
(Outside the property's quantifier; heights ≥ 8 388 608.) -/
theorem C04_classification_boundary (e : Nat) (tkx σt key : Bytes) (v : UInt8)
    (hx : tkx.length = 32) (he : e < 2 ^ 32) (h23 : 2 ^ 23 ≤ e) (hσt : σt ≠ []) (hkey : key.length = 32)
    (hv : v.toNat = 0xc0 ∨ v.toNat = 0xc1) :
    (spendExpiryTaproot (taprootExpiryScript e tkx) σt (v :: key)).map classify = some .multisig := by
  have hTl := taprootExpiryScript_length e tkx hx he
  have hL := pushNumBytes_length e he
  have hlen : 39 < (taprootExpiryScript e tkx).length := by
    rw [hTl, hL]; repeat' split
    all_goals omega
  cases σt with
  | nil => exact absurd rfl hσt
  | cons t ts =>
    have hv1 : v.toNat ≠ 0x50 := by rcases hv with h | h <;> omega
    have hgt : ¬ (taprootExpiryScript e tkx).length ≤ 39 := by omega
    simp [spendExpiryTaproot, witnessFromLayout, Gen.C04.spendExpiryTaprootLayout, classify, classifyWith,
      Gen.C04.handleAccountSpendCases, classifierByName, isExpirySpend, isTaprootExpirySpend, hasAnnex,
      casePath, hv1, hkey, Gen.C04.taprootExpiryMinScriptLen, Gen.C04.TaprootExpiryScriptSize, hgt, isMultiSigSpend]

/-- **Size constants** (regenerated) are what Pool's fee estimation and `IsTaprootExpirySpend` rely on: the
p2wsh script fits `AccountWitnessScriptSize` for every expiry below 2^31, the taproot leaf lies within
`[minScriptLen, TaprootExpiryScriptSize]` for every expiry below 2^23 and has exactly the maximal size for
3-byte expiries (heights 32768 … 8388607). -/
theorem C04_script_sizes (e : Nat) (tk ak tkx : Bytes) (htk : tk.length = 33) (hak : ak.length = 33)
    (hx : tkx.length = 32) :
    (e < 2 ^ 31 → (accountWitnessScript e tk ak).length ≤ Gen.C04.AccountWitnessScriptSize) ∧
    (e < 2 ^ 23 → Gen.C04.taprootExpiryMinScriptLen ≤ (taprootExpiryScript e tkx).length ∧
      (taprootExpiryScript e tkx).length ≤ Gen.C04.TaprootExpiryScriptSize) ∧
    (2 ^ 15 ≤ e → e < 2 ^ 23 → (taprootExpiryScript e tkx).length = Gen.C04.TaprootExpiryScriptSize) := by
  refine ⟨?_, ?_, ?_⟩
  · intro h
    have he : e < 2 ^ 32 := by omega
    rw [accountWitnessScript_eq e tk ak htk hak he]
    have hL := pushNumBytes_length e he
    simp only [List.length_append, List.length_cons, List.length_nil, htk, hak, Gen.C04.AccountWitnessScriptSize]
    split at hL <;> (try split at hL) <;> (try split at hL) <;> (try split at hL) <;> (try split at hL) <;> omega
  · intro h
    have he : e < 2 ^ 32 := by omega
    rw [taprootExpiryScript_length e tkx hx he]
    have hL := pushNumBytes_length e he
    simp only [Gen.C04.taprootExpiryMinScriptLen, Gen.C04.TaprootExpiryScriptSize]
    split at hL <;> (try split at hL) <;> (try split at hL) <;> (try split at hL) <;> (try split at hL) <;> omega
  · intro h1 h2
    have he : e < 2 ^ 32 := by omega
    rw [taprootExpiryScript_length e tkx hx he]
    have hL := pushNumBytes_length e he
    simp only [Gen.C04.TaprootExpiryScriptSize]
    split at hL <;> (try split at hL) <;> (try split at hL) <;> (try split at hL) <;> (try split at hL) <;> omega

/-! ## signatures made for other parameters -/

theorem accountWitnessScript_inj (e e' : Nat) (tk ak tk' ak' : Bytes)
    (htk : tk.length = 33) (hak : ak.length = 33) (htk' : tk'.length = 33) (hak' : ak'.length = 33)
    (he : e < 2 ^ 32) (he' : e' < 2 ^ 32)
    (h : accountWitnessScript e tk ak = accountWitnessScript e' tk' ak') : e = e' ∧ tk = tk' ∧ ak = ak' := by
  have p := parse_accountWitnessScript e tk ak htk hak he
  rw [h, parse_accountWitnessScript e' tk' ak' htk' hak' he'] at p
  simp only [accountInstrs, Option.some.injEq, List.cons.injEq, Instr.push.injEq, and_true, true_and] at p
  obtain ⟨h1, h2, h3⟩ := p
  have d := (numOK_scriptNum e he).dec
  rw [← h3, (numOK_scriptNum e' he').dec] at d
  simp only [Except.ok.injEq, Int.natCast_inj] at d
  exact ⟨d.symm, h1.symm, h2.symm⟩

/-- the version-0 account script as a function of the property's parameters: `tweakT batchKey secret` is the
tweaked trader key (for the fixed base key), `tweakA` derives the tweaked auctioneer key from it -/
def acctScript (tweakT : Bytes → Bytes → Bytes) (tweakA : Bytes → Bytes) (b s : Bytes) (e : Nat) : Bytes :=
  accountWitnessScript e (tweakT b s) (tweakA (tweakT b s))

/-- **C04, signatures for another batch key, secret or expiry are invalid** (ideal signatures, p2wsh).
`sign pk msg` is the signature of `msg` under `pk`, verification is `σ = sign pk msg`; `sighash` is the BIP-143
digest of the fixed spending transaction as a function of the committed script.  The cryptographic assumptions
are stated *at the two parameter sets in question* (no collision of the key-tweak hash, of the sighash and of
signatures between them) – a global injectivity of functions into 33/32-byte strings would be unsatisfiable.
Then a trader signature made for `(batchKey', secret', expiry') ≠ (batchKey, secret, expiry)` does not verify in
the real output's script, and no witness carrying it in the trader slot spends the output. -/
theorem C04_wrong_params_invalid
    (sign : Bytes → Bytes → Bytes) (sighash : Bytes → Bytes) (tweakT : Bytes → Bytes → Bytes)
    (tweakA : Bytes → Bytes) (b s b' s' : Bytes) (e e' : Nat) (he : e < 2 ^ 32) (he' : e' < 2 ^ 32)
    (htl : (tweakT b s).length = 33) (htl' : (tweakT b' s').length = 33)
    (hal : (tweakA (tweakT b s)).length = 33) (hal' : (tweakA (tweakT b' s')).length = 33)
    (htw : tweakT b' s' = tweakT b s → b' = b ∧ s' = s)
    (hsh : sighash (acctScript tweakT tweakA b' s' e') = sighash (acctScript tweakT tweakA b s e) →
      acctScript tweakT tweakA b' s' e' = acctScript tweakT tweakA b s e)
    (hsign : sign (tweakT b' s') (sighash (acctScript tweakT tweakA b' s' e')) =
        sign (tweakT b s) (sighash (acctScript tweakT tweakA b s e)) →
      tweakT b' s' = tweakT b s ∧
        sighash (acctScript tweakT tweakA b' s' e') = sighash (acctScript tweakT tweakA b s e))
    (hne : ¬ (b' = b ∧ s' = s ∧ e' = e)) (lt sq : Nat) (σa : Bytes) (hσa : σa.length ≤ MaxScriptElementSize)
    (hσl : (sign (tweakT b' s') (sighash (acctScript tweakT tweakA b' s' e'))).length ≤ MaxScriptElementSize) :
    let S := acctScript tweakT tweakA b s e
    let σ' := sign (tweakT b' s') (sighash (acctScript tweakT tweakA b' s' e'))
    let idealOK : Bytes → Bytes → Bool := fun pk σ => decide (σ = sign pk (sighash S))
    idealOK (tweakT b s) σ' = false ∧
    verifyP2WSH (stdCtx false lt sq idealOK) (Sha256.sha256 S) [σa, σ', S] ≠ .ok () := by
  intro S σ' idealOK
  have hbad : idealOK (tweakT b s) σ' = false := by
    simp only [idealOK, decide_eq_false_iff_not]
    intro heq
    obtain ⟨hk, hm⟩ := hsign heq
    obtain ⟨hb, hs⟩ := htw hk
    have hS := hsh hm
    have := accountWitnessScript_inj e' e _ _ _ _ htl' hal' htl hal he' he hS
    exact hne ⟨hb, hs, this.1⟩
  refine ⟨hbad, ?_⟩
  exact C04_p2wsh_auctioneer_only lt sq idealOK e (tweakT b s) (tweakA (tweakT b s)) σa σ' htl hal he hσa hσl
    (Or.inr hbad)

/-- toy instances used to show that the hypotheses of `C04_wrong_params_invalid` are jointly satisfiable -/
def exTweakT : Bytes → Bytes → Bytes := fun b s => List.replicate 33 (b.headD 0 + s.headD 0)
def exTweakA : Bytes → Bytes := fun t => List.replicate 33 (t.headD 0 + 1)
def exSign : Bytes → Bytes → Bytes := fun pk m => pk ++ m

/-- non-vacuity: foreign expiry (same keys), with concatenation as `sign` and the identity as `sighash` -/
example :
    verifyP2WSH (stdCtx false 60000 0 (fun pk σ => decide (σ = exSign pk (acctScript exTweakT exTweakA [1] [2] 52560))))
      (Sha256.sha256 (acctScript exTweakT exTweakA [1] [2] 52560))
      [[], exSign (exTweakT [1] [2]) (acctScript exTweakT exTweakA [1] [2] 52561),
        acctScript exTweakT exTweakA [1] [2] 52560] ≠ .ok () :=
  (C04_wrong_params_invalid exSign id exTweakT exTweakA [1] [2] [1] [2] 52560 52561 (by decide) (by decide)
    (by decide) (by decide) (by decide) (by decide) (fun _ => ⟨rfl, rfl⟩) (fun h => h)
    (fun h => ⟨rfl, List.append_cancel_left h⟩) (by decide) 60000 0 [] (by decide) (by decide)).2

/-- non-vacuity: foreign batch key -/
example :
    verifyP2WSH (stdCtx false 60000 0 (fun pk σ => decide (σ = exSign pk (acctScript exTweakT exTweakA [1] [2] 52560))))
      (Sha256.sha256 (acctScript exTweakT exTweakA [1] [2] 52560))
      [[], exSign (exTweakT [3] [2]) (acctScript exTweakT exTweakA [3] [2] 52560),
        acctScript exTweakT exTweakA [1] [2] 52560] ≠ .ok () :=
  (C04_wrong_params_invalid exSign id exTweakT exTweakA [1] [2] [3] [2] 52560 52560 (by decide) (by decide)
    (by decide) (by decide) (by decide) (by decide) (fun h => absurd h (by decide)) (fun h => h)
    (fun h => absurd (congrArg (fun l => l.headD 0) h) (by decide)) (by decide) 60000 0 [] (by decide)
    (by decide)).2

/-! ## taproot -/

theorem schnorrSigLenOK_ne_nil (σ : Bytes) (h : schnorrSigLenOK σ = true) : σ ≠ [] := by
  intro hn; subst hn; simp [schnorrSigLenOK] at h

/-- **C04, taproot (versions 1 and 2).**  `program` is the output key Pool put into the pkScript.  The EC parts
are ideal: `env.keySpendOK program σ` = "σ is a valid BIP-340 signature of the spending transaction under the
output key" (producible only by trader and auctioneer together through MuSig2), and the commitment check
accepts only what the output key commits to – Pool's expiry leaf with a 33-byte base-version control block
(`hcommit`).  Then (no annex) the output is spendable exactly by the key path with such a signature, or by
the script path `[σt, leaf, controlBlock]` with a valid trader signature and BIP-65 satisfied for the expiry
(and `expiry ≠ 0`). -/
theorem C04_taproot_core_iff (lt sq : Nat) (sigOK : Bytes → Bytes → Bool) (env : TapEnv) (e : Nat)
    (tkx program : Bytes) (hx : tkx.length = 32) (he : e < 2 ^ 32) (witness : List Bytes)
    (hsz : ∀ x ∈ witness, x.length ≤ MaxScriptElementSize)
    (hcommit : ∀ cb s, env.commitOK cb program s = true →
      s = taprootExpiryScript e tkx ∧ cb.length = 33 ∧ ∃ v rest, cb = v :: rest ∧ v.toNat / 2 * 2 = 0xc0) :
    verifyTaprootCore (stdCtx true lt sq sigOK) env program witness = .ok () ↔
      (∃ σ, witness = [σ] ∧ schnorrSigLenOK σ = true ∧ env.keySpendOK program σ = true) ∨
      (∃ σt cb, witness = [σt, taprootExpiryScript e tkx, cb] ∧
        env.commitOK cb program (taprootExpiryScript e tkx) = true ∧
        schnorrSigLenOK σt = true ∧ sigOK tkx σt = true ∧ CLTV lt sq e ∧ e ≠ 0) := by
  have hN := numOK_scriptNum e he
  rw [← cltv_iff]
  generalize hr : witness.reverse = r
  have hw : witness = r.reverse := by rw [← hr]; simp
  subst hw
  simp only [verifyTaprootCore]
  match r, hr with
  | [], _ => simp
  | [sig], _ =>
    simp only [List.reverse_cons, List.reverse_nil, List.nil_append, List.length_singleton,
      List.reverse_singleton]
    by_cases hl : schnorrSigLenOK sig = true <;> by_cases hk : env.keySpendOK program sig = true <;>
      simp [hl, hk]
  | cb :: script :: revStack, _ =>
    have hrev : (cb :: script :: revStack).reverse.reverse = cb :: script :: revStack := by simp
    simp only [hrev]
    by_cases hc : env.commitOK cb program script = true
    · obtain ⟨hs, hcl, v, rest, hcb, hver⟩ := hcommit cb script hc
      subst hs
      subst hcb
      have hany : (revStack.any fun x => decide (x.length > MaxScriptElementSize)) = false := by
        simp only [List.any_eq_false, decide_eq_true_eq]
        intro x hx'
        have := hsz x (by simp only [List.mem_reverse, List.mem_cons]; right; right; exact hx')
        omega
      have hrun : runScript (stdCtx true lt sq sigOK) (taprootInstrs e tkx) revStack = _ :=
        tap_run lt sq sigOK e tkx (scriptNumBytes e) hx hN revStack
      have hctx : ({ stdCtx true lt sq sigOK with tapscript := true } : Ctx) = stdCtx true lt sq sigOK := rfl
      have hcl' : rest.length = 32 := by simpa using hcl
      have hchk : (decide ((v :: rest).length < 33) || decide (((v :: rest).length - 33) % 32 ≠ 0) ||
          decide ((v :: rest).length > 33 + 32 * 128)) = false := by
        simp [hcl']
      have hverb : (v.toNat / 2 * 2 ≠ 0xc0) = False := by simp [hver]
      simp only [hchk, hc, parse_taprootExpiryScript e tkx hx he, hverb, hany, hctx, hrun, if_false,
        Bool.false_eq_true, Bool.not_true]
      constructor
      · intro h
        right
        match revStack, h with
        | [], h => simp at h
        | σt :: more, h =>
          simp only at h
          by_cases h1 : σt = []
          · simp [h1] at h
          by_cases h2 : schnorrSigLenOK σt = false
          · simp [h1, h2] at h
          by_cases h3 : sigOK tkx σt = false
          · simp [h1, h2, h3] at h
          by_cases h4 : cltvSatisfied lt sq e = true
          · simp only [h1, h2, h3, h4, if_false, if_true, tapFinal, hN.truthy] at h
            by_cases h5 : more = []
            · subst h5
              by_cases h6 : e = 0
              · simp [h6] at h
              · exact ⟨σt, v :: rest, by simp, hc, by simpa using h2, by simpa using h3, h4, h6⟩
            · simp [h5] at h
          · simp [h1, h2, h3, h4] at h
      · rintro (⟨σ, hσ, _⟩ | ⟨σt, cb', hw, _, h2, h3, h4, h5⟩)
        · have := congrArg List.length hσ; simp at this
        · have hw' : (v :: rest) :: taprootExpiryScript e tkx :: revStack =
              [cb', taprootExpiryScript e tkx, σt] := by
            have := congrArg List.reverse hw; simpa using this
          have hrs : revStack = [σt] := by
            injection hw' with _ h
            injection h
          subst hrs
          simp [schnorrSigLenOK_ne_nil σt h2, h2, h3, h4, tapFinal, hN.truthy, h5]
    · have hcf : env.commitOK cb program script = false := by simpa using hc
      constructor
      · intro h
        exfalso
        revert h
        simp only [hcf, Bool.not_false, if_true]
        split <;> simp
      · rintro (⟨σ, hσ, _⟩ | ⟨σt, cb', hw, hc', _⟩)
        · have := congrArg List.length hσ; simp at this
        · have hw' : cb :: script :: revStack = [cb', taprootExpiryScript e tkx, σt] := by
            have := congrArg List.reverse hw; simpa using this
          injection hw' with h1 h
          injection h with h2 _
          subst h1; subst h2
          exact absurd hc' hc

/-- **C04, taproot, annex included.**  `verifyWitnessProgram` snips a BIP-341 annex (last of ≥ 2 elements,
first byte 0x50) off the witness before it decides between key path and script path; the characterisation
therefore holds for *every* witness, about the witness without its annex.  (The annex is committed to by the
sighash; that dependency is inside the ideal `sigOK` / `keySpendOK`.) -/
theorem C04_taproot_spendable_iff_annex (lt sq : Nat) (sigOK : Bytes → Bytes → Bool) (env : TapEnv) (e : Nat)
    (tkx program : Bytes) (hx : tkx.length = 32) (he : e < 2 ^ 32) (witness : List Bytes)
    (hsz : ∀ x ∈ witness, x.length ≤ MaxScriptElementSize)
    (hcommit : ∀ cb s, env.commitOK cb program s = true →
      s = taprootExpiryScript e tkx ∧ cb.length = 33 ∧ ∃ v rest, cb = v :: rest ∧ v.toNat / 2 * 2 = 0xc0) :
    verifyTaproot (stdCtx true lt sq sigOK) env program witness = .ok () ↔
      (∃ σ, stripAnnex witness = [σ] ∧ schnorrSigLenOK σ = true ∧ env.keySpendOK program σ = true) ∨
      (∃ σt cb, stripAnnex witness = [σt, taprootExpiryScript e tkx, cb] ∧
        env.commitOK cb program (taprootExpiryScript e tkx) = true ∧
        schnorrSigLenOK σt = true ∧ sigOK tkx σt = true ∧ CLTV lt sq e ∧ e ≠ 0) := by
  have hsz' : ∀ x ∈ stripAnnex witness, x.length ≤ MaxScriptElementSize := by
    intro x hx'
    unfold stripAnnex at hx'
    split at hx'
    · exact hsz x (List.dropLast_subset _ hx')
    · exact hsz x hx'
  by_cases hl : witness.length = 0
  · have hw : witness = [] := List.length_eq_zero_iff.mp hl
    subst hw
    simp [verifyTaproot, stripAnnex, hasAnnex]
  · simp only [verifyTaproot, hl, if_false]
    exact C04_taproot_core_iff lt sq sigOK env e tkx program hx he (stripAnnex witness) hsz' hcommit

/-- the annex-free special case (all witnesses Pool builds) -/
theorem C04_taproot_spendable_iff (lt sq : Nat) (sigOK : Bytes → Bytes → Bool) (env : TapEnv) (e : Nat)
    (tkx program : Bytes) (hx : tkx.length = 32) (he : e < 2 ^ 32) (witness : List Bytes)
    (hna : hasAnnex witness = false) (hsz : ∀ x ∈ witness, x.length ≤ MaxScriptElementSize)
    (hcommit : ∀ cb s, env.commitOK cb program s = true →
      s = taprootExpiryScript e tkx ∧ cb.length = 33 ∧ ∃ v rest, cb = v :: rest ∧ v.toNat / 2 * 2 = 0xc0) :
    verifyTaproot (stdCtx true lt sq sigOK) env program witness = .ok () ↔
      (∃ σ, witness = [σ] ∧ schnorrSigLenOK σ = true ∧ env.keySpendOK program σ = true) ∨
      (∃ σt cb, witness = [σt, taprootExpiryScript e tkx, cb] ∧
        env.commitOK cb program (taprootExpiryScript e tkx) = true ∧
        schnorrSigLenOK σt = true ∧ sigOK tkx σt = true ∧ CLTV lt sq e ∧ e ≠ 0) := by
  have := C04_taproot_spendable_iff_annex lt sq sigOK env e tkx program hx he witness hsz hcommit
  simpa [stripAnnex, hna] using this

/-- non-vacuity: an annexed script-path witness is accepted like the annex-free one -/
example : stripAnnex [[7], [1, 2], [0xc0, 5], [0x50, 1]] = [[7], [1, 2], [0xc0, 5]] ∧
    stripAnnex [[0x50, 1]] = [[0x50, 1]] := by decide

theorem taprootExpiryScript_inj (e e' : Nat) (tkx tkx' : Bytes) (hx : tkx.length = 32) (hx' : tkx'.length = 32)
    (he : e < 2 ^ 32) (he' : e' < 2 ^ 32) (h : taprootExpiryScript e tkx = taprootExpiryScript e' tkx') :
    e = e' ∧ tkx = tkx' := by
  have p := parse_taprootExpiryScript e tkx hx he
  rw [h, parse_taprootExpiryScript e' tkx' hx' he'] at p
  simp only [taprootInstrs, Option.some.injEq, List.cons.injEq, Instr.push.injEq, and_true, true_and] at p
  obtain ⟨h1, h3⟩ := p
  have d := (numOK_scriptNum e he).dec
  rw [← h3, (numOK_scriptNum e' he').dec] at d
  simp only [Except.ok.injEq, Int.natCast_inj] at d
  exact ⟨d.symm, h1.symm⟩

/-- the taproot expiry leaf as a function of the property's parameters (`tweakX` = x-only tweaked trader key) -/
def tapLeaf (tweakX : Bytes → Bytes → Bytes) (b s : Bytes) (e : Nat) : Bytes :=
  taprootExpiryScript e (tweakX b s)

/-- **C04, signatures for another batch key, secret or expiry are invalid – taproot.**
`outKey leaf` is the output key (MuSig2 aggregate of the two base keys tweaked with the leaf hash); the key-path
message `keyMsg` and the tapscript digest `sighash leaf` belong to the fixed spending transaction.  Assumptions
again only at the two parameter sets: no collision of the trader-key tweak, of the taproot commitment
(`outKey`), of the sighash and of signatures.  Then neither the MuSig2 signature made for the other parameters
(key path) nor the trader's Schnorr signature made for them (script path, with the real leaf and any committed
control block) spends the real output. -/
theorem C04_wrong_params_invalid_taproot
    (sign : Bytes → Bytes → Bytes) (sighash : Bytes → Bytes) (tweakX : Bytes → Bytes → Bytes)
    (outKey : Bytes → Bytes) (keyMsg : Bytes)
    (b s b' s' : Bytes) (e e' : Nat) (he : e < 2 ^ 32) (he' : e' < 2 ^ 32)
    (hxl : (tweakX b s).length = 32) (hxl' : (tweakX b' s').length = 32)
    (htw : tweakX b' s' = tweakX b s → b' = b ∧ s' = s)
    (hout : outKey (tapLeaf tweakX b' s' e') = outKey (tapLeaf tweakX b s e) →
      tapLeaf tweakX b' s' e' = tapLeaf tweakX b s e)
    (hsh : sighash (tapLeaf tweakX b' s' e') = sighash (tapLeaf tweakX b s e) →
      tapLeaf tweakX b' s' e' = tapLeaf tweakX b s e)
    (hsignK : sign (outKey (tapLeaf tweakX b' s' e')) keyMsg = sign (outKey (tapLeaf tweakX b s e)) keyMsg →
      outKey (tapLeaf tweakX b' s' e') = outKey (tapLeaf tweakX b s e))
    (hsignS : sign (tweakX b' s') (sighash (tapLeaf tweakX b' s' e')) =
        sign (tweakX b s) (sighash (tapLeaf tweakX b s e)) →
      tweakX b' s' = tweakX b s ∧ sighash (tapLeaf tweakX b' s' e') = sighash (tapLeaf tweakX b s e))
    (hne : ¬ (b' = b ∧ s' = s ∧ e' = e)) (lt sq : Nat) (commitOK : Bytes → Bytes → Bytes → Bool)
    (hcommit : ∀ cb sc, commitOK cb (outKey (tapLeaf tweakX b s e)) sc = true →
      sc = tapLeaf tweakX b s e ∧ cb.length = 33 ∧ ∃ v rest, cb = v :: rest ∧ v.toNat / 2 * 2 = 0xc0) :
    let L := tapLeaf tweakX b s e
    let L' := tapLeaf tweakX b' s' e'
    let env : TapEnv := { keySpendOK := fun pk σ => decide (σ = sign pk keyMsg), commitOK := commitOK }
    let ctx := stdCtx true lt sq (fun pk σ => decide (σ = sign pk (sighash L)))
    ((sign (outKey L') keyMsg).length ≤ MaxScriptElementSize →
      verifyTaproot ctx env (outKey L) [sign (outKey L') keyMsg] ≠ .ok ()) ∧
    (∀ cb, hasAnnex [sign (tweakX b' s') (sighash L'), L, cb] = false →
      (∀ x ∈ [sign (tweakX b' s') (sighash L'), L, cb], x.length ≤ MaxScriptElementSize) →
      verifyTaproot ctx env (outKey L) [sign (tweakX b' s') (sighash L'), L, cb] ≠ .ok ()) := by
  intro L L' env ctx
  have hLne : L' ≠ L := by
    intro h
    have := taprootExpiryScript_inj e' e _ _ hxl' hxl he' he h
    exact hne ⟨(htw this.2).1, (htw this.2).2, this.1⟩
  constructor
  · intro hlen hok
    have hiff := C04_taproot_spendable_iff lt sq (fun pk σ => decide (σ = sign pk (sighash L))) env e
      (tweakX b s) (outKey L) hxl he [sign (outKey L') keyMsg] (by simp [hasAnnex])
      (by intro x hx; simp at hx; subst hx; exact hlen) hcommit
    rcases hiff.mp hok with ⟨σ, hσ, _, hk⟩ | ⟨σt, cb, hw, _⟩
    · simp only [List.cons.injEq, and_true] at hσ
      subst hσ
      simp only [env, decide_eq_true_eq] at hk
      exact hLne (hout (hsignK hk))
    · have := congrArg List.length hw; simp at this
  · intro cb hna hsz hok
    have hiff := C04_taproot_spendable_iff lt sq (fun pk σ => decide (σ = sign pk (sighash L))) env e
      (tweakX b s) (outKey L) hxl he [sign (tweakX b' s') (sighash L'), L, cb] hna hsz hcommit
    rcases hiff.mp hok with ⟨σ, hσ, _⟩ | ⟨σt, cb', hw, _, _, hs, _⟩
    · have := congrArg List.length hσ; simp at this
    · simp only [List.cons.injEq, and_true, true_and] at hw
      obtain ⟨hσt, _⟩ := hw
      subst hσt
      simp only [decide_eq_true_eq] at hs
      exact hLne (hsh (hsignS hs).2)

def exTweakX : Bytes → Bytes → Bytes := fun b s => List.replicate 32 (b.headD 0 + s.headD 0)
def exCommit : Bytes → Bytes → Bytes → Bool := fun cb prog sc => sc == prog && cb == (0xc0 :: List.replicate 32 0)

/-- non-vacuity of `C04_wrong_params_invalid_taproot`: all hypotheses hold for toy instances (concatenation as
`sign`, identities as `sighash`/`outKey`); foreign expiry on both paths -/
example :
    verifyTaproot (stdCtx true 60000 0 (fun pk σ => decide (σ = exSign pk (tapLeaf exTweakX [1] [2] 52560))))
      { keySpendOK := fun pk σ => decide (σ = exSign pk [9]), commitOK := exCommit }
      (tapLeaf exTweakX [1] [2] 52560) [exSign (tapLeaf exTweakX [1] [2] 52561) [9]] ≠ .ok () :=
  (C04_wrong_params_invalid_taproot exSign id exTweakX id [9] [1] [2] [1] [2] 52560 52561 (by decide) (by decide)
    (by decide) (by decide) (fun _ => ⟨rfl, rfl⟩) (fun h => h) (fun h => h)
    (fun h => List.append_cancel_right h) (fun h => ⟨rfl, List.append_cancel_left h⟩) (by decide) 60000 0 exCommit
    (by
      intro cb sc h
      simp only [exCommit, Bool.and_eq_true, beq_iff_eq] at h
      obtain ⟨h1, h2⟩ := h
      subst h1; subst h2
      exact ⟨rfl, by decide, 0xc0, List.replicate 32 0, rfl, by decide⟩)).1 (by decide)

def exTkx : Bytes := List.replicate 32 5
def exSig : Bytes := List.replicate 64 7
def exOKx : Bytes → Bytes → Bool := fun pk σ => pk == exTkx && σ == exSig

/-- non-vacuity (taproot leaf): accepted at/after expiry, rejected before, with an empty or a foreign signature -/
example :
    code (runScript (stdCtx true 52560 0 exOKx) (taprootInstrs 52560 exTkx) [exSig]) = none ∧
    code (runScript (stdCtx true 52559 0 exOKx) (taprootInstrs 52560 exTkx) [exSig]) = some .unsatisfiedLockTime ∧
    code (runScript (stdCtx true 52560 0 exOKx) (taprootInstrs 52560 exTkx) [[]]) = some .checkSigVerify ∧
    code (runScript (stdCtx true 52560 0 exOKx) (taprootInstrs 52560 exTkx) [List.replicate 64 8]) = some .nullFail := by
  decide

/-- non-vacuity (classification, lock time): concrete Pool-built witnesses -/
example :
    (spendExpiryTaproot (taprootExpiryScript 52560 exTkx) exSig (0xc0 :: exTkx)).map classify = some .expiry ∧
    (spendExpiryTaproot (taprootExpiryScript 8388608 exTkx) exSig (0xc0 :: exTkx)).map classify = some .multisig ∧
    (spendMultiSig (accountWitnessScript 52560 exTk exAk) [7] [9]).map classify = some .multisig ∧
    (spendExpiry (accountWitnessScript 52560 exTk exAk) [7]).map classify = some .expiry ∧
    (spendMuSig2Taproot exSig).map classify = some .multisig := by
  decide

end Pool.C04
