import PoolModel.C04

/-! # C04 — headline theorems (being filled in) -/
namespace Pool.C04

theorem C04_placeholder : scriptNumBytes 0 = [] := by decide

end Pool.C04
